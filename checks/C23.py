"""C23 RTP re-packetization is size-bounded and lossless — spec/stream/RtpPack.tla (contract level)"""
import vf

LEVEL = "model_checking"
LEVEL_TEXT = ("RtpPack.tla states the contract of the packets the server generates for a unit (payload <= M, consecutive sequence "
              "numbers, timestamp = unit timestamp + one offset fixed per format, depacketized payload = delivered payload); TLC "
              "enumerates codec x entry branch (non-RTP publisher, forced remux, oversized incoming packets) x M in {200,1440,1460} (thorough: seven values from 100 to 1460) "
              "x sequences of payload-size classes around M; every run is executed on a real Stream/SubStream through "
              "subStreamFormat.writeUnitInner / newRTPEncoder, the packets are depacketized with newRTPDecoder and TLC judges "
              "the observed packets, per unit and over everything the format emits while re-packetization is active (RTP publishers: "
              "frames arriving in several oversized or small fragments, packets that yield no payload) and over the whole life of a "
              "format on a persistent (always-available) Stream that goes through offline filler / publisher / offline / RTP "
              "publisher sub-streams (one offset and one sequence-number run across the phase switches)")
LEVEL_NOTE = ("contract of the packets only (packetization bytes are gortsplib's); 12 codecs (not MJPEG, MPEG-1 audio/video, "
              "MPEG-4 audio LATM, FLAC); for sample-based audio and audio units with several frames the timestamp formula covers "
              "the first packet of the unit only (later packets must advance by RTP's rules); AC-3 sizes are the table sizes "
              "closest to the class; element counts and sizes stay within what the depacketizer accepts (10 OBUs, 21 NAL units, "
              "access units <= 5120 bytes)")


def run(ctx):
    d = ctx.specdir()
    r = vf.mc(ctx, "RtpPack", ctx.pick("RtpPack_gen.cfg", "RtpPack_genfull.cfg"), workers=2, timeout=600)
    cases = []
    for c in r.tagged("CASE"):
        c["id"] = len(cases)
        cases.append(c)
    if len(cases) < 500:
        raise vf.Infra("generator produced only %d runs" % len(cases))
    ctx.set("exhaustive", True)
    cf = vf.write_ndjson(ctx.path("cases.ndjson"), cases)
    # persistent streams: one always-available Stream through offline / publisher phases
    pcases = []
    for c in r.tagged("PCASE"):
        if not ctx.thorough and c["m"] == 1440:
            continue
        c["id"] = len(cases) + len(pcases)
        pcases.append(c)
    if len(pcases) < 16:
        raise vf.Infra("generator produced only %d persistent-stream runs" % len(pcases))
    pcf = vf.write_ndjson(ctx.path("pcases.ndjson"), pcases)
    of = d + "/C23_trace.ndjson"
    o1, o2 = ctx.path("runs.ndjson"), ctx.path("persist.ndjson")
    vf.gotest_ok(ctx, "./internal/stream/", "^TestVerif_C23_(Runs|Persist)$", cases=cf, out=o1, timeout=1200,
                 params={"PCASES": pcf, "POUT": o2})
    recs = vf.read_ndjson(o1)
    precs = vf.read_ndjson(o2)
    if len(recs) != len(cases) or len(precs) != len(pcases):
        raise vf.Infra("harness executed %d of %d runs, %d of %d persistent-stream runs"
                       % (len(recs), len(cases), len(precs), len(pcases)))
    for x in precs:
        phases_seen = {e["unit"] for e in x["emits"] if e["pkts"]}
        if len(phases_seen) < len(x["phases"]):
            raise vf.Infra("persistent-stream run %d (%s): packets observed only in phases %s of %s"
                           % (x["id"], x["codec"], sorted(phases_seen), x["phases"]))
    recs = recs + precs
    vf.write_ndjson(of, recs)
    gen = sum(1 for x in recs for u in x["units"] if u["generated"])
    errs = [(x, u) for x in recs for u in x["units"] if u["err"]]
    if gen < 1000:
        raise vf.Infra("only %d units were packetized by the server" % gen)
    tv = vf.tlc(ctx, "TraceRtpPack", "TraceRtpPack.cfg", workers=1, timeout=1800, java_opts=["-Xmx8g"])
    seen = set()
    for bad in tv.tagged("BAD"):
        rec = recs[bad["l"] - 1]
        k = bad["unit"]
        persist = rec["branch"] == "persist"
        u = rec["units"][k - 1] if (k >= 1 and not persist) else None
        cls = u["class"] if u else ("phase %d: %s" % (k, rec["phases"][k - 1]) if (persist and k >= 1) else "run")
        key = (bad["monitor"], rec["codec"], rec["branch"], rec["m"], cls)
        if key in seen:
            continue
        seen.add(key)
        record = {"monitor": bad["monitor"], "codec": rec["codec"], "branch": rec["branch"], "m": rec["m"], "class": cls}
        if bad["scope"] == "unit":
            ctx.violation(record,
                          "%s fails for %s (%s, maximum payload %d): unit of class %s (element sizes %s, pts %s) -> packets %s; "
                          "delivered payload %s, depacketized %s"
                          % (bad["monitor"], rec["codec"], rec["branch"], rec["m"], u["class"], u["sizes"][:5], u["pts"],
                             [(p["len"], p["seq"], p["tsoff"]) for p in u["pkts"]][:6], u["psig"][:4], u["dsig"][:4]))
        else:
            classes = rec["phases"] if persist else [(x["class"], x.get("inPkts", 0)) for x in rec["units"]]
            if persist:     # show the emissions around the first one that breaks the formula
                act = [e for e in rec["emits"] if e["active"]]
                first = next((i for i, e in enumerate(act) if e["unit"] == k), 0)
                rec = dict(rec, emits=act[max(0, first - 3):first + 6])
            em = [(e["unit"], "nil payload" if e["nilp"] else "payload", [(p["len"], p["seq"], p["tsoff"]) for p in e["pkts"]][:4])
                  for e in rec["emits"] if e["active"]]
            ctx.violation(record,
                          "%s fails over everything emitted while re-packetization is active for %s (%s, maximum payload %d): "
                          "frames (class, incoming packets) / phases %s; emissions (frame or phase, payload, packets as (length, sequence number, timestamp - unit timestamp)) "
                          "%s; delivered elements %s, depacketized as one stream %s, depacketizer errors %s"
                          % (bad["monitor"], rec["codec"], rec["branch"], rec["m"], classes, em[:12],
                             [x["len"] for x in rec["pel"]][:12], [x["len"] for x in rec["del"]][:12], rec["derrs2"][:3]))
    drift = tv.tagged("DRIFT")
    ctx.set("runs", len(cases))
    ctx.set("units_packetized_by_server", gen)
    ctx.set("units_passed_through", sum(1 for x in recs for u in x["units"] if not u["generated"] and not u["err"]))
    ctx.set("units_rejected", len(errs))
    ctx.set("packets_judged", sum(len(u["pkts"]) for x in recs for u in x["units"]))
    ctx.set("traces_validated_against_impl", len(recs))
    ctx.set("drift_events", len(drift))
    why = {}
    for x, u in errs:
        why.setdefault((x["codec"], u.get("msg", "")[:80]), 0)
        why[(x["codec"], u.get("msg", "")[:80])] += 1
    for (codec, msg), n in sorted(why.items())[:8]:
        ctx.note("%d %s unit(s) rejected (no packets generated): %s" % (n, codec, msg))
    if drift:
        ctx.note("%d runs where a call without payload emitted packets while re-packetization was active (DRIFT from the "
                 "code-shaped expectation, not a verdict)" % len(drift))
    frag = sum(1 for x in recs if x["branch"] != "nonrtp" for u in x["units"] if u.get("inPkts", 0) >= 2)
    silent = sum(1 for x in recs for e in x["emits"] if e["active"] and e["nilp"])
    if frag < 100 or silent < 100:
        raise vf.Infra("only %d fragmented incoming frames / %d payload-less calls under re-packetization" % (frag, silent))
    ctx.set("incoming_frames_in_several_packets", frag)
    ctx.set("calls_without_payload_while_repacketizing", silent)
    ctx.set("emissions_judged", sum(1 for x in recs for e in x["emits"] if e["active"]))
    ctx.set("persistent_stream_runs", len(precs))
    ctx.set("persistent_stream_emissions", sum(len(x["emits"]) for x in precs))
    mid = recs[len(recs) // 2]
    ctx.sample({"run": {k: mid[k] for k in ("codec", "branch", "m")},
                "unit": {k: mid["units"][0][k] for k in ("class", "sizes", "generated", "pkts")}})
    ctx.assume("payloads are synthetic (valid element headers, patterned bodies); the depacketizer is the one of internal/stream "
               "(gortsplib decoders), trusted to return what the packets carry")
