"""C33 MoQ reorderer delivers groups in order with bounded buffering — spec/moq/Reorderer.tla"""
import vf

LEVEL = "model_checking"
LEVEL_TEXT = ("Reorderer.tla transcribes Push/flushUpTo; TLC checks the statement's five monitors on every push sequence "
              "of the bounded model for four limit settings; every such sequence is replayed on the real Reorderer and "
              "TLC re-evaluates the monitors on what the real object returned and holds back; long random runs likewise")
LEVEL_NOTE = ("bounded: ids 1..6, sizes {1,3}, sequences <= 5 (thorough: 6); random runs sample the rest; 'held back' is read "
              "from the real object's pending map (in-package)")

CFG = """SPECIFICATION Spec
CONSTANTS
  Ids = {%s}
  Sizes = {1,3}
  MaxReordered = %d
  MaxPendingBytes = %d
  MaxPushes = %d
INVARIANTS InOrder Received Once Immediate BoundedHold CounterExact PendingAhead CurIsLast
INVARIANT EmitRuns
CHECK_DEADLOCK FALSE
"""


def run(ctx):
    d = ctx.specdir()
    runs = []
    nids, npush = ctx.pick((5, 4), (6, 5))
    limits = ctx.pick([(2, 5), (1, 3)], [(1, 3), (1, 5), (2, 3), (2, 5), (3, 7)])
    for (mr, mb) in limits:
        cfg = "Reorderer_gen_%d_%d.cfg" % (mr, mb)
        with open(d + "/" + cfg, "w") as fh:
            fh.write(CFG % (",".join(str(i) for i in range(1, nids + 1)), mr, mb, npush))
        r = vf.mc(ctx, "Reorderer", cfg, workers=vf.NCPU, timeout=1200)
        for x in r.tagged("RUN"):
            runs.append({"run": len(runs), "mr": mr, "mb": mb, "pushes": x["pushes"]})
    if len(runs) < 1000:
        raise vf.Infra("generator produced only %d runs" % len(runs))
    ctx.set("exhaustive", True)
    cf = vf.write_ndjson(ctx.path("cases.ndjson"), runs)
    o1 = ctx.path("replay.ndjson")
    o2 = ctx.path("random.ndjson")
    pkg = "./internal/protocols/moq/reorderer/"
    vf.gotest_ok(ctx, pkg, "^TestVerif_C33_Replay$", cases=cf, out=o1)
    vf.gotest_ok(ctx, pkg, "^TestVerif_C33_Trace$", out=o2, params={"RUNS": ctx.pick(400, 6000)})
    recs = vf.read_ndjson(o1) + vf.read_ndjson(o2)
    if len(recs) < len(runs):
        raise vf.Infra("harness replayed %d of %d runs" % (len(recs), len(runs)))
    # trace validation in chunks (one JVM per chunk, several at a time)
    drift = 0
    for off, tv in vf.tlc_trace_chunks(ctx, "TraceReorderer", "TraceReorderer.cfg", "C33_trace.ndjson", recs,
                                       chunk=40000, par=ctx.pick(4, 8)):
        for bad in tv.tagged("BAD"):
            rec = recs[off + bad["l"] - 1]
            ctx.violation({"monitor": bad["monitor"], "mr": rec["mr"], "mb": rec["mb"], "pushes": rec["pushes"]},
                          "monitor %s fails on the real Reorderer (MaxReordered=%d MaxPendingBytes=%d) for pushes %s: outs=%s held=%s heldBytes=%s"
                          % (bad["monitor"], rec["mr"], rec["mb"], rec["pushes"], rec["outs"], rec["held"], rec["heldBytes"]))
        drift += len(tv.tagged("DRIFT"))
    ctx.set("traces_validated_against_impl", len(recs))
    ctx.set("runs_from_tlc", len(runs))
    ctx.set("runs_random", len(recs) - len(runs))
    ctx.set("drift_events", drift)
    if drift:
        ctx.note("%d runs of the real code are not behaviours of layer 1 (DRIFT, not a verdict)" % drift)
    ctx.sample(recs[len(runs) // 3])
    ctx.sample(recs[-1])
