"""C18 Reader limits hold and readers are torn down when the stream goes away — spec/core/Path.tla"""
import pathcheck

LEVEL = "model_checking"
LEVEL_TEXT = ("Path.tla transcribes the path event loop; TLC checks ReaderLimit / NoDoubleCount / TeardownOnUnavailable on "
              "every behaviour of the bounded model; edge-covering walks are replayed on the real pathManager+path and TLC "
              "evaluates the monitors on the observed events and on the API's reader list after every step")
LEVEL_NOTE = "maxReaders in {0,1,2}, 2 readers, 2 publishers, static on-demand source; sequential requests"


def run(ctx):
    pathcheck.run(ctx, "C18_", ctx.pick(["pub_override", "sod"],
                                        ["pub_override", "pub_nooverride", "sod", "static", "rx_odpub"]), ["MonC18"])
