"""C12 API configuration edits are exact and atomic — spec/conf/ApiEdits.tla"""
import json, os
import vf, walk

LEVEL = "model_checking"
LEVEL_TEXT = ("ApiEdits.tla is the decision function the statement describes (patch / add / replace / delete over a store of "
              "global parameters, path defaults and optional path records, with invalid payloads); TLC explores the bounded store "
              "and lib/walk.py covers every labelled edit of its state graph; each walk is sent to the real HTTP Control API of a "
              "real Core, the whole configuration is read back through the API after every edit, and TLC compares statuses, the "
              "modelled parameters and digests of all other parameters with the function")
LEVEL_NOTE = ("2 path names, 2 global, 2 default and 2 path parameters with 2 values each, three kinds of invalid payload; all "
              "other parameters are only checked for being unchanged")


def run(ctx):
    d = ctx.specdir()
    body = 'CONSTANTS\n  Names = {"p1", "p2"}\n  MaxSteps = %d\n'

    def cfg(name, spec, rest, steps):
        with open(os.path.join(d, name), "w") as fh:
            fh.write("SPECIFICATION %s\n" % spec + body % steps + rest + "\nCHECK_DEADLOCK FALSE\n")
        return name
    vf.mc(ctx, "ApiEdits", cfg("ApiEdits_mc.cfg", "Spec", "INVARIANT TypeOK\nPROPERTY Atomic", 3), workers=4, timeout=900)
    dot = ctx.path("g.dot")
    vf.tlc(ctx, "ApiEdits", cfg("ApiEdits_gen.cfg", "Spec", "VIEW GenView", 99), workers=1, timeout=900,
           extra=["-dump", "dot,actionlabels", dot])
    g = walk.load(dot)
    os.remove(dot)
    ws, cov, tot = walk.edge_cover(g, maxlen=ctx.pick(40, 60), seed=ctx.seed, limit=ctx.pick(110, 800))
    runs = []
    # every sequence of 3 (thorough 4) edits over the edits that touch the one field living both in the defaults
    # and in a path (a value pinned to what it inherits, then the default moves ...): ApiEditsSeq.tla
    with open(os.path.join(d, "ApiEditsSeq.cfg"), "w") as fh:
        fh.write('SPECIFICATION FSpec\nCONSTANTS\n  Names = {"p1", "p2"}\n  MaxSteps = %d\n  FocusName = "p1"\n'
                 'INVARIANT EmitRuns\nCHECK_DEADLOCK FALSE\n' % ctx.pick(3, 4))
    rs = vf.mc(ctx, "ApiEditsSeq", "ApiEditsSeq.cfg", workers=4, timeout=900)
    for x in rs.tagged("RUN"):
        runs.append({"run": len(runs), "src": "seq", "ops": x["ops"]})
    if len(runs) < 1000:
        raise vf.Infra("ApiEditsSeq produced only %d sequences" % len(runs))
    ctx.set("focused_sequences", len(runs))
    for w in ws:
        ops = []
        for lab, _ in w:
            kind, args = walk.parse_label(lab)
            if kind != "Do" or len(args) != 1:
                raise vf.Infra("unexpected edge label " + lab[:80])
            ops.append(args[0])   # [kind, name, pl]
        runs.append({"run": len(runs), "src": "walk", "ops": ops})
    ctx.set("edges_covered", cov)
    ctx.set("edges_total", tot)
    cases = vf.write_ndjson(ctx.path("walks.ndjson"), runs)
    obsf = ctx.path("obs.ndjson")
    vf.gotest_ok(ctx, "./internal/core/", "^TestVerif_C12_Replay$", cases=cases, out=obsf, timeout=1500)
    obs = vf.read_ndjson(obsf)
    if len(obs) != len(runs):
        raise vf.Infra("harness replayed %d of %d walks" % (len(obs), len(runs)))
    # TLC needs every payload record to carry all fields: fill the omitted ones
    for o in obs:
        for s in o["steps"]:
            pl = s["op"]["pl"]
            for k in ("origins", "playback", "maxReaders", "rda", "override"):
                pl.setdefault(k, "unset")
            pl.setdefault("bad", "none")
    vf.write_ndjson(os.path.join(d, "C12_trace.ndjson"), obs)
    tv = vf.tlc(ctx, "TraceApiEdits", cfg("ApiEdits_tv.cfg", "TraceSpec", "INVARIANT Verdicts\nPOSTCONDITION Accepted2", 99),
                workers=1, timeout=1500, java_opts=["-Xmx8g"])
    for bad in tv.tagged("BAD"):
        o = obs[bad["l"] - 1]
        s = o["steps"][bad["step"] - 1]
        rec = {"why": bad["why"], "kind": bad["kind"], "bad": bad["bad"]}
        ctx.violation(rec, "%s: edit %s answered %d (%s); configuration read back: %s; previous edits of the run: %s" % (
            bad["why"], json.dumps(s["op"]), s["status"], s["body"][:120], json.dumps(s["view"]),
            json.dumps([x["op"] for x in o["steps"][:bad["step"] - 1]])[:1500]))
    ctx.set("traces_validated_against_impl", len(obs))
    ctx.set("edits_replayed", sum(len(o["steps"]) for o in obs))
    ctx.sample({"steps": obs[0]["steps"][:2]})
    ctx.assume("the API's own GET endpoints are the observation of the running configuration")
