"""C09 Environment overrides are equivalent to file values — spec/conf/EnvYaml.tla"""
import copy, json, os, random, threading
import vf

LEVEL = "model_checking"
LEVEL_TEXT = ("EnvYaml.tla gives the documented addressing function from configuration addresses to MTX_ variable names and the "
              "comma encoding, a transcription of env.loadEnvInternal on an abstract tree (layer 1) and the two equations of the "
              "statement (layer 2); TLC checks layer 1 => layer 2 on the bounded universe, then computes key, text and "
              "expressibility for every parameter of the REAL conf.Conf (enumerated by reflection) x addressing context x value "
              "class; the real conf.Load is run three ways per case and TLC evaluates the equations on the recorded outcomes")
LEVEL_NOTE = ("value classes per parameter kind are finite tables (ASCII); one parameter is varied per case; parameters and "
              "values that cannot be written both ways (map keys with underscore/upper case, list gaps, items with commas, 32-bit "
              "limit of environment integers, on/off) are excluded by the specification and counted in the evidence")
TECHNIQUE = "TLC exhaustive check + case generation, replay on the real code, TLC trace validation"

PKG = "./internal/conf/"

# a complete valid item per list of structs (j makes the items distinct)
TEMPLATES = {
    "authInternalUsers": lambda j: {"user": "user%d" % j, "pass": "pw%d" % j, "ips": ["127.0.0.%d/32" % (j + 1)],
                                    "permissions": [{"action": "publish", "path": "p%d" % j}]},
    "authInternalUsers.permissions": lambda j: {"action": "read", "path": "q%d" % j},
    "authHTTPExclude": lambda j: {"action": "metrics", "path": "x%d" % j},
    "authJWTExclude": lambda j: {"action": "pprof", "path": "y%d" % j},
    "webrtcICEServers2": lambda j: {"url": "stun:stun%d.example.org:3478" % j, "username": "u%d" % j, "password": "s%d" % j, "clientOnly": False},
    "forward": lambda j: {"dest": "rtsp://dest%d.example.org:8554/x" % j, "destFingerprint": "", "whipBearerToken": ""},
    "alwaysAvailableTracks": lambda j: {"codec": "MPEG4Audio", "sampleRate": 44100, "channelCount": 2, "muLaw": False},
}


class Bg(threading.Thread):
    def __init__(self, fn):
        super().__init__(daemon=True)
        self.fn, self.res, self.exc = fn, None, None
        self.start()

    def run(self):
        try:
            self.res = self.fn()
        except BaseException as e:  # noqa
            self.exc = e

    def result(self):
        self.join()
        if self.exc is not None:
            raise self.exc
        return self.res


def lap(ctx, label):
    if os.environ.get("VERIF_TIMING"):
        import time
        print("timing: %-28s %6.1fs" % (label, time.time() - ctx.t0), flush=True)


def strip_nulls(x):
    if isinstance(x, dict):
        return {k: strip_nulls(v) for k, v in x.items() if v is not None}
    if isinstance(x, list):
        return [strip_nulls(v) for v in x]
    return x


def list_name(steps, upto):
    """template name of the list whose position step is steps[upto]."""
    tags = [s["s"] for s in steps[:upto] if s["t"] == "f"]
    if tags[0] in ("pathDefaults", "paths"):
        tags = tags[1:]
    return ".".join(tags)


def build_docs(p, c, defaults):
    """base / file / over documents of a case (p: parameter, c: TLC case).
    base holds what the addressing context says is in the file before the parameter is written."""
    steps = p["addr"]
    key = "".join(c["key"])
    entry = c["entry"]
    lists = list(c["lists"])
    other = {"runOnUnread": "echo base"} if p["tag"] != "runOnUnread" else {"runOnRead": "echo base"}
    # (a list context with len >= 0 means the file holds the list, possibly empty; -1: only the built-in defaults do)
    has_list = bool(lists) and lists[0]["len"] >= 0 and any(s["t"] == "k" for s in steps)

    base = {}
    node = base          # the container of base that corresponds to the address so far (None: not in the file)
    dnode = defaults
    li = 0
    path = []
    for n, s in enumerate(steps):
        last = n == len(steps) - 1
        if s["t"] == "f":
            name = s["s"]
            path.append(name)
            dnode = dnode.get(name) if isinstance(dnode, dict) else None
            if last or node is None:
                continue
            nxt = steps[n + 1]
            if nxt["t"] == "i":
                lc = lists[li]
                if lc["len"] >= 0:
                    tpl = TEMPLATES.get(list_name(steps, n + 1))
                    if tpl is None:
                        raise vf.Infra("no template item for the list %s" % list_name(steps, n + 1))
                    node[name] = [tpl(j) for j in range(lc["len"])]
                    node = node[name]
                else:
                    node = None      # the list is not in the file: the built-in defaults apply
            elif nxt["t"] == "k":
                if entry != "absent" or has_list:
                    node[name] = {}
                    node = node[name]
                else:
                    node = None
            else:
                node[name] = {}
                node = node[name]
        elif s["t"] == "k":
            path.append(key)
            dnode = None
            if node is None:
                continue
            if entry == "null" and not has_list:
                node[key] = None
                node = None
            else:
                node[key] = dict(other) if (entry == "present" or has_list) else {}
                node = node[key]
        else:
            lc = lists[li]
            li += 1
            path.append(("#", lc["idx"], lc["len"], dnode if isinstance(dnode, list) else []))
            dnode = None
            if node is not None:
                node = node[lc["idx"]] if lc["idx"] < len(node) else None

    def with_value(val):
        doc = copy.deepcopy(base)
        node = doc
        for n, el in enumerate(path):
            last = n == len(path) - 1
            if isinstance(el, tuple):
                while len(node) <= el[1]:      # (beyond the end: a new item; a gap is filled with empty items,
                    node.append({})            #  such cases are not expressible and carry no verdict)
                node = node[el[1]]
                continue
            if last:
                node[el] = val
                break
            nxt = path[n + 1]
            if node.get(el) is None:
                if isinstance(nxt, tuple):
                    node[el] = strip_nulls(copy.deepcopy(nxt[3])) if nxt[2] == -1 else []
                else:
                    node[el] = {}
            node = node[el]
        return doc

    return base, with_value(c["y"]), with_value(c["alt"])


def build_list_docs(p, m, defaults):
    """base / file / over documents of a case with several variables on one list of structs (m: TLC MCASE)."""
    steps = p["addr"]
    key = "".join(m["key"])
    tag = p["tag"]
    tpl = TEMPLATES.get(list_name(steps + [{"t": "i"}], len(steps)))
    if tpl is None:
        raise vf.Infra("no template item for the list %s" % tag)
    other = {"runOnUnread": "echo base"}
    base = {}
    node = base
    dnode = defaults
    path = []
    for n, s in enumerate(steps):
        last = n == len(steps) - 1
        if s["t"] == "f":
            path.append(s["s"])
            dnode = dnode.get(s["s"]) if isinstance(dnode, dict) else None
            if last:
                if m["base"] == "file":
                    node[s["s"]] = [tpl(j) for j in range(m["blen"])]
                continue
            nxt = steps[n + 1]
            if nxt["t"] == "i":
                otpl = TEMPLATES.get(list_name(steps, n + 1))
                node[s["s"]] = [otpl(j) for j in range(2)]
            else:
                node[s["s"]] = {}
            node = node[s["s"]]
        elif s["t"] == "k":
            path.append(key)
            dnode = None
            node[key] = dict(other)
            node = node[key]
        else:
            path.append(0)
            dnode = None
            node = node[0]
    dlist = strip_nulls(copy.deepcopy(dnode)) if isinstance(dnode, list) else []

    def with_values(sel):
        doc = copy.deepcopy(base)
        node = doc
        for el in path[:-1]:
            node = node[el]
        if path[-1] not in node:
            node[path[-1]] = copy.deepcopy(dlist)
        lst = node[path[-1]]
        for a in m["assigns"]:
            while len(lst) <= a["idx"]:
                lst.append({})
            item = lst[a["idx"]]
            if a["subtag"]:
                sub = item.setdefault(a["subtag"], [])
                while len(sub) <= a["subn"]:
                    sub.append({})
                item = sub[a["subn"]]
            item[a["f"]] = a[sel]
        return doc

    return base, with_values("y"), with_values("alt")


def run(ctx):
    d = ctx.specdir()

    # ---- the parameters of the real structs (while TLC checks the abstract model)
    pf = ctx.path("params.ndjson")
    # ---- MC: layer 1 |= layer 2 on the bounded universe (independent of the rest: runs in the background)
    mcbg = Bg(lambda: vf.mc(ctx, "EnvYaml", "EnvYaml_mc.cfg", workers=4, timeout=900))
    vf.gotest_ok(ctx, PKG, "^TestVerif_C09_Params$", out=pf)
    lap(ctx, "go params")
    lines = vf.read_ndjson(pf)
    defaults = lines[0]["defaults"]
    params = lines[1:]
    bad = [p for p in params if p["kind"].startswith("unsupported")]
    if bad:
        raise vf.Infra("configuration fields of a type the specification has no class for: %s" % bad[:5])
    byid = {p["pid"]: p for p in params}
    ctx.set("parameters_enumerated", len(params))
    vf.write_ndjson(d + "/C09_params.ndjson", [{k: p[k] for k in ("pid", "addr", "tag", "kind", "type", "dlen", "itemdec", "ptr")} for p in params])

    # ---- GEN: key, text, expressibility per parameter x context x value class
    g = vf.tlc(ctx, "EnvYaml", ctx.pick("EnvYaml_gen.cfg", "EnvYaml_genfull.cfg"), workers=1, timeout=900, java_opts=["-Xmx8g"])
    lap(ctx, "tlc gen")
    notable = g.tagged("NOTABLE")
    if notable:
        raise vf.Infra("parameters without a value table in EnvYaml.tla: %s" % [
            (".".join(s.get("s", "*" if s["t"] == "k" else "#") for s in byid[n["pid"]]["addr"]), n["type"]) for n in notable][:8])
    gen = g.tagged("CASE")
    if len(gen) < 3000:
        raise vf.Infra("generator produced only %d cases" % len(gen))
    ctx.set("cases_generated", len(gen))
    gen.sort(key=lambda c: json.dumps(c, sort_keys=True))
    limit = ctx.pick(2400, 14000)
    if len(gen) > limit:
        # every parameter x value class stays; the contexts are sampled (seeded)
        rnd = random.Random(ctx.seed * 15485863 + 9)
        groups = {}
        for c in gen:
            groups.setdefault((c["pid"], c["vn"]), []).append(c)
        keep = []
        rest = []
        for k in sorted(groups):
            gs = groups[k]
            i = rnd.randrange(len(gs))
            keep.append(gs[i])
            rest += gs[:i] + gs[i + 1:]
        # ... and every addressing context class (map key, entry state, list context) at least twice
        def ctxclass(c):
            return json.dumps([c["key"], c["entry"], c["lists"], c["x"]], sort_keys=True)
        have = {}
        for c in keep:
            have[ctxclass(c)] = have.get(ctxclass(c), 0) + 1
        rnd.shuffle(rest)
        later = []
        for c in rest:
            if have.get(ctxclass(c), 0) < 2:
                have[ctxclass(c)] = have.get(ctxclass(c), 0) + 1
                keep.append(c)
            else:
                later.append(c)
        if len(keep) < limit:
            keep += later[:limit - len(keep)]
        gen = keep
        ctx.note("replaying a seeded sample of %d of the generated cases (every parameter x value class at least once)" % len(gen))

    # several variables on one list of structs: every scenario of every struct-list parameter, in both tiers
    multi = sorted(g.tagged("MCASE"), key=lambda c: json.dumps(c, sort_keys=True))
    nlists = len([p for p in params if p["kind"] == "structlist"])
    if len(set(m["pid"] for m in multi)) != nlists or len(multi) < 6 * nlists:
        raise vf.Infra("the generator emitted list scenarios for %d of %d struct-list parameters (%d cases)" % (
            len(set(m["pid"] for m in multi)), nlists, len(multi)))
    for m in multi:
        gen.append({"pid": m["pid"], "vn": "list:%s:%s" % (m["scen"], m["base"]), "x": True, "np": False, "why": "", "key": m["key"],
                    "entry": "present" if m["key"] else "none", "lists": [], "k": [], "sk": [], "exact": True, "e": "",
                    "y": [[a["idx"], a["subtag"], a["subn"], a["f"], a["y"]] for a in m["assigns"]], "multi": m})
    ctx.set("cases_several_variables_on_one_list", len(multi))

    cases = []
    for i, c in enumerate(gen):
        p = byid[c["pid"]]
        c["id"] = i
        if "multi" in c:
            base, filed, over = build_list_docs(p, c["multi"], defaults)
            cases.append({"id": i, "base": base, "file": filed, "over": over,
                          "env": {"".join(a["k"]): a["e"] for a in c["multi"]["assigns"]}})
            continue
        base, filed, over = build_docs(p, c, defaults)
        env = {"".join(c["k"]): c["e"]} if c["exact"] else {}
        if c["sk"]:
            env["".join(c["sk"])] = "1"
        cases.append({"id": i, "base": base, "file": filed, "over": over, "env": env})
    cf = vf.write_ndjson(ctx.path("cases.ndjson"), cases)
    of = ctx.path("obs.ndjson")
    vf.gotest_ok(ctx, PKG, "^TestVerif_C09_Run$", cases=cf, out=of, timeout=1500)
    lap(ctx, "go replay")
    obs = {o["id"]: o for o in vf.read_ndjson(of)}
    if len(obs) != len(cases):
        raise vf.Infra("harness produced %d observations for %d cases" % (len(obs), len(cases)))

    # ---- TV
    recs = []
    for c in gen:
        o = obs[c["id"]]
        recs.append({"id": c["id"], "x": c["x"], "np": c["np"], "l1": o["l1"], "l2": o["l2"], "l3": o["l3"], "eq12": o["eq12"], "eq13": o["eq13"]})
    chunk = 30000
    groups = {}
    for i in range(0, len(recs), chunk):
        part = recs[i:i + chunk]
        vf.write_ndjson(d + "/C09_trace.ndjson", part)
        tv = vf.tlc(ctx, "TraceEnvYaml", "TraceEnvYaml.cfg", workers=1, timeout=1800, java_opts=["-Xmx8g"])
        seen = set()
        for bad in tv.tagged("BAD"):
            rec = part[bad["l"] - 1]
            c = gen[rec["id"]]
            if bad["monitor"] != "NoPanic" and (rec["id"], "NoPanic") in seen:
                continue
            seen.add((rec["id"], bad["monitor"]))
            p = byid[c["pid"]]
            o = obs[c["id"]]
            pname = ".".join(s.get("s", "*" if s["t"] == "k" else "#") for s in p["addr"])
            record = {"param": pname, "kind": p["kind"], "ptr": p["ptr"], "value": c["vn"], "key": "".join(c["key"]),
                      "entry": c["entry"], "lists": c["lists"], "monitor": bad["monitor"]}
            case = cases[c["id"]]
            desc = ("%s fails for parameter %s: environment %s vs YAML value %s (file without it: %s); "
                    "file load: %s; environment load: %s; override load: %s; first difference: %s") % (
                bad["monitor"], pname, json.dumps(case["env"]), json.dumps(c["y"]), json.dumps(case["base"], sort_keys=True)[:300],
                json.dumps(o["l1"]), json.dumps(o["l2"]), json.dumps(o["l3"]), o["diff12"] or o["diff13"] or "-")
            ctx.violation(record, desc)
            gk = "%s/%s/%s" % (bad["monitor"], p["kind"], c["vn"])
            groups[gk] = groups.get(gk, 0) + 1
    lap(ctx, "tlc trace validation")
    mcbg.result()
    ctx.set("exhaustive", True)
    lap(ctx, "tlc mc (background)")
    ctx.set("traces_validated_against_impl", len(recs))
    ctx.set("loads", 3 * len(recs))
    expr = [c for c in gen if c["x"]]
    ctx.set("cases_expressible", len(expr))
    ctx.set("cases_expressible_accepted_both_ways", sum(1 for c in expr if not obs[c["id"]]["l1"]["err"] and obs[c["id"]]["eq12"]))
    ctx.set("cases_expressible_refused_both_ways", sum(1 for c in expr if obs[c["id"]]["l1"]["err"] and obs[c["id"]]["l2"]["err"]))
    excl = {}
    for c in gen:
        if not c["x"]:
            o = obs[c["id"]]
            same = (not o["l1"]["err"] and not o["l1"]["panic"] and o["eq12"]) or (o["l1"]["err"] and o["l2"]["err"])
            e = excl.setdefault(c["why"], {"cases": 0, "same_result_anyway": 0})
            e["cases"] += 1
            e["same_result_anyway"] += 1 if same else 0
    ctx.set("excluded_not_expressible_both_ways", excl)
    ctx.set("parameters_covered", len(set(c["pid"] for c in gen)))
    if groups:
        ctx.set("violations_by_monitor_kind_value", groups)
    ctx.sample({"case": {k: gen[0][k] for k in ("vn", "e", "x")}, "key": "".join(gen[0]["k"]), "outcome": obs[0]})
    mid = gen[len(gen) // 2]
    ctx.sample({"case": {k: mid[k] for k in ("vn", "e", "x", "entry", "lists")}, "key": "".join(mid["k"]),
                "outcome": {k: obs[mid["id"]][k] for k in ("eq12", "eq13")}})
    ctx.assume("reflect.DeepEqual on the *conf.Conf returned by Load is the equality of loaded configurations")
    ctx.assume("the YAML side is written by the harness: block style, strings double-quoted unless the class is a plain scalar")
