"""C38 The configuration watcher never loses the final file content — spec/misc/ConfWatcher.tla"""
import json, os, random, collections
import vf

LEVEL = "model_checking"
LEVEL_TEXT = ("ConfWatcher.tla is a discrete-time model of the watcher loop (minimum-interval drop rule, additional wait, "
              "resolved-path comparison), the fsnotify event queue, the file-system calls of write / remove / re-create / "
              "symlink swap and a client that loads the current content on every signal; TLC explores every scenario of the "
              "bounded model with all same-instant interleavings and reports, per scenario, whether the final content is loaded "
              "at quiescence; the scenarios are replayed with real files in real time on the real ConfWatcher (the harness "
              "plays the core) and TLC evaluates 'loaded = final' on each recorded run, accepting a failing run as a verdict "
              "only when its measured timeline is clear of every switching instant of the watcher by >= 5x the code's tolerances")
LEVEL_NOTE = ("scenarios of <= 3 (thorough: 4) operations with pauses of 0 / 300 ms / 1.5 s, two layouts (regular file; symbolic "
              "link with targets in the same directory); quick replays a seeded sample of them; real-time runs that are not "
              "decisive are counted as inconclusive, never as verdicts; Linux inotify only")
TECHNIQUE = "TLA+ discrete-time model (TLC): exhaustive bounded MC of all timing scenarios + scenarios replayed in real time on the real ConfWatcher + trace validation with timing margins"

CFG = """SPECIFICATION %s
CONSTANTS
  Layout = "%s"
  MaxOps = %d
  Gaps = {0, 30, 150}
  MinInterval = 100
  AddWait = 1
  Fix = %s
%s
CHECK_DEADLOCK FALSE
"""
TICK_MS = 10
# Which variant of the model describes the code under test (layer 1). FALSE = confwatcher.go as it is today
# (events inside minInterval are dropped); TRUE = after the repair proposed in findings/C38.md.
# Only the predictions (drift, race detection) depend on it, never the verdict.
CODE_FIXED = os.environ.get("VERIF_C38_CODE_FIXED", "") == "1"


def key(hist):
    return " ".join("%s@%d" % (h["op"], h["gap"] * TICK_MS) for h in hist)


def run(ctx):
    d = ctx.specdir()

    def cfg(name, layout, maxops, fix, rest, spec="Spec"):
        with open(os.path.join(d, name), "w") as fh:
            fh.write(CFG % (spec, layout, maxops, "TRUE" if fix else "FALSE", rest))
        return name
    maxops = ctx.pick(3, 4)
    # ---- design level: the code-shaped model, every scenario, every interleaving
    pred = {}      # (layout, scenario key) -> {"ok": n, "loss": n, hist}
    other = {True: 0, False: 0}
    for fix in (False, True):
        layouts = ("plain", "link") if (fix == CODE_FIXED or ctx.thorough) else ("link",)
        for layout in layouts:
            # the unrepaired design is expected to lose the final content (DESIGN.md section 8 row 11): every scenario
            # end is reported instead of stopping at the first one; the repaired design must satisfy the statement
            inv = "TypeOK NoStuck EmitEnd " + ("FinalLoaded" if fix else "LossOnlyInWindow")
            r = vf.mc(ctx, "ConfWatcher", cfg("ConfWatcher_%s_%s.cfg" % ("fix" if fix else "asis", layout), layout, maxops, fix,
                                              "INVARIANTS " + inv), workers=4, timeout=900)
            for e in r.tagged("END"):
                other[e["ok"]] += 1 if fix != CODE_FIXED else 0
                if fix == CODE_FIXED:
                    p = pred.setdefault((layout, key(e["hist"])), {"ok": 0, "loss": 0, "hist": e["hist"]})
                    p["ok" if e["ok"] else "loss"] += 1
    if len(pred) < 50:
        raise vf.Infra("the model produced only %d scenarios" % len(pred))
    for p in pred.values():
        p["pred"] = "ok" if p["loss"] == 0 else ("loss" if p["ok"] == 0 else "mixed")
    nloss = sum(1 for p in pred.values() if p["pred"] == "loss")
    ctx.set("code_model", "repaired (Fix = TRUE)" if CODE_FIXED else "as is (Fix = FALSE)")
    ctx.set("scenarios_in_model", len(pred))
    ctx.set("design_level_scenarios_losing_final_content", nloss)
    ctx.set("design_level_scenarios_race_dependent", sum(1 for p in pred.values() if p["pred"] == "mixed"))
    if nloss:
        shortest = min((k for k, p in pred.items() if p["pred"] == "loss"), key=lambda k: (len(pred[k]["hist"]), k))
        ctx.note("design level: the modelled watcher loses the final content in %d of %d scenarios (always: last change inside "
                 "the minimum interval after the last signal; invariant LossOnlyInWindow holds); shortest: %s / %s; the "
                 "repaired design (Fix = TRUE) satisfies FinalLoaded on the same space" % (nloss, len(pred), shortest[0], shortest[1]))
    ctx.set("exhaustive", False)

    # ---- replay: which scenarios
    rnd = random.Random(ctx.seed)
    keys = sorted(pred)
    short = [k for k in keys if len(pred[k]["hist"]) <= 2]
    rest = [k for k in keys if len(pred[k]["hist"]) > 2]
    rnd.shuffle(rest)
    # prefer variety of predictions among the longer ones
    by = collections.defaultdict(list)
    for k in rest:
        by[pred[k]["pred"]].append(k)
    budget = ctx.pick(26, 360)
    pick = []
    while len(pick) < budget and any(by.values()):
        for cls in ("loss", "ok", "mixed", "ok"):
            if by[cls] and len(pick) < budget:
                pick.append(by[cls].pop())
    # recovery scenarios: the last operation repairs what its prefix alone would lose (the model loses the final
    # content after the prefix and loads it after the whole scenario): always replayed, they exercise the
    # code's ways of catching up (resolved-path comparison after a swap, a later write, a re-creation)
    recov = []
    for k in keys:
        h = pred[k]["hist"]
        if len(h) >= 2 and pred[k]["pred"] == "ok":
            pk = (k[0], key(h[:-1]))
            if pk in pred and pred[pk]["pred"] == "loss":
                recov.append(k)
    rnd.shuffle(recov)
    recov = [k for k in recov if k not in short][:ctx.pick(24, 200)]
    ctx.set("recovery_scenarios_replayed", len(recov))
    chosen = short + [k for k in pick if k not in recov] + recov
    cases = []
    for k in chosen:
        p = pred[k]
        cases.append({"run": len(cases), "layout": k[0], "pred": p["pred"],
                      "ops": [{"op": h["op"], "gap": h["gap"] * TICK_MS, "s": 0, "e": 0} for h in p["hist"]]})
    # twins with a slow writer (truncate, pause of additionalWait/3, data): the model expands a write into the same
    # primitives at one instant with every interleaving, the real os.WriteFile never lets the watcher in between
    nslow = 0
    for k in short + pick[:ctx.pick(6, 60)]:
        p = pred[k]
        if p["hist"][0]["op"] not in ("Write", "Create") or p["pred"] == "mixed":
            continue
        cases.append({"run": len(cases), "layout": k[0], "pred": p["pred"],
                      "ops": [{"op": h["op"], "gap": h["gap"] * TICK_MS, "s": 0, "e": 0,
                               "slow": h["op"] in ("Write", "Create")} for h in p["hist"]]})
        nslow += 1
    for c in cases:
        for o in c["ops"]:
            o.setdefault("slow", False)
    ctx.set("scenarios_with_slow_writer", nslow)
    casef = vf.write_ndjson(ctx.path("cases.ndjson"), cases)
    obsf = ctx.path("obs.ndjson")
    vf.gotest_ok(ctx, "./internal/confwatcher/", "^TestVerif_C38_Replay$", cases=casef, out=obsf, timeout=900,
                 params={"PAR": 24, "WINDOW_MS": 3000})
    obs = vf.read_ndjson(obsf)
    if len(obs) != len(cases):
        raise vf.Infra("harness replayed %d of %d scenarios" % (len(obs), len(cases)))
    for o in obs:
        if o["problem"]:
            raise vf.Infra("scenario %d (%s %s): %s" % (o["run"], o["layout"], json.dumps(o["ops"]), o["problem"]))
    # ---- TLC evaluates the statement on every recorded run (one run per layout: Layout is a constant)
    bad, inconclusive, drift, loose = [], [], [], []
    for layout in ("plain", "link"):
        part = [o for o in obs if o["layout"] == layout]
        if not part:
            continue
        vf.write_ndjson(os.path.join(d, "C38_trace.ndjson"), part)
        tv = vf.tlc(ctx, "TraceConfWatcher", cfg("ConfWatcher_tv_%s.cfg" % layout, layout, maxops, False,
                                                 "INVARIANTS Verdicts Drift Timing\nPOSTCONDITION Accepted", spec="TraceSpec"),
                    workers=1, timeout=900)
        bad += [(part[b["l"] - 1], b) for b in tv.tagged("BAD")]
        inconclusive += [(part[b["l"] - 1], b) for b in tv.tagged("INCONCLUSIVE")]
        drift += [(part[b["l"] - 1], b) for b in tv.tagged("DRIFT")]
        loose += [(part[b["l"] - 1], b) for b in tv.tagged("LOOSE")]

    def show(o):
        return ("layout=%s scenario=[%s] (model: %s); measured ms: ops %s, signals %s; final=%r loaded=%r" % (
            o["layout"], " ".join("%s%s@%d" % (x["op"], "(slow)" if x.get("slow") else "", x["gap"]) for x in o["ops"]), o["pred"],
            ["%.1f-%.1f" % (x["s"] / 1000.0, x["e"] / 1000.0) for x in o["ops"]],
            ["%.1f:%s" % (s["t"] / 1000.0, s["content"]) for s in o["signals"]], o["final"], o["loaded"]))
    for o, b in bad:
        rec = {"class": b["class"], "layout": o["layout"], "model_predicts": o["pred"],
               "scenario": " ".join("%s%s@%d" % (x["op"], "(slow)" if x.get("slow") else "", x["gap"]) for x in o["ops"])}
        ctx.violation(rec, "the real ConfWatcher lost the final content (%s): %s; observation window %.1f s after the last "
                           "operation, no later signal" % (b["class"], show(o), (o["obsEnd"] - o["ops"][-1]["e"]) / 1e6))
    ctx.set("traces_validated_against_impl", len(obs))
    ctx.set("scenarios_replayed", len(obs))
    ctx.set("replayed_by_prediction", dict(collections.Counter(o["pred"] for o in obs)))
    ctx.set("runs_losing_final_content_decisive", len(bad))
    ctx.set("runs_inconclusive", len(inconclusive))
    ctx.set("runs_holding_with_loose_timing", len(loose))
    ctx.set("drift_runs", len(drift))
    for o, b in inconclusive[:5]:
        ctx.note("inconclusive (not a verdict; %s): %s" % (b["why"], show(o)))
    for o, b in drift[:5]:
        ctx.note("DRIFT (model predicts %s, the real run %s the final content): %s"
                 % (b["pred"], "loaded" if b["holds"] else "lost", show(o)))
    if (len(inconclusive) + len(loose)) * 3 > len(obs):
        raise vf.Infra("%d of %d real-time runs missed their timing margins (machine too loaded?)"
                       % (len(inconclusive) + len(loose), len(obs)))
    okrun = next((o for o in obs if o["exists"] and o["loaded"] == o["final"] and len(o["ops"]) >= 2), obs[0])
    ctx.sample(okrun)
    if bad:
        ctx.sample(bad[0][0])
    ctx.assume("Linux inotify through fsnotify; files and link targets live in the watched directory")
    ctx.assume("the client reads the file as soon as it receives the signal (the core's conf.Load), and is otherwise idle")
    ctx.assume("os.WriteFile / os.Remove / os.Symlink+os.Rename are the writers; runs in which a signal fell inside an operation are inconclusive")
