"""C34 Client-supplied descriptors parse faithfully — spec/http/Descriptors.tla"""
import vf

LEVEL = "model_checking"
LEVEL_TEXT = ("Descriptors.tla builds SRT stream ids in the two documented syntaxes, Link-header credentials over an alphabet "
              "of quoting-relevant characters and Authorization header lists from FIELDS and states that parsing yields "
              "exactly the fields; TLC enumerates the bounded model, the real streamID.unmarshal, LinkHeaderMarshal/"
              "Unmarshal, httpp.Credentials and rtsp.Credentials answer every case; random field values are judged by TLC "
              "(TraceDescriptors.tla), which also rebuilds every descriptor from its fields")
LEVEL_NOTE = ("bounded value tables (delimiter look-alikes, empty values, '=' ',' ':' '#!::' inside values); Link credentials: "
              "all strings of length <= 3 (thorough 4) over {a \" \\ ; = < > space}; ASCII only; left open and only "
              "compared with the code-shaped expectation: '#feedbackplay' suffix, standard syntax without m, malformed ids, "
              "empty Link user name, Bearer values with >= 2 colons, letter case of schemes; several Authorization values "
              "(all pairs and triples of 7 value kinds + random ones) are judged: the result must be the yield of one "
              "value, of the Bearer one when a Basic and a Bearer value are both present; which of two values of the same "
              "scheme counts is open; "
              "base64 and the RTSP header grammar (gortsplib) are trusted")
TECHNIQUE = "TLC function table replayed on the real code + TLC trace validation of random records"

PKGS = {"srt": "./internal/servers/srt/", "link": "./internal/protocols/whip/",
        "http": "./internal/protocols/httpp/", "rtsp": "./internal/protocols/rtsp/"}


def case_in(c):
    if c["fam"] == "srt":
        return {"raw": c["raw"], "syntax": c["syntax"]}
    if c["fam"] == "link":
        return {"url": c["url"], "user": c["user"], "cred": c["cred"]}
    return {"headers": c["headers"]}


def run(ctx):
    import time
    t0 = time.time()
    phase = {}

    def lap(name):
        nonlocal t0
        phase[name] = round(time.time() - t0, 1)
        t0 = time.time()

    r = vf.mc(ctx, "Descriptors", ctx.pick("Descriptors_gen.cfg", "Descriptors_gen4.cfg"), workers=min(vf.NCPU, 8),
              timeout=900, java_opts=["-Xmx8g"])
    cases = []
    for c in r.tagged("CASE"):
        cases.append({"id": len(cases), "fam": c["fam"], "in": case_in(c), "exp": c["exp"], "l1": c["l1"],
                      "decided": c["decided"], "dev": c.get("dev", ""), "acc": c.get("acc"), "bare": c.get("bare")})
    lap("tlc_gen")
    if len(cases) < 8000:
        raise vf.Infra("generator produced only %d cases" % len(cases))
    cf = vf.write_ndjson(ctx.path("cases.ndjson"), [{"id": c["id"], "fam": c["fam"], "in": c["in"]} for c in cases])
    obs = {}
    raw = []
    runs = {"srt": ctx.pick(1000, 20000), "link": ctx.pick(1000, 20000), "http": ctx.pick(800, 10000),
            "rtsp": ctx.pick(400, 5000)}
    for fam, pkg in PKGS.items():
        of, tf = ctx.path("obs_%s.ndjson" % fam), ctx.path("trace_%s.ndjson" % fam)
        vf.gotest_ok(ctx, pkg, "^TestVerif_C34_(Replay|Trace)$", cases=cf, out=of, env={"VERIF_OUT2": tf},
                     params={"RUNS": runs[fam]})
        for o in vf.read_ndjson(of):
            obs[o["id"]] = o
        raw += vf.read_ndjson(tf)
    lap("go_replay_and_trace")

    ndrift = nopen = nmulti = 0
    byfam = {}
    bycause = {}
    for c in cases:
        o = obs.get(c["id"])
        if o is None:
            raise vf.Infra("harness produced no observation for case %d (%s)" % (c["id"], c["fam"]))
        got = o["obs"]
        byfam[c["fam"]] = byfam.get(c["fam"], 0) + 1
        if c["fam"] == "link":
            view = {"err": got["err"], "url": got["url"], "user": got["user"], "cred": got["cred"]}
            if dict(view, wire=got["wire"]) != c["l1"]:
                ndrift += 1
        else:
            view = got
            if got != c["l1"]:
                ndrift += 1
        if not c["decided"]:
            nopen += 1
            continue
        if c["acc"] is not None:
            # several Authorization values: the statement admits the yield of one of them (see Descriptors.tla)
            nmulti += 1
            if view not in c["acc"]:
                cz = "BearerDisplacedByBasic" if view in c["bare"] else "none"
                bycause[cz] = bycause.get(cz, 0) + 1
                ctx.violation({"fam": c["fam"], "in": c["in"], "admitted": c["acc"], "obs": view, "cause": cz},
                              "Authorization values %s (in this order): the statement admits %s, real code gave %s "
                              "[cause: %s]" % (o.get("values"), c["acc"], view, cz))
            continue
        if view != c["exp"]:
            l1view = {k: v for k, v in c["l1"].items() if k != "wire"}
            cz = c["dev"] if (c["dev"] and view == l1view) else "none"
            bycause[cz] = bycause.get(cz, 0) + 1
            ctx.violation({"fam": c["fam"], "in": c["in"], "exp": c["exp"], "obs": view, "cause": cz},
                          "%s descriptor %s: expected %s, real code gave %s%s [cause: %s]" % (
                              c["fam"], c["in"], c["exp"], view,
                              (" (wire %r)" % got.get("wire")) if c["fam"] == "link" else "", cz))
    ctx.set("cases_enumerated", len(cases))
    ctx.set("cases_by_family", byfam)
    ctx.set("cases_left_open", nopen)
    ctx.set("cases_with_several_authorization_values_judged", nmulti)
    ctx.set("exhaustive", True)
    for fam in ("srt", "link"):
        xs = [c for c in cases if c["fam"] == fam and c["decided"]]
        ctx.sample({"case": xs[len(xs) // 2]["in"], "exp": xs[len(xs) // 2]["exp"]})

    # TV
    keep = {"srt_custom": ("fam", "action", "path", "hasCred", "user", "pass", "hasQuery", "query", "raw", "got"),
            "srt_std": ("fam", "kvs", "raw", "got"),
            "link": ("fam", "url", "user", "cred", "wire", "got"),
            "http": ("fam", "kind", "user", "pass", "token", "got"),
            "rtsp": ("fam", "kind", "user", "pass", "token", "got")}
    recs = [({k: x[k] for k in ("fam", "kind", "hs", "got")} if x.get("kind") == "multi"
             else {k: x[k] for k in keep[x["fam"]]}) for x in raw]
    tvopen = 0
    chunk = 20000
    for i in range(0, len(recs), chunk):
        vf.write_ndjson(ctx.specdir() + "/C34_trace.ndjson", recs[i:i + chunk])
        tv = vf.tlc(ctx, "TraceDescriptors", "TraceDescriptors.cfg", workers=1, timeout=1500, java_opts=["-Xmx8g"])
        if tv.tagged("MISBUILT"):
            raise vf.Infra("harness built a descriptor that is not the documented syntax of its fields: %s" %
                           raw[i + tv.tagged("MISBUILT")[0]["l"] - 1])
        for bad in tv.tagged("BAD"):
            x = raw[i + bad["l"] - 1]
            inp = {k: v for k, v in x.items() if k not in ("got", "run", "fam", "wire", "value")}
            bycause[bad["dev"]] = bycause.get(bad["dev"], 0) + 1
            ctx.violation({"fam": x["fam"], "in": inp, "obs": x["got"], "via": "random", "cause": bad["dev"]},
                          "%s descriptor built from %s (text %r): real code gave %s [cause: %s]" % (
                              x["fam"], inp, x.get("raw", x.get("wire", x.get("value"))), x["got"], bad["dev"]))
        tvopen += len(tv.tagged("OPEN"))
        ndrift += len(tv.tagged("DRIFT"))
    lap("tlc_trace_validation")
    ctx.set("phase_wall_s", phase)
    ctx.set("traces_validated_against_impl", len(cases) + len(recs))
    ctx.set("trace_records", len(recs))
    ctx.set("trace_records_left_open", tvopen)
    ctx.set("drift_events", ndrift)
    ctx.set("violations_by_cause", bycause)
    if ndrift:
        ctx.note("%d observations differ from layer 1 (code-shaped expectation) — DRIFT, not a verdict" % ndrift)
    ctx.sample({"trace_record": {k: v for k, v in raw[0].items() if k != "run"}})
    ctx.assume("encoding/base64, net/http.Request.BasicAuth and gortsplib's headers.Authorization are not re-verified")
    ctx.assume("the documented SRT syntaxes are: action:path[:query], action:path:user:pass[:query], #!::k=v,... "
               "with m/r/u/s (docs/2-features/24-srt-specific-features.md, 06-authentication.md, server error text)")
