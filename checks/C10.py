"""C10 Loading any configuration input never panics — spec/conf/ConfValidate.tla"""
import base64, json, os, random, re, threading
import vf

LEVEL = "model_checking"
LEVEL_TEXT = ("ConfValidate.tla states the constraints named by the statement over an abstract configuration (layer 2) next to a "
              "transcription of conf.Validate/Path.validate (layer 1); TLC checks layer 1 => layer 2 on the bounded space and "
              "generates every abstract configuration (written to the file or through MTX_ variables) and the robustness shape "
              "classes; each case is loaded by the real conf.Load in a child process under recover (and a subset by a real Core "
              "during hot reload); history is a dimension: every shape class is also submitted A,A,OK,A to ONE process (load route) "
              "and the refused text shapes to a running Core in one process; TLC evaluates the statement (no crash, no panic, error "
              "or all constraints; same input => same verdict) on every recorded outcome")
LEVEL_NOTE = ("partial: structured shape classes and constraint classes only, no raw-byte fuzzing of the YAML decoder; nesting "
              "depth <= 10001 (the decoder is quadratic in depth); 'positive timeouts' is read as readTimeout/writeTimeout, other "
              "timeouts are reported as drift only; the statement's '...' is left open; variables that extend a parameter name and "
              "silently reset it are drift (suffixChangedConf), not a verdict")
TECHNIQUE = "TLC exhaustive check + case generation, replay on the real code in child processes, TLC trace validation"

PKG = "./internal/conf/"

VALID_DOC = {"logLevel": "debug", "readTimeout": "5s", "paths": {"cam": {"source": "publisher"}}}
QUIET = {"api": False, "metrics": False, "pprof": False, "playback": False, "rtsp": False, "rtmp": False, "hls": False,
         "webrtc": False, "srt": False, "moq": False, "logDestinations": ["stdout"], "logLevel": "error"}

QUIET_TEXT = "".join("%s: %s\n" % (k, "false") for k, v in sorted(QUIET.items()) if v is False)

KEYTEXT = {"empty": "", "short": "k", "32": "0123456789abcdef0123456789abcdef",
           ">32": "0123456789abcdef0123456789abcdef01234567"}

YVALUES = {"null": None, "string": "abc", "emptyString": "", "int": 5, "negInt": -5, "hugeInt": 99999999999999999999,
           "float": 1.5, "bool": True, "list": ["a", "b"], "listOfLists": [["a"], []], "listOfMaps": [{"a": "b"}],
           "map": {"a": "b"}, "emptyMap": {}, "emptyList": []}

ENVVALUES = {"empty": "", "space": " ", "word": "abc", "negative": "-1", "huge": "99999999999999999999", "float": "1.5",
             "quote": 'a"b', "backslash": "a\\b", "comma": "a,b", "nul8": "a\nb", "unicode": "\u00e9\u6f22", "long": "a" * 100000}


def text_shapes():
    t = {
        "empty": "", "whitespace": "  \n\n", "comment": "# only a comment\n", "scalarString": "abc\n", "scalarInt": "123\n",
        "scalarBool": "true\n", "scalarNull": "null\n", "tilde": "~\n", "topList": "- a\n- b\n", "topEmptyList": "[]\n",
        "topEmptyMap": "{}\n", "multiDoc": "logLevel: debug\n---\nlogLevel: info\n", "docMarkers": "---\nlogLevel: debug\n...\n",
        "unknownKeyTop": "nonExistent: 1\n", "unknownKeyDefaults": "pathDefaults:\n  nonExistent: 1\n",
        "unknownKeyPath": "paths:\n  cam:\n    nonExistent: 1\n",
        "unknownKeyListItem": "authInternalUsers:\n- user: any\n  nonExistent: 1\n",
        "duplicateKeyTop": "logLevel: info\nlogLevel: debug\n",
        "duplicateKeyPath": "paths:\n  cam:\n    source: publisher\n    source: publisher\n",
        "duplicatePath": "paths:\n  cam:\n  cam:\n",
        "anchorOk": "readTimeout: &t 5s\nwriteTimeout: *t\n", "aliasUndefined": "writeTimeout: *t\n",
        "mergeKey": "paths:\n  a: &a\n    source: publisher\n  b:\n    <<: *a\n    record: no\n",
        "mergeUndefined": "paths:\n  b:\n    <<: *a\n", "selfAnchor": "paths: &p\n  cam: *p\n",
        "anchorOnMap": "pathDefaults: &pd\n  record: no\npaths:\n  cam: *pd\n",
        "nul": "logLevel: de\x00bug\n", "bom": "\ufefflogLevel: debug\n", "crlf": "logLevel: debug\r\npaths:\r\n  cam:\r\n",
        "tabIndent": "paths:\n\tcam:\n", "badIndent": "paths:\n  cam:\n source: x\n",
        "unclosedFlow": "paths: {cam: {source: publisher\n", "unclosedQuote": "logFile: \"abc\n",
        "boolKey": "paths:\n  yes:\n  no:\n  on:\n", "intKey": "paths:\n  123:\n", "floatKey": "paths:\n  1.5:\n",
        "nullKey": "paths:\n  null:\n", "complexKey": "? [a, b]\n: 1\n", "emptyPathName": "paths:\n  '':\n",
        "slashPathName": "paths:\n  /a:\n  b/:\n", "dotdotPathName": "paths:\n  a/../b:\n",
        "badRegexPathName": "paths:\n  '~(':\n", "tildeOnlyPathName": "paths:\n  '~':\n", "nullPaths": "paths:\n",
        "nullPathEntry": "paths:\n  cam:\n  all_others:\n", "nullPathDefaults": "pathDefaults:\n", "nullUsers": "authInternalUsers:\n",
        "allAliases": "paths:\n  all:\n  all_others:\n", "longScalar": "logFile: " + "a" * 200000 + "\n",
        "manyPaths": "paths:\n" + "".join("  p%d:\n" % i for i in range(2000)),
        "yamlTag": "readTimeout: !!str 5s\nwriteQueueSize: !!int \"512\"\n", "binaryTag": "logFile: !!binary aGVsbG8=\n",
        "octalInt": "writeQueueSize: 0o1000\n", "hexInt": "writeQueueSize: 0x200\n", "floatForInt": "writeQueueSize: 512.0\n",
        "bigDuration": "readTimeout: 106751d\n", "overflowDuration": "readTimeout: 106752d\n",
        "negativeStringSize": "hlsSegmentMaxSize: -1M\n", "hugeQueue": "writeQueueSize: 4611686018427387904\n",
        "pow2Beyond32": "writeQueueSize: 1099511627776\n",
    }
    out = {k: {"kind": "text", "text": v} for k, v in t.items()}
    out["invalidUtf8"] = {"kind": "b64", "b64": base64.b64encode(b"logFile: \xff\xfe\n").decode()}
    return out


def put(doc, addr, value):
    """nested document with value at addr ("*" = path named cam, "#" = single list item)."""
    if not addr:
        return value
    a = addr[0]
    if a == "#":
        return [put({}, addr[1:], value)]
    key = "cam" if a == "*" else a
    d = doc if isinstance(doc, dict) else {}
    d[key] = put(d.get(key, {}), addr[1:], value)
    return d


def env_key(addr):
    return "MTX_" + "_".join("CAM" if a == "*" else "0" if a == "#" else a.upper() for a in addr)


def seq(x):
    """values of a TLC function over an index subset (printed as list or as object keyed by index)."""
    if isinstance(x, list):
        return x
    return [x[k] for k in sorted(x, key=int)]


class Builder:
    def __init__(self, ctx, params):
        self.ctx = ctx
        self.params = params
        self.cases = []
        self.rnd = random.Random(ctx.seed * 7919 + 10)
        self.shape_no = -1      # number of the TLC shape descriptor being concretized (-1: abstract configurations)
        self.by_kind = {}
        for p in params:
            self.by_kind.setdefault(p["kind"], []).append(p)

    def add(self, cls, file=None, env=None, enc=None, pred="none", core=None, base_env=None):
        c = {"id": len(self.cases), "cls": cls, "file": file or {"kind": "none"}, "env": env or {}, "enc": enc or [],
             "pred": pred}
        if base_env is not None:
            c["baseEnv"] = base_env
        c["shapeNo"] = self.shape_no
        if core:
            c["core"] = core
        self.cases.append(c)
        return c

    def doc(self, d, style=None):
        if style is None:
            style = "flow" if self.rnd.random() < 0.25 else "block"
        return {"kind": "doc", "doc": d, "style": style}

    def pick(self, kind, n):
        ps = self.by_kind.get(kind, [])
        if self.ctx.thorough or len(ps) <= n:
            return ps
        # one parameter of a paths entry (pointer fields) and one other, when available
        a = [p for p in ps if p["addr"][0] == "paths"]
        b = [p for p in ps if p["addr"][0] != "paths"]
        out = []
        if a:
            out.append(self.rnd.choice(a))
        if b:
            out.append(self.rnd.choice(b))
        while len(out) < n:
            out.append(self.rnd.choice(ps))
        return out[:n]

    # ---- abstract configurations (TLC CASE records)
    def abstract(self, c):
        d = {}
        for a in seq(c["file"]):
            put(d, a["addr"], a["y"])
        env = {e["k"]: e["e"] for e in seq(c["env"])}
        cls = {"class": "abstract", "via": c["via"], "lvl": c["lvl"]}
        cls.update(c["tok"])
        return self.add(cls, file=self.doc(d) if d else {"kind": "none"}, env=env, pred="accept" if c["acc"] else "reject")

    # ---- shape classes (TLC SHAPE records)
    def shape(self, s):
        k = s["class"]
        getattr(self, "shape_" + k)(s)

    def shape_wrongType(self, s):
        for p in self.pick(s["kind"], 2):
            cls = dict(s, param=".".join(p["addr"]), ptr=p["ptr"])
            self.add(cls, file=self.doc(put({}, p["addr"], YVALUES[s["ytype"]])))

    def shape_text(self, s):
        self.add(dict(s), file=self.texts[s["shape"]])

    def shape_deep(self, s):
        for d in self.ctx.pick([50, 500, 3000], [50, 500, 3000, 9000, 10001]):
            self.add(dict(s, depth=d), file={"kind": "deep", "shape": s["kind"], "depth": d, "under": s["under"]})

    def enc_layers(self, key, keyvar, outer):
        """environment and encryption layers: the file is decrypted with RTSP_CONFKEY first, then MTX_CONFKEY."""
        env = {}
        if keyvar in ("mtx", "both"):
            env["MTX_CONFKEY"] = key
        if keyvar in ("rtsp", "both"):
            env["RTSP_CONFKEY"] = key
        valid = {"key": key, "kind": "valid", "n": 0, "b64": "valid"}
        layers = [valid, outer] if keyvar == "both" else [outer]
        return env, layers

    def shape_encrypted(self, s):
        key = KEYTEXT[s["key"]]
        cl = s["cipherLen"]
        if cl == "0":
            variants = [("random", 0)]
        elif cl == "<24":
            variants = [("random", n) for n in self.ctx.pick([self.rnd.choice([1, 12, 23])], [1, 12, 23])]
        elif cl == "=24":
            variants = [("random", 24)]
        elif cl == ">24badmac":
            allv = [("random", 25), ("random", 40), ("random", 200), ("flip", 3), ("flip", 30)]
            variants = self.ctx.pick([self.rnd.choice(allv)], allv)
        else:
            variants = [("valid", 0)]
        for kind, n in variants:
            env, layers = self.enc_layers(key, s["keyVar"], {"key": key, "kind": kind, "n": n, "b64": s["b64"]})
            core = None
            if s["b64"] == "valid" and s["key"] == "short" and s["keyVar"] == "mtx":
                core = {"initEnc": [{"key": key, "kind": "valid", "n": 0, "b64": "valid"}]}
            self.add(dict(s, n=n, variant=kind), file=self.doc(VALID_DOC, "block"), env=env, enc=layers, core=core)

    def shape_encryptedPlain(self, s):
        key = KEYTEXT["32"]
        plain = {"validConf": self.doc(VALID_DOC, "block"), "invalidConf": {"kind": "text", "text": "writeQueueSize: 3\n"},
                 "empty": {"kind": "text", "text": ""},
                 "garbage": {"kind": "b64", "b64": base64.b64encode(bytes(self.rnd.randrange(256) for _ in range(64))).decode()}}
        env, layers = self.enc_layers(key, s["keyVar"], {"key": key, "kind": "valid", "n": 0, "b64": "valid"})
        self.add(dict(s), file=plain[s["plain"]], env=env, enc=layers,
                 core={"initEnc": layers} if s["keyVar"] == "mtx" else None)

    def shape_envValue(self, s):
        if s["val"] == "empty" and s["kind"] in LISTKINDS:
            return   # every list parameter gets the empty value in class envEmptyList
        for p in self.pick(s["kind"], 2):
            cls = dict(s, param=".".join(p["addr"]), ptr=p["ptr"])
            self.add(cls, env={env_key(p["addr"]): ENVVALUES[s["val"]]})

    def valid_env(self, p):
        v = VALID_ENV_TYPE.get(p["type"], VALID_ENV.get(p["kind"]))
        if v is None:
            raise vf.Infra("no valid environment text for parameter type %s" % p["type"])
        fixed = {"url": "stun:stun.example.org:3478", "dest": "rtsp://dest.example.org:8554/x", "source": "publisher",
                 "recordPath": "/r/%path/%Y-%m-%d_%H-%M-%S-%f"}
        return fixed.get(p["addr"][-1], v)

    def shape_envSuffix(self, s):
        """every parameter of the kind: a variable whose name continues after the complete parameter name."""
        if not self.ctx.thorough and s["withExact"] and s["suffix"] != "_X":
            return
        for p in self.by_kind.get(s["kind"], []):
            key = env_key(p["addr"])
            exact = self.valid_env(p)
            base = {key: exact} if s["withExact"] else {}
            if "*" in p["addr"] or "#" in p["addr"]:
                # any variable below a map entry / list item creates it: a sibling parameter is set in both
                # environments, so that the comparison shows the effect of the suffixed variable alone
                sib = [q for q in self.params if q["addr"][:-1] == p["addr"][:-1] and q["addr"] != p["addr"]
                       and q["kind"] not in CONTAINERS and q["kind"] not in LISTKINDS and q["kind"] != "ulist"]
                pref = [q for q in sib if q["addr"][-1] in ("runOnUnread", "path", "user", "url", "dest", "codec")]
                if pref or sib:
                    q = (pref or sib)[0]
                    base[env_key(q["addr"])] = self.valid_env(q)
            env = dict(base)
            env[key + s["suffix"]] = "1"
            cls = dict(s, param=".".join(p["addr"]), var=key + s["suffix"], ptr=p["ptr"], unmarshaler=p["kind"] in UNMARSHALERS,
                       scope="paths" if p["addr"][0] == "paths" else "pathDefaults" if p["addr"][0] == "pathDefaults" else "global")
            self.add(cls, env=env, base_env=base)

    def shape_envEmptyList(self, s):
        for p in self.params:
            if p["elem"] == s["elem"] and p["ptr"] == s["ptr"]:
                self.add(dict(s, param=".".join(p["addr"])), env={env_key(p["addr"]): ""})

    def shape_envKey(self, s):
        t = {
            "emptyMapKey": (None, {"MTX_PATHS_": "x"}),
            "doubleUnderscore": (None, {"MTX_PATHS__SOURCE": "publisher"}),
            "lowercaseMapKey": (None, {"MTX_PATHS_cam_SOURCE": "publisher"}),
            "mixedCaseMapKey": (None, {"MTX_PATHS_Cam_SOURCE": "publisher"}),
            "mapKeyOnly": (None, {"MTX_PATHS_CAM": ""}),
            "mapKeyOnlyValue": (None, {"MTX_PATHS_CAM": "x"}),
            "listIndexOnly": (None, {"MTX_AUTHINTERNALUSERS_0": "x"}),
            "listIndexGap": (None, {"MTX_AUTHINTERNALUSERS_5_USER": "bob"}),
            "listIndexNegative": (None, {"MTX_AUTHINTERNALUSERS_-1_USER": "bob"}),
            "listIndexHuge": (None, {"MTX_AUTHINTERNALUSERS_99999999999999999999_USER": "bob"}),
            "listIndexNonNumeric": (None, {"MTX_AUTHINTERNALUSERS_X_USER": "bob"}),
            "listIndex10": (None, {"MTX_AUTHINTERNALUSERS_10_USER": "bob"}),
            "structExact": (None, {"MTX_PATHDEFAULTS": "x"}),
            "mapExact": (None, {"MTX_PATHS": "x"}),
            "listExactNonEmpty": (None, {"MTX_AUTHINTERNALUSERS": "x"}),
            "unknownVar": (None, {"MTX_NONEXISTENT": "1"}),
            "prefixOnly": (None, {"MTX_": "1", "MTX": "1"}),
            "nullEntryThenEnv": ("paths:\n  cam:\n", {"MTX_PATHS_CAM_SOURCE": "publisher"}),
            "emptyEntryThenEnv": ("paths:\n  cam: {}\n", {"MTX_PATHS_CAM_SOURCE": "publisher"}),
            "permissionsNested": (None, {"MTX_AUTHINTERNALUSERS_0_PERMISSIONS_0_ACTION": "bogus",
                                         "MTX_AUTHINTERNALUSERS_1_PERMISSIONS_0_ACTION": "read"}),
            "legacyPrefix": (None, {"RTSP_LOGLEVEL": "debug"}),
            "bothPrefixes": (None, {"RTSP_LOGLEVEL": "debug", "MTX_LOGLEVEL": "error"}),
            "equalsInValue": (None, {"MTX_RUNONCONNECT": "a=b=c"}),
        }
        text, env = t[s["shape"]]
        core = None
        if s["shape"] in ("nullEntryThenEnv", "emptyEntryThenEnv"):
            core = {"initDoc": {"paths": {"cam": {"source": "publisher"}}}, "fileText": QUIET_TEXT + text}
        self.add(dict(s), file={"kind": "text", "text": text} if text is not None else None, env=env, core=core)


def describe(c, o):
    f = c["file"]
    if f["kind"] == "text":
        ft = "file %r" % (f["text"][:300],)
    elif f["kind"] == "doc":
        ft = "file (%s YAML of) %s" % (f["style"], json.dumps(f["doc"], sort_keys=True)[:600])
    elif f["kind"] == "deep":
        ft = "file with %s nested %d deep under %s" % (f["shape"], f["depth"], f["under"])
    elif f["kind"] == "b64":
        ft = "file bytes(base64) %s" % f["b64"][:200]
    else:
        ft = "no file"
    if c["enc"]:
        ft += " encrypted as " + json.dumps(c["enc"])
    env = {k: (v if len(v) < 80 else v[:80] + "...") for k, v in c["env"].items()}
    return "%s, environment %s" % (ft, json.dumps(env, sort_keys=True))


class Bg(threading.Thread):
    """runs fn in the background; join() re-raises what it raised (TLC and go test are subprocesses)."""

    def __init__(self, fn):
        super().__init__(daemon=True)
        self.fn, self.res, self.exc = fn, None, None
        self.start()

    def run(self):
        try:
            self.res = self.fn()
        except BaseException as e:  # noqa
            self.exc = e

    def result(self):
        self.join()
        if self.exc is not None:
            raise self.exc
        return self.res


LISTKINDS = ("strlist", "uintlist", "floatlist", "structlist")
CONTAINERS = ("struct", "map", "optpath", "structlist")
UNMARSHALERS = ("duration", "stringsize", "credential", "enum", "ulist", "optpath")
# a valid environment text per parameter kind / Go type (the exact key next to a suffixed one)
VALID_ENV = {"string": "abc", "int": "5", "uint": "7", "float": "1.5", "bool": "yes", "duration": "5s", "stringsize": "1M",
             "credential": "user1", "strlist": "a,b", "uintlist": "1,2", "floatlist": "1,2", "structlist": "", "struct": "",
             "map": "", "optpath": ""}
VALID_ENV_TYPE = {"conf.LogLevel": "debug", "conf.AuthMethod": "internal", "conf.Encryption": "no", "conf.RTSPTransport": "tcp",
                  "conf.RTSPRangeType": "clock", "conf.HLSVariant": "fmp4", "conf.RecordFormat": "fmp4", "conf.MoQTransport": "quic",
                  "conf.AuthAction": "read", "conf.AlwaysAvailableTrackCodec": "G711", "conf.LogDestinations": "stdout",
                  "conf.IPNetworks": "10.0.0.1", "conf.RTSPTransports": "tcp", "conf.RTSPAuthMethods": "basic"}


NOHIST = {"rep": False, "firstOk": False, "firstErr": False, "firstFailed": False, "sameAsFirst": False, "step": 0}


def history_records(obs_in_order, meta, via):
    """trace records of history steps: a repeated input carries what its first submission got."""
    out = []
    byhid = {o["hid"]: o for o in obs_in_order}
    for o in obs_in_order:
        m = meta[o["hid"]]
        rec = dict(o)
        rec["id"] = m["case"]
        rec["pred"] = "none"
        rec["via"] = via
        rec["sfxLeaf"] = False
        for k in ("crash", "panic", "ok", "err", "compared", "same"):
            rec.setdefault(k, False)
        rec.update(NOHIST)
        rec["step"] = m["step"]
        rec["isA"] = m["a"]
        if m["a"] and m["first"] is not None and m["first"] != o["hid"] and m["first"] in byhid:
            f = byhid[m["first"]]
            rec["rep"] = True
            rec["firstOk"] = bool(f.get("ok"))
            rec["firstErr"] = bool(f.get("err"))
            rec["firstFailed"] = bool(f.get("panic") or f.get("crash"))
            rec["sameAsFirst"] = f.get("conf") == o.get("conf")
        out.append(rec)
    return out


def lap(ctx, label):
    if os.environ.get("VERIF_TIMING"):
        import time
        print("timing: %-28s %6.1fs" % (label, time.time() - ctx.t0), flush=True)


def run(ctx):
    d = ctx.specdir()

    # ---- MC + GEN: abstract configurations (layer 1 => layer 2 is an invariant of the run) and shape classes
    pf = ctx.path("params.ndjson")
    ov = vf.overlay(ctx)   # (written once, before anything runs concurrently)
    bg = Bg(lambda: vf.gotest_ok(ctx, PKG, "^TestVerif_C10_Params$", out=pf))
    r = vf.mc(ctx, "ConfValidate", ctx.pick("ConfValidate_each.cfg", "ConfValidate_pairs.cfg"), workers=2, timeout=900)
    lap(ctx, "tlc mc+gen")
    abstract = r.tagged("CASE")
    if len(abstract) < 1000:
        raise vf.Infra("generator produced only %d abstract configurations" % len(abstract))
    ctx.set("abstract_configurations", len(abstract))
    ctx.set("exhaustive", True)
    limit = ctx.pick(3200, 30000)
    if len(abstract) > limit:
        rnd = random.Random(ctx.seed * 104729 + 1)
        abstract = sorted(abstract, key=lambda c: json.dumps(c, sort_keys=True))
        abstract = rnd.sample(abstract, limit)
        ctx.set("exhaustive", False)
        ctx.note("replaying a seeded sample of %d abstract configurations (model checking covered all of them)" % limit)
    else:
        abstract = sorted(abstract, key=lambda c: json.dumps(c, sort_keys=True))
    shapes = sorted(r.tagged("SHAPE"), key=lambda c: json.dumps(c, sort_keys=True))
    if len(shapes) < 300:
        raise vf.Infra("generator produced only %d shape classes" % len(shapes))
    ctx.set("shape_classes", len(shapes))

    bg.result()
    lap(ctx, "go params")
    params = vf.read_ndjson(pf)
    bad = [p for p in params if p["kind"] == "unsupported"]
    if bad:
        raise vf.Infra("configuration fields of a type without a class table: %s" % bad[:5])
    ctx.set("parameters_enumerated", len(params))

    b = Builder(ctx, params)
    b.texts = text_shapes()
    for c in abstract:
        b.abstract(c)
    nabs = len(b.cases)
    for n, s in enumerate(shapes):
        b.shape_no = n
        b.shape(s)
    cases = b.cases
    bycase = {c["id"]: c for c in cases}
    ctx.set("cases_abstract", nabs)
    ctx.set("cases_shapes", len(cases) - nabs)

    # ---- history (ConfValidate!HistoryPattern): the subjects are submitted to ONE process in the order of the
    # pattern (load route: quick = one concrete case per shape class and a slice of the abstract configurations)
    hp = r.tagged("HISTORY")
    if len(hp) != 1 or "A" not in hp[0]["pattern"]:
        raise vf.Infra("the generator did not emit the history pattern")
    pattern = hp[0]["pattern"]
    # candidates for hot reload through a real Core: the environment is fixed when the process starts, so
    # only cases whose environment lets the initial file load (empty, or the decryption key) qualify
    fileonly = [c for c in cases if c["cls"]["class"] == "abstract" and not c["env"]]
    cand = [c for c in cases if c.get("core")]
    cand += fileonly[:: max(1, len(fileonly) // ctx.pick(6, 60))]
    cand += [c for c in cases if c["cls"]["class"] == "text"]
    core_in = []
    for c in cand:
        k = {"id": c["id"], "file": c["file"], "enc": c["enc"], "env": c["env"]}
        core = c.get("core") or {}
        k["init"] = {"kind": "doc", "doc": dict(QUIET, **core.get("initDoc", {})), "style": "block"}
        if "fileText" in core:
            k["file"] = {"kind": "text", "text": core["fileText"]}
        k["initEnc"] = core.get("initEnc", [])
        if c["file"]["kind"] == "doc" and isinstance(c["file"]["doc"], dict):
            k["file"] = {"kind": "doc", "style": "block", "doc": dict(QUIET, **c["file"]["doc"])}
            if k["file"]["doc"].get("playback"):
                # the only listener an abstract configuration switches on: let the system choose the port, so that
                # "the Core stopped" always means "the file was refused" (never "the port was taken")
                k["file"]["doc"]["playbackAddress"] = "127.0.0.1:0"
        if c["file"]["kind"] == "text" and "fileText" not in core and re.match(r"[A-Za-z]+:", c["file"]["text"]) \
                and "---" not in c["file"]["text"]:
            # a mapping: switch the listeners off in it (if a later submission of it is accepted, no port is opened)
            k["file"] = {"kind": "text", "text": QUIET_TEXT + c["file"]["text"]}
        # history on a running Core, in one process (a Core stops when it refuses a file: the next step starts
        # a new Core in the same process): quick = the text shapes, thorough = every candidate
        if ctx.thorough or c["cls"]["class"] == "text":
            k["seq"] = [{"same": True} if what == "A" else
                        {"same": False, "file": {"kind": "doc", "style": "block", "doc": dict(QUIET, **VALID_DOC)}, "enc": k["initEnc"]}
                        for what in pattern]
        core_in.append(k)

    # ---- history: subjects of the load route
    seen_shape = set()
    subjects = []
    nth = max(1, nabs // ctx.pick(300, 3000))
    for c in cases:
        if c["file"].get("kind") == "deep" and c["file"]["depth"] > ctx.pick(500, 3000):
            continue
        if c["cls"]["class"] == "abstract":
            if c["id"] % nth == 0:
                subjects.append(c)
        elif ctx.thorough or c["shapeNo"] not in seen_shape:
            seen_shape.add(c["shapeNo"])
            subjects.append(c)
    hist_steps = []
    hist_meta = {}
    for c in subjects:
        prev_env = None
        first = None
        for k, what in enumerate(pattern):
            if what == "A":
                st = {"file": c["file"], "enc": c["enc"], "env": c["env"]}
            else:
                st = {"file": {"kind": "doc", "doc": VALID_DOC, "style": "block"}, "enc": [], "env": {}}
            st["id"] = len(hist_steps)
            st["keep"] = prev_env is not None and prev_env == st["env"]
            prev_env = st["env"]
            if what == "A" and first is None:
                first = st["id"]
            hist_meta[st["id"]] = {"case": c["id"], "step": k, "a": what == "A", "first": first}
            hist_steps.append(st)
    hin = vf.write_ndjson(ctx.path("history_in.ndjson"), hist_steps)
    hout = ctx.path("history_out.ndjson")

    # ---- REPLAY in child processes (and the concrete bytes of the hot-reload files)
    cf = vf.write_ndjson(ctx.path("cases.ndjson"), [{k: c[k] for k in ("id", "file", "enc", "env", "baseEnv") if k in c} for c in cases])
    of = ctx.path("obs.ndjson")
    fin = vf.write_ndjson(ctx.path("corefiles_in.ndjson"), core_in)
    fout = ctx.path("corefiles_out.ndjson")
    vf.gotest_ok(ctx, PKG, "^TestVerif_C10_(Run|Files|History)$", cases=cf, out=of, timeout=1500,
                 params={"FILESIN": fin, "FILESOUT": fout, "HISTIN": hin, "HISTOUT": hout})
    lap(ctx, "go replay")
    obs = {o["id"]: o for o in vf.read_ndjson(of)}
    if len(obs) != len(cases):
        raise vf.Infra("harness produced %d observations for %d cases" % (len(obs), len(cases)))

    recs = []
    for c in cases:
        o = dict(obs[c["id"]])
        o["pred"] = c["pred"]
        o["via"] = "load"
        for k in ("crash", "panic", "ok", "err", "compared", "same"):
            o.setdefault(k, False)
        o["sfxLeaf"] = c["cls"]["class"] == "envSuffix" and c["cls"]["kind"] not in CONTAINERS
        o.update(NOHIST)
        recs.append(o)

    hobs = {o["id"]: o for o in vf.read_ndjson(hout)}
    if len(hobs) != len(hist_steps):
        raise vf.Infra("harness produced %d observations for %d history steps" % (len(hobs), len(hist_steps)))
    hist_recs = history_records([dict(hobs[st["id"]], **{"hid": st["id"]}) for st in hist_steps], hist_meta, "load-history")
    recs += hist_recs
    ctx.set("history_sequences_in_one_process", len(subjects))
    ctx.set("history_loads", len(hist_recs))

    # ---- TV: the statement evaluated by TLC on every outcome (the load records while the Core cases run)
    drift = {"layer1": 0, "otherTimeout": 0, "suffixChangedConf": 0}
    groups = {}
    suffix_changed = {}
    suffix_example = {}

    def validate(tag, part):
        vf.write_ndjson(d + "/C10_trace_%s.ndjson" % tag, part)
        with open(d + "/TraceConfValidate.tla") as fh:
            src = fh.read()
        mod = "TraceConfValidate_" + tag
        with open(d + "/" + mod + ".tla", "w") as fh:
            fh.write(src.replace("MODULE TraceConfValidate", "MODULE " + mod + " ").replace("C10_trace.ndjson", "C10_trace_%s.ndjson" % tag))
        return vf.tlc(ctx, mod, "TraceConfValidate.cfg", workers=1, timeout=1800, java_opts=["-Xmx8g"])

    def judge(tv, part):
        for bad in tv.tagged("BAD"):
            rec = part[bad["l"] - 1]
            c = bycase[rec["id"]]
            record = dict(c["cls"], monitor=bad["monitor"], through=rec["via"])
            what = rec.get("msg") or ""
            if bad["monitor"] == "HistoryIndependent":
                desc = ("the same input got another verdict when it was submitted again to the same process (%s, step %d of %s): "
                        "first %s, now %s %s [input: %s]") % (
                    "running Core, hot reload" if rec["via"].startswith("core") else "conf.Load", rec["step"] + 1, "/".join(pattern),
                    "accepted" if rec["firstOk"] else "refused", "accepted" if rec["ok"] else "refused",
                    (rec.get("errMsg") or "")[:150], describe(c, rec))
            elif bad["monitor"] in ("NoCrash", "NoPanic"):
                desc = "%s %s: %s [input: %s]" % (
                    "hot reload in a real Core" if rec["via"].startswith("core") else "conf.Load",
                    "crashed the process" if rec.get("crash") else "panicked", what[:300], describe(c, rec))
            else:
                desc = "conf.Load accepted a configuration violating %s: %s [input: %s]" % (
                    bad["monitor"], json.dumps(rec.get("conf"), sort_keys=True)[:500], describe(c, rec))
            ctx.violation(record, desc)
            g = "%s/%s/%s" % (record["class"], bad["monitor"], rec["via"])
            groups[g] = groups.get(g, 0) + 1
        for dr in tv.tagged("DRIFT"):
            drift[dr["what"]] = drift.get(dr["what"], 0) + 1
            if dr["what"] == "suffixChangedConf":
                cl = bycase[part[dr["l"] - 1]["id"]]["cls"]
                suffix_changed.setdefault("%s%s" % (cl["kind"], " (pointer)" if cl["ptr"] else ""), set()).add(cl["param"])
                suffix_example.setdefault("k", cl["var"])
            if drift[dr["what"]] <= 3:
                rec = part[dr["l"] - 1]
                c = bycase[rec["id"]]
                ctx.note("drift (%s): case %s -> ok=%s err=%s %s" % (
                    dr["what"], json.dumps(c["cls"], sort_keys=True)[:300], rec.get("ok"), rec.get("err"), (rec.get("errMsg") or "")[:120]))

    chunk = 20000
    parts = [recs[i:i + chunk] for i in range(0, len(recs), chunk)]
    tvbg = Bg(lambda: [validate("load%d" % i, part) for i, part in enumerate(parts)])

    # ---- hot reload through a real Core (child process per case); text shapes that Load accepts are left
    # out (they would open the default listeners of this machine)
    files = [f for f in vf.read_ndjson(fout)
             if not (bycase[f["id"]]["cls"]["class"] == "text" and obs[f["id"]].get("ok"))]
    texts = [f for f in files if bycase[f["id"]]["cls"]["class"] == "text"]
    keep = set(f["id"] for f in texts)     # (every refused text shape, in both tiers)
    files = [f for f in files if bycase[f["id"]]["cls"]["class"] != "text" or f["id"] in keep]
    core_recs = run_core(ctx, files, pattern)
    ctx.set("history_sequences_on_a_running_core", sum(1 for f in files if len(f.get("files") or []) > 1))
    lap(ctx, "go core hot reload")
    for tv, part in zip(tvbg.result(), parts):
        judge(tv, part)
    lap(ctx, "tlc trace validation (load)")
    if core_recs:
        judge(validate("core", core_recs), core_recs)
    allrecs = recs + core_recs
    lap(ctx, "tlc trace validation")
    ctx.set("traces_validated_against_impl", len(allrecs))
    ctx.set("loads_in_child_process", len(recs))
    ctx.set("hot_reloads_through_core", len(core_recs))
    ctx.set("outcomes", {"accepted": sum(1 for x in recs if x["ok"]), "rejected": sum(1 for x in recs if x["err"]),
                         "panicked": sum(1 for x in recs if x["panic"]), "crashed": sum(1 for x in recs if x["crash"])})
    ctx.set("outcomes_hot_reload", {"reloaded": sum(1 for x in core_recs if x["ok"]), "stopped": sum(1 for x in core_recs if x["err"]),
                                    "crashed": sum(1 for x in core_recs if x["crash"])})
    ctx.set("drift_events", drift)
    if groups:
        ctx.set("violations_by_class_monitor_route", groups)
    if suffix_changed:
        ctx.set("parameters_silently_reset_by_a_variable_that_extends_their_name",
                {k: sorted(v)[:40] for k, v in sorted(suffix_changed.items())})
        ctx.note("a variable that merely extends the name of a parameter with its own environment decoder (e.g. %s=1) is "
                 "accepted and resets the parameter to the decoder's value for the empty text: %d parameters (drift, see evidence)"
                 % (suffix_example.get("k"), sum(len(v) for v in suffix_changed.values())))
    mutated = [x["id"] for x in recs if x.get("defaultsMutated")]
    if mutated:
        ctx.set("loads_that_changed_builtin_users", len(mutated))
        ctx.note("%d loads changed the package-level built-in user list (conf.defaultAuthInternalUsers) through the environment "
                 "loader, e.g. environment %s; the harness restores it after each case" % (
                     len(mutated), json.dumps(bycase[mutated[0]]["env"], sort_keys=True)[:200]))
    ctx.sample({"case": cases[0]["cls"], "outcome": {k: recs[0][k] for k in ("ok", "err", "panic")}})
    ctx.sample({"case": cases[nabs + 5]["cls"], "outcome": {k: recs[nabs + 5].get(k) for k in ("ok", "err", "panic", "errMsg")}})
    slow = max(recs, key=lambda x: x.get("micros", 0))
    ctx.set("slowest_load_ms", round(slow.get("micros", 0) / 1000.0, 1))
    ctx.assume("goccy/go-yaml, encoding/json, base64 and nacl/secretbox are exercised through the shape classes only")
    ctx.assume("a configuration is judged by the values conf.Load returned (Conf and Conf.Paths), read in-package by the harness")


def run_core(ctx, files, pattern):
    """Hot reload: a real Core is started on a valid file, the file is replaced (a sequence of contents for the
    history cases, all in one process), the outcomes are recorded."""
    if not files:
        return []
    for f in files:
        if not f.get("files"):
            f["files"] = [f["file"]]
    cin = vf.write_ndjson(ctx.path("core_cases.ndjson"), files)
    cout = ctx.path("core_obs.ndjson")
    vf.gotest_ok(ctx, "./internal/core/", "^TestVerif_C10_HotReload$", cases=cin, out=cout, timeout=1500)
    got = {}
    for o in vf.read_ndjson(cout):
        if o.get("infra"):
            raise vf.Infra("hot reload harness: case %s step %s: %s" % (o["id"], o.get("step"), o["infra"]))
        got[(o["id"], o.get("step", 0))] = o
    out = []
    for f in sorted(files, key=lambda f: f["id"]):
        n = len(f["files"])
        seq = []
        meta = {}
        first = None
        for k in range(n):
            o = got.get((f["id"], k))
            if o is None:
                if any(x.get("crash") for x in seq):
                    break       # the process died: the remaining steps were not submitted
                raise vf.Infra("hot reload harness: no observation for case %s step %d" % (f["id"], k))
            o = dict(o, hid=(f["id"], k))
            is_a = n == 1 or pattern[k] == "A"
            if is_a and first is None:
                first = o["hid"]
            meta[o["hid"]] = {"case": f["id"], "step": k, "a": is_a, "first": first}
            seq.append(o)
        for rec in history_records(seq, meta, "core" if n == 1 else "core-history"):
            del rec["hid"]
            out.append(rec)
    return out
