"""C27 Recordings are playable up to the last complete part at any crash point — spec/record/RecFile.tla"""
import json, re
import vf

LEVEL = "fault_enumeration"
LEVEL_TEXT = ("RecFile.tla models a segment file as the recorder's writes (header, parts, in-place duration patch, close) "
              "and a crash as: completed writes kept, the write in flight torn at a zone boundary or inside a zone, tail cut / "
              "zero-filled / garbage; TLC checks the statement's shape/serving/loss formulas on the model and GENERATES the crash "
              "classes; the harness records real streams (H264+AAC, AAC only) with the real recorder.Recorder, rebuilds the file of "
              "every byte offset (thorough) of every class and runs the real playback server on it in a child process; TLC "
              "re-evaluates the statement on each observation (TraceRecFile.tla), also on the normally closed segments")
LEVEL_NOTE = ("quick tier: zone edges +-2 and a seed-shifted stride instead of every offset; the duration patch is modelled as "
              "4 bytes that may be torn; crash = file content at that instant (no reordering of writes by the file system)")
TECHNIQUE = "TLA+ model (TLC) + fault enumeration replayed into the real recorder/playback code, verdicts by TLC trace validation"


def norm(msg):
    msg = re.sub(r"0x[0-9a-fA-F]+", "N", msg or "")
    return re.sub(r"\d+", "N", msg)[:120]


def symptom(o):
    if not o["alive"]:
        return "process exit: " + norm(o.get("panic", ""))
    parts = ["list %d" % o["listStatus"], "get %d" % o["getStatus"]]
    for e in o.get("errors") or []:
        if e.startswith("get:") or e.startswith("list:"):
            parts.append(norm(e))
    return " ".join(parts)


def run(ctx):
    r = vf.mc(ctx, "RecFile", "RecFile_mc.cfg", workers=4, timeout=300)
    seen, cases = set(), []
    for c in r.tagged("CLASS"):
        key = json.dumps(c, sort_keys=True)
        if key in seen:
            continue
        seen.add(key)
        cases.append({"id": len(cases), "cls": {k: c[k] for k in ("k", "z", "torn", "mode", "stage", "patch")},
                      "zone": c["zone"], "hdr": c["hdr"], "parts": c["parts"]})
    if len(cases) < 80:
        raise vf.Infra("generator produced only %d crash classes" % len(cases))
    cf = vf.write_ndjson(ctx.path("classes.ndjson"), cases)
    of = ctx.path("obs.ndjson")
    vf.gotest_ok(ctx, "./internal/playback/", "^TestVerif_C27_Crash$", cases=cf, out=of, timeout=1500,
                 params={"STRIDE": ctx.pick(67, 1), "EDGE": 2, "ALLPAT": ctx.pick(0, 1)})
    # write faults (short write of the k-th part; exit / error-close with the limit lifted / not lifted)
    fseen, faults = set(), []
    for c in r.tagged("FAULT"):
        key = json.dumps(c, sort_keys=True)
        if key not in fseen:
            fseen.add(key)
            faults.append({"id": len(faults), "k": c["k"], "z": c["z"], "torn": c["torn"], "after": c["after"], "zone": c["zone"]})
    if len(faults) < 60:
        raise vf.Infra("generator produced only %d write faults" % len(faults))
    if not ctx.thorough:
        # quick: every (zone, torn) with the error handled and the limit lifted, on a seed-rotated part; exit and
        # close-under-the-limit on a seed-rotated quarter of the zones
        faults = [f for f in faults if f["k"] == 1 + (f["z"] + int(f["torn"]) + ctx.seed) % 3
                  and (f["after"] == "close_lifted" or (f["z"] + ctx.seed) % 4 == (0 if f["after"] == "exit" else 1))]
    ff = vf.write_ndjson(ctx.path("faults.ndjson"), faults)
    of2 = ctx.path("obs_faults.ndjson")
    vf.gotest_ok(ctx, "./internal/playback/", "^TestVerif_C27_Fault$", cases=ff, out=of2, timeout=1500,
                 params={"BOTH": ctx.pick(0, 1)})
    frecs = vf.read_ndjson(of2)
    fdirs = [x for x in frecs if x["kind"] == "faultdir"]
    nofault = [x for x in frecs if x["kind"] == "nofault"]
    frecs = [x for x in frecs if x["kind"] != "nofault"]
    if len(fdirs) < len(faults) * 2 // 3 and not nofault:
        raise vf.Infra("harness replayed %d of %d write faults" % (len(fdirs), len(faults)))
    recs = vf.read_ndjson(of) + frecs
    meta = [x for x in recs if x["kind"] == "meta"]
    recs = [x for x in recs if x["kind"] != "meta"]
    crash = [x for x in recs if x["kind"] == "crash"]
    nocrash = [x for x in recs if x["kind"] == "nocrash"]
    recs = [x for x in recs if x["kind"] != "nocrash"]
    if not meta or (len(crash) < len(cases) and not nocrash):
        raise vf.Infra("harness produced %d crash observations for %d classes" % (len(crash), len(cases)))
    byid = {c["id"]: c for c in cases}

    bad, drift = [], {}
    chunk = 6000
    d = ctx.specdir()
    for i in range(0, len(recs), chunk):
        part = recs[i:i + chunk]
        vf.write_ndjson(d + "/C27_trace.ndjson", part)
        tv = vf.tlc(ctx, "TraceRecFile", "TraceRecFile.cfg", workers=1, timeout=1500, java_opts=["-Xmx6g"])
        for b in tv.tagged("BAD"):
            bad.append((b, part[b["l"] - 1]))
        for b in tv.tagged("DRIFT"):
            drift[b["monitor"]] = drift.get(b["monitor"], 0) + 1

    # one violation per (monitor, unit, where, tail mode, kind of symptom): a class is hit at hundreds of offsets
    groups = {}
    for b, rec in bad:
        if rec["kind"] == "crash":
            c = byid[rec["id"]]
            o = rec["obs"]
            if not o["alive"]:
                sym = "process_exit"
            elif b["monitor"] == "lists_complete_parts":
                sym = "list_error" if o["listStatus"] != 200 else "list_short"
            elif o["getStatus"] != 200:
                sym = "get_error"
            else:
                sym = "get_incomplete"
            key = {"kind": "crash_point", "monitor": b["monitor"],
                   "unit": "header" if c["cls"]["k"] == 0 else "part",
                   "where": "in_write" if c["cls"]["z"] > 0 or c["cls"]["stage"] == "patchtorn" else "boundary",
                   "mode": c["cls"]["mode"], "stage": c["cls"]["stage"], "symptom": sym}
            if sym == "process_exit":
                key["panic"] = norm(o.get("panic", ""))
        elif rec["kind"] == "faultdir":
            g = rec["groups"][b["i"] - 1]
            sym = "process_exit" if g["status"] == -1 else ("get_error" if g["status"] != 200 else "get_incomplete")
            key = {"kind": "crash_point", "origin": "write_fault", "monitor": b["monitor"], "unit": "part",
                   "where": "in_write" if g["tornTail"] else "boundary", "mode": "cut", "stage": "fault",
                   "after": rec["cls"]["after"], "symptom": sym}
        elif rec["kind"] == "faultfile":
            key = {"kind": "write_fault", "monitor": b["monitor"], "after": rec["cls"]["after"], "second_run": rec["secondRun"]}
        else:
            key = {"kind": rec["kind"], "monitor": b["monitor"], "stream": rec["stream"]}
            if rec["kind"] in ("closed", "layout"):
                key["seg"] = rec["seg"]
        g = groups.setdefault(json.dumps(key, sort_keys=True), [key, 0, rec, set()])
        g[1] += 1
        if rec["kind"] == "crash":
            if byid[rec["id"]]["parts"] > byid[g[2]["id"]]["parts"]:
                g[2] = rec      # show the example that loses most
            g[3].add(byid[rec["id"]]["zone"] + ("*" if byid[rec["id"]]["cls"]["torn"] else ""))
    for _, (key, n, rec, zones) in sorted(groups.items()):
        if rec["kind"] == "crash":
            o = rec["obs"]
            ctx.violation(key, "crash %s of the second segment, tail %s (zones %s; * = inside the zone; e.g. stream %s, "
                          "file cut at byte %d and %d bytes long): header + %d complete part(s) on disk, playback: %s; served ids %s "
                          "[%d crash points]" % (
                              "while writing the " + key["unit"] if key["where"] == "in_write" else "between writes",
                              key["mode"], ",".join(sorted(zones)), rec["stream"], rec["off"], rec["len"],
                              byid[rec["id"]]["parts"], symptom(o), str(o["got"])[:300], n))
        elif rec["kind"] == "faultdir":
            ctx.violation(key, "write of part %d fails after byte %d of the file (short write, then %s): playback of the directory: %s "
                          "[%d cases]" % (rec["cls"]["k"], rec["limit"], rec["cls"]["after"],
                                          [(g["status"], g["err"], len(g["exp"]), len(g["got"])) for g in rec["groups"]], n))
        elif rec["kind"] == "faultfile":
            ctx.violation(key, "write of part %d fails after byte %d of the file (short write, then %s): file %d (%d bytes) = %s + tail %s, "
                          "header duration %s ms: monitor %s is false [%d cases]" % (
                              rec["cls"]["k"], rec["limit"], rec["cls"]["after"], rec["file"], rec["len"], rec["boxes"], rec["tail"],
                              rec["hdrDurMs"], key["monitor"], n))
        elif rec["kind"] == "closed":
            ctx.violation(key, "normally closed segment %d of stream %s: monitor %s is false (header duration %s ms, fed %s)" % (
                rec["seg"], rec["stream"], key["monitor"], rec["hdrDurMs"], str(rec["fed"])[:400]))
        elif rec["kind"] == "layout":
            ctx.violation(key, "segment %d of stream %s as closed by the recorder is not a header followed by moof+mdat parts: %s" % (
                rec["seg"], rec["stream"], rec["boxes"]))
        else:
            ctx.violation(key, "run of stream %s: monitor %s is false: list %s spans %s get %s" % (
                rec["stream"], key["monitor"], rec["obs"]["listStatus"], rec["obs"]["spans"], rec["obs"]["getStatus"]))

    if nofault and not ctx.violations:
        raise vf.Infra("write faults could not be placed (%s) although no formula failed" % nofault[0]["reason"])
    if nocrash and not ctx.violations:
        raise vf.Infra("crash points could not be enumerated (%s) although no formula failed" % nocrash[0]["reason"])
    for x in nocrash:
        ctx.note("stream %s: crash points not enumerated, the recorded files are not what the model describes (%s)" % (
            x["stream"], x["reason"]))
    sigs = set()
    for x in crash:
        if x["len"] > 0:
            o = x["obs"]
            sigs.add((x["stream"], x["id"], x["pat"], symptom(o), len(o["got"])))
    ctx.set("evaluations", len(recs))
    ctx.set("distinct_nontrivial", len(sigs))
    ctx.set("rule", "one evaluation = one crash point (byte offset x tail mode x garbage pattern of a real recording, file rebuilt and "
                    "served by the real playback server in a child process) or one closed segment/run; distinct non-trivial = distinct "
                    "(stream, crash class from TLC, pattern, outcome signature) among non-empty files")
    ctx.set("crash_classes", len(cases))
    ctx.set("crash_points", len(crash))
    ctx.set("write_faults", len(fdirs))
    ctx.set("closed_segments", len([x for x in recs if x["kind"] == "closed"]))
    ctx.set("traces_validated_against_impl", len(recs))
    ctx.set("child_restarts", meta[0]["childCrashes"])
    ctx.set("drift_events", drift)
    ctx.set("exhaustive", ctx.thorough)
    for k, n in sorted(drift.items()):
        ctx.note("%d observations differ from the layer-1 reader (%s): DRIFT, not a verdict" % (n, k))
    ctx.sample({"class": cases[len(cases) // 2]})
    mid = crash[len(crash) // 2] if crash else {"stream": "", "cls": {}, "off": 0, "len": 0, "pat": 0, "obs": {}}
    ctx.sample({"crash_point": {k: mid[k] for k in ("stream", "cls", "off", "len", "pat")}, "obs": mid["obs"]})
    ctx.sample({"closed_segment": ([x for x in recs if x["kind"] == "closed"] or [None])[0]})
    ctx.assume("a crash leaves the bytes written so far in order (no block reordering); the torn write's remainder is absent, zero or stale data")
    ctx.assume("mediacommon's fMP4 parser is trusted to read back what playback serves (a plain trun walker when it rejects half-written samples)")
    ctx.assume("the last sample of each track of a run has no successor and is never written by the recorder (its duration is unknown); "
               "it is outside 'the media' of the statement")
