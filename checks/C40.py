"""C40 Concurrent operation is race-free and deadlock-free — spec/core/Channels.tla"""
import os, re
import vf

LEVEL = "model_checking"
LEVEL_TEXT = ("Channels.tla models the goroutines of the core that talk over unbuffered channels (manager loop, path loop, two-hop "
              "client operations, reload that closes a path, hot reload delivered by its own goroutine, shutdown) with every select's escape branches; TLC checks absence of "
              "deadlock and completion of every operation under weak fairness, with and without shutdown, and shows that the design "
              "deadlocks when the path-context escape is removed; a stress driver then runs the same kinds of operations "
              "concurrently on the real pathManager built with the Go race detector, and TLC validates that every recorded "
              "operation and the shutdown completed")
LEVEL_NOTE = ("data-race freedom is observed only by the race detector during the stress (the TLA+ model says nothing about memory); "
              "the stress drives the pathManager and its paths, not the protocol servers; a hang is an operation that did not "
              "return within 30 s")

CFG = """SPECIFICATION Spec
CONSTANTS
  Paths = {"p"}
  Reqs = {%s}
  ReqKind <- ReqKindDef
  WithReload = %s
  WithShutdown = %s
  EscapePathCtx = %s
  EscapePMCtx = TRUE
  CountPending = TRUE
  WithHotReload = %s
  SyncHotReload = %s
INVARIANT TypeOK
PROPERTY Completes
"""


def run(ctx):
    d = ctx.specdir()

    def cfg(name, reqs, reload, shutdown, esc, hot="FALSE", sync="FALSE"):
        with open(os.path.join(d, name), "w") as fh:
            fh.write(CFG % (reqs, reload, shutdown, esc, hot, sync))
        return name
    reqs = '"r1", "r2", "r3"'
    for (rl, sdn) in (("TRUE", "TRUE"), ("TRUE", "FALSE"), ("FALSE", "TRUE")):
        vf.mc(ctx, "ChannelsMC", cfg("Ch_%s_%s.cfg" % (rl, sdn), reqs, rl, sdn, "TRUE"), workers=4, timeout=900)
    # the design needs the escape: without it TLC must find the deadlock (self-test of the model)
    r = vf.tlc(ctx, "ChannelsMC", cfg("Ch_noescape.cfg", reqs, "TRUE", "FALSE", "FALSE"), workers=4, timeout=900, allow_violation=True)
    if r.violated != "deadlock":
        raise vf.Infra("the model without the path-context escape should deadlock (got %r)" % r.violated)
    ctx.set("design_deadlocks_without_path_ctx_escape", True)
    # hot reload (only hot-reloadable fields change): delivered by a goroutine of its own, as the code does ...
    for sdn in ("TRUE", "FALSE"):
        vf.mc(ctx, "ChannelsMC", cfg("Ch_hot_%s.cfg" % sdn, reqs, "FALSE", sdn, "TRUE", hot="TRUE"), workers=4, timeout=900)
    # ... and the design deadlocks if the manager loop makes that send itself (self-test of the model)
    r = vf.tlc(ctx, "ChannelsMC", cfg("Ch_hot_sync.cfg", reqs, "FALSE", "FALSE", "TRUE", hot="TRUE", sync="TRUE"), workers=4,
               timeout=900, allow_violation=True)
    if r.violated != "deadlock":
        raise vf.Infra("the model with a synchronous hot reload should deadlock (got %r)" % r.violated)
    ctx.set("design_deadlocks_with_synchronous_hot_reload", True)
    # the two RW locks of stream.Stream (mutex, outDescMutex): one acquisition order everywhere = no deadlock;
    # the reversed order in RTSPStream (named deviation) deadlocks in TLC
    vf.mc(ctx, "LockOrder", "LockOrder.cfg", workers=2, timeout=600)
    r = vf.tlc(ctx, "LockOrder", "LockOrder_dev.cfg", workers=2, timeout=600, allow_violation=True)
    if r.violated != "deadlock":
        raise vf.Infra("LockOrder.tla with RTSPTakesOutDescFirst should deadlock (got %r)" % r.violated)
    ctx.set("design_deadlocks_with_reversed_lock_order", True)

    # directed replays of the orders the model flags as delicate (path parked before setPathReady
    # while the manager closes it / shuts down), then the free-running stress, both under -race
    of = ctx.path("obs.ndjson")
    od = ctx.path("directed.ndjson")
    rc0, out0 = vf.gotest(ctx, "./internal/core/", "^TestVerif_C40_Directed$", out=od, race=True, timeout=900,
                          params={"REPEAT": ctx.pick(3, 20)})
    rc, out = vf.gotest(ctx, "./internal/core/", "^TestVerif_C40_Stress$", out=of, race=True, timeout=1500,
                        params={"ROUNDS": ctx.pick(8, 60), "MS": ctx.pick(500, 1500)})
    out = out0 + out
    rc = rc or rc0
    # the stream fan-out (internal/stream) is part of the statement's "publishing, reading":
    # its stress driver (owned by C17) runs here for the race detector's verdict only
    rc2, out2 = vf.gotest(ctx, "./internal/stream/", "^TestVerif_C17_Stress$", race=True, timeout=1200,
                          params={"STRESSOUT": ctx.path("stream_stress.ndjson"), "ROUNDS": ctx.pick(6, 40)})
    if rc2 != 0 and "WARNING: DATA RACE" not in out2:
        raise vf.Infra("stream stress failed (rc=%d)\n%s" % (rc2, out2[-4000:]))
    out += out2
    races = re.findall(r"WARNING: DATA RACE.*?(?:==================|\Z)", out, re.S)
    if rc != 0 and not races:
        raise vf.Infra("stress harness failed (rc=%d)\n%s" % (rc, out[-5000:]))
    for rr in races[:5]:
        fns = re.findall(r"\n\s+((?:github\.com/bluenviron/mediamtx|internal)[^\s(]*)\(", rr)
        ctx.violation({"monitor": "NoDataRace", "functions": fns[:4]}, "the Go race detector reports a data race during the stress:\n" + rr[:3000])
    if not os.path.exists(of):
        raise vf.Infra("stress harness produced no trace")
    obs = (vf.read_ndjson(od) if os.path.exists(od) else []) + vf.read_ndjson(of)
    # the lock-order rounds of the stream stress (writers that change the parameter sets against RTSPStream /
    # OutDescCopy / reader add-remove callers): same record shape, an unfinished operation is a hang
    sp = ctx.path("stream_stress.ndjson")
    if os.path.exists(sp):
        lo = [r for r in vf.read_ndjson(sp) if r.get("lockorder")]
        ctx.set("stream_lock_order_rounds", len(lo))
        obs += lo
    slim = [{"run": o["run"], "ops": o["ops"], "shutdown": o["shutdown"]} for o in obs]
    vf.write_ndjson(os.path.join(d, "C40_trace.ndjson"), slim)
    with open(os.path.join(d, "Ch_tv.cfg"), "w") as fh:
        fh.write((CFG % (reqs, "TRUE", "TRUE", "TRUE", "FALSE", "FALSE")).replace("SPECIFICATION Spec", "SPECIFICATION TraceSpec")
                 .replace("PROPERTY Completes", "INVARIANT Verdicts\nPOSTCONDITION Accepted\nCHECK_DEADLOCK FALSE"))
    tv = vf.tlc(ctx, "TraceChannels", "Ch_tv.cfg", workers=1, timeout=900, java_opts=["-Xmx8g"])
    for bad in tv.tagged("BAD"):
        o = obs[bad["l"] - 1]
        ctx.violation({"monitor": bad["monitor"], "kinds": sorted(bad["kinds"])},
                      "%s: operations %s did not finish within the watchdog (30 s core stress, 10 s stream lock-order round); goroutine dump:\n%s" % (bad["monitor"], sorted(bad["kinds"]), o.get("dump", "")[:6000]))
    nops = sum(len(o["ops"]) for o in obs)
    ctx.set("traces_validated_against_impl", len(obs))
    ctx.set("operations_recorded", nops)
    ctx.set("race_detector", "enabled")
    ctx.sample({"run": obs[0]["run"], "ops": obs[0]["ops"][:6], "shutdown": obs[0]["shutdown"]})
