"""C42 Source and destination templates substitute placeholders exactly — spec/misc/Template.tla"""
import re

import vf

LEVEL = "model_checking"
LEVEL_TEXT = ("Template.tla states the property as one left-to-right substitution pass over character sequences (longest "
              "group index first, inserted text tagged and never rescanned); TLC enumerates templates x group counts x value "
              "profiles for both sites, the real resolveSource / resolveDest answer every case and must give the spec's "
              "output wherever the statement decides it; random templates and values (also through the real "
              "staticsources.Handler run loop) are judged by TLC (TraceTemplate.tla)")
LEVEL_NOTE = ("bounded: templates of <= 3 pieces (thorough: 4) out of 13, group counts {0,1,11} (thorough {0,1,2,11}), 2-3 value profiles incl. "
              "values that look like placeholders; excluded from the verdict and counted: $G<digits> without such a group "
              "(ambiguous), placeholders the site does not document, placeholder shapes assembled across an insertion "
              "boundary; the forward destination is exercised through resolveDest only (no DestHandler.runOnce)")
TECHNIQUE = "TLC function table replayed on the real code + TLC trace validation of random records"

PKG_SRC = "./internal/staticsources/"
PKG_DST = "./internal/forward/"


_ADJ = re.compile(r"\$G[0-9]+\$(G[0-9]+|MTX_PATH|MTX_QUERY)")


def cause(tmpl, obs, l1):
    """Reporting only: names the one shape in which the chain of ReplaceAll (layer 1) is known to leave the
    statement: a value that begins with a digit is inserted directly behind a not yet replaced $G<n>, which
    then reads as a longer index ($G1$G12 with G12 = "01" -> "$G101" -> $G10 + "1")."""
    if obs == l1 and _ADJ.search(tmpl):
        return "InsertedDigitExtendsGroupIndex"
    return "none"


def run(ctx):
    import time
    t0 = time.time()
    phase = {}

    def lap(name):
        nonlocal t0
        phase[name] = round(time.time() - t0, 1)
        t0 = time.time()
    cfgs = ctx.pick(["Template_gen.cfg"], ["Template_gen3all.cfg", "Template_gen4.cfg"])
    cases = []
    seen = set()
    for cfg in cfgs:
        r = vf.mc(ctx, "Template", cfg, workers=min(vf.NCPU, 8), timeout=1500, java_opts=["-Xmx8g"])
        for c in r.tagged("CASE"):
            key = (c["site"], c["tmpl"], c["n"], tuple(c["g"]), c["path"], c["query"])
            if key in seen:
                continue
            seen.add(key)
            cases.append({"id": len(cases),
                          "in": {"site": c["site"], "tmpl": c["tmpl"], "g": c["g"], "path": c["path"], "query": c["query"]},
                          "exp": {"out": c["exp"]}, "l1": c["l1"],
                          "open": [k for k in ("amb", "undef", "straddle") if c[k]]})
    lap("tlc_gen")
    if len(cases) < 20000:
        raise vf.Infra("generator produced only %d cases" % len(cases))
    cf = vf.write_ndjson(ctx.path("cases.ndjson"), [{"id": c["id"], "in": c["in"]} for c in cases])
    o1, o2 = ctx.path("obs_src.ndjson"), ctx.path("obs_dst.ndjson")
    t1, t2 = ctx.path("trace_src.ndjson"), ctx.path("trace_dst.ndjson")
    # one go test run per package: replay of the table + random records (written to VERIF_OUT2)
    vf.gotest_ok(ctx, PKG_SRC, "^TestVerif_C42_(Replay|Trace)$", cases=cf, out=o1, env={"VERIF_OUT2": t1},
                 params={"RUNS": ctx.pick(1000, 20000), "HRUNS": ctx.pick(60, 1000)})
    vf.gotest_ok(ctx, PKG_DST, "^TestVerif_C42_(Replay|Trace)$", cases=cf, out=o2, env={"VERIF_OUT2": t2},
                 params={"RUNS": ctx.pick(1000, 20000)})
    obs = {o["id"]: o["obs"] for o in vf.read_ndjson(o1) + vf.read_ndjson(o2)}
    lap("go_replay_and_trace")
    nopen = ndrift = 0
    openkinds = {}
    bycause = {}
    for c in cases:
        o = obs.get(c["id"])
        if o is None:
            raise vf.Infra("harness produced no observation for case %d" % c["id"])
        if o["out"] != c["l1"]:
            ndrift += 1
        if c["open"]:
            nopen += 1
            for k in c["open"]:
                openkinds[k] = openkinds.get(k, 0) + 1
            continue
        if o["out"] != c["exp"]["out"]:
            cz = cause(c["in"]["tmpl"], o["out"], c["l1"])
            bycause[cz] = bycause.get(cz, 0) + 1
            ctx.violation({"in": c["in"], "exp": c["exp"]["out"], "obs": o["out"], "via": "func", "cause": cz},
                          "%s template %r with groups %s, path %r, query %r: expected %r, real code gave %r [cause: %s]" % (
                              c["in"]["site"], c["in"]["tmpl"], c["in"]["g"], c["in"]["path"], c["in"]["query"],
                              c["exp"]["out"], o["out"], cz))
    ctx.set("cases_enumerated", len(cases))
    ctx.set("cases_decided_by_statement", len(cases) - nopen)
    ctx.set("cases_excluded_ambiguous_or_undefined", nopen)
    ctx.set("excluded_by_kind", openkinds)
    ctx.set("exhaustive", True)
    dec = [c for c in cases if not c["open"] and "$" in c["in"]["tmpl"]]
    ctx.sample({"case": dec[len(dec) // 2]["in"], "exp": dec[len(dec) // 2]["exp"]["out"]})
    amb = [c for c in cases if "amb" in c["open"] and c["l1"] != c["exp"]["out"]]
    if amb:
        ctx.sample({"excluded_ambiguous": amb[len(amb) // 2]["in"], "single_pass": amb[len(amb) // 2]["exp"]["out"],
                    "real": obs[amb[len(amb) // 2]["id"]]["out"]})

    # TV: random templates / values, both sites, and through the real Handler run loop
    raw = vf.read_ndjson(t1) + vf.read_ndjson(t2)
    for x in raw:
        if ("".join(x["tmpl"]), ["".join(g) for g in x["g"]], "".join(x["path"]), "".join(x["query"]), "".join(x["out"])) != \
                (x["tmplStr"], x["gStr"], x["pathStr"], x["queryStr"], x["outStr"]):
            raise vf.Infra("harness record %s/%d: characters and strings disagree" % (x["site"], x["run"]))
    recs = [{k: x[k] for k in ("site", "tmpl", "g", "path", "query", "out")} for x in raw]
    tvopen = 0
    chunk = 20000
    for i in range(0, len(recs), chunk):
        vf.write_ndjson(ctx.specdir() + "/C42_trace.ndjson", recs[i:i + chunk])
        tv = vf.tlc(ctx, "TraceTemplate", "TraceTemplate.cfg", workers=1, timeout=1500, java_opts=["-Xmx8g"])
        for bad in tv.tagged("BAD"):
            x = raw[i + bad["l"] - 1]
            cz = cause(x["tmplStr"], x["outStr"], bad["l1"])
            bycause[cz] = bycause.get(cz, 0) + 1
            ctx.violation({"in": {"site": x["site"], "tmpl": x["tmplStr"], "g": x["gStr"], "path": x["pathStr"],
                                  "query": x["queryStr"]}, "exp": bad["exp"], "obs": x["outStr"], "via": x["via"], "cause": cz},
                          "%s template %r with groups %s, path %r, query %r: expected %r, real code gave %r (via %s) "
                          "[cause: %s]" % (x["site"], x["tmplStr"], x["gStr"], x["pathStr"], x["queryStr"], bad["exp"],
                                           x["outStr"], x["via"], cz))
        tvopen += len(tv.tagged("OPEN"))
        ndrift += len(tv.tagged("DRIFT"))
    lap("tlc_trace_validation")
    ctx.set("phase_wall_s", phase)
    ctx.set("traces_validated_against_impl", len(cases) + len(recs))
    ctx.set("trace_records", len(recs))
    ctx.set("trace_records_excluded", tvopen)
    ctx.set("trace_records_via_handler", sum(1 for x in raw if x["via"] == "handler"))
    ctx.set("drift_events", ndrift)
    ctx.set("violations_by_cause", bycause)
    if ndrift:
        ctx.note("%d observations differ from layer 1 (chain of ReplaceAll) — DRIFT, not a verdict" % ndrift)
    ctx.sample({"trace_record": {k: raw[0][k] for k in ("site", "tmplStr", "gStr", "pathStr", "queryStr", "outStr")}})
    ctx.assume("capture groups and path names contain no '$' (conf.IsValidPathName); only the query may")
    ctx.assume("placeholder sets per site are taken from mediamtx.yml: source = $G<n>, $MTX_QUERY; forward = $MTX_PATH, $G<n>")
