"""C42 Source and destination templates substitute placeholders exactly — spec/misc/Template.tla"""
import re

import vf

LEVEL = "model_checking"
LEVEL_TEXT = ("Template.tla states the property as one left-to-right substitution pass over character sequences (longest "
              "group index first, inserted text tagged and never rescanned); TLC enumerates templates x group counts x value "
              "profiles for both sites, the real resolveSource / resolveDest answer every case and must give the spec's "
              "output wherever the statement decides it; random templates and values (also through the real "
              "staticsources.Handler run loop) are judged by TLC (TraceTemplate.tla); life-cycle stage: every operation "
              "sequence of TemplateLife.tla (Start(query) / Stop / ReloadConf(template) / instance failure / retry) and random "
              "ones are replayed on a real staticsources.Handler with an injected source instance, and TLC demands that "
              "every Run received the substitution of the template in force with the query of THAT start")
LEVEL_NOTE = ("bounded: templates of <= 3 pieces (thorough: 4) out of 13, group counts {1,11} (thorough {0,1,2,11}; no groups = nil matches also in the random runs), 2-3 value profiles incl. "
              "values that look like placeholders; excluded from the verdict and counted: $G<digits> without such a group "
              "(ambiguous), placeholders the site does not document, placeholder shapes assembled across an insertion "
              "boundary; life-cycle scripts: 4 operations / 1 failure (thorough 6 / 2), 3 templates x 3 queries, plus random "
              "scripts; capture groups are fixed for the life of a handler (the path is recreated when they change); the "
              "forward destination is exercised through resolveDest only: DestHandler.runOnce recomputes it on every run "
              "from fields that never change during the handler's life (Conf.Dest, PathName, Matches), nothing is cached")
TECHNIQUE = "TLC function table replayed on the real code + TLC trace validation of random records"

PKG_SRC = "./internal/staticsources/"
PKG_DST = "./internal/forward/"


_ADJ = re.compile(r"\$G[0-9]+\$(G[0-9]+|MTX_PATH|MTX_QUERY)")


def cause(tmpl, obs, l1):
    """Reporting only: names the one shape in which the chain of ReplaceAll (layer 1) is known to leave the
    statement: a value that begins with a digit is inserted directly behind a not yet replaced $G<n>, which
    then reads as a longer index ($G1$G12 with G12 = "01" -> "$G101" -> $G10 + "1")."""
    if obs == l1 and _ADJ.search(tmpl):
        return "InsertedDigitExtendsGroupIndex"
    return "none"


def run(ctx):
    import time
    t0 = time.time()
    phase = {}

    def lap(name):
        nonlocal t0
        phase[name] = round(time.time() - t0, 1)
        t0 = time.time()
    # life-cycle scripts for the real Handler: generated in a second TLC run that overlaps with the table run
    import threading
    ctx.specdir()
    lifebox = {}

    def gen_life():
        try:
            lifebox["r"] = vf.mc(ctx, "TemplateLife", ctx.pick("TemplateLife_q.cfg", "TemplateLife_t.cfg"),
                                 workers=min(vf.NCPU, 4), timeout=1500, java_opts=["-Xmx8g"])
        except BaseException as e:  # re-raised in the main thread
            lifebox["err"] = e
    th = threading.Thread(target=gen_life)
    th.start()

    cfgs = ctx.pick(["Template_gen.cfg"], ["Template_gen3all.cfg", "Template_gen4.cfg"])
    cases = []
    seen = set()
    try:
        for cfg in cfgs:
            r = vf.mc(ctx, "Template", cfg, workers=min(vf.NCPU, 8), timeout=1500, java_opts=["-Xmx8g"])
            for c in r.tagged("CASE"):
                key = (c["site"], c["tmpl"], c["n"], tuple(c["g"]), c["path"], c["query"])
                if key in seen:
                    continue
                seen.add(key)
                cases.append({"id": len(cases),
                              "in": {"site": c["site"], "tmpl": c["tmpl"], "g": c["g"], "path": c["path"], "query": c["query"]},
                              "exp": {"out": c["exp"]}, "l1": c["l1"],
                              "open": [k for k in ("amb", "undef", "straddle") if c[k]]})
    except BaseException:
        th.join()
        raise
    lap("tlc_gen_table")
    if len(cases) < 15000:
        th.join()
        raise vf.Infra("generator produced only %d cases" % len(cases))
    cf = vf.write_ndjson(ctx.path("cases.ndjson"), [{"id": c["id"], "in": c["in"]} for c in cases])
    o1, o2 = ctx.path("obs_src.ndjson"), ctx.path("obs_dst.ndjson")
    t1, t2 = ctx.path("trace_src.ndjson"), ctx.path("trace_dst.ndjson")
    # one go test run per package: replay of the table + random records (written to VERIF_OUT2)
    try:
        vf.gotest_ok(ctx, PKG_DST, "^TestVerif_C42_(Replay|Trace)$", cases=cf, out=o2, env={"VERIF_OUT2": t2},
                     params={"RUNS": ctx.pick(800, 20000)})
    finally:
        th.join()
    lap("go_forward")
    if "err" in lifebox:
        raise lifebox["err"]
    scripts = [dict(x, id=i) for i, x in enumerate(lifebox["r"].tagged("SCRIPT"))]
    if len(scripts) < 1000:
        raise vf.Infra("life-cycle generator produced only %d scripts" % len(scripts))
    lf = vf.write_ndjson(ctx.path("life_scripts.ndjson"),
                         [{k: x[k] for k in ("id", "t0", "g", "path", "ops")} for x in scripts])
    t3 = ctx.path("trace_life.ndjson")
    # + life-cycle scripts on the real Handler (VERIF_LIFE -> VERIF_OUT3; every retry waits the handler's 5 s pause)
    vf.gotest_ok(ctx, PKG_SRC, "^TestVerif_C42_(Replay|Trace|Life)$", cases=cf, out=o1,
                 env={"VERIF_OUT2": t1, "VERIF_LIFE": lf, "VERIF_OUT3": t3},
                 params={"RUNS": ctx.pick(800, 20000), "HRUNS": ctx.pick(40, 1000),
                         "RLIFE": ctx.pick(150, 3000), "RFAILS": ctx.pick(1, 2)})
    obs = {o["id"]: o["obs"] for o in vf.read_ndjson(o1) + vf.read_ndjson(o2)}
    lap("go_staticsources_with_life")
    nopen = ndrift = 0
    openkinds = {}
    bycause = {}
    for c in cases:
        o = obs.get(c["id"])
        if o is None:
            raise vf.Infra("harness produced no observation for case %d" % c["id"])
        if o["out"] != c["l1"]:
            ndrift += 1
        if c["open"]:
            nopen += 1
            for k in c["open"]:
                openkinds[k] = openkinds.get(k, 0) + 1
            continue
        if o["out"] != c["exp"]["out"]:
            cz = cause(c["in"]["tmpl"], o["out"], c["l1"])
            bycause[cz] = bycause.get(cz, 0) + 1
            ctx.violation({"in": c["in"], "exp": c["exp"]["out"], "obs": o["out"], "via": "func", "cause": cz},
                          "%s template %r with groups %s, path %r, query %r: expected %r, real code gave %r [cause: %s]" % (
                              c["in"]["site"], c["in"]["tmpl"], c["in"]["g"], c["in"]["path"], c["in"]["query"],
                              c["exp"]["out"], o["out"], cz))
    ctx.set("cases_enumerated", len(cases))
    ctx.set("cases_decided_by_statement", len(cases) - nopen)
    ctx.set("cases_excluded_ambiguous_or_undefined", nopen)
    ctx.set("excluded_by_kind", openkinds)
    ctx.set("exhaustive", True)
    dec = [c for c in cases if not c["open"] and "$" in c["in"]["tmpl"]]
    ctx.sample({"case": dec[len(dec) // 2]["in"], "exp": dec[len(dec) // 2]["exp"]["out"]})
    amb = [c for c in cases if "amb" in c["open"] and c["l1"] != c["exp"]["out"]]
    if amb:
        ctx.sample({"excluded_ambiguous": amb[len(amb) // 2]["in"], "single_pass": amb[len(amb) // 2]["exp"]["out"],
                    "real": obs[amb[len(amb) // 2]["id"]]["out"]})

    # life-cycle stage, scripts of the bounded model: TLC's table says what every run has to receive
    life = vf.read_ndjson(t3)
    byid = {x["id"]: x for x in life}
    nlife_runs = 0

    def life_violation(x, run, tmpl, query, exp, got, l1):
        cz = cause(tmpl, got, l1)
        bycause[cz] = bycause.get(cz, 0) + 1
        ops = " ".join(o["k"] + ("(%r)" % o["v"] if o["k"] in ("Start", "Reload") else "") for o in x["ops"])
        ctx.violation({"in": {"site": "source", "t0": x["t0"], "g": x["g"] or [], "path": x["path"], "ops": x["ops"]},
                       "run": run, "exp": exp, "obs": got, "via": "handler-life", "cause": cz},
                      "staticsources.Handler (template %r, groups %s) driven through %s: run %d of the source instance%s: "
                      "expected %r, the instance received %r [cause: %s]" % (
                          x["t0"], x["g"] or [], ops, run,
                          "" if tmpl is None else " has to be resolved from template %r and the query %r of its start" % (tmpl, query),
                          exp, got, cz))

    for sc in scripts:
        x = byid.get(sc["id"])
        if x is None:
            raise vf.Infra("harness replayed no life-cycle script %d" % sc["id"])
        if len(x["runs"]) != len(sc["exp"]):
            raise vf.Infra("life-cycle script %d %s: %d runs observed, %d expected" % (
                sc["id"], sc["ops"], len(x["runs"]), len(sc["exp"])))
        for k, (r, e) in enumerate(zip(x["runs"], sc["exp"])):
            nlife_runs += 1
            if r["resolved"] != e["l1"]:
                ndrift += 1
            if not e["open"] and r["resolved"] != e["out"]:
                life_violation(x, k + 1, None, None, e["out"], r["resolved"], e["l1"])
    ctx.set("life_scripts_from_tlc", len(scripts))
    ctx.set("life_scripts_random", len(life) - len(scripts))
    mid = scripts[len(scripts) // 2]
    ctx.sample({"life_script": {"t0": mid["t0"], "ops": mid["ops"]},
                "runs_received": [r["resolved"] for r in byid[mid["id"]]["runs"]]})

    # TV: random templates / values, both sites, and through the real Handler run loop
    raw = vf.read_ndjson(t1) + vf.read_ndjson(t2)
    for x in raw:
        if ("".join(x["tmpl"]), ["".join(g) for g in x["g"]], "".join(x["path"]), "".join(x["query"]), "".join(x["out"])) != \
                (x["tmplStr"], x["gStr"], x["pathStr"], x["queryStr"], x["outStr"]):
            raise vf.Infra("harness record %s/%d: characters and strings disagree" % (x["site"], x["run"]))
    recs = [dict({k: x[k] for k in ("site", "tmpl", "g", "path", "query", "out")}, kind="func") for x in raw]
    ch = list
    for x in life:
        if x["src"] != "random":
            continue            # judged above against TLC's table
        nlife_runs += len(x["runs"])
        raw.append(x)
        recs.append({"kind": "life", "t0": ch(x["t0"]), "g": [ch(v) for v in (x["g"] or [])], "path": ch(x["path"]),
                     "ops": [{"k": o["k"], "v": ch(o["v"])} for o in x["ops"]],
                     "runs": [{"resolved": ch(r["resolved"]), "conf": ch(r["conf"])} for r in x["runs"]]})
    tvopen = 0
    chunk = 20000
    for i in range(0, len(recs), chunk):
        vf.write_ndjson(ctx.specdir() + "/C42_trace.ndjson", recs[i:i + chunk])
        tv = vf.tlc(ctx, "TraceTemplate", "TraceTemplate.cfg", workers=1, timeout=1500, java_opts=["-Xmx8g"])
        if tv.tagged("MISCOUNT"):
            m = tv.tagged("MISCOUNT")[0]
            raise vf.Infra("life-cycle script %s: %d runs observed, the fold of its operations has %d" % (
                raw[i + m["l"] - 1]["ops"], m["got"], m["want"]))
        for bad in tv.tagged("BAD"):
            x = raw[i + bad["l"] - 1]
            if "run" in bad:
                life_violation(x, bad["run"], bad["tmpl"], bad["query"], bad["exp"],
                               x["runs"][bad["run"] - 1]["resolved"], bad["l1"])
                continue
            cz = cause(x["tmplStr"], x["outStr"], bad["l1"])
            bycause[cz] = bycause.get(cz, 0) + 1
            ctx.violation({"in": {"site": x["site"], "tmpl": x["tmplStr"], "g": x["gStr"], "path": x["pathStr"],
                                  "query": x["queryStr"]}, "exp": bad["exp"], "obs": x["outStr"], "via": x["via"], "cause": cz},
                          "%s template %r with groups %s, path %r, query %r: expected %r, real code gave %r (via %s) "
                          "[cause: %s]" % (x["site"], x["tmplStr"], x["gStr"], x["pathStr"], x["queryStr"], bad["exp"],
                                           x["outStr"], x["via"], cz))
        tvopen += len(tv.tagged("OPEN"))
        ndrift += len(tv.tagged("DRIFT"))
    lap("tlc_trace_validation")
    ctx.set("phase_wall_s", phase)
    ctx.set("traces_validated_against_impl", len(cases) + len(recs) + len(scripts))
    ctx.set("life_runs_judged", nlife_runs)
    ctx.set("trace_records", len(recs))
    ctx.set("trace_records_excluded", tvopen)
    ctx.set("trace_records_via_handler", sum(1 for x in raw if x.get("via") == "handler"))
    ctx.set("drift_events", ndrift)
    ctx.set("violations_by_cause", bycause)
    if ndrift:
        ctx.note("%d observations differ from layer 1 (chain of ReplaceAll) — DRIFT, not a verdict" % ndrift)
    ctx.assume("the capture groups of a handler do not change during its life (core recreates the path when they do); "
               "'template in force' = the source of the last configuration the handler was given before the instance was "
               "(re)created")
    ctx.sample({"trace_record": {k: raw[0][k] for k in ("site", "tmplStr", "gStr", "pathStr", "queryStr", "outStr")}})
    ctx.assume("capture groups and path names contain no '$' (conf.IsValidPathName); only the query may")
    ctx.assume("placeholder sets per site are taken from mediamtx.yml: source = $G<n>, $MTX_QUERY; forward = $MTX_PATH, $G<n>")
