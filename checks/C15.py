"""C15 Live paths reconcile with configuration after reloads — spec/core/PathManager.tla"""
import json, os, re
import vf, walk

LEVEL = "model_checking"
LEVEL_TEXT = ("PathManager.tla transcribes doReloadConf with the `go pa.reloadConf` goroutines as separate Deliver steps; TLC "
              "explores every pair of reloads over 225 configuration maps with every delivery order and reports where the "
              "design leaves a path with a stale configuration or stale capture groups; those counterexamples and seeded "
              "random behaviours are replayed on the real pathManager (delivery order forced with the verif gate hook) and "
              "TLC evaluates the statement on the observed configuration map and live paths at every quiescent point")
LEVEL_NOTE = ("3 names, one static and three regex configurations with one hot and one cold field each; quiescence is observed "
              "as 'no goroutine waiting at the reloadConf gate after a settle period'")

CONSTS = """CONSTANTS
  Names = {"cam", "cam1", "dog"}
  StaticKey = "cam"
  RegexOrder <- RegexOrderDef
  Match <- MatchDef
  Hot = {0, 1}
  Cold = {0, 1}
  HotKeys = {%s}
  InitKeys = {"cam", "R1"}
  MaxReloads = %d
  MaxInc = %d
  SimDepth = %d
"""


def hist_from_error_trace(out):
    """the `hist` variable of the last state of a TLC error trace -> list of actions"""
    i = out.rfind("/\\ hist = ")
    if i < 0:
        return None
    j = out.find("\n/\\ ", i + 5)
    txt = out[i + len("/\\ hist = "):j if j > 0 else None]
    txt = txt.split("\n\n")[0]
    return walk.parse_value(txt)


def run(ctx):
    d = ctx.specdir()
    reloads = 2
    # quick: the hot value varies for one key only (135 configuration maps instead of 225)
    hotkeys = ctx.pick('"R1"', '"cam", "R1"')

    def cfg(name, body, r=reloads, inc=6, depth=12, spec="Spec"):
        with open(os.path.join(d, name), "w") as fh:
            fh.write("SPECIFICATION %s\n" % spec + CONSTS % (hotkeys, r, inc, depth) + body + "\nCHECK_DEADLOCK FALSE\n")
        return name

    # 1. MC: the parts of the statement the design guarantees ...
    vf.mc(ctx, "PathManagerMC", cfg("PM_mc.cfg", "INVARIANTS InvStatic InvResolves\nVIEW View"), workers=vf.NCPU, timeout=1200)
    # ... and the parts it does not: every design-level counterexample becomes a replay script
    scripts = []
    design = {}
    for inv, kind in (("InvConf", "INVARIANT"), ("InvGroups", "INVARIANT"), ("KeptProp", "PROPERTY")):
        r = vf.tlc(ctx, "PathManagerMC", cfg("PM_%s.cfg" % inv, "%s %s\nVIEW View" % (kind, inv)), workers=vf.NCPU,
                   timeout=1200, allow_violation=True)
        design[inv] = bool(r.violated)
        if r.violated:
            h = hist_from_error_trace(r.out)
            if h:
                scripts.append({"run": len(scripts), "src": "design-counterexample:" + inv, "h": h})
    ctx.set("design_level_counterexamples", design)
    if ctx.thorough:
        # the composition of the configuration plane with the path loop (spec/MTX.tla): cross-module
        # invariants (a closed incarnation's publisher is closed, no hooks or stream on a dead name)
        vf.mc(ctx, "MTX", "MTX.cfg", workers=vf.NCPU, timeout=1500)

    # directed behaviours: two live paths of one regex configuration move together to another one and
    # disagree on whether they can be kept (same capture group for "cam", a different one for "cam1");
    # repeated because the manager visits its paths in map order
    A = {"hot": -1, "cold": -1}
    on = {"hot": 0, "cold": 0}
    for rep in range(ctx.pick(8, 40)):
        for first, second in (("cam", "cam1"), ("cam1", "cam")):
            h = [{"a": "Reload", "cm": {"cam": A, "R1": on, "R2": A, "AO": A}, "name": "", "rl": 1},
                 {"a": "Request", "cm": {}, "name": first, "rl": 0},
                 {"a": "Request", "cm": {}, "name": second, "rl": 0},
                 {"a": "Reload", "cm": {"cam": A, "R1": A, "R2": on, "AO": A}, "name": "", "rl": 2},
                 {"a": "Deliver", "cm": {}, "name": "cam", "rl": 2}]
            scripts.append({"run": len(scripts), "src": "directed:two-paths-rehomed-together", "h": h})

    # directed: a name that lives under a regular-expression configuration without capture groups is re-homed to
    # a newly added static configuration of that name; then its publisher leaves: the path of a static
    # configuration must stay (and, the other way round, a path re-homed from static to regex goes away when idle)
    for rep in range(ctx.pick(2, 6)):
        for hot in (0, 1):
            ao1 = {"hot": 0, "cold": 1}
            st = {"hot": hot, "cold": 1}
            # the static path is closed (cold value differs), "cam" is then created by a request under all_others,
            # the static configuration comes back with the same cold value: the live path is re-homed to it
            h = [{"a": "Reload", "cm": {"cam": A, "R1": A, "R2": A, "AO": ao1}, "name": "", "rl": 1},
                 {"a": "Request", "cm": {}, "name": "cam", "rl": 0},
                 {"a": "Reload", "cm": {"cam": st, "R1": A, "R2": A, "AO": ao1}, "name": "", "rl": 2},
                 {"a": "Deliver", "cm": {}, "name": "cam", "rl": 2},
                 {"a": "Release", "cm": {}, "name": "cam", "rl": 0}]
            scripts.append({"run": len(scripts), "src": "directed:regex-to-static-then-idle", "h": h})
            # the other way round: the static path is re-homed to all_others, gets a publisher, loses it
            h = [{"a": "Reload", "cm": {"cam": A, "R1": A, "R2": A, "AO": on}, "name": "", "rl": 1},
                 {"a": "Deliver", "cm": {}, "name": "cam", "rl": 1},
                 {"a": "Request", "cm": {}, "name": "cam", "rl": 0},
                 {"a": "Release", "cm": {}, "name": "cam", "rl": 0},
                 {"a": "Request", "cm": {}, "name": "dog", "rl": 0},
                 {"a": "Release", "cm": {}, "name": "dog", "rl": 0}]
            scripts.append({"run": len(scripts), "src": "directed:static-to-regex-then-idle", "h": h})

    # 2. GEN: seeded random behaviours (the state graph has too many edges to cover in a quick run)
    nsim = ctx.pick(300, 4000)
    r = vf.tlc(ctx, "PathManagerMC", cfg("PM_sim.cfg", "INVARIANT EmitRun", r=4, inc=9, depth=12), workers=1, timeout=900,
               simulate="num=%d" % nsim, depth=12, extra=["-seed", str(ctx.seed)])
    for x in r.tagged("RUN"):
        scripts.append({"run": len(scripts), "src": "simulate", "h": x["h"]})
    if len(scripts) < nsim // 2:
        raise vf.Infra("only %d behaviours generated" % len(scripts))

    # 3. REPLAY
    cases = vf.write_ndjson(ctx.path("scripts.ndjson"), scripts)
    obsf = ctx.path("obs.ndjson")
    vf.gotest_ok(ctx, "./internal/core/", "^TestVerif_C15_Replay$", cases=cases, out=obsf, timeout=1500)
    obs = vf.read_ndjson(obsf)
    if len(obs) != len(scripts):
        raise vf.Infra("harness replayed %d of %d behaviours" % (len(obs), len(scripts)))
    for o, s in zip(obs, scripts):
        o["src"] = s["src"]

    # 4. TV
    vf.write_ndjson(os.path.join(d, "C15_trace.ndjson"), obs)
    tv = vf.tlc(ctx, "TracePathManager", cfg("PM_tv.cfg", "INVARIANT Verdicts\nPOSTCONDITION Accepted", spec="TraceSpec"),
                workers=1, timeout=1500, java_opts=["-Xmx8g"])
    for bad in tv.tagged("BAD"):
        o = obs[bad["l"] - 1]
        acts = [(s["act"]["a"], s["act"].get("name", ""), s["act"].get("rl", 0)) for s in o["steps"]]
        rec = {"monitor": bad["monitor"], "detail": bad["detail"], "src": o["src"]}
        i = bad["detail"]["step"]
        ctx.violation(rec, "C15 %s fails on the real pathManager at step %d of %s; step: %s" % (
            bad["monitor"], i, acts, json.dumps(o["steps"][i - 1])[:1500]))
    undelivered = sum(1 for o in obs for s in o["steps"] if s["act"]["a"] == "Deliver" and not s["done"])
    ctx.set("traces_validated_against_impl", len(obs))
    ctx.set("steps_replayed", sum(len(o["steps"]) for o in obs))
    ctx.set("deliver_steps_without_goroutine_at_gate", undelivered)
    if undelivered:
        ctx.note("%d Deliver steps found no goroutine at the gate (DRIFT, not a verdict)" % undelivered)
    ctx.sample({"src": obs[0]["src"], "steps": obs[0]["steps"][:3]})
    ctx.assume("Go's regexp is the ground truth for the capture-group table (cross-checked by the harness)")
