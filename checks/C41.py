"""C41 TLS fingerprint pinning accepts exactly the pinned certificate — spec/http/TLSPin.tla"""
import json
import time
import vf

LEVEL = "model_checking"
LEVEL_TEXT = ("TLSPin.tla states the pinning rule over certificate/fingerprint tokens (six served certificates: CA-signed "
              "valid, self-signed, expired, wrong host; fingerprints in lower/upper/mixed case, of another certificate, "
              "of the CA, truncated, extended, with colons, with a blank, garbage, empty) and transcribes MakeConfig; "
              "TLC checks layer 1 against the statement and emits every case; each case is a real TLS 1.2 / 1.3 "
              "handshake made with tls.MakeConfig directly, through net/http, and through auth.Manager (auth server, "
              "JWKS); sequence cases (pairs and triples of connections in one process to the same server, application data "
              "exchanged so that TLS sessions could be resumed; pins: matching, other letter case, other certificate, none) "
              "and sequences on ONE reused tls.Config / http.Client / auth.Manager while the server swaps in forged look-alike "
              "certificates are judged connection by connection with the same formula (history independence); TLC evaluates the "
              "statement on every observed connection")
LEVEL_NOTE = ("the statement is 'succeeds only if': a failing connection with a matching pin is DRIFT, not a verdict; SHA-256 "
              "and the TLS stack are trusted; the harness process trusts only the harness CA (SSL_CERT_FILE) so that a "
              "'valid chain' exists; sources/forwarding use the same MakeConfig and are not driven separately")
TECHNIQUE = "TLA+ model (TLC): exhaustive bounded MC + generated cases replayed on the real code + trace validation"

CFG = """SPECIFICATION Spec
CONSTANTS
  Vias = {"dial", "httpget", "authhttp", "jwks"}
INVARIANT ImplSatisfiesProp
INVARIANT ImplExact
INVARIANT EmitCases
CHECK_DEADLOCK FALSE
"""

TCFG = """SPECIFICATION TraceSpec
CONSTANTS
  Vias = {}
INVARIANTS Verdicts Harness Drift
POSTCONDITION Accepted
CHECK_DEADLOCK FALSE
"""


def run(ctx):
    d = ctx.specdir()
    phases = {}
    t0 = time.time()
    with open(d + "/TLSPin_gen.cfg", "w") as fh:
        fh.write(CFG)
    r = vf.mc(ctx, "TLSPin", "TLSPin_gen.cfg", workers=4, timeout=600)
    cases = sorted(r.tagged("CASE"), key=lambda x: json.dumps(x["c"], sort_keys=True))
    if len(cases) < 1000:
        raise vf.Infra("generator produced only %d cases" % len(cases))
    phases["tlc_mc_gen"] = round(time.time() - t0, 1)
    t0 = time.time()
    for i, x in enumerate(cases):
        x["id"] = i
    recs = []
    for pkg, test, vias in (("./internal/protocols/tls/", "^TestVerif_C41_Handshake$", ("dial", "httpget")),
                            ("./internal/auth/", "^TestVerif_C41_Auth$", ("authhttp", "jwks"))):
        part = [{"id": x["id"], "c": x["c"]} for x in cases if x["c"]["via"] in vias]
        cf = vf.write_ndjson(ctx.path("cases_%s.ndjson" % vias[0]), part)
        of = ctx.path("obs_%s.ndjson" % vias[0])
        vf.gotest_ok(ctx, pkg, test, cases=cf, out=of)
        got = vf.read_ndjson(of)
        if len(got) != len(part):
            raise vf.Infra("harness %s replayed %d of %d cases" % (test, len(got), len(part)))
        recs += got
    phases["go_replay"] = round(time.time() - t0, 1)
    t0 = time.time()

    with open(d + "/TraceTLSPin.cfg", "w") as fh:
        fh.write(TCFG)
    vf.write_ndjson(d + "/C41_trace.ndjson", recs)
    tv = vf.tlc(ctx, "TraceTLSPin", "TraceTLSPin.cfg", workers=1, timeout=900, java_opts=["-Xmx4g"])
    if tv.tagged("HARNESS"):
        rec = recs[tv.tagged("HARNESS")[0]["l"] - 1]
        raise vf.Infra("harness fingerprint text disagrees with the token table: %s" % json.dumps(rec)[:400])
    bads = tv.tagged("BAD")
    if len(bads) > 40:
        ctx.note("%d connections violate the statement (first 40 reported)" % len(bads))
    for bad in bads[:40]:
        rec = recs[bad["l"] - 1]
        c = rec["c"]
        step = bad.get("step", 0)
        o = rec["steps"][step - 1] if step else rec
        if "certs" in c:        # one reused configuration, the server changed its certificate
            fp = c["fp"]
            served = c["certs"][step - 1]
            earlier = ["server presented " + x for x in c["certs"][:step - 1]]
        else:
            fp = c["steps"][step - 1] if step else c["fp"]
            served = c["served"]
            earlier = ["%s of %s" % (f["form"], f["of"] or "-") for f in c["steps"][:step - 1]] if step else []
        c = dict(c, served=served)
        ctx.violation({"via": c["via"], "served": c["served"], "tls": c["ver"], "fp_of": fp["of"],
                       "fp_form": fp["form"], "success": o["success"], "step": step, "earlier_pins": earlier,
                       "resumed": o.get("resumed")},
                      "connection via %s to a server presenting %s (%s) SUCCEEDED with fingerprint %r (%s of %s), which is not "
                      "the SHA-256 of the served leaf certificate%s" % (
                          c["via"], c["served"], c["ver"], o["fptext"], fp["form"], fp["of"],
                          (" - connection %d of a sequence in one process to the same server%s, earlier: %s, TLS session "
                           "resumed: %s" % (step, " on ONE reused configuration" if "certs" in rec["c"] else "", earlier,
                                            o.get("resumed"))) if step else ""))
    drift = {}
    for dr in tv.tagged("DRIFT"):
        c = recs[dr["l"] - 1]["c"]
        step = dr.get("step", 0)
        if "certs" in c:
            k = "%s/%s/%s/swap" % (c["via"], c["certs"][step - 1], c["fp"]["form"])
        else:
            fp = c["steps"][step - 1] if step else c["fp"]
            k = "%s/%s/%s%s" % (c["via"], c["served"], fp["form"], "/seq" if step else "")
        drift[k] = drift.get(k, 0) + 1
    phases["tlc_trace_validation"] = round(time.time() - t0, 1)
    # one entry per connection: (case, fingerprint token, observation)
    conns = []
    for x in recs:
        if "certs" in x["c"]:
            conns += [(dict(x["c"], served=x["c"]["certs"][i]), x["c"]["fp"], o) for i, o in enumerate(x["steps"])]
        elif "steps" in x:
            conns += [(x["c"], x["c"]["steps"][i], o) for i, o in enumerate(x["steps"])]
        else:
            conns.append((x["c"], x["c"]["fp"], x))
    ctx.set("cases_enumerated", len(cases))
    ctx.set("exhaustive", True)
    ctx.set("traces_validated_against_impl", len(recs))
    ctx.set("connections_judged", len(conns))
    ctx.set("sequence_cases", sum(1 for x in recs if "steps" in x))
    ctx.set("reused_configuration_sequences", sum(1 for x in recs if "certs" in x["c"]))
    ctx.set("sequence_connections_after_a_successful_one",
            sum(1 for x in recs if "steps" in x for i, o in enumerate(x["steps"]) if any(p["success"] for p in x["steps"][:i])))
    ctx.set("connections_resumed_tls_session", sum(1 for _, _, o in conns if o.get("resumed")))
    ctx.set("connections_succeeded", sum(1 for _, _, o in conns if o["success"]))
    ctx.set("connections_succeeded_with_invalid_chain",
            sum(1 for c, _, o in conns if o["success"] and c["served"] not in ("Avalid", "Bvalid")))
    ctx.set("connections_refused_with_valid_chain",
            sum(1 for c, f, o in conns if not o["success"] and c["served"] in ("Avalid", "Bvalid") and f["form"] != "empty"))
    ctx.set("drift_events", sum(drift.values()))
    ctx.set("phase_wall_s", phases)
    if drift:
        ctx.note("connections whose outcome differs from layer 1 without violating the statement (DRIFT): %s"
                 % json.dumps(drift)[:1500])
    for x in recs:
        if "steps" not in x and x["success"] and x["c"]["served"] == "Aexpired" and x["c"]["via"] == "authhttp":
            ctx.sample({k: x[k] for k in ("c", "success", "fptext")})
            break
    for x in recs:
        if "steps" not in x and not x["success"] and x["c"]["served"] == "Bvalid" and x["c"]["fp"]["of"] == "Avalid":
            ctx.sample({k: x[k] for k in ("c", "success", "fptext", "err")})
            break
    for x in recs:
        if "steps" in x and "certs" not in x["c"] and len(x["steps"]) == 3 and x["steps"][0]["success"] and x["c"]["ver"] == "tls13":
            ctx.sample({"sequence": x["c"], "success": [o["success"] for o in x["steps"]],
                        "resumed": [o.get("resumed") for o in x["steps"]]})
            break
    ctx.assume("SHA-256 is collision free on the harness certificates; crypto/tls delivers the peer's leaf as PeerCertificates[0]")
    ctx.assume("the harness process trusts exactly the harness CA (SSL_CERT_FILE/SSL_CERT_DIR set before the first verification)")
