"""C04 Administrative HTTP endpoints enforce their permission — spec/auth/AdminAuth.tla"""
import datetime
import json
import os
import random
import threading
import time
import urllib.parse

import yaml

import vf

LEVEL = "model_checking"
LEVEL_TEXT = ("AdminAuth.tla holds the route table of the four administrative listeners (cross-checked at run time with the "
              "routers' own route lists and the OpenAPI files), the credential placements, forwarded addresses and "
              "permission sets; admission is C01's statement formula (AuthInternal.tla), not the code's answer. TLC proves "
              "the code-shaped layer satisfies the statement on every request shape and enumerates the settings; every "
              "(route, target) x setting is sent as a real HTTP request to the real api.API / metrics.Metrics / pprof.PPROF / "
              "playback.Server, each with the real auth.Manager; TLC evaluates the statement on every observed "
              "(status, body class, canary leak, state changed) record")
LEVEL_NOTE = ("bounded: 13 user lists x trusted proxy on/off, 8 credential placements, 4 forwarded addresses; quick tier "
              "samples settings per route; status clause left open for non-canonical URLs (router redirects), unknown "
              "URLs / wrong methods on the playback listener and playback requests without a valid path name (requests with a valid name and unacceptable other parameters, or a valid name that no path configuration matches, are judged in full) "
              "(no data / no state change is still demanded); parents and protocol servers are stubs")
TECHNIQUE = "TLA+ model (TLC): exhaustive bounded MC + generated cases replayed on the real servers + trace validation"

PKGS = ["./internal/api/", "./internal/metrics/", "./internal/pprof/", "./internal/playback/"]
SVCS = ["api", "metrics", "pprof", "playback"]
CANARY = "vfCANARY"
CANARY_ID = "11111111-2222-4333-8444-555555555555"

AUTHZ = {
    "none": None,
    "basic_ok": "Basic YWxpY2U6cHc=",          # alice:pw
    "basic_badpass": "Basic YWxpY2U6YmFk",     # alice:bad
    "basic_baduser": "Basic Ym9iOnB3",         # bob:pw
    "bearer_ok": "Bearer alice:pw",
    "bearer_bad": "Bearer alice:bad",
    "bearer_tok": "Bearer eyJhbGciOiJub25lIn0.e30.",
    "query": None,
}


def _segment_start():
    # the instant the harness's segment file name denotes (local time of this machine)
    return datetime.datetime(2008, 11, 7, 11, 22, 0, 500000).astimezone().isoformat()


def _concretize(cid, route, tg, setting, pp):
    """abstract case -> HTTP request"""
    marker = "vfc%dx" % cid
    pat, kind, mut = route["pat"], route["kind"], route["mut"]
    q = []
    body = ""
    name = marker if mut else (CANARY + "rec" if "/recordings/" in pat else CANARY + "cam")
    uid = "00000000-0000-4000-8000-%012d" % cid if mut else CANARY_ID
    if tg == "tsr":
        if kind == "name":
            path = pat[:-len("/*name")]
        elif pat.endswith("/"):
            path = pat[:-1]
        else:
            path = pat.replace(":id", uid) + "/"
    else:
        path = pat.replace("*name", name).replace(":id", uid)
    if kind == "query":
        if pat == "/v3/paths/forward/list":
            q.append(("path", CANARY + "cam"))
        elif pat == "/v3/paths/forward/get":
            q += [("path", CANARY + "cam"), ("id", CANARY_ID)]
        elif pat == "/v3/recordings/deletesegment":
            q += [("path", marker), ("start", _segment_start())]
        elif route["svc"] == "playback":
            if pp != "none":
                q.append(("path", {"cam1": "cam1", "other": "other", "cam1bad": "cam1", "unconf": "nocam", "inv": "cam1/"}[pp]))
            if pp == "cam1bad":
                # a valid, configured path name and another parameter that is not acceptable
                if pat == "/get":
                    q += [[("start", "yesterday"), ("duration", "2")], [("start", _segment_start()), ("duration", "long")],
                          [("start", _segment_start()), ("duration", "2"), ("format", "avi")], [("duration", "2")]][cid % 4]
                else:
                    q += [[("start", "yesterday")], [("end", "tomorrow")]][cid % 2]
            elif pat == "/get":
                q += [("start", _segment_start()), ("duration", "2")]
    if pat in ("/debug/pprof/profile", "/debug/pprof/trace"):
        q.append(("seconds", "1"))
    if mut and ("/patch" in pat or "/add/" in pat or "/replace/" in pat):
        key = "logFile" if "global" in pat else "runOnReady"
        body = json.dumps({key: "/" + marker})
    if setting["cred"] == "query":
        q += [("user", "alice"), ("pass", "pw")]
    method = {"reg": route["m"], "wrongm": "PUT", "pre": "OPTIONS", "opt": "OPTIONS", "tsr": route["m"]}[tg]
    headers = {}
    if tg == "pre":
        headers["Access-Control-Request-Method"] = route["m"]
        headers["Origin"] = "http://example.com"
    if AUTHZ[setting["cred"]]:
        headers["Authorization"] = AUTHZ[setting["cred"]]
    if setting["xff"] != "none":
        headers["X-Forwarded-For"] = setting["xff"]
    if body:
        headers["Content-Type"] = "application/json"
    url = path + ("?" + urllib.parse.urlencode(q) if q else "")
    return {"id": cid, "inst": setting["inst"], "svc": route["svc"], "method": method, "url": url,
            "headers": headers, "body": body, "marker": marker,
            "solo": pat == "/v3/auth/jwks/refresh"}


def _openapi_routes():
    out = set()
    for fn, svc in (("api/openapi.yaml", "api"), ("api/playback.openapi.yaml", "playback")):
        with open(os.path.join(vf.REPO, fn)) as fh:
            doc = yaml.safe_load(fh)
        for p, ops in doc.get("paths", {}).items():
            for m in ops:
                if m.lower() in ("get", "post", "patch", "delete", "put", "head", "options"):
                    out.add((svc, m.upper(), p.replace("{name}", "*name").replace("{id}", ":id")))
    return out


def run(ctx):
    d = ctx.specdir()
    t0 = time.time()
    phases = {}
    with open(d + "/AdminAuth_gen.cfg", "w") as fh:
        fh.write("SPECIFICATION Spec\nINVARIANT ImplSatisfiesProp\nINVARIANT EmitSettings\nCHECK_DEADLOCK FALSE\n")

    # the harness packages are compiled while TLC runs (nothing is executed: no test matches)
    warm = threading.Thread(target=lambda: vf.gotest(ctx, PKGS[0], "^TestVerif_C04_none$", extra=PKGS[1:]))
    warm.start()
    try:
        r = vf.mc(ctx, "AdminAuth", "AdminAuth_gen.cfg", workers=4, timeout=600)
    finally:
        warm.join()
    phases["tlc_mc_gen_and_go_build"] = round(time.time() - t0, 1)
    t0 = time.time()
    tabs = r.tagged("ROUTES")
    settings = sorted(r.tagged("SETTING"), key=lambda s: (s["inst"], s["cred"], s["xff"]))
    if len(tabs) != 1 or len(settings) < 500:
        raise vf.Infra("generator: %d ROUTES lines, %d settings" % (len(tabs), len(settings)))
    routes, targets, instances = tabs[0]["routes"], tabs[0]["targets"], tabs[0]["instances"]
    ctx.set("exhaustive_model", True)

    # route table == OpenAPI files (api, playback)
    spec_routes = {(x["svc"], x["m"], x["pat"]) for x in routes if x["kind"] != "unk"}
    oa = _openapi_routes()
    diff = {x for x in spec_routes if x[0] in ("api", "playback")} ^ oa
    if diff:
        raise vf.Infra("route table of AdminAuth.tla differs from the OpenAPI files (complete the table): %s" % sorted(diff))

    # cases
    rnd = random.Random(int(ctx.seed) * 7919 + 4)
    triples = []
    for i, rt in enumerate(routes):
        for tg in targets[i]:
            pps = [""]
            if rt["svc"] == "playback":
                pps = ["cam1", "other", "cam1bad", "unconf", "inv", "none"] if (rt["kind"] != "unk" and tg == "reg") else ["cam1"]
            for pp in pps:
                triples.append((i, tg, pp))
    cases, meta = [], {}
    for (i, tg, pp) in triples:
        rt = routes[i]
        if ctx.thorough:
            chosen = settings
        else:
            k = 40 if tg == "reg" else 12
            if rt["svc"] == "pprof" and rt["pat"] in ("/debug/pprof/profile", "/debug/pprof/trace"):
                k = 8
            # half of the sample from settings the statement admits (for this listener / path), half from the others
            key = rt["svc"] if rt["svc"] != "playback" else {"cam1": "cam1", "other": "other", "cam1bad": "cam1", "unconf": "unconf"}.get(pp, "nopath")
            yes = [x for x in settings if x["adm"][key] == 1]
            no = [x for x in settings if x["adm"][key] != 1]
            chosen = rnd.sample(yes, min(len(yes), k // 2)) + rnd.sample(no, k - min(len(yes), k // 2))
        for s in chosen:
            cid = len(cases) + 1
            cases.append(_concretize(cid, rt, tg, s, pp))
            meta[cid] = {"id": cid, "inst": s["inst"], "rt": i + 1, "svc": rt["svc"], "kind": rt["kind"],
                         "rmut": rt["mut"], "tg": tg, "cred": s["cred"], "xff": s["xff"], "pp": pp}
    cf = ctx.path("cases.ndjson")
    vf.write_ndjson(cf, [{"setup": {"instances": instances}}] + cases)
    of = ctx.path("obs")
    vf.gotest_ok(ctx, PKGS[0], "^TestVerif_C04_", cases=cf, out=of, extra=PKGS[1:], timeout=900,
                 params={"CONC": ctx.pick(600, 2000)})

    phases["go_replay"] = round(time.time() - t0, 1)
    t0 = time.time()
    # observations; the routers' own route lists == the spec's table
    recs, got_routes = [], set()
    for svc in SVCS:
        for o in vf.read_ndjson(of + "." + svc):
            if "routes" in o:
                got_routes |= {(svc, x["m"], x["p"]) for x in o["routes"]}
            elif "unattributed" in o:
                raise vf.Infra("state changes that carry no case marker (harness): %s" % o)
            else:
                m = dict(meta[o["id"]])
                m.update(status=o["status"], body=o["body"], leak=o["leak"], mut=o["mut"])
                recs.append((m, o))
    if got_routes != spec_routes:
        raise vf.Infra("route table of AdminAuth.tla differs from the routers' route lists (complete the table): %s"
                       % sorted(got_routes ^ spec_routes))
    if len(recs) != len(cases):
        raise vf.Infra("harness observed %d of %d cases" % (len(recs), len(cases)))
    recs.sort(key=lambda x: x[0]["id"])
    byid = {c["id"]: c for c in cases}

    with open(d + "/TraceAdminAuth.cfg", "w") as fh:
        fh.write("SPECIFICATION TraceSpec\nINVARIANTS Verdicts Drift\nPOSTCONDITION Accepted\nCHECK_DEADLOCK FALSE\n")
    chunk = 40000
    nbad, drift, drift_samples = 0, 0, []
    for i in range(0, len(recs), chunk):
        part = recs[i:i + chunk]
        vf.write_ndjson(d + "/C04_trace.ndjson", [m for (m, _) in part])
        tv = vf.tlc(ctx, "TraceAdminAuth", "TraceAdminAuth.cfg", workers=1, timeout=1200, java_opts=["-Xmx6g"])
        for bad in {b["l"]: b for b in tv.tagged("BAD")}.values():
            m, o = part[bad["l"] - 1]
            c = byid[m["id"]]
            nbad += 1
            if nbad > 60:
                continue
            ins = instances[m["inst"] - 1]
            rec = {"svc": m["svc"], "route": routes[m["rt"] - 1]["m"] + " " + routes[m["rt"] - 1]["pat"],
                   "target": m["tg"], "cred": m["cred"], "xff": m["xff"], "pp": m["pp"],
                   "users": _concrete(ins["users"]), "trusted": ins["trusted"],
                   "admitted_per_statement": {0: False, 1: True, 2: "open"}[bad["admit"]],
                   "obs": {"status": o["status"], "body": o["body"], "leak": o["leak"], "mut": o["mut"]}}
            ctx.violation(rec, "%s %s (headers %s) on the %s listener, users=%s trustedProxies=%s: the statement %s this client, "
                               "observed status=%d body=%s%s%s; first bytes: %r" % (
                                   c["method"], c["url"], json.dumps(c["headers"], sort_keys=True), m["svc"],
                                   json.dumps(rec["users"], sort_keys=True), "127.0.0.1" if ins["trusted"] else "none",
                                   {0: "does not admit", 1: "admits", 2: "leaves open"}[bad["admit"]],
                                   o["status"], o["body"], " CANARY-LEAK" if o["leak"] else "",
                                   " STATE-CHANGED" if o["mut"] else "", o.get("head", "")))
        for x in {b["l"]: b for b in tv.tagged("DRIFT")}.values():
            drift += 1
            if len(drift_samples) < 5:
                m, o = part[x["l"] - 1]
                c = byid[m["id"]]
                drift_samples.append("%s %s %s -> %d %s" % (c["method"], c["url"], m["cred"], o["status"], o["body"]))
    phases["tlc_trace_validation"] = round(time.time() - t0, 1)
    ctx.set("phase_wall_s", phases)
    if nbad > 60:
        ctx.note("%d observed requests violate the statement (first 60 reported)" % nbad)

    # evidence
    sidx = {(x["inst"], x["cred"], x["xff"]): x for x in settings}

    def code(m):
        key = m["svc"] if m["svc"] != "playback" else {"cam1": "cam1", "other": "other", "cam1bad": "cam1", "unconf": "unconf"}.get(m["pp"], "nopath")
        return sidx[(m["inst"], m["cred"], m["xff"])]["adm"][key]
    n_adm = sum(1 for (m, _) in recs if m["tg"] != "pre" and code(m) == 1)
    n_rej = sum(1 for (m, _) in recs if m["tg"] != "pre" and code(m) == 0)
    n_open = sum(1 for (m, _) in recs if m["tg"] != "pre" and code(m) == 2)
    status_open = [(m, o) for (m, o) in recs if m["tg"] != "pre" and code(m) == 0 and o["status"] != 401]
    ctx.set("traces_validated_against_impl", len(recs))
    ctx.set("requests_sent", len(recs))
    ctx.set("requests_admitted_per_statement", n_adm)
    ctx.set("requests_refused_per_statement", n_rej)
    ctx.set("requests_admission_open", n_open)
    ctx.set("requests_preflight", sum(1 for (m, _) in recs if m["tg"] == "pre"))
    ctx.set("requests_with_state_change", sum(1 for (m, o) in recs if o["mut"]))
    ctx.set("routes_in_table", len(spec_routes))
    ctx.set("settings", len(settings))
    ctx.set("refused_but_not_401_status_left_open", len(status_open))
    ctx.set("drift_events", drift)
    ctx.set("exhaustive", bool(ctx.thorough))
    if status_open:
        kinds = {}
        for (m, o) in status_open:
            k = "%s %s %s -> %d %s" % (m["svc"], m["tg"], m["pp"] or "-", o["status"], o["body"])
            kinds[k] = kinds.get(k, 0) + 1
        ctx.note("refused clients got a status other than 401 where the statement's status clause is left open "
                 "(no data, no state change in all of them): %s" % json.dumps(kinds, sort_keys=True))
    if drift:
        ctx.note("%d observations differ from layer 1 without violating the statement (DRIFT), e.g. %s" % (drift, drift_samples))
    mid = recs[len(recs) // 2]
    ctx.sample({"request": {k: byid[mid[0]["id"]][k] for k in ("svc", "method", "url", "headers")},
                "obs": {k: mid[1][k] for k in ("status", "body", "leak", "mut")}})
    for (m, o) in recs:
        if o["mut"]:
            ctx.sample({"request": {k: byid[m["id"]][k] for k in ("svc", "method", "url", "headers")},
                        "obs": {k: o[k] for k in ("status", "body", "leak", "mut")}})
            break
    ctx.assume("admission is the statement formula of C01 (AuthInternal.tla) over hand-written containment tables")
    ctx.assume("parents, path manager and protocol servers behind the listeners are stubs: every datum they return carries a "
               "canary, every state-changing call logs the marker of the request (JWKS refresh: one request at a time per instance)")
    ctx.assume("body classes: empty / fixed authentication error object / other error object / fixed framework texts / other; "
               "'data' = other or a canary")


def _concrete(users):
    out = []
    for u in users:
        out.append({"ips": u["ips"], "perms": [[p["action"], p["path"]] for p in u["perms"]],
                    "user": "%s:%s" % (u["user"]["enc"], u["user"]["v"]),
                    "pass": "%s:%s" % (u["pass"]["enc"], u["pass"]["v"])})
    return out
