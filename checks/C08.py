"""C08 Configuration survives encode/decode round trips — spec/conf/ConfStore.tla (Get, WriteBack, RoundTrip)"""
import json
import re
import vf

LEVEL = "model_checking"
LEVEL_TEXT = ("ConfStore.tla models the configuration store as a tree of cells with Get (JSON view) and WriteBack (decode + "
              "patch); TLC checks RoundTrip on the abstract tree and generates the value-class tables (Duration, StringSize, "
              "IPNetwork, Credential, enums, pointers, lists); the Go harness enumerates EVERY parameter of conf.Conf and "
              "conf.Path by reflection, places every class member, encodes as the API does (json.Marshal of Global()/"
              "PathDefaults/Path) and decodes/applies as an API patch/replace does (jsonwrapper -> Optional* -> Patch*/"
              "ReplacePath -> Validate); TLC evaluates RoundTripObs on every record; plus whole random valid configurations")
LEVEL_NOTE = ("value classes are finite tables (boundary members per type); string members are valid UTF-8; a parameter whose "
              "type has no table is exit 2; configurations rejected by Validate are outside the quantifier and only counted; "
              "encoding is taken at json.Marshal (what gin's ctx.JSON calls), not over a socket")
TECHNIQUE = "TLA+ spec checked by TLC; TLC-generated value tables replayed into the real codecs; recorded observations validated by TLC"

PKG = "./internal/conf/"


def tables(ctx, r):
    lines = []
    for x in r.tagged("TYPE"):
        lines.append({"kind": "type", "type": x["type"], "class": x["class"]})
    for x in r.tagged("MEMBER"):
        lines.append({"kind": "member", "class": x["class"], "m": x["m"], "lit": x["lit"], "tier": x["tier"]})
    for x in r.tagged("PREFIX"):
        lines.append({"kind": "prefix", "field": x["field"], "prefix": x["prefix"]})
    # TLC prints one copy per initial state: dedupe, fix the order
    seen, out = set(), []
    for l in sorted(lines, key=lambda d: sorted(d.items())):
        k = tuple(sorted(l.items()))
        if k not in seen:
            seen.add(k)
            out.append(l)
    return out


def symptom(rec):
    """A coarse, input-independent name of what went wrong (part of the violation record)."""
    if rec.get("before") != rec.get("after"):
        if rec.get("type") in ("conf.StringSize", "*conf.StringSize"):
            try:
                b = int(rec["before"].lstrip("&"))
                a = int(rec["after"].lstrip("&"))
                for unit in (1 << 60, 1 << 50, 1 << 40, 1 << 30, 1 << 20, 1 << 10, 1):
                    if b >= unit:
                        break
                # bytefmt keeps one decimal of the largest unit <= value
                if a == int(float("%.1f" % (b / unit)) * unit):
                    return "size-rounded-to-one-decimal-of-unit"
            except Exception:
                pass
        return "value-changed-by-decode"
    return "value-changed-by-apply"


def run(ctx):
    d = ctx.specdir()
    r = vf.mc(ctx, "ConfStore", "ConfStore_c08.cfg", workers=4, timeout=300)
    tb = tables(ctx, r)
    ntypes = len([x for x in tb if x["kind"] == "type"])
    nmem = len([x for x in tb if x["kind"] == "member"])
    if ntypes < 20 or nmem < 100:
        raise vf.Infra("generator produced only %d types / %d members" % (ntypes, nmem))
    ctx.set("value_classes", len({x["class"] for x in tb if x["kind"] == "member"}))
    ctx.set("class_members", nmem)
    if ctx.thorough:
        # layer 1 describes the fixed code (ExactSize=TRUE); the named regression, re-enabled, must be detected
        x = vf.tlc(ctx, "ConfStore", "ConfStore_sizerounds.cfg", workers=2, timeout=300, allow_violation=True)
        if x.violated != "RoundTrip":
            raise vf.Infra("self-test: the named regression SizeRenderingRounds (ExactSize=FALSE) is no longer detected by RoundTrip")
        ctx.set("selftest_regression_detected", "SizeRenderingRounds (ExactSize=FALSE, code before efb98fd) violates RoundTrip in the model")
    cf = vf.write_ndjson(ctx.path("tables.ndjson"), tb)
    o1 = ctx.path("fields.ndjson")
    o2 = o1 + ".whole"
    # one go test invocation (one link of the test binary) for both recorders
    vf.gotest_ok(ctx, PKG, "^TestVerif_C08_(Fields|Whole)$", cases=cf, out=o1, params={"RUNS": ctx.pick(12, 300)})
    recs = vf.read_ndjson(o1) + vf.read_ndjson(o2)
    for x in recs:
        if x["rec"] == "notable":
            raise vf.Infra("parameter type without a value-class table in ConfStore.tla: %s" % x["type"])
    summ = [x for x in recs if x["rec"] == "summary"]
    rts = [x for x in recs if x["rec"] == "roundtrip"]
    if not summ or len(rts) < 1000:
        raise vf.Infra("harness produced %d round-trip records" % len(rts))
    vf.write_ndjson(d + "/C08_trace.ndjson", recs)
    tv = vf.tlc(ctx, "TraceConfStore", "TraceConfStore_c08.cfg", workers=1, timeout=900, java_opts=["-Xmx4g"])
    seen = set()
    for bad in tv.tagged("BAD"):
        rec = recs[bad["l"] - 1]
        placed = {"scope": rec.get("scope", ""), "field": rec.get("field", ""), "member": rec["member"]}
        items = list(rec["diffs"])
        decoded_diff = {(x["scope"], x["field"]) for x in items if x["stage"] == "decoded"}
        # a parameter that already differs after decoding also differs after applying: report it once
        items = [x for x in items if x["stage"] == "decoded" or (x["scope"], x["field"]) not in decoded_diff]
        for stage_err, sym in ((rec["encErr"], "encode-error"), (rec["decErr"], "decode-error")):
            for part in [x for x in stage_err.split("; ") if x]:
                where, _, msg = part.partition(": ")
                items.append({"stage": "decoded", "scope": where, "field": "", "type": "", "before": "", "after": "",
                              "error": msg, "symptom": sym})
        if not items:
            raise vf.Infra("TLC rejected record %d but the harness listed no difference: %s" % (bad["l"], str(rec)[:500]))
        for it in items:
            sym = it.get("symptom") or ("value-changed-by-apply" if it["stage"] == "applied" else symptom(it))
            scope = re.sub(r"[: ].*", "", it["scope"])
            vrec = {"scope": scope, "field": it["field"], "type": it["type"], "symptom": sym, "via": rec["via"],
                    "placed": placed, "before": it["before"], "after": it["after"], "error": it.get("error", "")}
            # one report per parameter and value, whatever else the configuration held
            key = (scope, it["field"], sym, it["before"], it["after"], it.get("error"))
            if key in seen:
                continue
            seen.add(key)
            conf_txt = (("defaults with %(scope)s.%(field)s = %(member)s" % placed) if rec["via"] == "field"
                        else "random valid configuration %s (seed %s)" % (rec["member"], ctx.seed))
            if it.get("error"):
                ctx.violation(vrec, "what GET returns for %s cannot be %s [%s]: %s; configuration: %s" % (
                    it["scope"], "decoded by the API" if sym == "decode-error" else "encoded", sym, it["error"], conf_txt))
            else:
                ctx.violation(vrec, "writing back what was read changes %s parameter '%s' (%s) [%s]: before=%s after=%s%s; configuration: %s" % (
                    scope, it["field"], it["type"], sym, it["before"], it["after"],
                    (" rendered as " + it["rendered"]) if it.get("rendered") else "", conf_txt))
    if ctx.thorough:
        # self-test: a clean record with one corrupted field must be rejected by TLC
        clean = next(x for x in rts if x["valid"] and x["applied"] and x["before"] == x["after"] == x["afterApplied"])
        vf.write_ndjson(d + "/C08_trace.ndjson", [clean, dict(clean, after="corrupted"), dict(clean, afterApplied="corrupted"),
                                                  dict(clean, decErr="corrupted")])
        st = vf.tlc(ctx, "TraceConfStore", "TraceConfStore_c08.cfg", workers=1, timeout=300)
        if sorted(b["l"] for b in st.tagged("BAD")) != [2, 3, 4]:
            raise vf.Infra("self-test: corrupted trace records were not rejected: %s" % st.tagged("BAD"))
        ctx.set("selftest_corrupted_trace_rejected", True)
    s = summ[0]
    valid = len([x for x in rts if x["valid"]])
    rejected_back = len([x for x in rts if x["valid"] and x.get("applyErr")])
    ctx.set("traces_validated_against_impl", len(rts))
    ctx.set("parameters_enumerated", s["fields"])
    ctx.set("roundtrip_records", len(rts))
    ctx.set("records_valid_configuration", valid)
    ctx.set("records_outside_quantifier_invalid_configuration", len(rts) - valid)
    ctx.set("whole_configurations", len([x for x in rts if x["via"] == "whole"]))
    ctx.set("written_back_but_rejected_by_validate", rejected_back)
    ctx.set("parameters_without_valid_variant", s["fieldsWithoutValidVariant"])
    if rejected_back:
        ctx.note("%d written-back configurations decoded equal but were rejected by Validate (statement leaves this open; DRIFT), e.g. %s"
                 % (rejected_back, next(x["applyErr"] for x in rts if x["valid"] and x.get("applyErr"))[:200]))
    ok = [x for x in rts if x["valid"] and x["via"] == "field"]
    ctx.sample({k: ok[len(ok) // 2][k] for k in ("scope", "field", "type", "member", "before", "after", "applied")})
    ctx.sample({k: ok[-1][k] for k in ("scope", "field", "type", "member", "before", "after", "applied")})
    ctx.assume("gin's ctx.JSON renders with encoding/json.Marshal (default build tags); the API decodes with jsonwrapper.Decode into conf.Optional*")
    ctx.assume("Core applies an edit as Clone; Patch*/ReplacePath; Validate (transcribed from core.go doAPIConfig*); the harness applies onto an "
               "independently built equal configuration instead of a Clone")
    ctx.assume("equality of configurations = equality of a canonical rendering of the Go values (address/mask byte lengths, nil vs set "
               "pointers, map contents) AND reflect.DeepEqual (what Core's reload comparisons use), except nil vs empty lists")
    ctx.assume("string parameters are valid UTF-8 (encoding/json replaces invalid bytes)")
    ctx.assume("a nil list and an empty list are the same configuration value: every consumer reads both as 'no entries' and the API "
               "renders both as []; before/after are compared with nil[] rendered as [] (nil vs non-nil POINTERS stay distinct)")
