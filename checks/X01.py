"""X01 Static source handler (extension module) — spec/core/StaticSource.tla"""
import json, os, random, re, threading, collections
import vf, walk

LEVEL = "model_checking"
LEVEL_TEXT = ("StaticSource.tla transcribes staticsources.Handler (Start / Stop / ReloadConf, the run loop with one action per "
              "select branch, the retry timer and every goroutine the code spawns as separate steps) and carries a STATEMENT "
              "of eight requirements (one Run at a time, stopped means stopped, Stop returns, requests are forwarded faithfully "
              "and answered with the parent's answer, retry after the pause, restartable, newest configuration at quiescence). "
              "TLC checks the statement's invariants and action properties on the bounded model (liveness under fairness in the "
              "thorough tier), shows with named deviation constants which parts the code's design does not guarantee and that a "
              "repaired design does; walks covering every driver-controlled transition of the settled state graph, and the "
              "design-level counterexamples, are replayed on the real Handler with a scripted source instance (verif hook) and a "
              "path-like parent, in a settled and in a back-to-back schedule, with GOMAXPROCS 1 and 4; TLC evaluates the "
              "statement's monitors on every recorded event sequence and searches the hidden steps that make it a behaviour of "
              "layer 1 (conformance)")
LEVEL_NOTE = ("bounded model: quick 2 Starts, 2 reloads, 1 spontaneous Run failure, 1 request, parent never busy; thorough 2 failures, "
              "2 requests, 1 busy period of the parent, plus the repaired design and liveness under fairness. Scripts: the settled state graph "
              "for 2 Starts / 2 reloads / 1 failure / 1 request / 1 busy period, every driver-controlled edge covered; quick replays a seeded "
              "sample of the distinct scripts (all of them in thorough), each in a settled and in a back-to-back schedule, the directed ones also "
              "with GOMAXPROCS=1. The retry pause is the 5 s const of the package and is taken in real time (walks run concurrently); "
              "'settled' is read from a goroutine dump (every goroutine carrying the walk's pprof label is parked on a channel), never from "
              "sleeping; a Run that does not begin is reported only when the handler is parked without a pending retry, or when the pause plus "
              "3 s have passed while a heartbeat shows the process was responsive (otherwise inconclusive). Code that panics in a handler "
              "goroutine takes the test process down (infrastructure error, no verdict)")
TECHNIQUE = ("TLA+ model (TLC): exhaustive bounded MC of safety and liveness + design-level counterexamples with deviation constants + "
             "controlled-edge-covering walks replayed on the real staticsources.Handler + trace validation (statement monitors and "
             "hidden-step conformance search)")

PAUSE_MS = 5000

CONSTS = """CONSTANTS
  MaxStarts = %(starts)d
  MaxReloads = %(reloads)d
  MaxErrs = %(errs)d
  MaxReqs = %(reqs)d
  MaxHolds = %(holds)d
  KeepWhileStopped = %(kws)s
  StartWithNewest = %(swn)s
  OrderedDelivery = %(od)s
  OrderedForward = %(of)s
  LateDelivery = %(late)s
"""
# Layer 1 as the code is (named deviations of StaticSource.tla). When a finding is repaired in /repo, flip the constant:
#   kws  KeepWhileStopped  X01-F1: TRUE once ReloadConf keeps newConf in Handler.Conf while the handler is not running
#   swn  StartWithNewest   X01-F1 + X01-F2: TRUE once Start begins with the newest configuration handed so far
#   od / of  OrderedDelivery / OrderedForward   X01-F3: TRUE once reloads reach the run loop / the instance in order
#   late LateDelivery      X01-F4: FALSE once a ReloadConf goroutine of an earlier Start..Stop period cannot deliver into a later one
# (a wrong value only shows as DRIFT of the recorded runs against layer 1, never as a verdict)
CODE = dict(kws="TRUE", swn="FALSE", od="FALSE", of="FALSE", late="TRUE")
FIXED = dict(kws="TRUE", swn="TRUE", od="TRUE", of="TRUE", late="FALSE")

OPS = {"GStart": "Start", "GStop": "Stop", "GReload": "Reload", "GHold": "Hold", "GRelease": "Release",
       "GIssue": "Issue", "GError": "Error", "GTimer": "Timer"}
# names of the actions in a TLC error trace -> script operation
TRACE_OPS = {"Start": "Start", "StopCall": "Stop", "Reload": "Reload", "Hold": "Hold", "Release": "Release",
             "Issue": "Issue", "InstError": "Error", "LoopTimer": "Timer", "Timer": "Timer"}


def cover_controlled(g, seed, maxops):
    """walks from the initial state that take every driver-controlled edge (label G...) at least once"""
    rnd = random.Random(seed)
    unc = set()
    for a, outs in g.edges.items():
        for i, (lab, _) in enumerate(outs):
            if lab.startswith("G"):
                unc.add((a, i))
    total = len(unc)

    # adjacency in a fixed random order (per seed); breadth-first search to the nearest uncovered controlled edge
    order = {}
    for a, outs in g.edges.items():
        idxs = list(range(len(outs)))
        rnd.shuffle(idxs)
        order[a] = idxs

    def bfs(start):
        prev = {start: None}
        q = collections.deque([start])
        while q:
            n = q.popleft()
            outs = g.edges.get(n)
            if not outs:
                continue
            idxs = order[n]
            for i in idxs:
                if (n, i) in unc:
                    path = [(n, i)]
                    cur = n
                    while prev[cur] is not None:
                        p, pi = prev[cur]
                        path.append((p, pi))
                        cur = p
                    path.reverse()
                    return path
            for i in idxs:
                dd = outs[i][1]
                if dd not in prev:
                    prev[dd] = (n, i)
                    q.append(dd)
        return None

    walks = []
    while unc:
        cur = rnd.choice(g.init)
        ops = []
        while len(ops) < maxops:
            path = bfs(cur)
            if path is None:
                break
            add = [g.edges[n][i][0] for (n, i) in path if g.edges[n][i][0].startswith("G")]
            if ops and len(ops) + len(add) > maxops:
                break
            for (n, i) in path:
                lab, d = g.edges[n][i]
                if lab.startswith("G"):
                    ops.append(lab)
                    unc.discard((n, i))
                cur = d
        if not ops:
            break
        walks.append(ops)
    return walks, total - len(unc), total


def label_to_op(lab):
    name, args = walk.parse_label(lab)
    if name not in OPS:
        raise vf.Infra("unexpected edge label " + lab[:80])
    op = {"k": OPS[name], "kind": ""}
    if name == "GIssue":
        op["kind"] = args[0]
    return op


def ops_from_error_trace(out):
    """controlled operations of a TLC error trace (action names of the 'State n: <Action line ...>' headers; the
    Issue kind is read from the ev variable of that state)"""
    ops = []
    blocks = re.split(r"\nState \d+: ", out)
    for b in blocks[1:]:
        m = re.match(r"<(\w+)[ (]", b)
        if not m:
            continue
        name = m.group(1)
        # sub-actions reached through the Controlled / Internal disjunctions are reported under those names
        em = re.search(r'/\\ ev = \[e \|-> "(\w+)", kind \|-> "(\w*)"', b)
        e, kind = (em.group(1), em.group(2)) if em else ("tau", "")
        if name in TRACE_OPS and name not in ("Issue", "InstError"):
            ops.append({"k": TRACE_OPS[name], "kind": ""})
        elif e in ("Start", "Stop", "Reload", "Hold", "Release"):
            ops.append({"k": e, "kind": ""})
        elif e == "Issue":
            ops.append({"k": "Issue", "kind": kind})
        elif e == "RunEnd" and kind == "error":
            ops.append({"k": "Error", "kind": ""})
    return ops


def cev_of(e):
    k = e["e"]
    z = {"e": k, "kind": "", "v": 0, "live": False, "ok": False, "q": 0}
    if k == "Start":
        z["q"] = e["q"]
    elif k in ("Reload", "Told"):
        z["v"] = e["v"]
    elif k == "RunBegin":
        z.update(v=e["v"], live=e["live"], q=e["q"])
    elif k in ("RunEnd", "Issue"):
        z["kind"] = e["kind"]
    elif k == "PCall":
        z.update(kind=e["kind"], live=e["live"])
    elif k in ("PAns", "Ret"):
        z.update(kind=e["kind"], ok=e["ok"])
    elif k in ("Stop", "StopRet", "Hold", "Release"):
        pass
    else:
        return None
    return z


def cause_of(mon, evs, step):
    """a narrow, schedule-independent description of the circumstances of a failing monitor"""
    pre = evs[:step]
    if mon in ("ConfNewestAtStart", "ConfNewestAtQuiescence"):
        opened, rel_open, rel_idx, handed = False, None, None, 0
        racing = []          # reloads since the last quiescent point
        info = {}            # version -> (index of its Reload, handed over while started?)
        for i, e in enumerate(pre):
            if e["e"] == "Start":
                opened = True
            elif e["e"] == "StopRet":
                opened = False
            elif e["e"] == "Quiet" and e["pend"] == 0 and i < step - 1:
                racing = []
            elif e["e"] == "Reload":
                rel_open, rel_idx, handed = opened, i, e["v"]
                racing.append(e["v"])
                info[e["v"]] = (i, opened)
        if rel_idx is None:
            return "noReload"
        runs = [e["run"] for e in pre if e["e"] == "RunBegin"]
        r = runs[-1] if runs else 0
        told = [e["v"] for e in pre if e["e"] in ("RunBegin", "Told") and e["run"] == r]
        stale = told[-1] if told else -1

        def absorbed_before_stop(v):
            """(index of the first Stop after Reload(v), was v seen by anybody / was there a quiescent point before it)"""
            i0 = info[v][0]
            st = [i for i in range(i0, len(pre)) if pre[i]["e"] == "Stop"]
            if not st:
                return None, False
            between = pre[i0:st[0]]
            return st[0], any((e["e"] == "Quiet" and e["pend"] == 0) or (e["e"] in ("Told", "RunBegin") and e["v"] == v)
                              for e in between)

        # the configuration in effect is an OLDER one that was handed over during an earlier Start..Stop period, was
        # still in flight when that Stop was called, and nevertheless turns up after a later Start
        if stale in info and stale != handed and info[stale][1]:
            stop_idx, absorbed = absorbed_before_stop(stale)
            if stop_idx is not None and not absorbed:
                starts = [i for i in range(stop_idx, len(pre)) if pre[i]["e"] == "Start"]
                if starts and any(e["e"] in ("Told", "RunBegin") and e["v"] == stale for e in pre[starts[0]:]):
                    return "staleReloadDeliveredAfterRestart"
        if not rel_open:
            # the newest configuration was handed over while the handler was stopped: dropped, unless the Run that began
            # next carried it
            nxt = [e for e in pre[rel_idx:] if e["e"] == "RunBegin"]
            if not nxt or nxt[0]["v"] != handed:
                return "reloadWhileStopped"
        if stale in racing and stale != handed:
            # an older one of several reloads that were in flight together has won
            return "reloadsOutOfOrder"
        if rel_open:
            stop_idx, absorbed = absorbed_before_stop(handed)
            if stop_idx is not None:
                # was the reload still in flight when Stop was called? (no quiescent point, not told to anybody)
                return "reloadForgottenAtStop" if absorbed else "reloadOvertakenByStop"
        if mon == "ConfNewestAtQuiescence" and handed in told:
            return "toldOutOfOrder"
        return "newestNeverTold"
    if mon == "RetryPause":
        return "restartBeforePause"
    return ""


def run(ctx):
    import time
    # experiments: VERIF_X01_CONSTS="kws=TRUE,swn=TRUE" overrides deviation constants of layer 1 for this run
    for kv in filter(None, os.environ.get("VERIF_X01_CONSTS", "").split(",")):
        k, v = kv.split("=")
        CODE[k.strip()] = v.strip()
    d = ctx.specdir()
    t0 = time.time()
    phases = {}

    def phase(name):
        phases[name] = round(time.time() - t0, 1)
        ctx.set("phase_end_s", dict(phases))

    def cfg(name, spec, consts, body):
        with open(os.path.join(d, name), "w") as fh:
            fh.write("SPECIFICATION %s\n" % spec + CONSTS % consts + body + "\nCHECK_DEADLOCK FALSE\n")
        return name

    small = dict(starts=2, reloads=2, errs=1, reqs=1, holds=1)
    big = dict(starts=2, reloads=2, errs=2, reqs=2, holds=1)
    mcb = ctx.pick(dict(small, holds=0), big)
    safety = ("INVARIANTS TypeOK InvOneRun InvStopped InvNoSpuriousCancel InvAnswers InvConfKnown%s\nPROPERTY PropForwardOnlyStarted\nVIEW View"
              % ctx.pick("", " InvBusyDef"))

    errors = []
    design = {}
    cex_scripts = []

    def guarded(fn):
        def f():
            try:
                fn()
            except Exception as e:  # noqa
                errors.append(e)
        return f

    # 1. MC: what the code's design guarantees (exhaustive on the bounded model)
    def mc_code():
        vf.mc(ctx, "StaticSource", cfg("SS_code.cfg", "Spec", dict(mcb, **CODE), safety), workers=2, timeout=1500)

    # 2. what it does not: S8 on the code's design (every counterexample becomes a replay script),
    #    and S8 on the repaired design (the statement is satisfiable)
    def mc_design():
        for inv, kind in (("InvConfRun", "INVARIANT"), ("PropConfStart", "PROPERTY"), ("InvConfHandler", "INVARIANT")):
            r = vf.tlc(ctx, "StaticSource", cfg("SS_%s.cfg" % inv, "Spec", dict(small, **CODE), "%s %s\nVIEW View" % (kind, inv)),
                       workers=1, timeout=900, allow_violation=True)
            design[inv] = bool(r.violated)
            if r.violated:
                ops = ops_from_error_trace(r.out)
                if ops:
                    cex_scripts.append(("design-counterexample:" + inv, ops))
            if not ctx.thorough:
                break
        if ctx.thorough:
            # the repaired design with the one channel for all Start..Stop periods left as it is (X01-F4)
            r = vf.tlc(ctx, "StaticSource", cfg("SS_late.cfg", "Spec", dict(small, **dict(FIXED, late="TRUE")), "INVARIANT InvConfHandler\nVIEW View"),
                       workers=1, timeout=900, allow_violation=True)
            design["InvConfHandler/LateDeliveryOnly"] = bool(r.violated)
            if r.violated:
                ops = ops_from_error_trace(r.out)
                if ops:
                    cex_scripts.append(("design-counterexample:LateDelivery", ops))
            vf.mc(ctx, "StaticSource", cfg("SS_fixed.cfg", "Spec", dict(small, **FIXED),
                                           safety.replace("InvConfKnown", "InvConfKnown InvConfHandler InvConfRun")
                                           .replace("PropForwardOnlyStarted", "PropForwardOnlyStarted\nPROPERTY PropConfStart")),
                  workers=1, timeout=1500)
            # liveness (S3, S6, S7) under fairness; no VIEW with temporal properties
            vf.mc(ctx, "StaticSource", cfg("SS_live.cfg", "FairSpec", dict(small, holds=0, **CODE),
                                           "PROPERTY PropStopReturns\nPROPERTY PropRunStarts"),
                  workers=1, timeout=1500)

    # (the test binary is built meanwhile)
    def warm():
        vf.gotest(ctx, "./internal/staticsources/", "^TestVerif_X01_None$", timeout=600)

    # the design-level counterexamples are needed for the replay; the exhaustive run of the safety part is not:
    # it starts once the state graph for the scripts is there and runs beside the replay
    th = [threading.Thread(target=guarded(warm)), threading.Thread(target=guarded(mc_design))]
    for t in th:
        t.start()
    th_mc = threading.Thread(target=guarded(mc_code))

    # 3. replay scripts: every driver-controlled transition of the settled state graph
    dot = ctx.path("g.dot")
    gen = dict(starts=2, reloads=2, errs=1, reqs=1, holds=1)
    vf.tlc(ctx, "StaticSource", cfg("SS_gen.cfg", "SettledSpec", dict(gen, **CODE), "VIEW View"), workers=1, timeout=900,
           extra=["-dump", "dot,actionlabels", dot])
    phase("gen")
    th_mc.start()
    g = walk.load(dot)
    os.remove(dot)
    ws, cov, tot = cover_controlled(g, ctx.seed, maxops=14)
    if cov != tot:
        raise vf.Infra("walks cover %d of %d controlled edges" % (cov, tot))
    seen = set()
    oplists = []
    for w in ws:
        ops = [label_to_op(lab) for lab in w]
        key = json.dumps(ops)
        if key not in seen:
            seen.add(key)
            oplists.append(ops)
    ctx.set("edges_covered", cov)
    ctx.set("edges_total", tot)
    ctx.set("distinct_scripts_of_cover", len(oplists))
    rnd = random.Random(ctx.seed)
    limit = ctx.pick(140, None)
    chosen = oplists if limit is None or len(oplists) <= limit else rnd.sample(oplists, limit)
    ctx.set("scripts_replayed_of_cover", len(chosen))

    phase("cover")
    for t in th:
        t.join()
    phase("design")
    if errors:
        raise errors[0]
    ctx.set("design_level_counterexamples", design)

    scripts = []

    def add(src, mode, ops, p1=False):
        scripts.append({"walk": len(scripts) + 1, "mode": mode, "src": src, "ops": ops, "p1": p1})
    for ops in chosen:
        add("cover", "settle", ops)
    nb = ctx.pick(60, len(chosen))
    for ops in (chosen if nb >= len(chosen) else rnd.sample(chosen, nb)):
        add("cover", "burst", ops)
    # the design-level counterexamples, and the plainest schedules of the three ways a reload can be lost
    directed = [("directed:two-reloads", [{"k": "Start", "kind": ""}, {"k": "Reload", "kind": ""}, {"k": "Reload", "kind": ""}]),
                ("directed:reload-while-stopped", [{"k": "Start", "kind": ""}, {"k": "Stop", "kind": ""}, {"k": "Reload", "kind": ""},
                                                   {"k": "Start", "kind": ""}]),
                ("directed:reload-then-stop", [{"k": "Start", "kind": ""}, {"k": "Hold", "kind": ""}, {"k": "Issue", "kind": "ready"},
                                               {"k": "Reload", "kind": ""}, {"k": "Stop", "kind": ""}, {"k": "Release", "kind": ""},
                                               {"k": "Start", "kind": ""}]),
                ("directed:reload-stop-reload-start", [{"k": "Start", "kind": ""}, {"k": "Reload", "kind": ""}, {"k": "Stop", "kind": ""},
                                                       {"k": "Reload", "kind": ""}, {"k": "Start", "kind": ""}]),
                ("directed:reload-during-pause", [{"k": "Start", "kind": ""}, {"k": "Error", "kind": ""}, {"k": "Reload", "kind": ""},
                                                  {"k": "Timer", "kind": ""}, {"k": "Reload", "kind": ""}])]
    for src, ops in cex_scripts + directed:
        timer = any(o["k"] == "Timer" for o in ops)
        add(src, "settle", ops, p1=not timer or ctx.thorough)
        # (the select of the late ReloadConf goroutine of X01-F4 picks one of two ready branches at random: more repetitions)
        reps = ctx.pick(16, 40) if src == "directed:reload-stop-reload-start" else ctx.pick(6, 20)
        for _ in range(reps):
            add(src, "burst", ops, p1=not timer or ctx.thorough)
    if ctx.thorough:
        for sc in scripts:
            sc["p1"] = True

    cases = vf.write_ndjson(ctx.path("scripts.ndjson"), scripts)
    base = ctx.path("obs.ndjson")
    out = vf.gotest_ok(ctx, "./internal/staticsources/", "^TestVerif_X01_Replay$", cases=cases, out=base,
                       params={"OUTBASE": base, "PAUSE_MS": PAUSE_MS, "GRACE_MS": 3000, "PAR": 400},
                       env={"GODEBUG": "tracebacklabels=1"}, extra=["-cpu", "1,4", "-v"], timeout=ctx.pick(240, 900))
    phase("replay")
    obs = []
    for procs in (1, 4):
        p = "%s.%d" % (base, procs)
        if not os.path.exists(p):
            raise vf.Infra("no observations for GOMAXPROCS=%d\n%s" % (procs, out[-2000:]))
        o = vf.read_ndjson(p)
        want = len([sc for sc in scripts if procs > 1 or sc["p1"]])
        if len(o) != want:
            raise vf.Infra("harness replayed %d of %d scripts (GOMAXPROCS=%d)" % (len(o), want, procs))
        obs += sorted(o, key=lambda r: r["walk"])
    for o in obs:
        cev = []
        for e in o["ev"]:
            c = cev_of(e)
            if c is not None:
                cev.append(c)
        o["cev"] = cev
    vf.write_ndjson(os.path.join(d, "X01_trace.ndjson"), obs)
    huge = dict(starts=99, reloads=99, errs=99, reqs=99, holds=99)
    tv = vf.tlc(ctx, "TraceStaticSource",
                cfg("SS_tv.cfg", "TraceSpec", dict(huge, **CODE), "  PauseMs = %d\nINVARIANTS Verdicts Conforms" % PAUSE_MS),
                workers=ctx.pick(2, 4), timeout=1500, java_opts=["-Xmx6g"])
    ctx.set("trace_validation_states", tv.distinct)

    phase("tv")
    th_mc.join()
    phase("mc")
    if errors:
        raise errors[0]
    # ---- verdicts: the statement's monitors on what the real code did
    groups = collections.OrderedDict()
    for bad in tv.tagged("BAD"):
        o = obs[bad["tr"] - 1]
        mon, step = bad["monitor"], bad["step"]
        rec = {"monitor": mon, "cause": cause_of(mon, o["ev"], step)}
        groups.setdefault(json.dumps(rec, sort_keys=True), []).append((o, step))
    for key, hits in groups.items():
        rec = json.loads(key)
        hits.sort(key=lambda h: (len(h[0]["ev"]), h[0]["walk"]))
        o, step = hits[0]
        ctx.violation(rec, "statement formula %s is false on the real staticsources.Handler (%d recorded runs; cause: %s). "
                           "Shortest run: script %s (%s, %s schedule, GOMAXPROCS=%d), failing at event %d = %s; events so far: %s"
                      % (rec["monitor"], len(hits), rec["cause"] or "-", json.dumps([(p["k"] + (":" + p["kind"] if p["kind"] else "")) for p in o["ops"]]),
                         o["src"], o["mode"], o["procs"], step, json.dumps(o["ev"][step - 1], sort_keys=True),
                         json.dumps([[e["e"], e["kind"], e["run"], e["v"], e["ok"], e["live"], e["t"]] for e in o["ev"][:step]])[:1500]))
    badtr = {b["tr"] for b in tv.tagged("BAD")}

    # ---- conformance with layer 1 (DRIFT, never a verdict)
    done = {x["tr"] for x in tv.tagged("DONE")}
    reach = {}
    drift = [i + 1 for i in range(len(obs)) if (i + 1) not in done]
    ctx.set("drift_runs", len(drift))
    if drift:
        # how far does layer 1 follow the first drifting run?
        vf.write_ndjson(os.path.join(d, "X01_trace.ndjson"), [obs[drift[0] - 1]])
        tv2 = vf.tlc(ctx, "TraceStaticSource",
                     cfg("SS_tv2.cfg", "TraceSpec", dict(huge, **CODE), "  PauseMs = %d\nINVARIANTS Progress" % PAUSE_MS),
                     workers=1, timeout=600)
        for x in tv2.tagged("AT"):
            reach[drift[0]] = max(reach.get(drift[0], 0), x["l"])
        o = obs[drift[0] - 1]
        at = reach.get(drift[0], 0)
        ctx.note("%d of %d recorded runs are not behaviours of layer 1 (DRIFT, not a verdict; %d of them also fail a monitor); first: "
                 "script %s %s mode, matched %d of %d events, next event %s"
                 % (len(drift), len(obs), len([t for t in drift if t in badtr]), json.dumps(o["ops"]), o["mode"], at, len(o["cev"]),
                    json.dumps(o["cev"][at] if at < len(o["cev"]) else None)))
    incon = [o for o in obs if any(e["e"] == "Grace" and not e["ok"] for e in o["ev"])]
    notes = [n for o in obs for n in o["notes"]]
    ctx.set("inconclusive_waits", len(incon))
    if notes:
        ctx.note("harness notes: %d (first: %s)" % (len(notes), notes[0]))
    if any("not settled" in n for n in notes) and not groups:
        raise vf.Infra("the harness could not reach a settled state: " + notes[0])
    skipped = sum(len(o["skipped"]) for o in obs)
    ctx.set("ops_skipped_not_applicable", skipped)
    ctx.set("traces_validated_against_impl", len(obs))
    ctx.set("events_validated", sum(len(o["ev"]) for o in obs))
    ctx.set("steps_replayed", sum(o["done"] for o in obs))
    ctx.set("retry_pauses_observed", sum(1 for o in obs for i, e in enumerate(o["ev"]) if e["e"] == "RunBegin" and i > 0
                                         and any(p["e"] == "RunEnd" and p["kind"] == "error" for p in o["ev"][:i])))
    ctx.set("exhaustive", True)
    for o in (obs[0], obs[len(obs) // 2], obs[-1]):
        ctx.sample({"ops": o["ops"], "mode": o["mode"], "procs": o["procs"],
                    "ev": [[e["e"], e["kind"], e["v"], e["t"]] for e in o["ev"][:14]]})
    ctx.assume("the source instance calls SetReady / SetNotReady only from within Run (as all sources of internal/staticsources do) "
               "and returns from Run once its context is cancelled")
    ctx.assume("the parent is one goroutine: it calls Start, Stop and ReloadConf one at a time, accepts a forwarded request only "
               "while it is not inside one of them, and answers 'terminated' once the context it was given is done (core/path.go)")
    ctx.assume("the goroutine dump of the Go runtime (runtime.Stack with GODEBUG=tracebacklabels=1) shows the true state of every goroutine; "
               "a goroutine parked on a channel does not move without a sender, a receiver, a close or a timer")
    ctx.assume("the retry pause of the statement is 5000 ms (the value of the unexported const retryPause; the user documentation does not state it)")
