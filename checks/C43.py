"""C43 HLS media is served only to authorized sessions — spec/auth/HlsSession.tla"""
import json
import random
import threading
import time

import vf
import walk

LEVEL = "model_checking"
LEVEL_TEXT = ("HlsSession.tla models sessions (secret -> path, IP, created by an admitted client?, existing?), the per-path "
              "CDN session and the CDN secret; 'authorized' is C01's statement formula over the configured users. TLC checks "
              "served => (valid secret of a session of that path from the same IP) or CDN secret for every request in every "
              "reachable state, with and without a CDN secret; edge-covering walks over the state-changing actions (open with "
              "every credential / IP / path, open with every Bearer form (right / wrong secret, empty token, lower-case scheme), API kick, idle expiry, CDN kick) are replayed on a real hls.Server with real "
              "streams and a path manager driven by the real auth.Manager; after every step media playlist / segment / part "
              "requests with every secret source (cookie, query, none, unknown, other session), IP and Authorization form (none, Basic, 6 Bearer forms) are sent and "
              "TLC evaluates the statement on the observed trace")
LEVEL_NOTE = ("bounded: 2 sessions per behaviour, 2 paths + 1 without stream, 6 client IPs incl. textual-prefix pairs, IPv4 and IPv6 (quick tier: sessions opened from 4 of them, requests from all 6) (X-Forwarded-For through the "
              "trusted proxy), 6 credentials; probes per step are sampled; idle expiry is forced by ageing the session's last-request time "
              "in-package and waiting for the muxer's real cleanup; server configurations {trusted proxy 127.0.0.1, empty trusted-proxy list with real loopback peers 127.0.0.1 / 127.0.0.2 / ::1 and forged X-Forwarded-For / X-Real-IP} x {CDN secret set, not set}; hlsAlwaysRemux only; both tiers replay a subset of the edge-covering walks (quick 100, thorough 1300)")
TECHNIQUE = "TLA+ model (TLC): exhaustive bounded MC + edge-covering walks replayed on the real code + trace validation"

PKG = "./internal/servers/hls/"
CFG = """SPECIFICATION %s
CONSTANTS
  MaxS = %d
  CDNConfigured = %s
  TrustedProxy = %s
  WideIPs = %s
  ExpireAny = %s
INVARIANTS ServedOnlyToSessions SessionsAdmitted TypeOK
CHECK_DEADLOCK FALSE
"""
PATHS = ["cam1", "other", "ghost"]
IPS = ["10.0.0.1", "10.0.0.12", "10.0.0.123", "10.0.1.5", "2001:db8::1", "2001:db8::12"]
KINDS = ["playlist", "segment", "part"]
PEERS = ["127.0.0.1", "127.0.0.2", "::1"]
CONFS = [("TRUE", "TRUE"), ("TRUE", "FALSE"), ("FALSE", "TRUE"), ("FALSE", "FALSE")]   # (trusted proxy, CDN secret)
AUTHS = ["none", "basic", "cdn", "wrong", "bare", "barespace", "lower", "lowercdn"]


def _forge(rnd, ip):
    """no trusted proxy: a forged forwarding header naming another address (or none)"""
    fwd = rnd.choice([x for x in PEERS if x != ip] + ["10.0.0.1", ""])
    return {"fwd": fwd, "hdr": rnd.choice(["xff", "xreal", "both"]) if fwd else ""}


def _probes(rnd, nrand, step_no, trusted, quick):
    """requests sent after a step: the neighbourhood of every session slot, the CDN forms, random ones"""
    out = []
    kind = KINDS[step_no % 3]
    ips = IPS if trusted else PEERS
    for sid in (1, 2):
        for p in ("cam1", "other"):
            for ip in ips:
                base = {"kind": kind, "path": p, "sid": sid, "place": rnd.choice(["cookie", "query"]), "ip": ip, "auth": "none"}
                if trusted:
                    out.append(base)
                    continue
                # from every peer, claiming to be every other peer (and with no claim at all)
                for fwd in [x for x in PEERS if x != ip] + [""]:
                    out.append(dict(base, fwd=fwd, hdr=rnd.choice(["xff", "xreal", "both"]) if fwd else ""))
    # every Authorization form on every path (with no / a random session secret)
    for p in PATHS[:2] if quick else PATHS:
        for a in AUTHS[1:]:
            out.append({"kind": rnd.choice(KINDS), "path": p, "sid": rnd.choice([0, 0, 1, 2, 3]), "place": "query",
                        "ip": rnd.choice(ips), "auth": a})
    for _ in range(nrand):
        out.append({"kind": rnd.choice(KINDS), "path": rnd.choice(PATHS), "sid": rnd.choice([0, 1, 2, 3]),
                    "place": rnd.choice(["cookie", "query"]), "ip": rnd.choice(ips),
                    "auth": rnd.choice(["none", "none"] + AUTHS)})
    for x in out:
        if "fwd" not in x:
            x.update({"fwd": "", "hdr": ""} if trusted else _forge(rnd, x["ip"]))
    rnd.shuffle(out)
    return out


def _step(lab):
    name, args = walk.parse_label(lab)
    if name == "Open":
        return {"op": "open", "path": args[0], "cred": args[1], "ip": args[2]}
    if name == "OpenBearer":
        return {"op": "openbearer", "path": args[0], "bearer": args[1], "ip": args[2]}
    if name in ("Kick", "Expire"):
        return {"op": name.lower(), "sid": args[0]}
    if name == "KickCDN":
        return {"op": "kickcdn", "path": args[0]}
    raise vf.Infra("unknown edge label " + lab)


def run(ctx):
    d = ctx.specdir()
    # quick tier: the empty trusted-proxy list is exercised with a CDN secret set only (the two dimensions are independent)
    confs = CONFS if ctx.thorough else CONFS[:3]
    t0 = time.time()
    phases = {}
    # compile the harness package while TLC runs
    warm = threading.Thread(target=lambda: vf.gotest(ctx, PKG, "^TestVerif_C43_none$"))
    warm.start()
    try:
        # MC: every request in every reachable state, with and without a configured CDN secret;
        # GEN: state graph of the state-changing actions. The four TLC runs go side by side.
        maxs = ctx.pick(2, 3)
        wide = ctx.pick("FALSE", "TRUE")
        jobs = {}
        for (tp, cdn) in confs:
            key = tp + "_" + cdn
            dot = ctx.path("hls_%s.dot" % key)
            cfg = "HlsSession_mc_%s.cfg" % key
            with open(d + "/" + cfg, "w") as fh:
                # the invariant quantifies over every request in every state: the state-changing actions suffice
                fh.write(CFG % ("SpecCtl", maxs, cdn, tp, wide, "TRUE"))
            jobs["mc" + key] = (cfg, [])
            if not ctx.thorough:
                # quick tier: the model-checking run itself dumps the graph the walks are taken from (same bound;
                # Expire(i) and Kick(i) have the same effect on the state, so leaving Expire(2) out of the
                # graph does not change the reachable states the invariants are checked on)
                with open(d + "/" + cfg, "w") as fh:
                    fh.write(CFG % ("SpecCtl", maxs, cdn, tp, wide, "FALSE"))
                jobs["mc" + key] = (cfg, ["-dump", "dot,actionlabels", dot])
                continue
            cfg = "HlsSession_gen_%s.cfg" % key
            with open(d + "/" + cfg, "w") as fh:
                fh.write((CFG % ("SpecCtl", 2, cdn, tp, wide, "TRUE")).replace(
                    "INVARIANTS ServedOnlyToSessions SessionsAdmitted TypeOK", "INVARIANT TypeOK"))
            jobs["gen" + key] = (cfg, ["-dump", "dot,actionlabels", dot])
        results, errors = {}, []

        def tlc_job(key):
            try:
                results[key] = vf.tlc(ctx, "HlsSession", jobs[key][0], workers=2, timeout=900, extra=jobs[key][1])
            except Exception as e:  # reported below, in the main thread
                errors.append(e)
        threads = [threading.Thread(target=tlc_job, args=(k,)) for k in jobs]
        for th in threads:
            th.start()
        for th in threads:
            th.join()
        if errors:
            raise errors[0]
        for (tp, cdn) in confs:
            r = results["mc%s_%s" % (tp, cdn)]
            ctx.add("states", r.distinct)
            ctx.add("transitions", r.generated)
            ctx.cov.setdefault("mc_runs", []).append(
                {"module": "HlsSession", "cfg": jobs["mc%s_%s" % (tp, cdn)][0], "distinct": r.distinct, "generated": r.generated,
                 "depth": r.depth, "wall_s": round(r.wall, 2)})
        ru = results["mcTRUE_TRUE"]
        graphs = {(tp, cdn): walk.load(ctx.path("hls_%s_%s.dot" % (tp, cdn))) for (tp, cdn) in confs}
    finally:
        warm.join()
    users = ru.tagged("USERS")
    if len(users) != 1:
        raise vf.Infra("no USERS line")
    phases["tlc_mc_gen_and_go_build"] = round(time.time() - t0, 1)
    t0 = time.time()

    rnd = random.Random(int(ctx.seed) * 104729 + 43)
    walks, edges_total, edges_covered, n_expire, n_cut, n_steps = [], 0, 0, 0, 0, 0
    expire_budget = ctx.pick(24, 600)
    for (tp, cdn) in confs:
        trusted = tp == "TRUE"
        ws, covered, total = walk.edge_cover(graphs[(tp, cdn)], maxlen=ctx.pick(14, 16), seed=int(ctx.seed),
                                             limit=ctx.pick(35, 500) if trusted else ctx.pick(15, 150))
        edges_total += total
        edges_covered += covered
        for w in ws:
            steps = [_step(lab) for (lab, _) in w]
            ne = sum(1 for s in steps if s["op"] == "expire")
            if n_expire + ne > expire_budget:
                # expiry costs up to 10 s of wall time: cut the walk before its first expiry
                k = next(i for i, s in enumerate(steps) if s["op"] == "expire")
                steps = steps[:k]
                ne = 0
                n_cut += 1
                if not steps:
                    continue
            n_expire += ne
            n_steps += len(steps)
            for i, s in enumerate(steps):
                s["probes"] = _probes(rnd, ctx.pick(3, 12), i, trusted, not ctx.thorough)
                if "ip" in s:
                    s.update({"fwd": "", "hdr": ""} if trusted else _forge(rnd, s["ip"]))
            wid = len(walks) + 1
            walks.append({"walk": wid, "trusted": trusted, "cdnConf": cdn == "TRUE", "variant": ["lowLatency", "mpegts", "fmp4"][wid % 3],
                          "cookie": wid % 2 == 0, "steps": steps})
    if len(walks) < 40:
        raise vf.Infra("only %d walks generated" % len(walks))
    # walks with an expiry first (they take longest)
    walks.sort(key=lambda w: -sum(1 for s in w["steps"] if s["op"] == "expire"))
    cf = ctx.path("cases.ndjson")
    vf.write_ndjson(cf, [{"setup": {"users": users[0]["users"]}}] + walks)
    of = ctx.path("obs.ndjson")
    vf.gotest_ok(ctx, PKG, "^TestVerif_C43_Replay$", cases=cf, out=of, timeout=1500, params={"PAR": ctx.pick(32, 48)})
    recs = vf.read_ndjson(of)
    if len(recs) != len(walks):
        raise vf.Infra("harness replayed %d of %d walks" % (len(recs), len(walks)))
    recs.sort(key=lambda r: r["walk"])
    phases["go_replay"] = round(time.time() - t0, 1)
    t0 = time.time()

    with open(d + "/TraceHlsSession.cfg", "w") as fh:
        fh.write("SPECIFICATION TraceSpec\nCONSTANTS\n  MaxS = 2\n  CDNConfigured = TRUE\n  TrustedProxy = TRUE\n  WideIPs = TRUE\n  ExpireAny = TRUE\n"
                 "INVARIANT Verdicts\nPOSTCONDITION Accepted\nCHECK_DEADLOCK FALSE\n")
    nreq = nserved = nopen = nopen_ok = drift = 0
    chunk = 400
    for i in range(0, len(recs), chunk):
        part = recs[i:i + chunk]
        vf.write_ndjson(d + "/C43_trace.ndjson", part)
        tv = vf.tlc(ctx, "TraceHlsSession", "TraceHlsSession.cfg", workers=1, timeout=1800, java_opts=["-Xmx8g"], xss="512m")
        for bad in {b["l"]: b for b in tv.tagged("BAD")}.values():
            r = part[bad["l"] - 1]
            for k in bad["events"][:5]:
                e = r["events"][k - 1]
                hist = [x for x in r["events"][:k - 1] if x["op"] != "req"]
                rec = {"request": {x: e[x] for x in ("kind", "path", "place", "ip", "auth")},
                       "secret_of": _secret_of(e, hist), "cdnConf": r["cdnConf"], "trustedProxies": r["trusted"],
                       "forged": e.get("hdr", ""), "status": e["status"]}
                who = e["ip"] if r["trusted"] else "TCP peer %s%s" % (
                    e["ip"], " with forged %s naming %s" % (e["hdr"], e["fwd"]) if e.get("fwd") else "")
                ctx.violation(rec, "a %s of path %s was served (status %d) to a request from %s carrying %s (%s) and Authorization=%s; "
                                   "hlsTrustedProxies=%s, CDN secret configured=%s, variant=%s; history: %s" % (
                                       e["kind"], e["path"], e["status"], who, rec["secret_of"], e["place"], e["auth"],
                                       "[127.0.0.1]" if r["trusted"] else "[] (empty)", r["cdnConf"], r["variant"],
                                       json.dumps(hist)[:1200]))
        for x in {b["l"]: b for b in tv.tagged("DRIFT")}.values():
            drift += len(x["events"])
            if drift <= 3 * len(x["events"]):
                r = part[x["l"] - 1]
                ctx.note("DRIFT walk %d: %s" % (r["walk"], json.dumps([r["events"][k - 1] for k in x["events"][:3]])[:600]))
    for r in recs:
        for e in r["events"]:
            if e["op"] == "req":
                nreq += 1
                nserved += 1 if e["served"] else 0
            elif e["op"] == "open":
                nopen += 1
                nopen_ok += 1 if e["res"] == "ok" else 0
    phases["tlc_trace_validation"] = round(time.time() - t0, 1)
    ctx.set("phase_wall_s", phases)
    ctx.set("traces_validated_against_impl", len(recs))
    ctx.set("walks", len(recs))
    ctx.set("edges_in_graph", edges_total)
    ctx.set("edges_covered_by_walks", edges_covered)
    ctx.set("walks_cut_before_an_expiry", n_cut)
    ctx.set("steps_replayed", n_steps)
    ctx.set("expiry_steps", n_expire)
    ctx.set("open_requests", nopen)
    ctx.set("open_requests_that_created_a_session", nopen_ok)
    ctx.set("media_requests", nreq)
    ctx.set("media_requests_served", nserved)
    ctx.set("drift_events", drift)
    ctx.set("exhaustive", bool(ctx.thorough) and edges_covered == edges_total and n_cut == 0)
    if drift:
        ctx.note("%d observed answers differ from layer 1 without violating the statement (DRIFT)" % drift)
    if nserved < 50:
        raise vf.Infra("only %d media requests were served: the replay does not exercise the property" % nserved)
    mid = recs[len(recs) // 2]
    ctx.sample({"walk": mid["walk"], "cdnConf": mid["cdnConf"], "variant": mid["variant"], "events": mid["events"][:6]})
    ctx.assume("'authorized' is the statement formula of C01 (AuthInternal.tla) over the users of HlsSession.tla")
    ctx.assume("the path manager behind the HLS server is a harness object that asks the real auth.Manager (as core's path manager "
               "does, without its delay); streams are real stream.Streams fed with synthetic H.264 units")
    ctx.assume("served = status 200 with a non-empty body; every file name requested was served to an authorized observer first")


def _secret_of(e, hist):
    if e["sid"] == 0:
        return "no secret"
    opens = [x for x in hist if x["op"] == "open" and x.get("sid")]
    for x in opens:
        if x["sid"] == e["sid"]:
            gone = [y["op"] for y in hist if y["op"] in ("kick", "expire") and y["sid"] == e["sid"]]
            return "the secret of session %d (created for %s by %s from %s%s)" % (
                e["sid"], x["path"], x["cred"], x["ip"], ", then %s" % gone[0] if gone else "")
    return "a secret of no session"
