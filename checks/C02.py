"""C02 HTTP and JWT authentication admit only what the authority grants — spec/auth/AuthExt.tla"""
import concurrent.futures
import json
import os
import time
import vf
import walk

LEVEL = "model_checking"
LEVEL_TEXT = ("AuthExt.tla states the two iff-formulas (http: excluded or a POST carrying the request was answered 2xx; "
              "jwt: excluded or signature/issuer/audience/expiry/permission claim hold) and the token source order, and "
              "transcribes getToken/authenticateHTTP/authenticateJWT as layer 1; TLC checks layer 1 |= layer 2 on eight "
              "bounded profiles (six of single requests, two of request sequences on one manager: history "
              "independence, every step judged by the per-request formula, serially and from concurrent goroutines) "
              "and emits every case; the real auth.Manager executes each case against a local auth "
              "server that logs the POST it received and a local JWKS server with tokens minted per class; TLC then "
              "evaluates the statement on every observed record; JwksCache.tla models the authority's changing key set and "
              "the manager's JWKS cache (rotation, endpoint failures, cache period, RefreshJWTJWKS): exhaustive MC, every edge "
              "of its state graph walked on ONE real Manager against a local JWKS endpoint (time passes by ageing "
              "jwksLastRefresh in-package), decisions judged by TLC from the endpoint's download log; JwksConc.tla adds concurrency (downloads that "
              "take time, overlapping calls, RefreshJWTJWKS and rotation in between): its schedules run on the real Manager "
              "against an endpoint that holds every download, goroutine states are observed (returned / handler reached / "
              "parked on the mutex by stack dump), decisions judged by TLC from the time-stamped event log")
LEVEL_NOTE = ("signature/expiry verification is an atom fixed by the token class (third-party jwt library); open points of "
              "the statement (token+jwt both present, repeated parameter, MoQ as HTTP protocol, query tokens with the "
              "http method, tokens without exp) accept either answer; reported user / AskCredentials are not part of "
              "the statement")
TECHNIQUE = "TLA+ model (TLC): exhaustive bounded MC + generated cases replayed on the real code + trace validation"

CFG = """SPECIFICATION Spec
CONSTANTS
  Profiles = {"hstatus", "htoken", "jclass", "jsig", "jplace", "jexcl", "jseq", "hseq"}
  Big = %s
INVARIANT ImplSatisfiesProp
INVARIANT RedirectDiverges
INVARIANT EmitCases
CHECK_DEADLOCK FALSE
"""

TCFG = """SPECIFICATION TraceSpec
CONSTANTS
  Profiles = {}
  Big = FALSE
INVARIANTS Verdicts Drift
POSTCONDITION Accepted
CHECK_DEADLOCK FALSE
"""

JCFG = """SPECIFICATION Spec
CONSTANTS
  MaxAge = %d
  Healths = {%s}
  CodeIgnoresStatus = %s
INVARIANT %s
INVARIANT TaintOnlyByStatusIgnored
CHECK_DEADLOCK FALSE
"""

JTCFG = """SPECIFICATION TraceSpec
CONSTANTS
  MaxAge = %d
  Healths = {%s}
  CodeIgnoresStatus = FALSE
INVARIANTS Verdicts Harness Drift
POSTCONDITION Accepted
CHECK_DEADLOCK FALSE
"""

PKG = "./internal/auth/"


def _jwks_walks(ctx, maxage, healths):
    """JwksCache.tla: exhaustive MC of the bounded model + its state graph, covered edge by edge."""
    d = ctx.specdir()
    with open(d + "/JwksCache_gen.cfg", "w") as fh:
        fh.write(JCFG % (maxage, healths, "FALSE", "ImplSatisfiesPropStrict"))
    dot = ctx.path("jwks.dot")
    r = vf.tlc(ctx, "JwksCache", "JwksCache_gen.cfg", workers=2, timeout=600, extra=["-dump", "dot,actionlabels", dot])
    g = walk.load(dot)
    os.remove(dot)
    ws, covered, total = walk.edge_cover(g, maxlen=40, seed=int(ctx.seed))
    out = []
    for i, w in enumerate(ws):
        acts = []
        for lab, _ in w:
            name, args = walk.parse_label(lab)
            a = {"a": {"Auth": "auth", "Rotate": "rotate", "Break": "break", "Recover": "recover", "Half": "half",
                       "Refresh": "refresh"}[name], "k": "", "h": ""}
            if name == "Auth":
                a["k"] = args[0]
            if name == "Break":
                a["h"] = args[0]
            acts.append(a)
        out.append({"walk": i, "acts": acts})
    return r, out, covered, total


CCFG = """SPECIFICATION Spec
CONSTANTS
  FetchUnlocked = %s
  MaxEpoch = %d
INVARIANT ImplSatisfiesProp
INVARIANT LockSane
CHECK_DEADLOCK FALSE
"""


def _conc_walks(ctx, maxepoch, limit):
    """JwksConc.tla: exhaustive MC of the concurrent model + schedules (driver actions of walks over its graph)."""
    d = ctx.specdir()
    with open(d + "/JwksConc_gen.cfg", "w") as fh:
        fh.write(CCFG % ("FALSE", maxepoch))
    dot = ctx.path("jwksconc.dot")
    r = vf.tlc(ctx, "JwksConc", "JwksConc_gen.cfg", workers=2, timeout=900, extra=["-dump", "dot,actionlabels", dot])
    g = walk.load(dot)
    os.remove(dot)
    ws, covered, total = walk.edge_cover(g, maxlen=16, seed=int(ctx.seed), limit=limit)
    out = []
    for i, w in enumerate(ws):
        acts = []
        for lab, _ in w:
            name, args = walk.parse_label(lab)
            if name == "StartAuth":
                acts.append({"a": "auth", "c": args[0], "k": args[1]})
            elif name == "StartRefresh":
                acts.append({"a": "refresh", "c": "", "k": ""})
            elif name == "Rotate":
                acts.append({"a": "rotate", "c": "", "k": ""})
            elif name == "Release":
                acts.append({"a": "release", "c": args[0], "k": ""})
            elif name not in ("Enter", "RefreshRuns"):
                raise vf.Infra("JwksConc: unknown action label " + lab)
        out.append({"walk": i, "acts": acts})
    return r, out, covered, total


def _conc_say(evs, upto):
    out = []
    for e in evs[:upto]:
        k = e["e"]
        if k == "astart":
            out.append("start %s(%s)" % (e["c"], e["k"]))
        elif k == "aret":
            out.append("%s returns %s" % (e["c"], "ADMITTED" if e["ok"] else "rejected"))
        elif k == "dl":
            out.append("endpoint serves download #%d %s" % (e["id"], "{%s}" % ",".join(e["set"])))
        elif k == "release":
            out.append("download #%d answered" % e["id"])
        elif k == "rstart":
            out.append("RefreshJWTJWKS called")
        elif k == "rret":
            out.append("RefreshJWTJWKS returned")
        elif k == "rotate":
            out.append("authority rotates")
    return "; ".join(out)


def _jwks_say(acts, upto):
    return " ".join((a["a"] + ("(%s)" % (a["k"] or a["h"]) if a["k"] or a["h"] else "")) for a in acts[:upto])


def _key(c):
    return json.dumps(c, sort_keys=True)


def _small(c, step=0):
    rq = c["steps"][step - 1] if "steps" in c else c["rq"]

    def tk(t):
        if t["k"] == "none":
            return ""
        if t["k"] == "text":
            return "text:" + t["s"]
        return "jwt:%s/iss=%s/aud=%s/%s/%s/perms=%s" % (t["sig"], t["iss"], ",".join(t["aud"]["v"]) or "-",
                                                      t["time"], t["form"], t["perms"])
    return {"prof": c["prof"], "method": c["cfg"]["method"], "beh": c["beh"], "excl": c["cfg"]["excl"],
            "iss": c["cfg"]["iss"], "aud": c["cfg"]["aud"], "inq": c["cfg"]["inq"],
            "action": rq["action"], "path": rq["path"], "protocol": rq["protocol"], "user": rq["user"],
            "pass": tk(rq["pass"]), "token": tk(rq["token"]),
            "qtoken": [tk(t) for t in rq["qtok"]], "qjwt": [tk(t) for t in rq["qjwt"]],
            "before": [tk(x["token"]) or tk(x["pass"]) or ",".join(tk(t) for t in x["qtok"]) or "(no token)"
                       for x in c["steps"][:step - 1]]
            if "steps" in c else []}


def run(ctx):
    d = ctx.specdir()
    phases = {}
    t0 = time.time()
    with open(d + "/AuthExt_gen.cfg", "w") as fh:
        fh.write(CFG % ("TRUE" if ctx.thorough else "FALSE"))
    maxage = ctx.pick(1, 2)
    healths = ctx.pick('"ok", "s500", "down", "s503json"', '"ok", "s500", "down", "s503json", "badjson"')
    pool = concurrent.futures.ThreadPoolExecutor(max_workers=3)
    jfut = pool.submit(_jwks_walks, ctx, maxage, healths)       # runs beside the AuthExt generation
    maxepoch = ctx.pick(1, 2)
    cfut = pool.submit(_conc_walks, ctx, maxepoch, ctx.pick(100, 1500))
    r = vf.mc(ctx, "AuthExt", "AuthExt_gen.cfg", workers=6, timeout=1500, java_opts=["-Xmx8g"])
    jr, jwalks, jcovered, jtotal = jfut.result()
    ctx.add("states", jr.distinct)
    ctx.add("transitions", jr.generated)
    ctx.cov.setdefault("mc_runs", []).append({"module": "JwksCache", "cfg": "JwksCache_gen.cfg", "distinct": jr.distinct,
                                              "generated": jr.generated, "depth": jr.depth, "wall_s": round(jr.wall, 2)})
    cr, cwalks, ccovered, ctotal = cfut.result()
    ctx.add("states", cr.distinct)
    ctx.add("transitions", cr.generated)
    ctx.cov.setdefault("mc_runs", []).append({"module": "JwksConc", "cfg": "JwksConc_gen.cfg", "distinct": cr.distinct,
                                              "generated": cr.generated, "depth": cr.depth, "wall_s": round(cr.wall, 2)})
    if len(cwalks) < 50:
        raise vf.Infra("JwksConc: only %d schedules" % len(cwalks))
    if jcovered != jtotal or len(jwalks) < 20:
        raise vf.Infra("JwksCache: %d of %d edges covered by %d walks" % (jcovered, jtotal, len(jwalks)))
    perms = r.tagged("PERMS")
    if len(perms) != 1:
        raise vf.Infra("expected one PERMS line")
    cases = sorted(r.tagged("CASE"), key=lambda x: _key(x["c"]))
    if len(cases) < 10000:
        raise vf.Infra("generator produced only %d cases" % len(cases))
    lines = [{"perms": perms[0]}]
    for i, x in enumerate(cases):
        lines.append({"id": i, "c": x["c"]})
    phases["tlc_mc_gen"] = round(time.time() - t0, 1)
    t0 = time.time()
    cf = vf.write_ndjson(ctx.path("cases.ndjson"), lines)
    of = ctx.path("obs.ndjson")
    jcf = vf.write_ndjson(ctx.path("jwks_walks.ndjson"), jwalks)
    jof = d + "/C02_jwks_trace.ndjson"
    ccf = vf.write_ndjson(ctx.path("conc_walks.ndjson"), cwalks)
    cof = d + "/C02_conc_trace.ndjson"
    gout = vf.gotest_ok(ctx, PKG, "^TestVerif_C02_(Replay|Jwks|JwksConc)$", cases=cf, out=of, timeout=1500, extra=["-v"],
                        params={"JWKSCASES": jcf, "JWKSOUT": jof, "MAXAGE": maxage, "CONCCASES": ccf, "CONCOUT": cof})
    crecs = vf.read_ndjson(cof)
    if [x["walk"] for x in crecs] != list(range(len(cwalks))):
        raise vf.Infra("harness executed %d of %d concurrent JWKS schedules" % (len(crecs), len(cwalks)))
    import re
    ctx.set("go_test_seconds", {m.group(1): float(m.group(2))
                                for m in re.finditer(r"--- PASS: TestVerif_C02_(\w+) \(([0-9.]+)s\)", gout)})
    jrecs = vf.read_ndjson(jof)
    if [x["walk"] for x in jrecs] != list(range(len(jwalks))):
        raise vf.Infra("harness executed %d of %d JWKS walks" % (len(jrecs), len(jwalks)))
    recs = vf.read_ndjson(of)
    if {rec["id"] for rec in recs} != set(range(len(cases))):
        raise vf.Infra("harness replayed %d of %d cases" % (len({rec["id"] for rec in recs}), len(cases)))
    for rec in recs:
        rec["l1ok"] = cases[rec["id"]]["l1ok"]
    phases["go_replay"] = round(time.time() - t0, 1)
    t0 = time.time()

    with open(d + "/TraceAuthExt.cfg", "w") as fh:
        fh.write(TCFG)
    with open(d + "/TraceJwksCache.cfg", "w") as fh:
        fh.write(JTCFG % (maxage, healths))
    with open(d + "/TraceJwksConc.cfg", "w") as fh:
        fh.write('SPECIFICATION TraceSpec\nCONSTANTS\n  FetchUnlocked = FALSE\n  MaxEpoch = 1\n'
                 'INVARIANT Verdicts\nPOSTCONDITION Accepted\nCHECK_DEADLOCK FALSE\n')
    ctv_fut = pool.submit(vf.tlc, ctx, "TraceJwksConc", "TraceJwksConc.cfg", workers=1, timeout=900, java_opts=["-Xmx4g"])
    jtv_fut = pool.submit(vf.tlc, ctx, "TraceJwksCache", "TraceJwksCache.cfg", workers=1, timeout=900,
                          java_opts=["-Xmx4g"])             # runs beside the AuthExt trace validation
    tf = d + "/C02_trace.ndjson"
    chunk = 25000
    nbad = 0
    perclass = {}       # reported violations per (profile, behaviour): a frequent class must not hide another
    drift = {}
    for i in range(0, len(recs), chunk):
        part = recs[i:i + chunk]
        vf.write_ndjson(tf, part)
        tv = vf.tlc(ctx, "TraceAuthExt", "TraceAuthExt.cfg", workers=1, timeout=1800, java_opts=["-Xmx10g"])
        for bad in tv.tagged("BAD"):
            rec = part[bad["l"] - 1]
            step = bad.get("step", 0)
            st = rec["steps"][step - 1] if step else rec
            nbad += 1
            cls = rec["c"]["prof"] + "/" + rec["c"]["beh"]
            perclass[cls] = perclass.get(cls, 0) + 1
            if perclass[cls] <= 12:
                small = _small(rec["c"], step)
                obs = {k: st["obs"][k] for k in ("ok", "user", "ask")}
                log = [[e["method"], e["url"], e["status"]] for e in st["log"]]
                where = ""
                if step:
                    where = " (step %d of a sequence on one manager, mode %s, earlier steps: %s)" % (
                        step, rec["mode"], small["before"])
                if rec["c"]["cfg"]["method"] == "http":
                    what = ("http method: request %s although %s; auth server log %s" % (
                        "admitted" if obs["ok"] else "rejected",
                        "no POST carrying the request was answered 2xx and the action/path is not excluded"
                        if obs["ok"] else "it is excluded or a POST carrying it was answered 2xx",
                        json.dumps(st["log"])[:600]))
                else:
                    what = "jwt method: request %s, the statement demands the opposite (error: %s)" % (
                        "admitted" if obs["ok"] else "rejected", st["obs"].get("err"))
                ctx.violation({"case": small, "obs": obs, "log": log, "mode": rec["mode"], "step": step},
                              "%s%s; case=%s" % (what, where, json.dumps(small, sort_keys=True)))
        for dr in tv.tagged("DRIFT"):
            rec = part[dr["l"] - 1]
            k = rec["c"]["prof"] + "/" + (rec["c"]["beh"] or ("seq" if "steps" in rec["c"] else rec["c"]["rq"]["token"]["time"]))
            drift[k] = drift.get(k, 0) + 1
    if nbad:
        ctx.note("%d records violate the statement (at most 12 reported per class): %s" % (nbad, json.dumps(perclass)))
    # JWKS cache walks: verdicts of TraceJwksCache.tla
    jtv = jtv_fut.result()
    ctv = ctv_fut.result()
    pool.shutdown()
    # concurrent JWKS schedules: verdicts of TraceJwksConc.tla, grouped; per group the shortest history
    cgroups = {}
    cbad = ctv.tagged("BAD")
    for bad in cbad:
        evs = crecs[bad["l"] - 1]["events"]
        e = evs[bad["step"] - 1]
        st = [x for x in evs[:bad["step"] - 1] if x["e"] == "astart" and x["c"] == e["c"]][-1]
        refreshed = any(x["e"] == "rret" and x["t"] < st["t"] for x in evs)
        dl_after = any(x["e"] == "dl" and x["t"] < e["t"] and
                       x["t"] > max([y["t0"] for y in evs if y["e"] == "rret" and y["t"] < st["t"]] or [0]) for x in evs)
        key = (e["ok"], refreshed, dl_after)
        if key not in cgroups or bad["step"] < cgroups[key][0]:
            cgroups[key] = (bad["step"], evs, e)
    for key in sorted(cgroups):
        n, evs, e = cgroups[key]
        ctx.violation({"jwks_conc": {"admitted": key[0], "refresh_returned_before_call_started": key[1],
                                     "download_served_after_that_refresh": key[2]}},
                      "JWKS cache (concurrent): call %s with a valid token signed by %s was %s, which is not the decision for "
                      "any download it may use%s; events: [%s]; error: %s" % (
                          e["c"], e["k"], "ADMITTED" if e["ok"] else "REJECTED",
                          " (RefreshJWTJWKS had returned before the call started and no download was served since)"
                          if key[1] and not key[2] else "", _conc_say(evs, n), e.get("err", "")))
    if cbad:
        ctx.note("%d decisions of the concurrent JWKS schedules violate the statement (%d classes reported)" % (
            len(cbad), len(cgroups)))
    ctx.set("jwks_conc_schedules", len(crecs))
    ctx.set("jwks_conc_graph_edges_covered", [ccovered, ctotal])
    ctx.set("jwks_conc_decisions", sum(1 for w in crecs for x in w["events"] if x["e"] == "aret"))
    ctx.set("jwks_conc_downloads", sum(1 for w in crecs for x in w["events"] if x["e"] == "dl"))
    ctx.set("jwks_conc_refresh_returns", sum(1 for w in crecs for x in w["events"] if x["e"] == "rret"))
    ctx.set("jwks_conc_skipped_actions", sum(1 for w in crecs for x in w["events"] if x["e"] == "skip"))
    ctx.sample({"jwks_conc_schedule": _conc_say(crecs[len(crecs) // 2]["events"], 99)})
    if ctx.thorough:
        with open(d + "/JwksConc_dev.cfg", "w") as fh:
            fh.write(CCFG % ("TRUE", maxepoch))
        sr2 = vf.tlc(ctx, "JwksConc", "JwksConc_dev.cfg", workers=2, timeout=600, allow_violation=True)
        if sr2.violated != "ImplSatisfiesProp":
            raise vf.Infra("JwksConc.tla with FetchUnlocked=TRUE does not violate ImplSatisfiesProp (got %r)" % sr2.violated)
        ctx.set("deviation_FetchUnlocked_violates", sr2.violated)
    if jtv.tagged("HARNESS"):
        h = jtv.tagged("HARNESS")[0]
        raise vf.Infra("JWKS endpoint of the harness inconsistent with the walk: walk %d step %d: %s" % (
            h["l"] - 1, h["step"], json.dumps(jrecs[h["l"] - 1]["steps"][h["step"] - 1])))
    # group the failing decisions; per group report the one with the shortest history
    jgroups = {}
    jbad = jtv.tagged("BAD")
    for bad in jbad:
        w = jrecs[bad["l"] - 1]
        acts = jwalks[w["walk"]]["acts"]
        n = bad["step"]
        st = w["steps"][n - 1]
        health, poisoned = "ok", ""
        for j in range(n - 1):
            a, sj = acts[j], w["steps"][j]
            if a["a"] == "break":
                health = a["h"]
            elif a["a"] == "recover":
                health = "ok"
            elif a["a"] == "auth" and sj["fetch"] == "ok":
                poisoned = ""                      # a successful download replaces whatever was held
            elif a["a"] == "auth" and sj["fetch"] == "fail" and health == "s503json":
                poisoned = "s503json"              # an error answer with a JSON object body was received
        key = (st["k"], st["ok"], st["fetch"], health, poisoned)
        if key not in jgroups or n < jgroups[key][0]:
            jgroups[key] = (n, acts, st)
    for key in sorted(jgroups)[:15]:
        n, acts, st = jgroups[key]
        ctx.violation({"jwks": {"token_key": key[0], "admitted": key[1], "download_in_call": key[2],
                                "endpoint_now": key[3], "error_answer_received_since_last_download": key[4]}},
                      "JWKS cache: after [%s] a valid token signed by %s is %s (download during the call: %s, endpoint now: %s, "
                      "authority's key set and history as in the walk); error: %s" % (
                          _jwks_say(acts, n - 1), key[0], "ADMITTED" if key[1] else "REJECTED", key[2], key[3],
                          (st.get("err") or "")[:160]))
    jseen = jgroups
    if jbad:
        ctx.note("%d JWKS-cache decisions violate the statement (%d distinct classes reported)" % (len(jbad), min(len(jseen), 15)))
    jdrift = len(jtv.tagged("DRIFT"))
    jsteps = sum(len(w["steps"]) for w in jrecs)
    ctx.set("jwks_walks", len(jrecs))
    ctx.set("jwks_walk_steps", jsteps)
    ctx.set("jwks_decisions", sum(1 for w in jrecs for st in w["steps"] if st["a"] == "auth"))
    ctx.set("jwks_downloads_seen_by_endpoint", sum(st.get("downloads", 0) for w in jrecs for st in w["steps"]))
    ctx.set("jwks_graph_edges_covered", [jcovered, jtotal])
    ctx.set("jwks_drift_events", jdrift)
    if jdrift:
        ctx.note("%d JWKS-cache decisions differ from layer 1 without necessarily violating the statement (DRIFT)" % jdrift)
    ctx.sample({"jwks_walk": _jwks_say(jwalks[len(jwalks) // 2]["acts"], 99),
                "decisions": [[st["k"], st["ok"], st["fetch"]] for st in jrecs[len(jwalks) // 2]["steps"] if st["a"] == "auth"]})
    if ctx.thorough:
        # sanity of the model: with the named deviation CodeIgnoresStatus (the code before fix 468a92b, finding
        # C02-F2) the statement must be violated at design level; without it the same invariant held in the MC above
        with open(d + "/JwksCache_dev.cfg", "w") as fh:
            fh.write(JCFG % (maxage, healths, "TRUE", "ImplSatisfiesPropStrict"))
        sr = vf.tlc(ctx, "JwksCache", "JwksCache_dev.cfg", workers=2, timeout=600, allow_violation=True)
        if sr.violated != "ImplSatisfiesPropStrict":
            raise vf.Infra("JwksCache.tla with CodeIgnoresStatus=TRUE does not violate ImplSatisfiesPropStrict (got %r): "
                           "the model cannot see a cached error answer" % sr.violated)
        ctx.set("deviation_CodeIgnoresStatus_violates", sr.violated)
    phases["tlc_trace_validation"] = round(time.time() - t0, 1)
    byprof = {}
    decisions = 0
    for rec in recs:
        p = rec["c"]["prof"]
        a = byprof.setdefault(p, [0, 0])
        for st in (rec["steps"] if "steps" in rec else [rec]):
            decisions += 1
            a[0] += 1
            a[1] += 1 if st["obs"]["ok"] else 0
    ctx.set("cases_enumerated", len(cases))
    ctx.set("decisions_by_profile_total_admitted", byprof)
    ctx.set("exhaustive", True)
    ctx.set("traces_validated_against_impl", len(recs) + len(jrecs) + len(crecs))
    ctx.set("decisions_judged", decisions)
    ctx.set("sequence_records", {m: sum(1 for rec in recs if rec["mode"] == m) for m in ("serial", "concurrent")})
    ctx.set("auth_server_requests_logged", sum(len(rec["log"]) for rec in recs if "log" in rec))
    ctx.set("drift_events", sum(drift.values()))
    ctx.set("phase_wall_s", phases)
    if drift:
        ctx.note("observations that differ from layer 1 without violating the statement (DRIFT): %s" % json.dumps(drift))
    for p in ("hstatus", "jclass", "jplace"):
        for rec in recs:
            if rec["c"]["prof"] == p and "obs" in rec and rec["obs"]["ok"]:
                ctx.sample({"case": _small(rec["c"]), "obs": rec["obs"],
                            "log": [[e["method"], e["url"], e["status"]] for e in rec["log"]]})
                break
    for rec in recs:
        if rec["c"]["prof"] == "jseq" and rec["mode"] == "concurrent":
            ctx.sample({"sequence": [_small(rec["c"], i + 1)["token"] for i in range(len(rec["steps"]))],
                        "cfg": rec["c"]["cfg"], "mode": rec["mode"], "ok": [st["obs"]["ok"] for st in rec["steps"]]})
            break
    ctx.assume("signature and expiry verification of golang-jwt / keyfunc is an atom fixed by the token class")
    ctx.assume("the ground-truth table for permission matching (exclude lists, permission claims) is hand-written")
    ctx.assume("nothing listens on 127.0.0.1:1 (connection refused behaviour)")
