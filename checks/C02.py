"""C02 HTTP and JWT authentication admit only what the authority grants — spec/auth/AuthExt.tla"""
import json
import time
import vf

LEVEL = "model_checking"
LEVEL_TEXT = ("AuthExt.tla states the two iff-formulas (http: excluded or a POST carrying the request was answered 2xx; "
              "jwt: excluded or signature/issuer/audience/expiry/permission claim hold) and the token source order, and "
              "transcribes getToken/authenticateHTTP/authenticateJWT as layer 1; TLC checks layer 1 |= layer 2 on eight "
              "bounded profiles (six of single requests, two of request sequences on one manager: history "
              "independence, every step judged by the per-request formula, serially and from concurrent goroutines) "
              "and emits every case; the real auth.Manager executes each case against a local auth "
              "server that logs the POST it received and a local JWKS server with tokens minted per class; TLC then "
              "evaluates the statement on every observed record")
LEVEL_NOTE = ("signature/expiry verification is an atom fixed by the token class (third-party jwt library); open points of "
              "the statement (token+jwt both present, repeated parameter, MoQ as HTTP protocol, query tokens with the "
              "http method, tokens without exp) accept either answer; reported user / AskCredentials are not part of "
              "the statement")
TECHNIQUE = "TLA+ model (TLC): exhaustive bounded MC + generated cases replayed on the real code + trace validation"

CFG = """SPECIFICATION Spec
CONSTANTS
  Profiles = {"hstatus", "htoken", "jclass", "jsig", "jplace", "jexcl", "jseq", "hseq"}
  Big = %s
INVARIANT ImplSatisfiesProp
INVARIANT RedirectDiverges
INVARIANT EmitCases
CHECK_DEADLOCK FALSE
"""

TCFG = """SPECIFICATION TraceSpec
CONSTANTS
  Profiles = {}
  Big = FALSE
INVARIANTS Verdicts Drift
POSTCONDITION Accepted
CHECK_DEADLOCK FALSE
"""

PKG = "./internal/auth/"


def _key(c):
    return json.dumps(c, sort_keys=True)


def _small(c, step=0):
    rq = c["steps"][step - 1] if "steps" in c else c["rq"]

    def tk(t):
        if t["k"] == "none":
            return ""
        if t["k"] == "text":
            return "text:" + t["s"]
        return "jwt:%s/iss=%s/aud=%s/%s/%s/perms=%s" % (t["sig"], t["iss"], ",".join(t["aud"]["v"]) or "-",
                                                      t["time"], t["form"], t["perms"])
    return {"prof": c["prof"], "method": c["cfg"]["method"], "beh": c["beh"], "excl": c["cfg"]["excl"],
            "iss": c["cfg"]["iss"], "aud": c["cfg"]["aud"], "inq": c["cfg"]["inq"],
            "action": rq["action"], "path": rq["path"], "protocol": rq["protocol"], "user": rq["user"],
            "pass": tk(rq["pass"]), "token": tk(rq["token"]),
            "qtoken": [tk(t) for t in rq["qtok"]], "qjwt": [tk(t) for t in rq["qjwt"]],
            "before": [tk(x["token"]) or tk(x["pass"]) or ",".join(tk(t) for t in x["qtok"]) or "(no token)"
                       for x in c["steps"][:step - 1]]
            if "steps" in c else []}


def run(ctx):
    d = ctx.specdir()
    phases = {}
    t0 = time.time()
    with open(d + "/AuthExt_gen.cfg", "w") as fh:
        fh.write(CFG % ("TRUE" if ctx.thorough else "FALSE"))
    r = vf.mc(ctx, "AuthExt", "AuthExt_gen.cfg", workers=6, timeout=1500, java_opts=["-Xmx8g"])
    perms = r.tagged("PERMS")
    if len(perms) != 1:
        raise vf.Infra("expected one PERMS line")
    cases = sorted(r.tagged("CASE"), key=lambda x: _key(x["c"]))
    if len(cases) < 10000:
        raise vf.Infra("generator produced only %d cases" % len(cases))
    lines = [{"perms": perms[0]}]
    for i, x in enumerate(cases):
        lines.append({"id": i, "c": x["c"]})
    phases["tlc_mc_gen"] = round(time.time() - t0, 1)
    t0 = time.time()
    cf = vf.write_ndjson(ctx.path("cases.ndjson"), lines)
    of = ctx.path("obs.ndjson")
    vf.gotest_ok(ctx, PKG, "^TestVerif_C02_Replay$", cases=cf, out=of, timeout=1500)
    recs = vf.read_ndjson(of)
    if {rec["id"] for rec in recs} != set(range(len(cases))):
        raise vf.Infra("harness replayed %d of %d cases" % (len({rec["id"] for rec in recs}), len(cases)))
    for rec in recs:
        rec["l1ok"] = cases[rec["id"]]["l1ok"]
    phases["go_replay"] = round(time.time() - t0, 1)
    t0 = time.time()

    with open(d + "/TraceAuthExt.cfg", "w") as fh:
        fh.write(TCFG)
    tf = d + "/C02_trace.ndjson"
    chunk = 25000
    nbad = 0
    perclass = {}       # reported violations per (profile, behaviour): a frequent class must not hide another
    drift = {}
    for i in range(0, len(recs), chunk):
        part = recs[i:i + chunk]
        vf.write_ndjson(tf, part)
        tv = vf.tlc(ctx, "TraceAuthExt", "TraceAuthExt.cfg", workers=1, timeout=1800, java_opts=["-Xmx10g"])
        for bad in tv.tagged("BAD"):
            rec = part[bad["l"] - 1]
            step = bad.get("step", 0)
            st = rec["steps"][step - 1] if step else rec
            nbad += 1
            cls = rec["c"]["prof"] + "/" + rec["c"]["beh"]
            perclass[cls] = perclass.get(cls, 0) + 1
            if perclass[cls] <= 12:
                small = _small(rec["c"], step)
                obs = {k: st["obs"][k] for k in ("ok", "user", "ask")}
                log = [[e["method"], e["url"], e["status"]] for e in st["log"]]
                where = ""
                if step:
                    where = " (step %d of a sequence on one manager, mode %s, earlier steps: %s)" % (
                        step, rec["mode"], small["before"])
                if rec["c"]["cfg"]["method"] == "http":
                    what = ("http method: request %s although %s; auth server log %s" % (
                        "admitted" if obs["ok"] else "rejected",
                        "no POST carrying the request was answered 2xx and the action/path is not excluded"
                        if obs["ok"] else "it is excluded or a POST carrying it was answered 2xx",
                        json.dumps(st["log"])[:600]))
                else:
                    what = "jwt method: request %s, the statement demands the opposite (error: %s)" % (
                        "admitted" if obs["ok"] else "rejected", st["obs"].get("err"))
                ctx.violation({"case": small, "obs": obs, "log": log, "mode": rec["mode"], "step": step},
                              "%s%s; case=%s" % (what, where, json.dumps(small, sort_keys=True)))
        for dr in tv.tagged("DRIFT"):
            rec = part[dr["l"] - 1]
            k = rec["c"]["prof"] + "/" + (rec["c"]["beh"] or ("seq" if "steps" in rec["c"] else rec["c"]["rq"]["token"]["time"]))
            drift[k] = drift.get(k, 0) + 1
    if nbad:
        ctx.note("%d records violate the statement (at most 12 reported per class): %s" % (nbad, json.dumps(perclass)))
    phases["tlc_trace_validation"] = round(time.time() - t0, 1)
    byprof = {}
    decisions = 0
    for rec in recs:
        p = rec["c"]["prof"]
        a = byprof.setdefault(p, [0, 0])
        for st in (rec["steps"] if "steps" in rec else [rec]):
            decisions += 1
            a[0] += 1
            a[1] += 1 if st["obs"]["ok"] else 0
    ctx.set("cases_enumerated", len(cases))
    ctx.set("decisions_by_profile_total_admitted", byprof)
    ctx.set("exhaustive", True)
    ctx.set("traces_validated_against_impl", len(recs))
    ctx.set("decisions_judged", decisions)
    ctx.set("sequence_records", {m: sum(1 for rec in recs if rec["mode"] == m) for m in ("serial", "concurrent")})
    ctx.set("auth_server_requests_logged", sum(len(rec["log"]) for rec in recs if "log" in rec))
    ctx.set("drift_events", sum(drift.values()))
    ctx.set("phase_wall_s", phases)
    if drift:
        ctx.note("observations that differ from layer 1 without violating the statement (DRIFT): %s" % json.dumps(drift))
    for p in ("hstatus", "jclass", "jplace"):
        for rec in recs:
            if rec["c"]["prof"] == p and "obs" in rec and rec["obs"]["ok"]:
                ctx.sample({"case": _small(rec["c"]), "obs": rec["obs"],
                            "log": [[e["method"], e["url"], e["status"]] for e in rec["log"]]})
                break
    for rec in recs:
        if rec["c"]["prof"] == "jseq" and rec["mode"] == "concurrent":
            ctx.sample({"sequence": [_small(rec["c"], i + 1)["token"] for i in range(len(rec["steps"]))],
                        "cfg": rec["c"]["cfg"], "mode": rec["mode"], "ok": [st["obs"]["ok"] for st in rec["steps"]]})
            break
    ctx.assume("signature and expiry verification of golang-jwt / keyfunc is an atom fixed by the token class")
    ctx.assume("the ground-truth table for permission matching (exclude lists, permission claims) is hand-written")
    ctx.assume("nothing listens on 127.0.0.1:1 (connection refused behaviour)")
