"""C07 Secrets are not disclosed by API responses or debug dumps — spec/conf/ConfStore.tla (Get, Redacted) + spec/http/DumpReq.tla"""
import vf

LEVEL = "model_checking"
LEVEL_TEXT = ("ConfStore.tla: Get = clone, redact through the clone, render; TLC checks Redacted (no secret in the view, one "
              "placeholder, store unchanged) on the abstract tree and generates the secret placements (internal users plain/"
              "special/sha256/argon2; deprecated publish/read passwords in defaults, a path, a regex path); each placement is "
              "loaded from YAML by conf.Load and served by the real api.API over HTTP; for every secret x every configuration "
              "endpoint (global, pathdefaults, paths list incl. pages, paths get) TLC evaluates RedactedObs on leak / shown value "
              "/ deep snapshots of the live configuration. DumpReq.tla: TLC enumerates all requests of protocol version HTTP/1.0, 1.1, "
              "2.0, 3.0 with <= 2 header lines over 26 spellings plus, for each credential header and spelling, 10 value-list shapes "
              "(1-3 values; empty or whitespace-only values before/after/between secrets) (thorough: also 3 lines for 1.1 and 2.0); each is given to the "
              "real dumpRequest with that ProtoMajor and, for 1.0/1.1 (raw TCP) and 2.0 (TLS + h2 client), sent to a real "
              "httpp.Server; TLC evaluates DumpObs on every dump")
LEVEL_NOTE = ("secrets are marker strings (hashes: the hash body); leak = marker in the raw body or in any decoded JSON string; "
              "credential headers = the six named in DumpReq.tla; HTTP/3.0 only by calling dumpRequest (no QUIC listener in httpp); "
              "over h2 the client writes names in lowercase whatever the spelling; response dumps are not in the statement")
TECHNIQUE = "TLA+ spec checked by TLC; TLC-generated placements/header cases replayed on the real API / HTTP server; recorded observations validated by TLC"


def run(ctx):
    d = ctx.specdir()
    # ---- configuration views
    r = vf.mc(ctx, "ConfStore", "ConfStore_c07.cfg", workers=4, timeout=300)
    seen, cases = set(), []
    for c in r.tagged("SECRETCASE"):
        k = (c["mode"], tuple(sorted(c["users"])), tuple(sorted(c["dep"])))
        if k not in seen:
            seen.add(k)
            cases.append({"mode": k[0], "users": list(k[1]), "dep": list(k[2])})
    cases.sort(key=lambda c: (c["mode"], c["users"], c["dep"]))
    for i, c in enumerate(cases):
        c["id"] = i
    if len(cases) < 30:
        raise vf.Infra("generator produced only %d secret placements" % len(cases))
    if ctx.thorough:
        x = vf.tlc(ctx, "ConfStore", "ConfStore_inplace.cfg", workers=2, timeout=300, allow_violation=True)
        if x.violated != "Redacted":
            raise vf.Infra("self-test: the named regression RedactInPlace (RedactOnCopy=FALSE) is no longer detected by Redacted")
        ctx.set("selftest_regression_detected", "RedactInPlace (RedactOnCopy=FALSE) violates Redacted in the model")
    cf = vf.write_ndjson(ctx.path("secretcases.ndjson"), cases)
    o1 = ctx.path("api.ndjson")
    vf.gotest_ok(ctx, "./internal/api/", "^TestVerif_C07_API$", cases=cf, out=o1)
    recs = vf.read_ndjson(o1)
    secs = [x for x in recs if x["rec"] == "secret"]
    if len(secs) < 5 * len(cases) or not any(x["shownAt"] for x in secs):
        raise vf.Infra("harness produced %d secret records" % len(secs))
    vf.write_ndjson(d + "/C07_trace.ndjson", recs)
    tv = vf.tlc(ctx, "TraceConfStore", "TraceConfStore_c07.cfg", workers=1, timeout=900)
    seen_api = set()
    for bad in tv.tagged("BAD"):
        if bad["rec"] == "placeholder":
            shown = sorted({x["shown"] for x in secs if x["shownAt"]})
            ctx.violation({"kind": "placeholder", "shown": shown},
                          "secrets are not replaced by ONE fixed placeholder: the API showed %s" % shown)
            continue
        rec = recs[bad["l"] - 1]
        what = "leak" if rec["leak"] else ("store-modified" if rec["storeBefore"] != rec["storeAfter"] else "secret-shown")
        key = (what, rec["position"], rec["kind"], rec["endpoint"].split("?")[0])
        if key in seen_api:
            continue
        seen_api.add(key)
        ctx.violation({"kind": "api", "what": what, "position": rec["position"], "secretKind": rec["kind"], "endpoint": rec["endpoint"]},
                      "GET /v3/config/%s with a %s secret at %s (case %d, mode %s): %s" % (
                          rec["endpoint"], rec["kind"], rec["position"], rec["case"], rec["mode"],
                          {"leak": "the response contains the secret",
                           "store-modified": "producing the response modified the live configuration",
                           "secret-shown": "the secret is shown in place"}[what]))
    if ctx.thorough:
        # self-test: clean records with one corrupted field must be rejected by TLC
        clean = next(x for x in secs if x["shownAt"] and not x["leak"])
        vf.write_ndjson(d + "/C07_trace.ndjson", [clean, dict(clean, leak=True), dict(clean, storeAfter="corrupted"),
                                                  dict(clean, shown=clean["secret"])])
        st = vf.tlc(ctx, "TraceConfStore", "TraceConfStore_c07.cfg", workers=1, timeout=300)
        if sorted(b["l"] for b in st.tagged("BAD")) != [0, 2, 3, 4]:
            raise vf.Infra("self-test: corrupted trace records were not rejected: %s" % st.tagged("BAD"))
        ctx.set("selftest_corrupted_trace_rejected", True)
    ctx.set("secret_placements", len(cases))
    ctx.set("secret_records", len(secs))
    ctx.set("positions_shown_in_a_view", len([x for x in secs if x["shownAt"]]))
    ctx.set("placeholders_seen", sorted({x["shown"] for x in secs if x["shownAt"]}))

    # ---- request dumps: protocol version x header lines
    cfgs = ctx.pick(["DumpReq_gen.cfg"], ["DumpReq_gen.cfg", "DumpReq_gen3.cfg"])
    raw = {}
    for cfg in cfgs:
        g = vf.mc(ctx, "DumpReq", cfg, workers=4, timeout=900)
        for c in g.tagged("HDRCASE"):
            raw[(c["proto"], tuple((h["name"], h["value"], h["kind"]) for h in c["headers"]))] = c
    hc = [{"id": i, "proto": c["proto"], "major": c["major"], "headers": c["headers"]}
          for i, (_, c) in enumerate(sorted(raw.items()))]
    protos = sorted({c["proto"] for c in hc})
    if len(hc) < 2400 or protos != ["HTTP/1.0", "HTTP/1.1", "HTTP/2.0", "HTTP/3.0"]:
        raise vf.Infra("generator produced only %d header cases, protocols %s" % (len(hc), protos))
    ctx.set("exhaustive", True)
    if ctx.thorough:
        x = vf.tlc(ctx, "DumpReq", "DumpReq_firstvalue.cfg", workers=2, timeout=300, allow_violation=True)
        if x.violated != "DumpRedacts":
            raise vf.Infra("self-test: the named regression FirstValueGuard (GuardOnFirstValue=TRUE) is no longer detected")
        ctx.set("selftest_regression_detected_dump2", "FirstValueGuard (GuardOnFirstValue=TRUE) violates DumpRedacts in the model")
        # layer 1 describes the current code; the named regression, re-enabled, must be detected by the model
        x = vf.tlc(ctx, "DumpReq", "DumpReq_lowerlookup.cfg", workers=2, timeout=300, allow_violation=True)
        if x.violated != "DumpRedacts":
            raise vf.Infra("self-test: the named regression LowercasedNameLookup (LowerBeforeLookup=TRUE) is no longer detected")
        ctx.set("selftest_regression_detected_dump", "LowercasedNameLookup (LowerBeforeLookup=TRUE) violates DumpRedacts in the model")
    cf2 = vf.write_ndjson(ctx.path("hdrcases.ndjson"), hc)
    o2 = ctx.path("dump.ndjson")
    vf.gotest_ok(ctx, "./internal/protocols/httpp/", "^TestVerif_C07_Dump$", cases=cf2, out=o2, timeout=1500)
    drecs = vf.read_ndjson(o2)
    lines = [x for x in drecs if x["rec"] == "dump"]
    summ = [x for x in drecs if x["rec"] == "summary"][0]
    for pr in ("HTTP/1.0", "HTTP/1.1", "HTTP/2.0"):
        want = len([c for c in hc if c["proto"] == pr])
        if summ["wire"].get(pr, 0) != want:
            raise vf.Infra("only %s of %d %s cases went over the wire" % (summ["wire"].get(pr), want, pr))
    if len([x for x in lines if x["via"] == "direct"]) < len(hc):
        raise vf.Infra("harness produced %d header records for %d cases" % (len(lines), len(hc)))
    seen = set()
    chunk = 50000
    for i in range(0, len(lines), chunk):
        part = lines[i:i + chunk]
        vf.write_ndjson(d + "/C07_dump_trace.ndjson", part)
        tv2 = vf.tlc(ctx, "TraceDumpReq", "TraceDumpReq.cfg", workers=1, timeout=1200, java_opts=["-Xmx4g"])
        for bad in tv2.tagged("BAD"):
            rec = part[bad["l"] - 1]
            shape = "".join(h["kind"] for h in hc[rec["case"]]["headers"] if h["canon"] == rec["canon"])
            # one report per header, protocol and route; with a single value if that already leaks, else per shape
            key = (rec["canon"], rec["proto"], rec["via"])
            if key in seen or (key + (shape,)) in seen:
                continue
            seen.add(key if set(shape) == {"s"} else key + (shape,))
            ctx.violation({"kind": "dump", "header": rec["canon"], "proto": rec["proto"], "via": rec["via"], "spelling": rec["name"],
                           "values": shape},
                          "the debug dump of a %s request (%s) contains the value of credential header %s (sent as '%s', value %d of a field "
                          "with values %s; s = secret, e = empty, w = whitespace only), e.g. case %d: %s"
                          % (rec["proto"], "dumpRequest called directly" if rec["via"] == "direct" else "real httpp.Server, handlerLogger",
                             rec["canon"], rec["name"], rec["line"], shape, rec["case"],
                             [(h["name"], h["kind"]) for h in hc[rec["case"]]["headers"]]))
    if ctx.thorough:
        clean = next(x for x in lines if x["credential"] and not x["leak"])
        vf.write_ndjson(d + "/C07_dump_trace.ndjson", [clean, dict(clean, leak=True)])
        st = vf.tlc(ctx, "TraceDumpReq", "TraceDumpReq.cfg", workers=1, timeout=300)
        if [b["l"] for b in st.tagged("BAD")] != [2]:
            raise vf.Infra("self-test: corrupted dump record was not rejected: %s" % st.tagged("BAD"))
    ctx.set("dump_records_by_protocol_and_route", {"%s %s" % (pr, via): len([x for x in lines if x["proto"] == pr and x["via"] == via])
                                                    for pr in protos for via in ("direct", "wire")})
    lost = len([x for x in lines if not x["bodyKept"]])
    if lost:
        ctx.note("%d request dumps do not contain the request body (DRIFT, not in the statement)" % lost)
    ctx.set("header_cases", len(hc))
    ctx.set("header_records", len(lines))
    ctx.set("traces_validated_against_impl", len(secs) + len(lines))
    ctx.sample({k: secs[0][k] for k in ("mode", "position", "kind", "endpoint", "leak", "shownAt", "shown")})
    s1 = [x for x in secs if x["shownAt"] and x["mode"] == "deprecated"]
    if s1:
        ctx.sample({k: s1[0][k] for k in ("mode", "position", "kind", "endpoint", "leak", "shownAt", "shown")})
    ctx.sample(hc[len(hc) // 2])
    ctx.assume("the API never returns conf.OptionalPaths; only Global(), PathDefaults and the resolved Paths are views")
    ctx.assume("a deep reflective dump (pointers, interfaces, maps sorted) of the live *conf.Conf before/after a GET decides 'not modified'")
    ctx.assume("Go's net/http canonicalizes header names before handlerLogger runs (HTTP/1.x over TCP, h2 over TLS); requests built "
               "for the direct dumpRequest calls get their header names canonicalized the same way (textproto.CanonicalMIMEHeaderKey)")
