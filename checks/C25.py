"""C25 Absolute timestamps track the wall clock — spec/time/Estimator.tla"""
import vf

LEVEL = "model_checking"
LEVEL_TEXT = ("Estimator.tla transcribes Estimator.Estimate (seconds, 1 tick/s); TLC checks the statement's three formulas "
              "(not later than the clock, at most 5 s behind, exact differences while the clock is not stepped and timestamps "
              "advance) on every sequence of ClockAdvance/ClockJump/Frame actions of the bounded model; every such sequence is "
              "replayed on the real Estimator (package clock set by the harness, five clock rates, four epochs) and TLC "
              "re-evaluates the formulas on what the real object returned; long random sub-second environments likewise")
LEVEL_NOTE = ("bounded: advances {1,5} s, steps {-1,+6} s, timestamp deltas {0,1,-1,6} s, 5 actions (thorough: 6, plus a second "
              "alphabet); random runs sample the rest; exactness is demanded to the nanosecond where every timestamp difference "
              "is a whole number of nanoseconds and to the tick otherwise; monotonic clock readings are not modelled")

CFG = """SPECIFICATION Spec
CONSTANTS
  Advances = {%s}
  Jumps <- %s
  Deltas <- %s
  MaxSteps = %d
INVARIANTS MC_NotLater MC_NotStale MC_Exact MC_ExactLockstep
INVARIANT EmitRuns
CHECK_DEADLOCK FALSE
"""


def run(ctx):
    d = ctx.specdir()
    models = ctx.pick(
        [("1,5", "JumpsA", "DeltasA", 5)],
        [("1,5", "JumpsA", "DeltasA", 6), ("2,4", "JumpsB", "DeltasB", 5)])
    runs = []
    for i, (adv, jmp, dl, steps) in enumerate(models):
        cfg = "Estimator_gen_%d.cfg" % i
        with open(d + "/" + cfg, "w") as fh:
            fh.write(CFG % (adv, jmp, dl, steps))
        r = vf.mc(ctx, "Estimator", cfg, workers=4, timeout=1200)
        for x in r.tagged("RUN"):
            runs.append({"run": len(runs), "acts": x["acts"]})
    if len(runs) < 10000:
        raise vf.Infra("generator produced only %d runs" % len(runs))
    ctx.set("exhaustive", True)
    cf = vf.write_ndjson(ctx.path("cases.ndjson"), runs)
    o1 = ctx.path("replay.ndjson")
    o2 = ctx.path("random.ndjson")
    pkg = "./internal/ntpestimator/"
    vf.gotest_ok(ctx, pkg, "^TestVerif_C25_(Replay|Trace)$", cases=cf, out=o1,
                 params={"RUNS": ctx.pick(400, 12000), "OUT2": o2})
    recs = vf.read_ndjson(o1)
    if len(recs) != len(runs):
        raise vf.Infra("harness replayed %d of %d runs" % (len(recs), len(runs)))
    recs += vf.read_ndjson(o2)
    acts = {r["run"]: r["acts"] for r in runs}
    chunk = 40000
    drift = 0
    frames = 0
    for i in range(0, len(recs), chunk):
        part = recs[i:i + chunk]
        vf.write_ndjson(d + "/C25_trace.ndjson", part)
        tv = vf.tlc(ctx, "TraceEstimator", "TraceEstimator.cfg", workers=1, timeout=1800, java_opts=["-Xmx8g"])
        for bad in tv.tagged("BAD"):
            rec = part[bad["l"] - 1]
            k = bad["frame"]
            win = rec["frames"][max(0, k - 2):k]
            record = {"monitor": bad["monitor"], "src": rec["src"], "rate": rec["rate"]}
            if rec["src"] == "tlc":
                record["acts"] = acts[rec["run"]]
            else:
                record["frames"] = win
            ctx.violation(record, "formula %s of the statement is false on the real Estimator (clock rate %d, %s run %d) at frame %d: "
                          "frames (seconds, nanoseconds relative to the run's epoch; pts in ticks) %s%s"
                          % (bad["monitor"], rec["rate"], rec["src"], rec["run"], k, win,
                             (" after actions %s" % acts[rec["run"]]) if rec["src"] == "tlc" else ""))
        drift += len(tv.tagged("DRIFT"))
        frames += sum(len(r["frames"]) for r in part)
    ctx.set("traces_validated_against_impl", len(recs))
    ctx.set("runs_from_tlc", len(runs))
    ctx.set("runs_random", len(recs) - len(runs))
    ctx.set("frames_judged", frames)
    ctx.set("drift_events", drift)
    if drift:
        ctx.note("%d replayed runs of the real code are not behaviours of layer 1 (DRIFT, not a verdict)" % drift)
    ctx.sample({"run": runs[len(runs) // 3], "observed": recs[len(runs) // 3]["frames"]})
    last = recs[-1]
    ctx.sample({"random_run": {"rate": last["rate"], "exactNs": last["exactNs"], "frames": last["frames"][:4]}})
    ctx.assume("the harness replaces the package variable timeNow; wall-clock readings carry no monotonic part "
               "(Estimate strips it with Round(0))")
    ctx.assume("which clock changes are steps (jumped) is known to the harness because it drives the clock")
