"""C17 Readers get the publisher's units in order; drops are counted — spec/stream/Stream.tla"""
import os, sys, threading, time
import vf

sys.path.insert(0, os.path.join(vf.VERIF, "lib"))
import walk  # noqa: E402  (generic state-graph walker provided by the framework)

LEVEL = "model_checking"
TECHNIQUE = ("TLA+ model (TLC): exhaustive bounded MC of the concurrent state machine + TLC-generated behaviours "
             "(simulation, edge cover of the dumped state graph) replayed step by step on the real Stream/Reader + "
             "TLC trace validation of the replay and of a free-running -race stress")
LEVEL_TEXT = ("Stream.tla has one action per critical section of Stream/SubStream/Reader (write under the read lock with the "
              "stale-publisher guard and the ring-buffer push, pull, callback end/error, add, the three parts of remove, publisher "
              "switch); TLC checks the statement's formulas on every interleaving of the bounded model at lock granularity and at "
              "the coarser granularity a harness can drive; TLC-generated behaviours are replayed step by step on the real objects "
              "(callbacks blocked on gates, synctest bubble) and TLC re-evaluates the formulas on what was observed; a free-running "
              "-race stress is judged by TLC on the stamped history")
LEVEL_NOTE = ("bounded: 2 formats, 2 readers, 2 publishers, queue sizes {1,2,4}, <= 3 writes per format; units with and without payload "
              "(RTP publisher whose frames span several packets) are judged one by one; Write is atomic in the model "
              "(one writer goroutine per format in the stress); replay covers the interleavings reachable without hooks "
              "(unregister+close is one step there); the stress formulas only use what the stamps make certain")

MC_CFG = """SPECIFICATION Spec
CONSTANTS
  Formats = {"f1","f2"}
  Readers = {%(readers)s}
  SubChoices = {{"f1"},{"f2"},{"f1","f2"}}
  NSS = %(nss)d
  QS = {%(qs)s}
  MaxWrites = %(mw)d
  MaxStale = %(ms)d
  Eager = %(eager)s
  Kinds = {%(kinds)s}
  FragFormats = {"f1"}
  DevCountFramesOnly = %(dev)s
  DevSharedScratch = %(dev2)s
INVARIANTS TypeOK PropAccounted PropExact PropAllReceived PropStoppedQuiet
PROPERTIES StepUnmodified StepOnlyOrder StepSkipOnlyWhenFull StepNoCallbackAfterEnd
CHECK_DEADLOCK FALSE
"""

GEN_CFG = """SPECIFICATION GSpec
CONSTANTS
  Formats = {"f1","f2"}
  Readers = {"r1","r2"}
  SubChoices = {{"f1"},{"f2"},{"f1","f2"}}
  NSS = %(nss)d
  QS = {%(qs)s}
  MaxWrites = %(mw)d
  MaxStale = %(ms)d
  Eager = TRUE
  Kinds = {%(kinds)s}
  FragFormats = {"f1"}
  DevCountFramesOnly = FALSE
  DevSharedScratch = FALSE
INVARIANT EmitRuns
CHECK_DEADLOCK FALSE
"""

GRAPH_CFG = """SPECIFICATION Spec
CONSTANTS
  Formats = {"f1","f2"}
  Readers = {"r1","r2"}
  SubChoices = {{"f1"},{"f2"},{"f1","f2"}}
  NSS = 2
  QS = {%(q)d}
  MaxWrites = 2
  MaxStale = 1
  Eager = TRUE
  Kinds = {"frame"}
  FragFormats = {"f1"}
  DevCountFramesOnly = FALSE
  DevSharedScratch = FALSE
VIEW ImplView
CHECK_DEADLOCK FALSE
"""


def _cfg(ctx, name, text):
    with open(os.path.join(ctx.specdir(), name), "w") as fh:
        fh.write(text)
    return name


def _module(ctx, src, dst, old, new):
    """a copy of a trace module that reads another file (so chunks / threads do not share one)"""
    text = open(os.path.join(ctx.specdir(), src + ".tla")).read()
    text = text.replace("MODULE " + src + " ", "MODULE " + dst + " ").replace('"' + old + '"', '"' + new + '"')
    with open(os.path.join(ctx.specdir(), dst + ".tla"), "w") as fh:
        fh.write(text)
    return dst


def _compact(acts):
    out = []
    for a in acts:
        n = a["a"]
        if n == "Write":
            out.append("W%d%s%s" % (a["ss"], a["f"], "~" if a.get("k") == "frag" else ""))   # ~ : unit without payload
        elif n == "AddReader":
            out.append("Add(%s:%s)" % (a["r"], "+".join(a["S"])))
        elif n == "Switch":
            out.append("Switch")
        else:
            out.append("%s(%s)" % (n, a["r"]))
    return " ".join(out)


def _act_from_label(lab):
    name, args = walk.parse_label(lab)
    if name == "Do":          # the actions of Stream.tla are all instances of Do(record)
        x = args[0]
        return {"a": x["a"], "ss": int(x["ss"]), "f": x["f"], "r": x["r"], "S": sorted(x["S"]), "k": x["k"]}
    a = {"a": name, "ss": 0, "f": "", "r": "", "S": [], "k": ""}
    if name == "Write":
        a["ss"], a["f"], a["k"] = int(args[0]), args[1], args[2]
    elif name == "AddReader":
        a["r"], a["S"] = args[0], sorted(args[1])
    elif name == "Switch":
        pass
    else:
        a["r"] = args[0]
    return a


def _par(jobs):
    """run callables concurrently (TLC / go test are subprocesses); re-raise the first failure."""
    res = [None] * len(jobs)
    err = []

    def work(i, fn):
        try:
            time.sleep(0.07 * i)      # vf.tlc names its metadir after the millisecond clock
            res[i] = fn()
        except BaseException as e:   # noqa
            err.append(e)
    ths = [threading.Thread(target=work, args=(i, fn)) for i, fn in enumerate(jobs)]
    for t in ths:
        t.start()
    for t in ths:
        t.join()
    if err:
        raise err[0]
    return res


def _mc_account(ctx, module, cfg, r):
    # same bookkeeping as vf.mc (done here because the runs are started concurrently)
    ctx.add("states", r.distinct)
    ctx.add("transitions", r.generated)
    ctx.cov.setdefault("mc_runs", []).append(
        {"module": module, "cfg": cfg, "distinct": r.distinct, "generated": r.generated,
         "depth": r.depth, "wall_s": round(r.wall, 2)})


def run(ctx):
    d = ctx.specdir()
    two = '"r1","r2"'
    pkg = "./internal/stream/"
    o1 = ctx.path("replay.ndjson")
    o2 = ctx.path("stress.ndjson")
    vf.overlay(ctx)
    both, frame, video = '"frame","frag"', '"frame"', '"frame","key","aud"'
    # ---- MC: layer 1 |= layer 2 on the bounded model.  (readers, nss, qs, writes/format, stale, eager, unit kinds)
    mcs = ctx.pick(
        [('"r1"', 2, "1,2,4", 3, 2, "FALSE", both),    # one reader, lock granularity, all queue sizes, units with/without payload
         (two, 1, "1", 2, 0, "FALSE", frame)],          # two readers, lock granularity
        [('"r1"', 2, "1,2,4", 4, 2, "FALSE", both),
         (two, 2, "1", 3, 1, "FALSE", frame),
         (two, 2, "2", 2, 1, "FALSE", frame),
         (two, 1, "1", 2, 0, "FALSE", both),
         ('"r1"', 1, "1,2", 3, 0, "FALSE", video),
         (two, 2, "1,2,4", 3, 1, "TRUE", frame)])
    # ---- GEN: behaviours of the Eager granularity, by TLC simulation (and, thorough, an edge cover of the state graph)
    # (nss, qs, writes/format, stale, behaviours, unit kinds); with both kinds the replay uses a publisher that writes
    # RTP packets (UseRTPPackets) and "frag" = a packet that does not complete a frame (unit without payload)
    # with frame/key/aud the replay uses H264 + H265 in payload mode (both unit remuxers; key: in-band sets are
    # stripped and the current ones injected, aud: a delimiter is stripped) and compares contents
    gens = ctx.pick([(2, "1,2", 3, 1, 220, frame), (2, "1,4", 5, 2, 100, frame), (1, "1,2", 4, 0, 140, both),
                     (1, "1,2,4", 4, 0, 140, video)],
                    [(2, "1,2,4", 3, 2, 2500, frame), (2, "1,2", 5, 2, 1500, frame), (2, "4,8", 9, 2, 1000, frame),
                     (1, "1,2,4", 5, 0, 1500, both), (1, "1,2,4", 5, 0, 1500, video)])
    jobs = []
    mcnames = []
    for i, (rd, nss, qs, mw, ms, eager, kinds) in enumerate(mcs):
        name = _cfg(ctx, "Stream_mc_%d.cfg" % i, MC_CFG % dict(readers=rd, nss=nss, qs=qs, mw=mw, ms=ms, eager=eager,
                                                                 kinds=kinds, dev="FALSE", dev2="FALSE"))
        mcnames.append(name)
        jobs.append(lambda name=name: vf.tlc(ctx, "Stream", name, workers=ctx.pick(6, 8), timeout=1500,
                                             java_opts=["-Xmx8g"]))
    for i, (nss, qs, mw, ms, num, kinds) in enumerate(gens):
        name = _cfg(ctx, "StreamGen_%d.cfg" % i, GEN_CFG % dict(nss=nss, qs=qs, mw=mw, ms=ms, kinds=kinds))
        jobs.append(lambda name=name, num=num, i=i: vf.tlc(
            ctx, "StreamGen", name, workers=1, timeout=900, simulate="num=%d" % num, depth=200,
            extra=["-seed", str(1000 * int(ctx.seed) + i)]))
    # the free-running stress does not depend on TLC's output: start it (and the -race build) right away
    stress_failure = []

    def stress():
        # a stress that cannot complete (e.g. the race detector fires) is an infrastructure problem, but it
        # must not hide what the deterministic replay finds: remember it, decide at the end
        try:
            vf.gotest_ok(ctx, pkg, "^TestVerif_C17_Stress$", race=True, timeout=1200,
                         params={"STRESSOUT": o2, "ROUNDS": ctx.pick(8, 80)})
        except vf.Infra as e:
            stress_failure.append(e)
    jobs.append(stress)
    def graph(q):
        # the Eager state graph (implementation state only), dumped by TLC and covered edge by edge
        name = _cfg(ctx, "Stream_graph_%d.cfg" % q, GRAPH_CFG % dict(q=q))
        dot = ctx.path("graph_%d.dot" % q)
        vf.tlc(ctx, "Stream", name, workers=4, timeout=1200, extra=["-dump", "dot,actionlabels", dot],
               java_opts=["-Xmx8g"])
        g = walk.load(dot)
        os.remove(dot)
        ws, covered, total = walk.edge_cover(g, maxlen=40, seed=int(ctx.seed), limit=4000)
        return [(q, w) for w in ws], covered, total
    if ctx.thorough:
        jobs += [lambda: graph(1), lambda: graph(2)]
    res = _par(jobs)
    for name, r in zip(mcnames, res[:len(mcs)]):
        _mc_account(ctx, "Stream", name, r)
    if ctx.thorough:
        # sanity of the model: with the named deviation DevCountFramesOnly the statement must be violated
        name = _cfg(ctx, "Stream_dev.cfg", MC_CFG % dict(readers='"r1"', nss=1, qs="1", mw=3, ms=0, eager="FALSE",
                                                         kinds=both, dev="TRUE", dev2="FALSE"))
        r = vf.tlc(ctx, "Stream", name, workers=2, timeout=600, allow_violation=True)
        if not r.violated:
            raise vf.Infra("Stream.tla with DevCountFramesOnly=TRUE satisfies the statement: the model cannot see uncounted drops")
        ctx.set("deviation_DevCountFramesOnly_violates", r.violated)
        name = _cfg(ctx, "Stream_dev2.cfg", MC_CFG % dict(readers='"r1"', nss=1, qs="1,2", mw=3, ms=0, eager="FALSE",
                                                          kinds=frame, dev="FALSE", dev2="TRUE"))
        r = vf.tlc(ctx, "Stream", name, workers=2, timeout=600, allow_violation=True)
        if not r.violated:
            raise vf.Infra("Stream.tla with DevSharedScratch=TRUE satisfies the statement: the model cannot see altered content")
        ctx.set("deviation_DevSharedScratch_violates", r.violated)
    ctx.set("exhaustive", True)
    cases = []
    for g, r in zip(gens, res[len(mcs):len(mcs) + len(gens)]):
        for x in r.tagged("RUN"):
            cases.append({"run": len(cases), "q": x["q"], "src": "simulate", "rtp": g[5] == both, "video": g[5] == video,
                          "acts": x["acts"]})
    nsim = len(cases)
    if nsim < 50:
        raise vf.Infra("generator produced only %d behaviours" % nsim)
    if ctx.thorough:
        covered = total = 0
        for ws, c, t in res[len(mcs) + len(gens) + 1:]:
            covered, total = covered + c, total + t
            for q, w in ws:
                cases.append({"run": len(cases), "q": q, "src": "edgecover", "rtp": False, "video": False, "acts": [_act_from_label(lab) for lab, _ in w]})
        ctx.set("graph_edges_covered", covered)
        ctx.set("graph_edges_total", total)
    cf = vf.write_ndjson(ctx.path("cases.ndjson"), cases)

    # ---- REPLAY on the real code
    vf.gotest_ok(ctx, pkg, "^TestVerif_C17_Replay$", cases=cf, out=o1, race=True, timeout=1200)
    recs = vf.read_ndjson(o1)
    if len(recs) != len(cases):
        raise vf.Infra("harness replayed %d of %d behaviours" % (len(recs), len(cases)))

    srecs = [] if stress_failure else vf.read_ndjson(o2)
    if not srecs and not stress_failure:
        raise vf.Infra("the stress produced no rounds")
    drift = [0]

    # ---- TV 1: the replayed runs
    def tv_replay_chunk(i, part):
        tf = "C17_trace_%d.ndjson" % i
        vf.write_ndjson(d + "/" + tf, part)
        cfg = _cfg(ctx, "TraceStream_%d.cfg" % i, open(d + "/TraceStream.cfg").read())
        mod = _module(ctx, "TraceStream", "TraceStream_%d" % i, "C17_trace.ndjson", tf)
        tv = vf.tlc(ctx, mod, cfg, workers=1, timeout=1800, java_opts=["-Xmx6g"])
        for bad in tv.tagged("BAD"):
            rec = part[bad["l"] - 1]
            acts = _compact(rec["steps"][:-1])
            ctx.violation({"monitor": bad["monitor"], "mode": "replay", "q": rec["q"], "aa": rec["aa"], "rtp": rec["rtp"], "video": rec["video"],
                           "acts": acts},
                          "%s is false on the real Stream (WriteQueueSize=%d, alwaysAvailable=%s, RTP publisher=%s, H264/H265 payloads=%s) "
                          "for the schedule [%s] (~ = unit without payload); "
                          "observed per step (callbacks begun, discard counters): %s"
                          % (bad["monitor"], rec["q"], rec["aa"], rec["rtp"], rec["video"], acts,
                             [[(c["r"], c["f"], c["w"]) for c in s["cbs"]] + [s["disc"]] for s in rec["steps"]]))
        drift[0] += len(tv.tagged("DRIFT"))

    def tv_stress_chunk(i, part):
        tf = "C17_stress_%d.ndjson" % i
        vf.write_ndjson(d + "/" + tf, part)
        cfg = _cfg(ctx, "TraceStreamStress_%d.cfg" % i, open(d + "/TraceStreamStress.cfg").read())
        mod = _module(ctx, "TraceStreamStress", "TraceStreamStress_%d" % i, "C17_stress.ndjson", tf)
        tv = vf.tlc(ctx, mod, cfg, workers=1, timeout=1800, java_opts=["-Xmx6g"])
        for bad in tv.tagged("BAD"):
            rec = part[bad["l"] - 1]
            lf = [x for x in rec["lives"] if x["id"] == bad["life"]][0]
            ctx.violation({"monitor": bad["monitor"], "mode": "stress", "q": rec["q"], "aa": rec["aa"], "rtp": rec["rtp"], "video": rec["video"],
                           "foreign": rec["foreign"]},
                          "%s is false in stress round %d (WriteQueueSize=%d, alwaysAvailable=%s) for reader life %d: subs=%s "
                          "add=[%d,%d] remove=[%d,%d] discarded=%d callbacks=%d failed=%s first callbacks %s"
                          % (bad["monitor"], rec["run"], rec["q"], rec["aa"], lf["id"], lf["subs"], lf["as"], lf["ae"],
                             lf["rs"], lf["re"], lf["disc"], len(lf["cbs"]), lf["err"], lf["cbs"][:12]))

    chunk = ctx.pick(4000, 2500)
    schunk = ctx.pick(10, 14)
    tvjobs = [lambda i=i: tv_replay_chunk(i, recs[i:i + chunk]) for i in range(0, len(recs), chunk)]
    tvjobs += [lambda i=i: tv_stress_chunk(i, srecs[i:i + schunk]) for i in range(0, len(srecs), schunk)]
    width = ctx.pick(4, 6)
    for i in range(0, len(tvjobs), width):
        _par(tvjobs[i:i + width])
    drift = drift[0]
    if stress_failure:
        if not ctx.violations:
            raise stress_failure[0]
        ctx.note("the free-running stress could not be used (%s); verdicts below come from the replay only"
                 % str(stress_failure[0]).splitlines()[0][:200])
        srecs = [{"lives": [], "writes": [], "run": -1, "q": 0, "aa": False, "foreign": False}]
    if drift:
        ctx.note("%d replayed runs of the real code are not the behaviour layer 1 predicts (DRIFT, not a verdict)" % drift)
    lives = sum(len(r["lives"]) for r in srecs)
    cbs = sum(len(x["cbs"]) for r in srecs for x in r["lives"])
    ctx.set("traces_validated_against_impl", len(recs) + len(srecs))
    ctx.set("replayed_behaviours", len(recs))
    ctx.set("replayed_from_simulation", nsim)
    ctx.set("replayed_steps", sum(len(r["steps"]) for r in recs))
    ctx.set("replay_callbacks_observed", sum(len(s["cbs"]) for r in recs for s in r["steps"]))
    ctx.set("replayed_with_rtp_publisher", sum(1 for r in recs if r["rtp"]))
    ctx.set("replayed_with_h264_h265_payloads", sum(1 for r in recs if r["video"]))
    ctx.set("replay_contents_compared", sum(len(s["cbs"]) + len(s["rels"]) for r in recs for s in r["steps"]))
    ctx.set("replay_payloadless_units_written", sum(1 for r in recs for s in r["steps"] if s["a"] == "Write" and s["k"] == "frag"
                                                   and not s["skipped"]))
    ctx.set("replay_discards_observed", sum(max(0, v) for r in recs for v in r["steps"][-1]["disc"].values()))
    ctx.set("drift_events", drift)
    ctx.set("stress_rounds", 0 if stress_failure else len(srecs))
    # lock-order rounds (RTSPStream / OutDescCopy / add-remove against writers that change the parameter sets): their
    # operations are judged by C40 ("every operation completes"); here they are only counted
    lops = [o for r in srecs for o in r.get("ops", [])]
    ctx.set("stress_lock_order_operations", len(lops))
    hung = sorted({o["kind"] for o in lops if o["end"] == 0})
    if hung:
        ctx.note("stream stress: operations %s did not return within the watchdog (judged by C40, not by this property)" % hung)
    ctx.set("stress_reader_lives", lives)
    ctx.set("stress_callbacks", cbs)
    ctx.set("stress_writes", sum(len(r["writes"]) for r in srecs))
    ctx.set("stress_discards", sum(x["disc"] for r in srecs for x in r["lives"]))
    ctx.sample({"replay": {"q": recs[0]["q"], "aa": recs[0]["aa"], "acts": _compact(recs[0]["steps"][:-1])}})
    ctx.sample({"stress_round": {k: srecs[0][k] for k in ("run", "q", "aa", "foreign")},
                "lives": len(srecs[0]["lives"]), "writes": len(srecs[0]["writes"])})
    ctx.assume("gortsplib's RingBuffer and Go's sync primitives are not re-verified (the model states their contract: "
               "Push refuses when q units are queued, Pull is FIFO, Close drops what is pending)")
    ctx.assume("testing/synctest.Wait() returns only when every goroutine of the bubble is durably blocked, "
               "which makes the per-step observations of the replay exact")
    ctx.assume("stress stamps come from one atomic counter, so stamp order is consistent with happens-before")
