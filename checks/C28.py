"""C28 Playback endpoints survive any recording directory content — spec/record/RecCorrupt.tla (extends RecFile.tla)"""
import json, re, os
import vf

LEVEL = "fault_enumeration"
LEVEL_TEXT = ("RecCorrupt.tla extends the segment file model of RecFile.tla with structural corruptions of the box tree the recorder "
              "writes (drop/duplicate/swap children of the file, moov, moof, traf; zero/1/7/-1/+1/max of every numeric field the "
              "parsers read: sizes, versions, flags, timescales, track ids, sample counts, offsets, durations, sample sizes), foreign "
              "files and non-files (directory, symlinks) where a segment is expected, and directories of two or three recorder files with "
              "individually valid but mutually inconsistent headers (extra/missing track, other codec, other timescale x mtxi continuing / "
              "not continuing / absent); TLC enumerates the shapes; the harness builds each "
              "from a segment recorded by the real recorder, alone and between two good segments, and queries the real playback server "
              "(list, list window, get fmp4, get window, get mp4) and the real API recordings endpoints (list, get, deletesegment) in "
              "child processes; TLC evaluates 'answered with data or an error and process alive' on every observation; the crash-tail "
              "files (truncated, zero-filled, garbage at every offset) are exercised by C27 with the same child-process observation")
LEVEL_NOTE = ("structural corruptions of the recorder's own layout, one edit at a time, not arbitrary bytes; the child runs with a 3 GiB "
              "address-space limit so that an allocation sized by file content fails at once instead of exhausting the shared machine")
TECHNIQUE = "TLA+ shape enumeration (TLC) replayed into the real servers in child processes, verdicts by TLC trace validation"


def norm(msg):
    msg = re.sub(r"0x[0-9a-fA-F]+", "N", msg or "")
    msg = re.sub(r"\[recovered.*", "", msg)
    return re.sub(r"\d+", "N", msg).strip()[:100]


def shape_name(sh):
    if sh["kind"] == "field":
        return "%s.%s=%s" % (sh["box"], sh["field"], sh["val"])
    if sh["kind"] == "foreign":
        return "foreign:" + sh["what"]
    if sh["kind"] == "pair":
        return "pair:%s/%s/%d" % (sh["incons"], sh["mtxi"], sh["files"])
    if sh["kind"] == "swap":
        return "swap:%s[%d,%d]" % (sh["parent"], sh["a"], sh["b"])
    return "%s:%s[%d]" % (sh["kind"], sh["parent"], sh["a"])


def run(ctx):
    r = vf.mc(ctx, "RecCorrupt", "RecCorrupt_gen.cfg", workers=4, timeout=300)
    cases = []
    for i, c in enumerate(r.tagged("SHAPE")):
        cases.append({"id": i, "sh": c["sh"], "nb": c["nb"]})
    if len(cases) < 1000:
        raise vf.Infra("generator produced only %d shapes" % len(cases))
    if not ctx.thorough:
        # quick: every shape alone, and a seed-chosen sixth of them between good segments
        cases = [c for c in cases if c["nb"] in ("alone", "pair") or (c["id"] + ctx.seed) % 6 == 0]
    cf = vf.write_ndjson(ctx.path("shapes.ndjson"), cases)
    keep = ctx.path("c28dirs")
    os.makedirs(keep)
    o1, o2 = ctx.path("obs_playback.ndjson"), ctx.path("obs_api.ndjson")
    vf.gotest_ok(ctx, "./internal/playback/", "^TestVerif_C28_Corrupt$", cases=cf, out=o1, timeout=1500,
                 params={"KEEPDIR": keep, "AS_MB": 3072})
    vf.gotest_ok(ctx, "./internal/api/", "^TestVerif_C28_API$", cases=os.path.join(keep, "manifest.ndjson"), out=o2,
                 timeout=1500, params={"AS_MB": 3072})
    byid = {c["id"]: c for c in cases}
    recs = []
    metas = []
    for server, f in (("playback", o1), ("api", o2)):
        for x in vf.read_ndjson(f):
            if x.get("meta"):
                metas.append(x)
                continue
            x["server"] = server
            if "sh" not in x:
                x["sh"], x["nb"] = byid[x["id"]]["sh"], byid[x["id"]]["nb"]
            for resp in x["obs"]["responses"]:
                if resp["kind"] == "none":
                    raise vf.Infra("no response from the %s child for shape %s: %s" % (server, shape_name(x["sh"]), resp["err"]))
            recs.append(x)
    if len(recs) < 2 * len(cases):
        raise vf.Infra("harness observed %d of %d (shape, server) pairs" % (len(recs), 2 * len(cases)))

    d = ctx.specdir()
    vf.write_ndjson(d + "/C28_trace.ndjson", recs)
    tv = vf.tlc(ctx, "TraceRecCorrupt", "TraceRecCorrupt.cfg", workers=1, timeout=1500, java_opts=["-Xmx6g"])
    groups = {}
    for b in tv.tagged("BAD"):
        rec = recs[b["l"] - 1]
        key = {"server": rec["server"], "monitor": b["monitor"], "shape": shape_name(rec["sh"]),
               "panic": norm(rec["obs"].get("panic", ""))}
        g = groups.setdefault(json.dumps(key, sort_keys=True), [key, [], rec])
        g[1].append("%s/%s" % (rec["sh"].get("site", "-"), rec["nb"]))
    for _, (key, where, rec) in sorted(groups.items()):
        ctx.violation(key, "%s server, shape %s (sites/neighbourhoods %s; file of %s bytes): %s" % (
            key["server"], key["shape"], ",".join(sorted(set(where))), rec.get("size"),
            "the server process exited: " + rec["obs"]["panic"] if not rec["obs"]["alive"] else
            "a request was not answered: %s" % rec["obs"]["responses"]))
    drift = {}
    for b in tv.tagged("DRIFT"):
        drift[b["monitor"]] = drift.get(b["monitor"], 0) + 1
    sigs = set()
    for x in recs:
        sigs.add((x["server"], shape_name(x["sh"]), x["nb"],
                  tuple((p["status"], norm(p.get("err", ""))) for p in x["obs"]["responses"]), x["obs"]["alive"]))
    ctx.set("evaluations", len(recs))
    ctx.set("distinct_nontrivial", len(sigs))
    ctx.set("rule", "one evaluation = one (shape from TLC, neighbourhood, server): corrupted file built from a real recording and the "
                    "server queried in a child process; distinct non-trivial = distinct (server, shape without its site, neighbourhood, "
                    "response statuses and normalized error texts, alive) tuples - every shape changes the file")
    ctx.set("shapes", len(cases))
    ctx.set("requests", sum(len(x["obs"]["responses"]) for x in recs))
    ctx.set("traces_validated_against_impl", len(recs))
    ctx.set("child_restarts", sum(m.get("childCrashes", 0) for m in metas))
    ctx.set("drift_events", drift)
    ctx.set("exhaustive", ctx.thorough)
    for k, n in sorted(drift.items()):
        ctx.note("%d observations differ from layer 1 of RecCorrupt.tla (%s): DRIFT, not a verdict" % (n, k))
    ctx.sample({"shape": cases[len(cases) // 3]})
    ctx.sample({"observation": recs[len(recs) // 3]})
    ctx.sample({"observation": recs[-1]})
    ctx.assume("one structural edit at a time on the recorder's own layout; arbitrary bytes are not enumerated")
    ctx.assume("child processes run with RLIMIT_AS = 3 GiB (any 32-bit build and small devices have less)")
    ctx.assume("a FIFO or device node named like a segment is not tried (opening it blocks, which is not a crash)")
