"""C29 Playback list/get return exactly the recorded media in range — spec/record/Playback.tla"""
import json
import vf

LEVEL = "model_checking"
LEVEL_TEXT = ("Playback.tla defines list and get over an integer (ms) timeline from the statement (recorded media = runs of samples; "
              "one span per run clipped to the window; samples with start <= t < start+duration relative to start, lead-in only since "
              "the last random-access sample) and, shaped like the code, segment by segment; TLC checks that the split into segments "
              "is invisible for every history (runs x segments x parts x tracks x gap/restart) and every window aligned to each "
              "boundary -1/0/+1 of the bounded model, and emits them; the harness makes the real recorder.Recorder produce each history "
              "and asks the real playback server (child process) every window over HTTP; the returned fMP4 is parsed with mediacommon; "
              "TLC evaluates the statement's formulas on every answer (TracePlayback.tla), expectations computed from the recorded media")
LEVEL_NOTE = ("bounded: <= 2 runs, <= 3 segments, <= 2 (thorough 3) parts per segment, 1-2 frames per part, tracks v / v+a / a, gaps 0 and "
              "250 ms; 40 ms video and 30 ms audio cadence; record path layouts chronological / day-first / time-first with every history "
              "dated across midnight of a month end (quick: layouts rotate over the histories, thorough: all combinations); windows at segment/run boundaries and one sample boundary, -1/0/+1 ms")
TECHNIQUE = "TLA+ model checking (TLC) + generated histories replayed into the real recorder/playback server, verdicts by TLC trace validation"

CFG = """SPECIFICATION Spec
CONSTANTS
  TrackSets = {%s}
  MaxRuns = 2
  Gaps = {0, 250}
  MaxSegs = 3
  MaxParts = %d
  SPPs = {%s}
  Layouts = {"chrono", "dayfirst", "timefirst"}
  CrossLayouts = %s
INVARIANTS SplitInvisible SpecSane
INVARIANT EmitCases
CHECK_DEADLOCK FALSE
"""


def wclass(runs, s, e):
    """labels of a window for the violation record (not part of any verdict): how many runs it
    intersects and where its start lies"""
    ext = [(min(x["t"] for x in r), max(x["t"] + x["d"] for x in r)) for r in runs]
    hit = sum(1 for (a, b) in ext if a < e and s < b)
    pos = "after_media"
    for i, (a, b) in enumerate(ext):
        if a <= s < b:
            pos = "in_run"
            break
        if s < a:
            pos = "before_media" if i == 0 else "in_gap_after_a_run"
            break
    return hit, pos


def run(ctx):
    d = ctx.specdir()
    tracks, parts, spps, cross = ctx.pick(('"va", "a"', 2, "2", "FALSE"), ('"v", "va", "a"', 3, "1, 2", "TRUE"))
    with open(d + "/Playback_run.cfg", "w") as fh:
        fh.write(CFG % (tracks, parts, spps, cross))
    import time
    t0 = time.time()
    r = vf.mc(ctx, "Playback", "Playback_run.cfg", workers=4, timeout=1500)
    cases = []
    for i, h in enumerate(r.tagged("HIST")):
        cases.append({"id": i, "p": h["p"], "partMs": h["partMs"], "segMs": h["segMs"], "runs": h["runs"],
                      "lists": sorted(h["lists"]), "gets": sorted(h["gets"])})
    if len(cases) < 20:
        raise vf.Infra("generator produced only %d histories" % len(cases))
    ctx.set("exhaustive", True)
    cf = vf.write_ndjson(ctx.path("cases.ndjson"), cases)
    of = ctx.path("obs.ndjson")
    vf.gotest_ok(ctx, "./internal/playback/", "^TestVerif_C29_Replay$", cases=cf, out=of, timeout=1500)
    t1 = time.time()
    recs = vf.read_ndjson(of)
    if len(recs) != len(cases):
        raise vf.Infra("harness replayed %d of %d histories" % (len(recs), len(cases)))
    nwin = sum(len(x["lists"]) + len(x["gets"]) for x in recs)

    groups = {}
    drift = 0
    chunk = 12
    for i in range(0, len(recs), chunk):
        part = recs[i:i + chunk]
        vf.write_ndjson(d + "/C29_trace.ndjson", part)
        tv = vf.tlc(ctx, "TracePlayback", "TracePlayback.cfg", workers=1, timeout=1500, java_opts=["-Xmx6g"])
        drift += len(tv.tagged("DRIFT"))
        for b in tv.tagged("BAD"):
            rec = part[b["l"] - 1]
            key = {"op": b["op"], "monitor": b["monitor"], "layout": rec["p"]["layout"],
                   "name_order_is_time_order": rec.get("nameOrderIsTimeOrder", True)}
            detail = ""
            if b["op"] == "list":
                o = rec["lists"][b["i"] - 1]
                s = o["s"] if o["s"] != -1000000 else -10**9
                e = o["e"] if o["e"] != -1000000 else 10**9
                key["runs_in_window"], key["start"] = wclass(rec["runs"], s, e)
                key["status"] = o["status"]
                detail = "list start=%s end=%s -> %s %s" % (o["s"], o["e"], o["status"], o["spans"])
            elif b["op"] == "get":
                o = rec["gets"][b["i"] - 1]
                key["runs_in_window"], key["start"] = wclass(rec["runs"], o["s"], o["s"] + o["d"])
                key["status"] = o["status"]
                detail = "get start=%s duration=%s -> %s %s" % (o["s"], o["d"], o["status"], str(o["got"])[:500])
            g = groups.setdefault(json.dumps(key, sort_keys=True), [key, 0, rec, detail])
            g[1] += 1
    for _, (key, n, rec, detail) in sorted(groups.items()):
        ext = [(min(x["t"] for x in rr), max(x["t"] + x["d"] for x in rr)) for rr in rec["runs"]]
        ctx.violation(key, "history %s (recorded runs span %s ms, %d segment files): %s [%d windows]" % (
            json.dumps(rec["p"], sort_keys=True), ext, len(rec["segs"]), detail, n))
    ctx.set("phase_s", {"tlc_mc_gen": round(r.wall, 1), "record_and_query": round(t1 - t0 - r.wall, 1),
                        "tlc_validate": round(time.time() - t1, 1)})
    ctx.set("histories", len(cases))
    ctx.set("windows", nwin)
    ctx.set("traces_validated_against_impl", nwin)
    ctx.set("history_records", len(recs))
    ctx.set("answers_validated", nwin)
    ctx.set("drift_events", drift)
    if drift:
        ctx.note("%d histories were split by the real recorder into another number of segments than planned (DRIFT, not a verdict)" % drift)
    mid = recs[len(recs) // 2]
    ctx.sample({"history": mid["p"], "segments_on_disk": mid["segs"], "list_answer": mid["lists"][len(mid["lists"]) // 2],
                "get_answer": mid["gets"][len(mid["gets"]) // 2]})
    ctx.sample({"history": recs[-1]["p"], "runs": [[(x["tr"], x["id"], x["t"]) for x in rr][:12] for rr in recs[-1]["runs"]]})
    ctx.assume("mediacommon's fMP4 parser is trusted to read the segment files and what get returns")
    ctx.assume("the last unit of each track of a run only gives its predecessor a duration (the recorder never writes it); "
               "recorded media = the samples that got a successor")
    ctx.assume("a 404 'no recording segments found' is read as the empty answer")
