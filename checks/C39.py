"""C39 Forward destinations reconcile with configuration — spec/misc/Forward.tla"""
import json, os
import vf, walk

LEVEL = "model_checking"
LEVEL_TEXT = ("Forward.tla transcribes forward.Manager (Initialize / Start / Stop / ReloadConf) and states the statement's "
              "three formulas over observations (one running forwarder per configured destination in order while the stream "
              "is available, none while it is not, unchanged entries untouched and new ones freshly started across a reload); "
              "TLC checks them on the bounded model, lib/walk.py covers every labelled transition of its state graph (every "
              "reload pair, started and stopped), each walk is replayed on the real Manager with unroutable loopback "
              "destinations, and TLC re-evaluates the formulas on what the real manager lists and runs after every call")
LEVEL_NOTE = ("destination lists of length <= 3 over 3 destinations (two protocols, one differing only in a parameter); Start/Stop "
              "strictly alternate as in core/path.go; 'started' is what the harness did, identity comes from the API ids, run loops "
              "are counted from the forwarders' start/stop log lines and their done channels (found by type); destinations that merely move position are left open by the statement and by the formulas")
TECHNIQUE = "TLA+ model (TLC): exhaustive bounded MC + edge-covering walks of the state graph replayed on the real forward.Manager + trace validation"

CFG = """SPECIFICATION %s
CONSTANTS
  Tokens = {"a", "b", "c"}
  MaxLen = %d
  MaxSteps = %d
%s
CHECK_DEADLOCK FALSE
"""


def run(ctx):
    d = ctx.specdir()

    def cfg(name, maxlen, steps, rest, spec="Spec"):
        with open(os.path.join(d, name), "w") as fh:
            fh.write(CFG % (spec, maxlen, steps, rest))
        return name
    maxlen = 3
    vf.mc(ctx, "Forward", cfg("Forward_mc.cfg", ctx.pick(2, 3), ctx.pick(4, 4),
                              "INVARIANTS TypeOK InvOnePerDest InvNoneWhileStopped\nPROPERTY PropReload"),
          workers=4, timeout=900)
    dot = ctx.path("g.dot")
    vf.tlc(ctx, "Forward", cfg("Forward_gen.cfg", maxlen, 1000000, "VIEW GenView"), workers=1, timeout=600,
           extra=["-dump", "dot,actionlabels", dot])
    g = walk.load(dot)
    os.remove(dot)
    ws, cov, tot = walk.edge_cover(g, maxlen=ctx.pick(40, 60), seed=ctx.seed, limit=None)
    if cov != tot:
        raise vf.Infra("walks cover %d of %d edges" % (cov, tot))
    runs = []
    for w in ws:
        ops = []
        for lab, _ in w:
            kind, args = walk.parse_label(lab)
            if kind == "Initialize" and len(args) == 1:
                ops.append({"k": "Initialize", "l": args[0]})
            elif kind == "ReloadConf" and len(args) == 1:
                ops.append({"k": "Reload", "l": args[0]})
            elif kind in ("Start", "Stop") and not args:
                ops.append({"k": kind, "l": []})
            else:
                raise vf.Infra("unexpected edge label " + lab[:80])
        if not ops or ops[0]["k"] != "Initialize":
            raise vf.Infra("walk does not start with Initialize")
        runs.append({"run": len(runs), "ops": ops})
    ctx.set("edges_covered", cov)
    ctx.set("edges_total", tot)
    cases = vf.write_ndjson(ctx.path("walks.ndjson"), runs)
    obsf = ctx.path("obs.ndjson")
    vf.gotest_ok(ctx, "./internal/forward/", "^TestVerif_C39_Replay$", cases=cases, out=obsf, timeout=600)
    obs = vf.read_ndjson(obsf)
    if len(obs) != len(runs):
        raise vf.Infra("harness replayed %d of %d walks" % (len(obs), len(runs)))
    crashed = [o for o in obs if o["crashed"]]
    obs = [o for o in obs if not o["crashed"]]
    if not obs:
        raise vf.Infra("the code under test crashed the harness process in every walk: " + crashed[0]["crashed"][:600])
    cut = [o for o in obs if o["truncated"]]
    if not all(o["ptrs"] and o["logs"] for o in obs):
        ctx.note("observation channels: done channels %s, forwarder log lines %s" % (obs[0]["ptrs"], obs[0]["logs"]))
    for o in obs:
        if len(o["obs"]) != len(o["ops"]):
            raise vf.Infra("run %d: %d observations for %d operations" % (o["run"], len(o["obs"]), len(o["ops"])))
    vf.write_ndjson(os.path.join(d, "C39_trace.ndjson"), obs)
    tv = vf.tlc(ctx, "TraceForward", cfg("Forward_tv.cfg", maxlen, 0, "INVARIANTS Verdicts Drift\nPOSTCONDITION Accepted",
                                      spec="TraceSpec"), workers=1, timeout=900, java_opts=["-Xmx4g"])
    for bad in tv.tagged("BAD"):
        o = obs[bad["l"] - 1]
        k = bad["step"]
        op = o["ops"][k - 1]
        prev = o["obs"][k - 2] if k >= 2 else None
        rec = {"monitor": bad["monitor"], "op": op["k"], "started": o["obs"][k - 1]["started"]}
        ctx.violation(rec, "formula %s is false on the real forward.Manager after step %d (%s %s): before=%s after=%s; "
                           "operations of the run so far: %s" % (
                               bad["monitor"], k, op["k"], json.dumps(op["l"]), json.dumps(prev, sort_keys=True),
                               json.dumps(o["obs"][k - 1], sort_keys=True), json.dumps(o["ops"][:k])[:1200]))
    drift = tv.tagged("DRIFT")
    badruns = {b["l"] for b in tv.tagged("BAD")}
    for i, o in enumerate(obs):
        if o["truncated"] and (i + 1) not in badruns:
            raise vf.Infra("run %d was cut short by the harness (%s) although no formula fails on it" % (o["run"], o["truncated"]))
    ctx.set("walks_cut_short", len(cut))
    ctx.set("walks_crashed", len(crashed))
    if crashed:
        if not badruns:
            raise vf.Infra("the code under test crashed the harness process in %d of %d walks and no formula fails on the "
                           "others: %s" % (len(crashed), len(crashed) + len(obs), crashed[0]["crashed"][:600]))
        ctx.note("the code under test crashed the harness process in %d walks (not a verdict by itself); first: %s"
                 % (len(crashed), crashed[0]["crashed"][:300].replace("\n", " | ")))
    ctx.set("traces_validated_against_impl", len(obs))
    ctx.set("steps_replayed", sum(len(o["ops"]) for o in obs))
    ctx.set("drift_runs", len(drift))
    if drift:
        o = obs[drift[0]["l"] - 1]
        ctx.note("%d walks of the real manager are not behaviours of layer 1 (DRIFT, not a verdict); first: %s"
                 % (len(drift), json.dumps(o, sort_keys=True)[:1500]))
    ctx.set("exhaustive", True)
    ctx.sample({"ops": obs[0]["ops"][:4], "obs": obs[0]["obs"][:4]})
    ctx.sample({"ops": obs[-1]["ops"][:3], "obs": obs[-1]["obs"][:3]})
    ctx.assume("the path calls Start and Stop strictly alternately (setAvailable / setNotAvailable) and never concurrently "
               "with ReloadConf (all three are called from the path's own goroutine)")
    ctx.assume("a forwarder 'runs' from start() until stop() has returned (log lines 'starting' / 'stopping', done channel open); "
               "whether it reaches its destination is outside the property")
