"""C21 Hook commands receive values verbatim and report their exit status — spec/misc/ExtCmd.tla"""
import os

import vf

LEVEL = "model_checking"
LEVEL_TEXT = ("ExtCmd.tla states the formula per executed hook (ArgCount: one argument per template argument; ArgValue: pieces "
              "concatenated with every referenced variable replaced verbatim; Env: every passed pair present exactly; ExitStatus: "
              "status N # 0 => OnExit called with an error naming N) and enumerates command templates (arguments of literal / $VAR / "
              "${VAR} pieces, unquoted, double- or single-quoted) x 10 value profiles (space, quotes, $OTHER, newline, empty, "
              "non-ASCII, backslash, glob, leading dash) x exit statuses {0,1,2,3,127,255} x restart x ambient environment of the server "
              "process (clean / the passed names with other values / names differing only in case / unrelated names); the real externalcmd.Cmd "
              "executes every case with the test binary itself as the command (it dumps argv and environment), and TLC evaluates the "
              "formula on every recorded execution (TraceExtCmd.tla)")
LEVEL_NOTE = ("bounded: 12 piece shapes; per value profile ONE command carrying all 156 arguments of <= 2 pieces at once (thorough: all "
              "1884 of <= 3 pieces), plus every single piece alone, 24 pairs of one-piece arguments and the exit-status cases with "
              "rotating profiles (thorough: all 144 pairs with two profiles each, single pieces and exit cases with every profile), 3 variables; argument content is left open (counted) for references inside single "
              "quotes and for a bare $NAME directly followed by name characters after quote removal; unix only; restart=true is "
              "closed right after the first OnExit (no second run); signals / killed commands are not covered; ambient environments: quick "
              "runs every all-arguments command clean and with colliding names, the other two ambients and the small families in rotation "
              "(thorough: single pieces in all four, exit cases clean and colliding, the 144 pairs in rotation); whether variables the server does not pass are inherited "
              "is left open (layer 1 says they are; DRIFT)")
TECHNIQUE = "TLC-enumerated templates replayed by really executing the hook + TLC trace validation of what the command saw"

PKG = "./internal/externalcmd/"


def s(cps):
    return "".join(chr(c) for c in cps)


def run(ctx):
    cfgs = ctx.pick(["ExtCmd_quick.cfg"], ["ExtCmd_thorough.cfg"])
    # layer 1 = the current code; VERIF_L1_VARIANT=ExitCodeDiscarded selects the pre-fix behaviour as layer 1 (old trees)
    variant = os.environ.get("VERIF_L1_VARIANT", "fixed")
    if variant != "fixed":
        for cfg in cfgs + ["TraceExtCmd.cfg"]:
            f = ctx.specdir() + "/" + cfg
            txt = open(f).read().replace('L1Variant = "fixed"', 'L1Variant = "%s"' % variant)
            open(f, "w").write(txt)
    ctx.set("layer1_variant", variant)
    cases, seen = [], set()
    for cfg in cfgs:
        r = vf.mc(ctx, "ExtCmd", cfg, workers=min(vf.NCPU, 8), timeout=900, java_opts=["-Xmx6g"])
        for c in r.tagged("CASE"):
            c["text"] = " ".join(c["args"])          # the command line: the arguments' texts separated by one blank
            key = (c["text"], c["prof"], c["status"], c["restart"], c["amb"])
            if key in seen:
                continue
            seen.add(key)
            c["id"] = len(cases)
            cases.append(c)
    if len(cases) < 60:
        raise vf.Infra("generator produced only %d cases" % len(cases))
    ctx.set("exhaustive", True)
    cf = vf.write_ndjson(ctx.path("cases.ndjson"), [{k: c[k] for k in ("id", "text", "env", "status", "restart", "amb", "ambient", "ambnames")} for c in cases])
    of = ctx.path("obs.ndjson")
    vf.gotest_ok(ctx, PKG, "^TestVerif_C21_Replay$", cases=cf, out=of, params={"WORKERS": 8}, timeout=1500)
    obs = {o["id"]: o for o in vf.read_ndjson(of)}
    recs = []
    for c in cases:
        o = obs.get(c["id"])
        if o is None or o.get("timeout"):
            raise vf.Infra("harness produced no observation for case %d (%s)" % (c["id"], c["text"]))
        recs.append({"tmpl": c["tmpl"], "env": c["env"], "status": c["status"], "restart": c["restart"], "ran": o["ran"],
                     "argv": o["argv"], "envseen": o["envseen"], "l1": c["l1"], "ambient": c["ambient"], "ambseen": o["ambseen"],
                     "onexit": [{"nonnil": x["nonnil"], "nums": x["nums"]} for x in o["onexit"]]})

    bad, drift = [], 0
    chunk = 20000
    for i in range(0, len(recs), chunk):
        vf.write_ndjson(ctx.specdir() + "/C21_trace.ndjson", recs[i:i + chunk])
        tv = vf.tlc(ctx, "TraceExtCmd", "TraceExtCmd.cfg", workers=1, timeout=1500, java_opts=["-Xmx8g"])
        for b in tv.tagged("BAD"):
            for mon in b["monitors"]:
                bad.append((cases[i + b["l"] - 1], mon, b))
        drift += len(tv.tagged("DRIFT"))

    def shape(arg):
        return "+".join(("lit" if p["t"] == "lit" else ("$" if p["form"] == "bare" else "${}")) +
                        ({"none": "", "dq": ":dq", "sq": ":sq"}[p["q"]]) for p in arg)

    groups = {}
    for c, mon, b in bad:
        o = obs[c["id"]]
        if mon == "ExitStatus":
            if not o["onexit"]:
                seenx = "OnExit not called"
            elif not o["onexit"][0]["nonnil"]:
                seenx = "OnExit called with nil"
            elif o["onexit"][0]["nums"] == [0]:
                seenx = "reported code 0"
            else:
                seenx = "reported %r" % o["onexit"][0]["msg"]
            rec = {"monitor": mon, "restart": c["restart"], "observed": seenx, "deviation": b["deviation"]}
            key = (mon, c["restart"], seenx, b["deviation"])
        elif mon == "ArgValue":
            i = b["badargs"][0]
            classes = sorted({e["class"] for e in c["env"] for p in c["tmpl"][i - 1] if p["t"] == "var" and p["name"] == e["name"]})
            rec = {"monitor": mon, "arg": shape(c["tmpl"][i - 1]), "classes": "+".join(classes)}
            key = (mon, rec["arg"], rec["classes"])
        elif mon == "Env":
            i = b["badenv"][0]
            e = c["env"][i - 1]
            if i in b["inheritedwins"]:
                seenx = "the value the server process inherited under the same name"
            elif not o["envseen"][i - 1]:
                seenx = "variable missing"
            else:
                seenx = "another value"
            cls = "(any value)" if i in b["inheritedwins"] else e["class"]      # an override does not depend on the value
            rec = {"monitor": mon, "class": cls, "ambient": c["amb"], "observed": seenx}
            key = (mon, cls, c["amb"], seenx)
        else:
            rec = {"monitor": mon, "args": " ".join(shape(a) for a in c["tmpl"]),
                   "classes": "+".join(sorted({e["class"] for e in c["env"] for a in c["tmpl"] for p in a if p["t"] == "var" and p["name"] == e["name"]}))}
            key = (mon, rec["classes"] if c["fam"] != "mega" else rec["classes"] + " (all arguments at once)")
            if key in groups:
                rec = groups[key]["rec"]
        g = groups.setdefault(key, {"rec": rec, "n": 0, "ex": c, "statuses": set(), "b": b})
        g["n"] += 1
        g["statuses"].add(c["status"])
    for key, g in sorted(groups.items(), key=lambda kv: str(kv[0])):
        c = g["ex"]
        o = obs[c["id"]]
        envtxt = ", ".join("%s=%r" % (e["name"], s(e["v"])) for e in c["env"])
        text = c["text"] if len(c["text"]) < 300 else c["text"][:300] + " ... (%d arguments)" % len(c["args"])
        if key[0] == "ExitStatus":
            d = ("a hook exiting with a non-zero status is not reported as failed with that status (%d executions, statuses %s, "
                 "restart=%s): %s [named deviation: %s]. Example: command line `<hook> %s`, exit status %d -> OnExit calls %s"
                 % (g["n"], sorted(g["statuses"]), c["restart"], g["rec"]["observed"], g["rec"]["deviation"], text, c["status"],
                    [x["msg"] for x in o["onexit"]]))
        else:
            b = g["b"]
            if key[0] == "ArgValue":
                i = b["badargs"][0]
                detail = ("argument %d `%s`: received %r, expected %r" % (i, c["args"][i - 1], s(o["argv"][i - 1]), s(c["exp"][i - 1])))
            elif key[0] == "Env":
                i = b["badenv"][0]
                detail = ("the server passes %s=%r, the server process itself inherited %s; the hook's environment holds %s=%r (%s)"
                          % (c["env"][i - 1]["name"], s(c["env"][i - 1]["v"]),
                             ", ".join("%s=%r" % (a["name"], s(a["v"])) for a in c["ambient"]) or "nothing of that name",
                             c["env"][i - 1]["name"], [s(v) for v in o["envseen"][i - 1]], g["rec"]["observed"]))
            else:
                detail = "the command %s %d arguments for %d template arguments: %s" % (
                    "received" if o["ran"] else "did not run;", len(o["argv"]), len(c["args"]), [s(a) for a in o["argv"]][:12])
            d = ("monitor %s fails (%d executions): command line `<hook> %s` with %s -> %s"
                 % (key[0], g["n"], text, envtxt, detail))
        ctx.violation(g["rec"], d)

    nopen = sum(1 for c in cases for x in c["open"] if x)
    ctx.set("cases_enumerated", len(cases))
    ctx.set("commands_executed", sum(1 for o in obs.values() if o["ran"]))
    ctx.set("traces_validated_against_impl", len(recs))
    ctx.set("arguments_judged", sum(len(c["open"]) for c in cases) - nopen)
    ctx.set("arguments_left_open", nopen)
    ctx.set("nonzero_status_cases", sum(1 for c in cases if c["status"] != 0))
    ctx.set("executions_failing", len({c["id"] for c, _, _ in bad}))
    ctx.set("failing_by_group", {" / ".join(str(x) for x in k): g["n"] for k, g in groups.items()})
    ctx.set("executions_by_ambient", {a: sum(1 for c in cases if c["amb"] == a) for a in sorted({c["amb"] for c in cases})})
    ctx.set("passed_variables_judged_in_environment", sum(len(c["env"]) for c in cases))
    ctx.set("drift_events", drift)
    if drift:
        ctx.note("%d executions differ from layer 1 (split, then os.Expand; exit code reported, or the selected deviation) — DRIFT, not a verdict" % drift)
    ex = [c for c in cases if len(c["tmpl"]) == 2 and not any(c["open"]) and c["fam"] == "two"]
    if ex:
        c = ex[len(ex) // 2]
        o = obs[c["id"]]
        ctx.sample({"cmdline": c["text"], "env": {e["name"]: s(e["v"]) for e in c["env"]}, "status": c["status"],
                    "argv_seen": [s(a) for a in o["argv"]], "onexit": [x["msg"] for x in o["onexit"]]})
    opn = [c for c in cases if any(c["open"]) and c["fam"] != "mega"]
    if opn:
        c = opn[len(opn) // 2]
        ctx.sample({"left_open": c["text"][:200], "argv_seen": [s(a) for a in obs[c["id"]]["argv"]], "layer1": [s(a) for a in c["l1"]]})
    ctx.assume("the command's own report (argv after '--', os.Environ) written by the re-executed test binary is trusted")
    ctx.assume("'names N' = the decimal number N occurs in the error text passed to OnExit")
