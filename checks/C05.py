"""C05 CORS allows only configured origins — spec/http/CORS.tla (+ spec/common/Wild.tla)"""
import vf

LEVEL = "model_checking"
LEVEL_TEXT = ("CORS.tla states the property as a decision function over (scheme, host characters, port) with a literal "
              "glob matcher (Wild.tla); TLC enumerates every origin x allow list of the bounded model, the real "
              "isOriginAllowed and the real handlerOrigin middleware answer each case and the header is compared with the "
              "outcomes the statement admits; random structured origins / wildcard lists through function, middleware and "
              "a real httpp.Server are judged by TLC (TraceCORS.tla)")
LEVEL_NOTE = ("bounded: 10 hosts x 2 schemes x 5 ports (+ scheme-less and missing Origin), 10 allow entries, lists of <= 2 "
              "(thorough <= 3) entries in every order; hosts over [a-z0-9.-X] only (no IPv6 literals, no upper/lower-case "
              "folding, no userinfo/path in the Origin); whether '*' may stand for zero characters and what a scheme-less "
              "Origin gets when '*' is listed are left open as in the statement")
TECHNIQUE = "TLC function table replayed on the real code + TLC trace validation of random records"

DEVNAMES = ["UnescapedDotInPattern", "WildcardIgnoresScheme", "OptionalSubdomain"]
CODE_MASK = 4  # CodeDevs of CORS.tla: the deviations of the code as it is now


def render_origin(o):
    if o["kind"] == "none":
        return False, ""
    h = "".join(o["host"])
    if o["kind"] == "bare":
        return True, h
    return True, o["scheme"] + "://" + h + (":%d" % o["port"] if o["port"] else "")


def render_entry(a):
    if a["star"]:
        return "*"
    return a["scheme"] + "://" + "".join(a["host"]) + (":%d" % a["port"] if a["port"] else "")


def classify(has, origin, hdr):
    """header observation -> outcome of the statement's vocabulary"""
    if not hdr["present"]:
        return "absent"
    if len(hdr["values"]) != 1:
        return "other"
    v = hdr["values"][0]
    if has and v == origin and origin != "*":
        return "echo"
    if v == "*":
        return "star"
    return "other"


def deviation(l1table, obs):
    """names the smallest sets of layer-1 deviations under which the spec's code model gives the observed
    (statement-violating) outcome; 'none' if the code model never gives it (i.e. not a known shape)."""
    masks = [m for m in range(8) if l1table[m] == obs]
    # deviations the current code is known to have (CodeDevs = {OptionalSubdomain}, mask 4) explain first: an outcome
    # that the code's own deviation set produces is attributed to it, not to a deviation that was repaired
    own = [m for m in masks if m & ~CODE_MASK == 0]
    if own:
        masks = own
    minimal = [m for m in masks if not any(o != m and (o & m) == o for o in masks)]
    if not minimal or 0 in minimal:
        return "none"
    names = sorted("+".join(DEVNAMES[b] for b in range(3) if m >> b & 1) for m in minimal)
    return "|".join(names)


def run(ctx):
    import time
    t0 = time.time()
    phase = {}

    def lap(name):
        nonlocal t0
        phase[name] = round(time.time() - t0, 1)
        t0 = time.time()

    # MC + GEN: every (origin, allow list) of the bounded model with the admitted outcomes
    r = vf.mc(ctx, "CORS", ctx.pick("CORS_gen.cfg", "CORS_gen3.cfg"), workers=min(vf.NCPU, 8), timeout=900,
              java_opts=["-Xmx8g"])
    cases = []
    for i, c in enumerate(r.tagged("CASE")):
        has, origin = render_origin(c["o"])
        cases.append({"id": i, "in": {"hasOrigin": has, "origin": origin, "allow": [render_entry(a) for a in c["allow"]]},
                      "acc": sorted(k for k, v in c["acc"].items() if v), "l1": c["l1"]})
    lap("tlc_gen")
    if len(cases) < 5000:
        raise vf.Infra("generator produced only %d cases" % len(cases))
    cf = vf.write_ndjson(ctx.path("cases.ndjson"), [{"id": c["id"], "in": c["in"]} for c in cases])
    of = ctx.path("obs.ndjson")
    pkg = "./internal/protocols/httpp/"
    tf = ctx.path("trace_raw.ndjson")
    # one go test run: replay of the table + random records (written to VERIF_OUT2)
    vf.gotest_ok(ctx, pkg, "^TestVerif_C05_(Replay|Trace)$", cases=cf, out=of, env={"VERIF_OUT2": tf},
                 params={"RUNS": ctx.pick(2000, 40000), "SRVRUNS": ctx.pick(30, 400)})
    obs = {o["id"]: o for o in vf.read_ndjson(of)}
    lap("go_replay_and_trace")
    nopen = ndrift = 0
    byclass = {}
    for c in cases:
        o = obs.get(c["id"])
        if o is None:
            raise vf.Infra("harness produced no observation for case %d" % c["id"])
        if len(c["acc"]) > 1:
            nopen += 1
        for via in ("func", "mw"):
            got = classify(c["in"]["hasOrigin"], c["in"]["origin"], o[via])
            if got != c["l1"][4]:  # mask 4 = {OptionalSubdomain}: the deviations of the current code (CodeDevs)
                ndrift += 1
            if got not in c["acc"]:
                dev = deviation(c["l1"], got)
                byclass[dev] = byclass.get(dev, 0) + 1
                ctx.violation({"origin": c["in"]["origin"] if c["in"]["hasOrigin"] else None, "allow": c["in"]["allow"],
                               "via": via, "obs": got, "admitted": c["acc"], "deviation": dev},
                              "Origin %r with allowOrigins %s: header %s (%s), the statement admits only %s [via %s; "
                              "explained by code deviation: %s]" % (
                                  c["in"]["origin"] if c["in"]["hasOrigin"] else None, c["in"]["allow"], got,
                                  o[via]["values"], c["acc"], via, dev))
    ctx.set("cases_enumerated", len(cases))
    ctx.set("cases_left_open_by_statement", nopen)
    ctx.set("exhaustive", True)
    ctx.sample({"case": cases[len(cases) // 2]["in"], "admitted": cases[len(cases) // 2]["acc"]})

    # TV: random structured origins / allow lists through function, middleware, real server
    raw = vf.read_ndjson(tf)
    recs = []
    for x in raw:
        # the strings the real code saw must be the rendering of the structure TLC judges
        has, origin = render_origin(x["o"])
        if (has, origin) != (x["hasOrigin"], x["originStr"]) or [render_entry(a) for a in x["allow"]] != x["allowStr"]:
            raise vf.Infra("harness record %d: structure and strings disagree" % x["run"])
        recs.append({"o": x["o"], "allow": x["allow"], "hdr": classify(has, origin, x["obs"])})
    chunk = 20000
    for i in range(0, len(recs), chunk):
        vf.write_ndjson(ctx.specdir() + "/C05_trace.ndjson", recs[i:i + chunk])
        tv = vf.tlc(ctx, "TraceCORS", "TraceCORS.cfg", workers=1, timeout=900, java_opts=["-Xmx8g"])
        for bad in tv.tagged("BAD"):
            x = raw[i + bad["l"] - 1]
            got = recs[i + bad["l"] - 1]["hdr"]
            dev = deviation(bad["l1"], got)
            byclass[dev] = byclass.get(dev, 0) + 1
            ctx.violation({"origin": x["originStr"] if x["hasOrigin"] else None, "allow": x["allowStr"], "via": x["via"],
                           "obs": got, "deviation": dev},
                          "Origin %r with allowOrigins %s: header %s (%s) is not admitted by the statement [via %s; "
                          "explained by code deviation: %s]" % (x["originStr"] if x["hasOrigin"] else None, x["allowStr"],
                                                                 got, x["obs"]["values"], x["via"], dev))
        ndrift += len(tv.tagged("DRIFT"))
    lap("tlc_trace_validation")
    ctx.set("phase_wall_s", phase)
    ctx.set("traces_validated_against_impl", 2 * len(cases) + len(recs))
    ctx.set("trace_records", len(recs))
    ctx.set("trace_records_via_server", sum(1 for x in raw if x["via"] == "server"))
    ctx.set("drift_events", ndrift)
    ctx.set("violations_by_deviation", byclass)
    if ndrift:
        ctx.note("%d observations differ from layer 1 (code model with its current deviations, CodeDevs) — DRIFT, not a verdict" % ndrift)
    ctx.sample({"trace_record": {"origin": raw[0]["originStr"], "allow": raw[0]["allowStr"], "hdr": recs[0]["hdr"]}})
    ctx.assume("net/url.Parse and regexp are not re-verified; the rendering scheme://host[:port] of a structured origin is trusted")
    ctx.assume("the bounded and random inputs contain no character that is special in a regular expression other than '.' and '*'")
