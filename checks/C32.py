"""C32 MoQ wire codecs round-trip and reject malformed input safely — spec/moq/Wire.tla"""
import vf

LEVEL = "model_checking"
LEVEL_TEXT = ("Wire.tla specifies the length classes of the variable-length integer and the framing of namespace, parameter list, "
              "property list, the nine control messages and the subgroup stream as token layouts with the protocol limits as "
              "constants; TLC enumerates structured values (boundary value per length class, 0-2 elements per list, 32 namespace "
              "fields, the largest control message, a 10 MiB object) and structured malformations derived from each layout "
              "(every truncation of short encodings, token boundaries +-1 of long ones, length > remaining, counts/lengths beyond "
              "the limits and 2^62, unknown types); every case runs on the real codecs and TLC judges round trip, encoded length, "
              "absence of panics and allocated bytes (runtime.MemStats) against the limits")
LEVEL_NOTE = ("structured values and structured malformations only, not arbitrary bytes; allocation bound = protocol limit of the "
              "type + 16 x input length + 16 KiB; subgroups with one object (what the server sends and the decoder supports); "
              "values beyond a protocol limit (control payload > 65535, payload > 10 MiB) are not in the domain")


def run(ctx):
    d = ctx.specdir()
    r = vf.mc(ctx, "Wire", "Wire_gen.cfg", workers=2, timeout=900)
    cases = []
    for c in r.tagged("CASE"):
        c["id"] = len(cases)
        cases.append(c)
    if len(cases) < 3000:
        raise vf.Infra("generator produced only %d cases" % len(cases))
    if not ctx.thorough:
        # quick tier: every unmutated value, every non-truncation malformation, every third truncation
        keep = []
        ncut = 0
        for c in cases:
            if c["mut"]["op"] == "cut":
                ncut += 1
                if (ncut + ctx.seed) % 3:
                    continue
            keep.append(c)
        cases = keep
    else:
        ctx.set("exhaustive", True)
    cf = vf.write_ndjson(ctx.path("cases.ndjson"), cases)
    of = d + "/C32_trace.ndjson"
    vf.gotest_ok(ctx, "./internal/protocols/moq/", "^TestVerif_C32_Cases$", cases=cf, out=of, timeout=1200)
    recs = vf.read_ndjson(of)
    if len(recs) != len(cases):
        raise vf.Infra("harness executed %d of %d cases" % (len(recs), len(cases)))
    tv = vf.tlc(ctx, "TraceWire", "TraceWire.cfg", workers=1, timeout=1800, java_opts=["-Xmx8g"])
    for bad in tv.tagged("BAD"):
        rec = recs[bad["l"] - 1]
        v, m, o = rec["value"], rec["mut"], rec["obs"]
        what = v.get("type") or v["kind"]
        record = {"monitor": bad["monitor"], "kind": v["kind"], "type": what,
                  "mut": {"op": m["op"], "role": m["role"], "val": m["val"]}}
        ctx.violation(record, "%s fails on the real %s codec: value %s, malformation %s -> observed %s"
                      % (bad["monitor"], what, str(v)[:500], m,
                         {k: o[k] for k in ("encLen", "inLen", "panicked", "err", "alloc", "msg") if k in o}))
    drift = tv.tagged("DRIFT")
    ctx.set("cases_enumerated", len(cases))
    ctx.set("values_round_tripped", sum(1 for c in cases if c["mut"]["op"] == "none"))
    ctx.set("malformations", sum(1 for c in cases if c["mut"]["op"] != "none"))
    ctx.set("traces_validated_against_impl", len(recs))
    ctx.set("max_alloc_bytes_malformed", max([r["obs"]["alloc"] for r in recs if r["mut"]["op"] != "none"] or [0]))
    ctx.set("drift_events", len(drift))
    for x in drift[:5]:
        rec = recs[x["l"] - 1]
        ctx.note("DRIFT (not a verdict): %s %s expected %s, the real decoder %s" % (
            rec["value"].get("type") or rec["value"]["kind"], {k: rec["mut"][k] for k in ("op", "role", "val", "at")},
            rec["mut"]["exp"], "failed: " + rec["obs"].get("msg", "") if rec["obs"]["err"] else "succeeded"))
    ctx.sample({"case": cases[len(cases) // 2], "obs": {k: v for k, v in recs[len(cases) // 2]["obs"].items() if k != "dec"}})
    ctx.sample({"case": cases[-1]["mut"], "obs": {k: v for k, v in recs[-1]["obs"].items() if k != "dec"}})
    ctx.assume("runtime.MemStats.TotalAlloc deltas (smallest of three runs) measure the decoder's allocations; the test binary "
               "runs the cases sequentially")
    ctx.assume("byte strings are compared through their [length, fill] pattern (the harness regenerates the pattern from the "
               "first byte and compares all bytes)")
