"""C22 Remuxing preserves media and injects current parameters at keyframes — spec/stream/Remux.tla"""
import os, threading, time
import vf

LEVEL = "model_checking"
TECHNIQUE = ("TLA+ model (TLC): exhaustive bounded enumeration + sampling of token sequences, layer comparison in the model, "
             "cases replayed on the real updater/remuxer (direct and end to end) + TLC trace validation of every record")
LEVEL_TEXT = ("Remux.tla states the property over token alphabets (H.264, H.265, MPEG-4 Video, AV1) and transcribes the format "
              "updaters / unit remuxers; TLC enumerates every unit of <= 3 NALs (from both initial parameter states) and every pair "
              "of units of <= 2 NALs, samples longer sequences, and compares the two layers; every sequence is concretized to bytes "
              "and pushed through the real updater+remuxer directly and through SubStream.WriteUnit with a reader; TLC evaluates "
              "the statement on the delivered units and the published description")
LEVEL_NOTE = ("persistent always-available H.264/H.265 streams are taken through offline / publisher A / offline / publisher B "
              "with every combination of description parameter sets (none/a/b) and a small repertoire of unit lists; "
              "bounded: <= 3 units of <= 3 NALs, parameter values a/b; sequences of 3 units are sampled; byte patterns beyond the "
              "type bits (e.g. start-code emulation, malformed NALs) are out of scope; where the statement is silent (parameter "
              "sets after the key frame in the same unit, partially known parameters, order of the injected sets, MPEG-4 "
              "configurations in unusual places) every reading is accepted")

CFG = """SPECIFICATION %(spec)s
CONSTANTS
  Codecs = {%(codecs)s}
  MaxAUs = %(aus)d
  MaxNALs = %(nals)d
  MaxNALs265 = %(nals265)d
  EmitLen = %(emit)d
  DevH265UpdaterComparesStored = FALSE
  DevOfflineRestartKeepsParams = FALSE
INVARIANTS DesignAgrees EmitCases
CHECK_DEADLOCK FALSE
"""


PCFG = """SPECIFICATION PSpec
CONSTANTS
  Codecs = {"h264", "h265"}
  MaxAUs = 0
  MaxNALs = 0
  MaxNALs265 = 0
  EmitLen = 99
  DevH265UpdaterComparesStored = FALSE
  DevOfflineRestartKeepsParams = %(dev)s
  Repertoire = {%(rep)s}
INVARIANTS PDesignAgrees%(emit)s
CHECK_DEADLOCK FALSE
"""


def _cfg(ctx, name, text):
    with open(os.path.join(ctx.specdir(), name), "w") as fh:
        fh.write(text)
    return name


def _module(ctx, src, dst, old, new):
    text = open(os.path.join(ctx.specdir(), src + ".tla")).read()
    text = text.replace("MODULE " + src + " ", "MODULE " + dst + " ").replace('"' + old + '"', '"' + new + '"')
    with open(os.path.join(ctx.specdir(), dst + ".tla"), "w") as fh:
        fh.write(text)
    return dst


def _par(jobs):
    res = [None] * len(jobs)
    err = []

    def work(i, fn):
        try:
            time.sleep(0.07 * i)      # vf.tlc names its metadir after the millisecond clock
            res[i] = fn()
        except BaseException as e:   # noqa
            err.append(e)
    ths = [threading.Thread(target=work, args=(i, fn)) for i, fn in enumerate(jobs)]
    for t in ths:
        t.start()
    for t in ths:
        t.join()
    if err:
        raise err[0]
    return res


def _q(cs):
    return ",".join('"%s"' % c for c in cs)


def run(ctx):
    d = ctx.specdir()
    t0 = time.time()
    phases = {}
    allc = ["h264", "h265", "mpeg4", "av1"]
    # exhaustive runs: (codecs, units, NALs per unit)
    ex = ctx.pick([(allc, 1, 3, 2)],
                  [(allc, 1, 3, 3), (allc, 2, 2, 2), (["mpeg4", "av1"], 2, 3, 3), (["mpeg4", "av1"], 3, 2, 2)])
    # sampled runs (TLC -simulate): (codecs, number of sequences) of 3 units of <= 3 NALs
    sim = ctx.pick([(["h264", "h265"], 1000), (["mpeg4", "av1"], 300)],
                   [(["h264"], 25000), (["h265"], 25000), (["mpeg4", "av1"], 8000)])
    jobs, kinds = [], []
    for i, (cs, aus, nals, nals265) in enumerate(ex):
        name = _cfg(ctx, "Remux_ex_%d.cfg" % i, CFG % dict(spec="Spec", codecs=_q(cs), aus=aus, nals=nals, nals265=nals265, emit=aus))
        jobs.append(lambda name=name: vf.tlc(ctx, "Remux", name, workers=4, timeout=1200, java_opts=["-Xmx6g"]))
        kinds.append(("ex", name))
    for i, (cs, num) in enumerate(sim):
        name = _cfg(ctx, "Remux_sim_%d.cfg" % i, CFG % dict(spec="SimSpec", codecs=_q(cs), aus=3, nals=3, nals265=3, emit=3))
        jobs.append(lambda name=name, num=num, i=i: vf.tlc(
            ctx, "Remux", name, workers=1, timeout=1200, simulate="num=%d" % num, depth=4,
            extra=["-seed", str(2200 + 1000 * int(ctx.seed) + i)], java_opts=["-Xmx6g"]))
        kinds.append(("sim", name))
    # persistent (always-available) streams going through sub-stream phases: the code-shaped layer, and the named
    # deviation DevOfflineRestartKeepsParams, which must disagree with the statement (model sanity, in the evidence)
    reper = ctx.pick("1,2", "1,2,3,4")
    pname = _cfg(ctx, "RemuxPhases_gen.cfg", PCFG % dict(dev="FALSE", rep=reper, emit=" PEmitCases"))
    dname = _cfg(ctx, "RemuxPhases_dev.cfg", PCFG % dict(dev="TRUE", rep=reper, emit=""))
    jobs.append(lambda: vf.tlc(ctx, "RemuxPhases", pname, workers=2, timeout=1200))
    jobs.append(lambda: vf.tlc(ctx, "RemuxPhases", dname, workers=2, timeout=1200))
    res = _par(jobs) if not ctx.thorough else _par(jobs[:4]) + _par(jobs[4:])
    pgen, pdev = res[-2], res[-1]
    res = res[:-2]
    pcases = [{"id": i, "codec": x["codec"], "phases": x["phases"]} for i, x in enumerate(pgen.tagged("PCASE"))]
    if len(pcases) < 50:
        raise vf.Infra("RemuxPhases.tla produced only %d phase cases" % len(pcases))
    if not pdev.tagged("PDESIGN"):
        raise vf.Infra("RemuxPhases.tla with DevOfflineRestartKeepsParams = TRUE agrees with the statement: "
                       "the model cannot see stale parameter sets after an offline restart")
    ctx.add("states", pgen.distinct)
    ctx.add("transitions", pgen.generated)
    ctx.cov.setdefault("mc_runs", []).append({"module": "RemuxPhases", "cfg": pname, "distinct": pgen.distinct,
                                              "generated": pgen.generated, "depth": pgen.depth, "wall_s": round(pgen.wall, 2)})
    ctx.set("phase_cases", len(pcases))
    ctx.set("phase_layer_disagreements", len(pgen.tagged("PDESIGN")))
    ctx.set("phase_layer_disagreements_with_deviation_DevOfflineRestartKeepsParams", len(pdev.tagged("PDESIGN")))
    phases["generate"] = round(time.time() - t0, 1)
    cases, seen, design = [], set(), set()
    for (kind, name), r in zip(kinds, res):
        if kind == "ex":
            ctx.add("states", r.distinct)
            ctx.add("transitions", r.generated)
            ctx.cov.setdefault("mc_runs", []).append({"module": "Remux", "cfg": name, "distinct": r.distinct,
                                                      "generated": r.generated, "depth": r.depth, "wall_s": round(r.wall, 2)})
        for x in r.tagged("CASE"):
            key = (x["codec"], x["init"], str(x["aus"]))
            if key in seen:
                continue
            seen.add(key)
            cases.append({"id": len(cases), "codec": x["codec"], "init": x["init"], "aus": x["aus"],
                          "src": kind})
        for x in r.tagged("DESIGN"):
            design.add((x["codec"], x["init"], str(x["aus"])))
    nex = sum(1 for c in cases if c["src"] == "ex")
    if nex < 1500 or len(cases) - nex < 200:
        raise vf.Infra("generator produced only %d exhaustive / %d sampled cases" % (nex, len(cases) - nex))
    ctx.set("exhaustive", True)
    ctx.set("cases_enumerated", nex)
    ctx.set("cases_sampled", len(cases) - nex)
    ctx.set("layer1_layer2_disagreements", len(design))
    if design:
        ctx.note("%d generated sequences on which the code-shaped layer of Remux.tla does not satisfy the statement layer "
                 "(codecs: %s); whether the real code does is decided below on its actual output"
                 % (len(design), sorted({c for c, _, _ in design})))

    cf = vf.write_ndjson(ctx.path("cases.ndjson"), cases)
    of = ctx.path("obs.ndjson")
    pcf = vf.write_ndjson(ctx.path("pcases.ndjson"), pcases)
    pof = ctx.path("pobs.ndjson")
    vf.gotest_ok(ctx, "./internal/stream/", "^TestVerif_C22_(Replay|Phases)$", cases=cf, out=of, timeout=1200,
                 params={"PCASES": pcf, "POUT": pof})
    precs = vf.read_ndjson(pof)
    if len(precs) != len(pcases):
        raise vf.Infra("phase harness produced %d records for %d cases" % (len(precs), len(pcases)))
    phases["replay"] = round(time.time() - t0, 1)
    recs = vf.read_ndjson(of)
    if len(recs) != 2 * len(cases):
        raise vf.Infra("harness produced %d records for %d cases" % (len(recs), len(cases)))
    ndel = sum(sum(1 for x in r["delivered"] if x) for r in recs)
    nun = sum(len(r["delivered"]) for r in recs)
    if ndel < 0.9 * nun:
        raise vf.Infra("only %d of %d units were delivered: the harness' byte patterns are rejected" % (ndel, nun))

    chunk = ctx.pick(3500, 20000)
    parts = [recs[i:i + chunk] for i in range(0, len(recs), chunk)]
    drift = [0]
    reported = set()
    bypat = {}

    def tv(i):
        part = parts[i]
        tf = "C22_trace_%d.ndjson" % i
        vf.write_ndjson(d + "/" + tf, part)
        cfg = _cfg(ctx, "TraceRemux_%d.cfg" % i, open(d + "/TraceRemux.cfg").read())
        mod = _module(ctx, "TraceRemux", "TraceRemux_%d" % i, "C22_trace.ndjson", tf)
        r = vf.tlc(ctx, mod, cfg, workers=1, timeout=1800, java_opts=["-Xmx8g"])
        for bad in r.tagged("BAD"):
            rec = part[bad["l"] - 1]
            k = bad["unit"]
            unit = rec["aus"][k - 1]
            pattern = bad["pattern"]
            bypat[rec["codec"] + ":" + pattern] = bypat.get(rec["codec"] + ":" + pattern, 0) + 1
            key = (rec["codec"], rec["via"], bad["clause"], pattern, tuple(unit), str(bad["before"]))
            if key in reported:
                continue
            reported.add(key)
            ctx.violation({"codec": rec["codec"], "via": rec["via"], "clause": bad["clause"], "pattern": pattern,
                           "before": bad["before"], "unit": unit},
                          "the %s is not what the statement requires: codec=%s via=%s, parameters known before the unit %s, "
                          "unit tokens %s (case: init=%s units=%s, unit %d): delivered %s, description reports %s"
                          % (bad["clause"], rec["codec"], rec["via"], bad["before"], unit, rec["init"], rec["aus"], k,
                             [x["t"] for x in rec["outs"][k - 1]],
                             {kk: vv for kk, vv in rec["descs"][k - 1].items() if kk != "cfg"}
                             if rec["codec"] != "mpeg4" else [x["t"] for x in rec["descs"][k - 1]["cfg"]]))
        drift[0] += len(r.tagged("DRIFT"))

    pdrift = [0]

    def tvp():
        vf.write_ndjson(d + "/C22_phases.ndjson", precs)
        r = vf.tlc(ctx, "TraceRemuxPhases", "TraceRemuxPhases.cfg", workers=1, timeout=1800, java_opts=["-Xmx6g"])
        for bad in r.tagged("BAD"):
            rec = precs[bad["l"] - 1]
            ph = rec["phases"][bad["phase"] - 1]
            pattern = ("restarted-offline-sub-stream-after-publisher-with-other-parameter-sets"
                       if bad["kind"] == "offline" and bad["phase"] > 1 else "other")
            bypat[rec["codec"] + ":phases:" + pattern] = bypat.get(rec["codec"] + ":phases:" + pattern, 0) + 1
            key = (rec["codec"], bad["clause"], pattern, bad["kind"], bad["prevpub"], str(ph["aus"]), bad["unit"])
            if key in reported:
                continue
            reported.add(key)
            shape = ["%s(%s)%s" % (p["kind"], p["desc"], "" if p["kind"] == "offline" else str(p["aus"])) for p in rec["phases"]]
            o = rec["obs"][bad["phase"] - 1]
            ctx.violation({"codec": rec["codec"], "via": "phases", "clause": bad["clause"], "pattern": pattern,
                           "phase_kind": bad["kind"], "previous_publisher_description": bad["prevpub"],
                           "unit": ph["aus"][bad["unit"] - 1] if bad["kind"] == "pub" and bad["unit"] else []},
                          "always-available %s stream, sub-stream phases %s: in phase %d (%s) the %s is not what the statement "
                          "requires (current parameters = those of the feeding sub stream's description, updated in-band): "
                          "delivered %s, description reports %s"
                          % (rec["codec"], shape, bad["phase"], bad["kind"], bad["clause"],
                             [[x["t"] for x in u] for u in o["outs"]], {k: v for k, v in o["desc"].items() if k != "cfg"}))
        pdrift[0] = len(r.tagged("DRIFT"))

    tvjobs = [lambda j=j: tv(j) for j in range(len(parts))] + [tvp]
    for i in range(0, len(tvjobs), 4):
        _par(tvjobs[i:i + 4])
    phases["validate"] = round(time.time() - t0, 1)
    ctx.set("phase_end_s", phases)
    ctx.set("traces_validated_against_impl", len(recs) + len(precs))
    ctx.set("phase_records_validated", len(precs))
    ctx.set("phase_filler_units_observed", sum(len(o["outs"]) for r in precs for o, p in zip(r["obs"], r["phases"]) if p["kind"] == "offline"))
    ctx.set("phase_drift_events", pdrift[0])
    if pdrift[0]:
        ctx.note("%d phase records of the real code differ from the code-shaped layer (DRIFT, not a verdict)" % pdrift[0])
    ctx.set("units_delivered", ndel)
    ctx.set("units_written", nun)
    ctx.set("drift_events", drift[0])
    ctx.set("false_units_by_pattern", bypat)
    if drift[0]:
        ctx.note("%d records of the real code differ from the code-shaped layer of Remux.tla (DRIFT, not a verdict)" % drift[0])
    ctx.sample({k: cases[len(cases) // 3][k] for k in ("codec", "init", "aus")})
    ctx.sample({k: recs[-1][k] for k in ("codec", "init", "aus", "via", "outs")})
    ctx.assume("the harness' token <-> byte tables are correct (type bits per ITU-T H.264/H.265, ISO 14496-2 start codes, AV1 OBU header)")
    ctx.assume("gortsplib's RTP packetizers are not re-verified; units they refuse are reported as not delivered")
