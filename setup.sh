#!/bin/sh
# Run once after a fresh restore, offline: warms the Go build cache for /repo with the
# harness overlay, and checks that TLC starts. Builds from files on disk only.
cd "$(dirname "$0")" || exit 1
export GOFLAGS=-mod=mod GOPROXY=off
python3 - <<'PY'
import sys, os, subprocess
sys.path.insert(0, "lib")
import vf
ctx = vf.Ctx("setup", "quick", 1)
ov = vf.overlay(ctx)
gobin, env = vf.goenv()
pk = sorted({"./" + os.path.relpath(r, os.path.join(vf.VERIF, "harness")) + "/"
             for r, _, fs in os.walk(os.path.join(vf.VERIF, "harness", "internal"))
             if any(f.endswith("_test.go") for f in fs)})
rc = subprocess.call([gobin, "build", "-overlay", ov, "-tags", "verif", "./..."], cwd=vf.REPO, env=env)
print("go build rc", rc)
if pk:
    rc2 = subprocess.call([gobin, "test", "-overlay", ov, "-tags", "verif", "-vet=off", "-count=1", "-run", "^$"] + pk,
                          cwd=vf.REPO, env=env)
    print("go test (compile only) rc", rc2)
    rc = rc or rc2
import shutil
shutil.rmtree(ctx.work, ignore_errors=True)
sys.exit(1 if rc else 0)
PY
rc=$?
java -cp /opt/veriftools/tla/tla2tools.jar tlc2.TLC -h 2>&1 | grep -q "TLC" || { echo "TLC does not start"; exit 1; }
exit $rc
