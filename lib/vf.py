"""Shared machinery of /verif: TLC runner, Go overlay runner, evidence, verdicts.

Verdict policy (DESIGN.md 4.2):
  exit 0  property held on everything explored (KNOWN-FINDING lines allowed)
  exit 1  at least one violation of the property by the REAL code that is not a listed known finding
  exit 2  infrastructure problem (harness does not build, TLC crashed, timeout, ...): not a verdict
"""
import json, os, re, shutil, subprocess, sys, time, glob, hashlib, signal

VERIF = os.path.dirname(os.path.dirname(os.path.abspath(__file__)))
REPO = os.environ.get("VERIF_REPO", "/repo")
TLAJAR = "/opt/veriftools/tla/tla2tools.jar:/opt/veriftools/tla/CommunityModules-deps.jar"
NCPU = os.cpu_count() or 4


class Infra(Exception):
    """Something that is not a verdict about the code."""


# --------------------------------------------------------------------------- context

class Ctx:
    def __init__(self, prop, tier, seed, level="model_checking"):
        self.prop = prop
        self.tier = tier
        self.seed = seed
        self.level = level
        self.t0 = time.time()
        self.work = os.path.join(VERIF, ".work", "%s-%d" % (prop, os.getpid()))
        shutil.rmtree(self.work, ignore_errors=True)
        os.makedirs(self.work)
        self.cov = {"samples": []}
        self.assumptions = []
        self.violations = []      # list of (record, description)
        self.notes = []
        self.keep_work = bool(os.environ.get("VERIF_KEEP"))
        self._specdir = None

    # -- parameters by tier
    def pick(self, quick, thorough):
        return thorough if self.tier == "thorough" else quick

    @property
    def thorough(self):
        return self.tier == "thorough"

    # -- evidence helpers
    def add(self, key, n):
        self.cov[key] = self.cov.get(key, 0) + n

    def set(self, key, v):
        self.cov[key] = v

    def sample(self, s, cap=6):
        if len(self.cov["samples"]) < cap:
            txt = json.dumps(s, sort_keys=True)
            if len(txt) > 1500:
                s = txt[:1500] + "...(truncated)"
            self.cov["samples"].append(s)

    def note(self, s):
        self.notes.append(s)
        print("note: " + s, flush=True)

    def assume(self, s):
        if s not in self.assumptions:
            self.assumptions.append(s)

    def violation(self, record, description):
        """record: JSON-able dict identifying the failing input/history (matched against known findings)."""
        self.violations.append((record, description))

    # -- spec directory: a flat scratch copy of /verif/spec (TLC litters its cwd)
    def specdir(self):
        if self._specdir is None:
            d = os.path.join(self.work, "spec")
            os.makedirs(d)
            for root, _, files in os.walk(os.path.join(VERIF, "spec")):
                for f in files:
                    if f.endswith((".tla", ".cfg", ".json", ".ndjson")):
                        dst = os.path.join(d, f)
                        if os.path.exists(dst):
                            raise Infra("duplicate spec file name " + f)
                        shutil.copy(os.path.join(root, f), dst)
            self._specdir = d
        return self._specdir

    def path(self, name):
        return os.path.join(self.work, name)


# --------------------------------------------------------------------------- TLC

class TlcResult:
    def __init__(self):
        self.rc = None
        self.out = ""
        self.generated = 0
        self.distinct = 0
        self.depth = 0
        self.lines = []      # payloads of PrintT("TAG " \o json) lines: (tag, obj)
        self.violated = None  # name of violated invariant/property, if any
        self.wall = 0.0
        self.coverage_zero = []

    def tagged(self, tag):
        return [o for (t, o) in self.lines if t == tag]


_PRINT_RE = re.compile(r'^"([A-Z][A-Z0-9_]*) (.*)"$')


def _parse_tlc_output(res, text):
    for line in text.splitlines():
        m = _PRINT_RE.match(line)
        if m:
            try:
                payload = json.loads('"' + m.group(2) + '"')
                res.lines.append((m.group(1), json.loads(payload)))
            except Exception:
                pass
            continue
        m = re.match(r"^(\d+) states generated, (\d+) distinct states found", line)
        if m:
            res.generated = int(m.group(1))
            res.distinct = int(m.group(2))
        m = re.match(r"^The depth of the complete state graph search is (\d+)", line)
        if m:
            res.depth = int(m.group(1))
        m = re.match(r"^Error: Invariant (\S+) is violated", line)
        if m:
            res.violated = m.group(1)
        m = re.match(r"^Error: Action property (\S+) is violated", line)
        if m:
            res.violated = m.group(1)
        if line.startswith("Error: Temporal properties were violated"):
            res.violated = res.violated or "temporal"
        if line.startswith("Error: Deadlock reached"):
            res.violated = res.violated or "deadlock"


def tlc(ctx, module, cfg=None, workers=None, timeout=600, simulate=None, depth=None,
        extra=(), java_opts=(), dfs=False, allow_violation=False, coverage=False, quiet=True,
        xss="64m"):
    """Run TLC on spec/<module>.tla with <cfg> inside the scratch spec dir. Returns TlcResult."""
    d = ctx.specdir()
    cfg = cfg or (module + ".cfg")
    if not os.path.exists(os.path.join(d, module + ".tla")):
        raise Infra("no such spec module " + module)
    if not os.path.exists(os.path.join(d, cfg)):
        raise Infra("no such cfg " + cfg)
    meta = os.path.join(ctx.work, "meta-%s-%s" % (module, os.urandom(6).hex()))
    jtmp = os.path.join(ctx.work, "jtmp")
    os.makedirs(jtmp, exist_ok=True)
    cmd = ["java", "-XX:+UseParallelGC", "-Xss" + xss, "-Djava.io.tmpdir=" + jtmp]
    if dfs:
        cmd.append("-Dtlc2.tool.queue.IStateQueue=StateDeque")
    cmd += list(java_opts)
    cmd += ["-cp", TLAJAR, "tlc2.TLC", "-metadir", meta, "-config", cfg,
            "-workers", str(workers or "auto"), "-noGenerateSpecTE"]
    if simulate:
        cmd += ["-simulate", simulate]
    if depth:
        cmd += ["-depth", str(depth)]
    if coverage:
        cmd += ["-coverage", "1"]
    cmd += list(extra)
    cmd.append(module + ".tla")
    t0 = time.time()
    env = dict(os.environ)
    env.pop("JAVA_TOOL_OPTIONS", None)
    try:
        p = subprocess.run(cmd, cwd=d, stdout=subprocess.PIPE, stderr=subprocess.STDOUT,
                           timeout=timeout, env=env)
    except subprocess.TimeoutExpired:
        subprocess.run(["pkill", "-f", meta], check=False)
        raise Infra("TLC timeout (%ds) on %s/%s" % (timeout, module, cfg))
    finally:
        shutil.rmtree(meta, ignore_errors=True)
    res = TlcResult()
    res.rc = p.returncode
    res.out = p.stdout.decode("utf-8", "replace")
    res.wall = time.time() - t0
    _parse_tlc_output(res, res.out)
    if coverage:
        for line in res.out.splitlines():
            m = re.match(r"^<(\w+) line .*>: (\d+):(\d+)$", line.strip())
            if m and m.group(2) == "0" and m.group(3) == "0":
                res.coverage_zero.append(m.group(1))
    ok_codes = (0,)
    if res.rc not in ok_codes:
        if allow_violation and res.rc in (12, 13, 11) and res.violated:
            return res
        tail = "\n".join(res.out.splitlines()[-40:])
        raise Infra("TLC failed rc=%s on %s/%s\n%s" % (res.rc, module, cfg, tail))
    if not quiet:
        print(res.out)
    return res


def mc(ctx, module, cfg, **kw):
    """Exhaustive model check whose states/transitions are accumulated into the evidence.
    A design-level counterexample here is an infrastructure failure (the spec's layer 1 and
    layer 2 disagree => the model is wrong or the design admits the bad state; never a code verdict)."""
    r = tlc(ctx, module, cfg, **kw)
    ctx.add("states", r.distinct)
    ctx.add("transitions", r.generated)
    ctx.cov.setdefault("mc_runs", []).append(
        {"module": module, "cfg": cfg, "distinct": r.distinct, "generated": r.generated,
         "depth": r.depth, "wall_s": round(r.wall, 2)})
    return r


# --------------------------------------------------------------------------- Go

_GOENV = None


def goenv():
    global _GOENV
    if _GOENV is None:
        env = dict(os.environ)
        env["GOFLAGS"] = "-mod=mod"
        env["GOPROXY"] = "off"
        env.pop("GOSUMDB", None)
        env.setdefault("GOTOOLCHAIN", "auto")
        gobin = "go"
        try:
            p = subprocess.run(["go", "version"], cwd=REPO, env=env, stdout=subprocess.PIPE,
                               stderr=subprocess.STDOUT, timeout=120)
            ok = p.returncode == 0 and b"go1.26" in p.stdout
        except Exception:
            ok = False
        if not ok:
            env["GOTOOLCHAIN"] = "local"
            gobin = "go1.26"
        _GOENV = (gobin, env)
    return _GOENV


def overlay(ctx):
    """Overlay = embed stubs + every file under /verif/harness/internal (added, never replacing)."""
    rep = {
        os.path.join(REPO, "internal/core/VERSION"): os.path.join(VERIF, "harness/embed/VERSION"),
        os.path.join(REPO, "internal/servers/hls/hls.min.js"): os.path.join(VERIF, "harness/embed/hls.min.js"),
    }
    # if the generated files exist in the working tree, use them
    for k in list(rep):
        if os.path.exists(k):
            del rep[k]
    base = os.path.join(VERIF, "harness")
    for root, _, files in os.walk(os.path.join(base, "internal")):
        for f in files:
            if not f.endswith(".go"):
                continue
            src = os.path.join(root, f)
            rel = os.path.relpath(src, base)
            dst = os.path.join(REPO, rel)
            if os.path.exists(dst):
                raise Infra("overlay would replace repository file " + dst)
            rep[dst] = src
    p = ctx.path("overlay.json")
    with open(p, "w") as fh:
        json.dump({"Replace": rep}, fh)
    return p


def gotest(ctx, pkg, run, env=None, race=False, timeout=900, tags="verif", cases=None, out=None,
           params=None, count=1, extra=()):
    """go test of an injected harness test inside /repo's working tree.
    Returns (rc, output). rc!=0 is NOT interpreted here."""
    gobin, genv = goenv()
    e = dict(genv)
    e["VERIF_SEED"] = str(ctx.seed)
    e["VERIF_TIER"] = ctx.tier
    e["VERIF_WORK"] = ctx.work
    # temp files of the test binary (t.TempDir, os.CreateTemp) live in the work dir, not in /tmp
    e["TMPDIR"] = os.path.join(ctx.work, "gotmp")
    os.makedirs(e["TMPDIR"], exist_ok=True)
    if cases:
        e["VERIF_CASES"] = cases
    if out:
        e["VERIF_OUT"] = out
    for k, v in (params or {}).items():
        e["VERIF_P_" + k] = str(v)
    if env:
        e.update(env)
    cmd = [gobin, "test", "-overlay", overlay(ctx), "-vet=off", "-count=%d" % count,
           "-timeout", "%ds" % timeout, "-run", run]
    if tags:
        cmd += ["-tags", tags]
    if race:
        cmd.append("-race")
    cmd += list(extra)
    cmd.append(pkg)
    try:
        p = subprocess.run(cmd, cwd=REPO, env=e, stdout=subprocess.PIPE, stderr=subprocess.STDOUT,
                           timeout=timeout + 120)
    except subprocess.TimeoutExpired:
        raise Infra("go test timeout: " + " ".join(cmd))
    return p.returncode, p.stdout.decode("utf-8", "replace")


def gotest_ok(ctx, pkg, run, **kw):
    """As gotest, but a failing/absent test is an infrastructure failure (harness tests never
    decide anything themselves: they only record)."""
    rc, out = gotest(ctx, pkg, run, **kw)
    if rc != 0:
        raise Infra("harness test failed (rc=%d) %s %s\n%s" % (rc, pkg, run, out[-6000:]))
    if "no tests to run" in out:
        raise Infra("harness test not found: %s %s\n%s" % (pkg, run, out[-2000:]))
    return out



def tlc_trace_chunks(ctx, module, cfg, tracefile, recs, chunk=40000, par=6, timeout=1800, java_opts=("-Xmx6g",)):
    """Trace validation of many records: splits recs into chunks, gives each chunk its own copy of the Trace
    module (module name and trace file name replaced) and runs up to `par` TLC processes at a time.
    Returns [(offset, TlcResult)]: record l of a result is recs[offset + l - 1]."""
    import concurrent.futures as cf
    d = ctx.specdir()
    with open(os.path.join(d, module + ".tla")) as fh:
        src = fh.read()
    if tracefile not in src:
        raise Infra("%s.tla does not read %s" % (module, tracefile))
    jobs = []
    for n, i in enumerate(range(0, len(recs), chunk)):
        mod = "%s_k%d" % (module, n)
        tf = tracefile.replace(".ndjson", "_k%d.ndjson" % n)
        write_ndjson(os.path.join(d, tf), recs[i:i + chunk])
        with open(os.path.join(d, mod + ".tla"), "w") as fh:
            fh.write(src.replace("MODULE " + module, "MODULE " + mod).replace(tracefile, tf))
        jobs.append((i, mod))

    def one(job):
        off, mod = job
        return off, tlc(ctx, mod, cfg, workers=1, timeout=timeout, java_opts=list(java_opts))
    with cf.ThreadPoolExecutor(max_workers=par) as ex:
        return list(ex.map(one, jobs))

# --------------------------------------------------------------------------- ndjson

def read_ndjson(path):
    out = []
    with open(path) as fh:
        for line in fh:
            line = line.strip()
            if line:
                out.append(json.loads(line))
    return out


def write_ndjson(path, recs):
    with open(path, "w") as fh:
        for r in recs:
            fh.write(json.dumps(r, separators=(",", ":"), sort_keys=True))
            fh.write("\n")
    return path


# --------------------------------------------------------------------------- known findings

def load_known():
    """known_findings.json (committed; never written at run time)."""
    out = []
    p = os.path.join(VERIF, "known_findings.json")
    if os.path.exists(p):
        with open(p) as fh:
            out += json.load(fh).get("findings", [])
    return out


def _subset(pat, rec):
    """pat matches rec if every key of pat is in rec with an equal value (dicts recursively;
    a pattern string starting with 're:' is a regular expression that must match fully)."""
    if isinstance(pat, dict):
        if not isinstance(rec, dict):
            return False
        return all(k in rec and _subset(v, rec[k]) for k, v in pat.items())
    if isinstance(pat, str) and pat.startswith("re:"):
        return isinstance(rec, str) and re.fullmatch(pat[3:], rec, re.S) is not None
    return pat == rec


def match_known(prop, record):
    for f in load_known():
        if f.get("property") == prop and f.get("status") == "known" and _subset(f.get("match", {}), record):
            return f
    return None


# --------------------------------------------------------------------------- finish

def finish(ctx):
    known_hits = {}
    real = []
    for rec, desc in ctx.violations:
        k = match_known(ctx.prop, rec)
        if k:
            known_hits.setdefault(k["id"], [k, 0])[1] += 1
        else:
            real.append((rec, desc))
    for kid, (k, n) in sorted(known_hits.items()):
        print("KNOWN-FINDING: property=%s %s [%s, %d occurrence(s) this run]" % (ctx.prop, k["description"], kid, n))
    rdir = os.path.join(VERIF, ".replay", ctx.prop)
    paths = []
    if real:
        os.makedirs(rdir, exist_ok=True)
        for i, (rec, desc) in enumerate(real[:20]):
            h = hashlib.sha1(json.dumps(rec, sort_keys=True).encode()).hexdigest()[:10]
            p = os.path.join(rdir, "%s-%s.json" % (ctx.tier, h))
            with open(p, "w") as fh:
                json.dump({"property": ctx.prop, "description": desc, "record": rec,
                           "seed": ctx.seed, "tier": ctx.tier}, fh, indent=1, sort_keys=True)
            paths.append(p)
            print("VIOLATION property=%s replay=%s" % (ctx.prop, p))
            print("  " + desc[:1500])
    cov = dict(ctx.cov)
    if not cov.get("samples"):
        cov["samples"] = ["(no sample recorded)"]
    cov["known_findings_hit"] = sorted(known_hits)
    if ctx.notes:
        cov["notes"] = ctx.notes[:50]
    ev = {
        "property_id": ctx.prop,
        "tier": ctx.tier,
        "seed": int(ctx.seed),
        "level": ctx.level,
        "coverage": cov,
        "assumptions": ctx.assumptions,
        "wall_s": round(time.time() - ctx.t0, 2),
        "violations": len(real),
    }
    evdir = os.path.join(VERIF, "evidence")
    if not ctx.prop.startswith("C"):
        # extension modules (X01 ...: behaviour beyond the listed properties) keep their evidence apart
        evdir = os.path.join(VERIF, "evidence_ext")
    if os.path.realpath(REPO) != "/repo":
        # runs against a scratch worktree (mutant validation) never overwrite the real evidence
        evdir = os.path.join(VERIF, ".work", "evidence-alt")
    os.makedirs(evdir, exist_ok=True)
    with open(os.path.join(evdir, ctx.prop + ".json"), "w") as fh:
        json.dump(ev, fh, indent=1, sort_keys=True)
        fh.write("\n")
    if not ctx.keep_work:
        shutil.rmtree(ctx.work, ignore_errors=True)
    print("%s %s tier=%s seed=%s wall=%.1fs violations=%d known=%d" % (
        "FAIL" if real else "PASS", ctx.prop, ctx.tier, ctx.seed, time.time() - ctx.t0,
        len(real), sum(n for _, n in known_hits.values())), flush=True)
    return 1 if real else 0


# --------------------------------------------------------------------------- generic table replay

def compare_cases(ctx, cases, obs, key="id", describe=None, fields=None, ignore=None):
    """cases: list of dicts with key, 'in', 'exp'; obs: list of dicts with key, 'obs'.
    A difference between exp and obs is a violation (decision functions: the property IS the function)."""
    byid = {o[key]: o for o in obs}
    n = 0
    for c in cases:
        o = byid.get(c[key])
        if o is None:
            raise Infra("harness produced no observation for case %r" % (c[key],))
        n += 1
        exp, got = c["exp"], o["obs"]
        if fields:
            exp = {k: exp.get(k) for k in fields}
            got = {k: got.get(k) for k in fields}
        if ignore and ignore(c, o):
            continue
        if exp != got:
            rec = {"in": c["in"], "exp": exp, "obs": got}
            d = describe(c, o) if describe else "input %s: expected %s, real code gave %s" % (
                json.dumps(c["in"], sort_keys=True), json.dumps(exp, sort_keys=True), json.dumps(got, sort_keys=True))
            ctx.violation(rec, d)
    return n
