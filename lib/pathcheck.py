"""Shared pipeline of C16/C18/C19/C20 over spec/core/Path.tla (see DESIGN.md 6, C16-C20).

 1. MC   : TLC checks layer 1 |= the statement's monitors, per configuration profile (no VIEW: full histories)
 2. GEN  : TLC dumps the state graph per profile (GenView), lib/walk.py covers every labelled transition
 3. REPLAY: internal/core harness drives the real pathManager+path through every walk, recording events
 4. TV   : TLC (TracePath.tla) evaluates the monitors on the observed histories (verdict) and
           conformance with layer 1 (DRIFT only)
"""
import concurrent.futures as cf
import json, os, time
import vf, walk

PROFILES = {
    #  name            SourceKind        Override MaxReaders OnDemandPub Regex Fallback
    "pub_override":   ("publisher",      True,  1, False, False, False),
    "pub_nooverride": ("publisher",      False, 2, False, False, False),
    "odpub":          ("publisher",      False, 0, True,  False, False),
    "odpub_override": ("publisher",      True,  1, True,  False, False),
    "sod":            ("staticOnDemand", False, 1, False, False, False),
    "static":         ("static",         False, 0, False, False, True),
    "rx":             ("publisher",      True,  0, False, True,  False),
    "rx_odpub":       ("publisher",      False, 1, True,  True,  False),
    "rx_sod":         ("staticOnDemand", False, 0, False, True,  False),
    "redirect":       ("redirect",       False, 0, False, False, False),
    # alwaysAvailable: the stream outlives the publishers, an offline sub-stream fills the gaps
    "aa_override":    ("publisher",      True,  0, False, False, False, True),
    "aa_nooverride":  ("publisher",      False, 1, False, False, False, True),
}
PROFILES = {k: (v + (False,) if len(v) == 6 else v) for k, v in PROFILES.items()}

CFG = """SPECIFICATION %(spec)s
CONSTANTS
  Pubs = {"p1","p2"}
  Readers = {"r1","r2"}
  Descs = {%(descs)s}
  SourceKind = "%(sk)s"
  Override = %(ov)s
  MaxReaders = %(mr)d
  OnDemandPub = %(odp)s
  Regex = %(rx)s
  Fallback = %(fb)s
  AlwaysAvail = %(aa)s
  MaxSteps = %(steps)d
  KeepHist = %(kh)s
  InitFailureTakesStreamDown = TRUE
%(rest)s
CHECK_DEADLOCK FALSE
"""


def b(x):
    return "TRUE" if x else "FALSE"


def write_cfg(ctx, name, prof, spec, steps, rest, descs='"d1"', kh=True):
    sk, ov, mr, odp, rx, fb, aa = PROFILES[prof]
    p = os.path.join(ctx.specdir(), name)
    with open(p, "w") as fh:
        fh.write(CFG % dict(spec=spec, descs=descs, sk=sk, ov=b(ov), mr=mr, odp=b(odp), rx=b(rx), fb=b(fb), aa=b(aa),
                            steps=steps, rest=rest, kh=b(kh)))
    return name


def run(ctx, prefix, profiles, mc_inv, known_design=()):
    """prefix: monitor-name prefix that decides this property (e.g. 'C16_')."""
    quick = not ctx.thorough
    mc_steps = 5 if quick else 6
    gen_steps = 9 if quick else 12
    walk_len = 14 if quick else 20
    walk_cap = int(os.environ.get("VERIF_WALK_CAP", "250")) if quick else None

    ctx.specdir()
    # ---- 1. MC, profiles in parallel
    def do_mc(prof):
        cfg = write_cfg(ctx, "Path_mc_%s.cfg" % prof, prof, "Spec", mc_steps,
                        "INVARIANTS TypeOK " + " ".join(mc_inv))
        return prof, vf.tlc(ctx, "Path", cfg, workers=4, timeout=1500)
    with cf.ThreadPoolExecutor(max_workers=4) as ex:
        for prof, r in ex.map(do_mc, profiles):
            ctx.add("states", r.distinct)
            ctx.add("transitions", r.generated)
            ctx.cov.setdefault("mc_runs", []).append({"profile": prof, "distinct": r.distinct, "generated": r.generated,
                                                      "depth": r.depth, "wall_s": round(r.wall, 1), "max_steps": mc_steps})
    # design-level liveness-as-safety check (NoDeadWait): a counterexample is not a verdict, it is
    # replayed below (the walks cover it) and judged on the real code by monitor C19_NoDeadWait
    if prefix == "C19_":
        design = []
        for prof in profiles:
            cfg = write_cfg(ctx, "Path_ndw_%s.cfg" % prof, prof, "Spec", mc_steps, "INVARIANT NoDeadWait\nVIEW View")
            r = vf.tlc(ctx, "Path", cfg, workers=4, timeout=900, allow_violation=True)
            if r.violated:
                design.append(prof)
        ctx.set("design_level_dead_wait_profiles", design)

    t_mc = time.time()
    # ---- 2. GEN
    runs = []
    edges_cov = edges_tot = 0

    def do_gen(prof):
        cfg = write_cfg(ctx, "Path_gen_%s.cfg" % prof, prof, "Spec", gen_steps, "VIEW GenView", kh=False)
        dot = ctx.path("g_%s.dot" % prof)
        vf.tlc(ctx, "Path", cfg, workers=1, timeout=900, extra=["-dump", "dot,actionlabels", dot])
        g = walk.load(dot)
        os.remove(dot)
        # the whole cover is computed; if it has more walks than the cap a seeded sample is replayed (the greedy
        # cover visits near edges first: taking its first walks would leave the deep edges out in every run)
        ws, c, t = walk.edge_cover(g, maxlen=walk_len, seed=ctx.seed, limit=None)
        if walk_cap is not None and len(ws) > walk_cap:
            import random
            rnd = random.Random(ctx.seed * 7919 + len(ws))
            ws = rnd.sample(ws, walk_cap)
            c = len({(w[k - 1][1] if k else "init", w[k][0], w[k][1]) for w in ws for k in range(len(w))})
        return prof, (ws, c, t)
    with cf.ThreadPoolExecutor(max_workers=6) as ex:
        gens = list(ex.map(do_gen, profiles))
    for prof, (ws, c, t) in gens:
        edges_cov += c
        edges_tot += t
        sk, ov, mr, odp, rx, fb, aa = PROFILES[prof]
        for w in ws:
            inputs = []
            for lab, _ in w:
                name, args = walk.parse_label(lab)
                c_ = args[0] if args else {"StaticReady": "static", "StaticNotReady": "static",
                                           "ReadyTimer": "timer", "CloseTimer": "timer", "Terminate": "manager"}[name]
                inputs.append({"a": name, "c": c_})
            runs.append({"run": len(runs), "src": "walk",
                         "profile": {"name": prof, "sourceKind": sk, "override": ov, "maxReaders": mr,
                                     "onDemandPub": odp, "regex": rx, "fallback": fb, "alwaysAvail": aa},
                         "inputs": inputs})
    ctx.set("edges_covered", edges_cov)
    ctx.set("edges_total", edges_tot)
    if not runs:
        raise vf.Infra("no walks generated")

    t_gen = time.time()
    # ---- 3. REPLAY on the real code
    cases = vf.write_ndjson(ctx.path("walks.ndjson"), runs)
    obsf = ctx.path("obs.ndjson")
    rc, gout = vf.gotest(ctx, "./internal/core/", "^TestVerif_Path_Replay$", cases=cases, out=obsf, timeout=1500)
    if rc != 0:
        # a panic of the code under test (not of the harness) while a legal walk is replayed takes the whole server
        # down: every held request stays unanswered and every open hook pair stays open - a verdict of its own
        import re
        m = re.search(r"(?:^|\n)panic: (.*)\n", gout)
        if m:
            after = gout[m.end():]
            frames = re.findall(r"\n(github\.com/bluenviron/mediamtx/internal/\S+)\([^\n]*\n\t(\S+?):(\d+)", after)
            mine = [f for f in frames if "zz_verif" not in f[1] and "/verifrt/" not in f[1]]
            first = frames[0] if frames else None
            if mine and first and "zz_verif" not in first[1] and "/verifrt/" not in first[1]:
                fn = mine[0][0].split("/")[-1]
                ctx.violation({"monitor": prefix + "NoCrash", "function": fn},
                              "the code under test panicked while a walk of the model was replayed (%s in %s at %s:%s); "
                              "the server process would exit: held requests stay unanswered, open hook pairs stay open\n%s"
                              % (m.group(1), fn, mine[0][1], mine[0][2], after[:2500]))
                ctx.set("traces_validated_against_impl", 0)
                ctx.sample({"panic": m.group(1), "function": fn})
                return
        raise vf.Infra("harness test failed (rc=%d) ./internal/core/ TestVerif_Path_Replay\n%s" % (rc, gout[-6000:]))
    obs = vf.read_ndjson(obsf)
    if len(obs) != len(runs):
        raise vf.Infra("harness replayed %d of %d walks" % (len(obs), len(runs)))
    # runs skipped after several hanging runs (the hang verdicts are in the executed ones)
    skipped = [o for o in obs if o.get("skipped")]
    if skipped:
        ctx.set("walks_skipped_after_hangs", len(skipped))
        obs = [o for o in obs if not o.get("skipped")]

    t_rep = time.time()
    # ---- 4. TV per profile
    drift = 0
    nsteps = 0

    def do_tv(prof):
        part = [o for o in obs if o["profile"]["name"] == prof]
        if not part:
            return prof, part, None
        tf = "Path_trace_%s.ndjson" % prof
        vf.write_ndjson(os.path.join(ctx.specdir(), tf), part)
        mod = "TracePath_" + prof
        with open(os.path.join(ctx.specdir(), "TracePath.tla")) as fh:
            src = fh.read().replace("MODULE TracePath", "MODULE " + mod).replace("Path_trace.ndjson", tf)
        with open(os.path.join(ctx.specdir(), mod + ".tla"), "w") as fh:
            fh.write(src)
        cfg = write_cfg(ctx, "Path_tv_%s.cfg" % prof, prof, "TraceSpec", 99,
                        "INVARIANTS Verdicts Drift\nPOSTCONDITION Accepted")
        return prof, part, vf.tlc(ctx, mod, cfg, workers=1, timeout=1500, java_opts=["-Xmx6g"])
    with cf.ThreadPoolExecutor(max_workers=6) as ex:
        tvs = list(ex.map(do_tv, profiles))
    for prof, part, tv in tvs:
        if tv is None:
            continue
        nsteps += sum(len(o["steps"]) for o in part)
        for bad in tv.tagged("BAD"):
            if not bad["monitor"].startswith(prefix):
                continue  # decided by the sibling property's check
            o = part[bad["l"] - 1]
            ins = [s["in"]["a"] + ":" + s["in"]["c"] for s in o["steps"]]
            sk, ov, mr, odp, rx, fb, aa = PROFILES[prof]
            rec = {"monitor": bad["monitor"], "profile": prof, "inputs": ins, "detail": bad.get("detail", {}),
                   "sourceKind": sk, "onDemandPub": odp}
            ctx.violation(rec, "monitor %s fails on the real path (profile %s) for inputs %s; observed steps: %s" % (
                bad["monitor"], prof, ins, json.dumps([{"in": s["in"], "ev": s["ev"], "obs": s["obs"]} for s in o["steps"]])[:3000]))
        for d in tv.tagged("DRIFT"):
            drift += 1
            o = part[d["l"] - 1]
            if drift <= 5:
                ctx.note("DRIFT (not a verdict): profile %s run %s step %s: %s" % (
                    prof, o["run"], d["step"], json.dumps(o["steps"][d["step"] - 1])[:600]))
    ctx.set("phase_wall_s", {"mc": round(t_mc - ctx.t0, 1), "gen": round(t_gen - t_mc, 1), "replay": round(t_rep - t_gen, 1), "tv": round(time.time() - t_rep, 1)})
    ctx.set("traces_validated_against_impl", len(obs))
    ctx.set("steps_replayed", nsteps)
    ctx.set("drift_runs", drift)
    ctx.set("profiles", list(profiles))
    ctx.sample({"profile": obs[0]["profile"]["name"], "steps": obs[0]["steps"][:4]})
    ctx.assume("requests are issued sequentially (one in flight at a time); concurrency of the channel protocol is C40's subject")
    ctx.assume("hook commands are intercepted at externalcmd.Cmd.Start/Close (verif hook), not executed")
