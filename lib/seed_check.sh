#!/bin/sh
# usage: lib/seed_check.sh <seed-id> <Cxx> [Cxx...] — applies /verif/seeded/<id>/patch.diff to a fresh
# scratch worktree of /repo's HEAD and runs the given checks against it.
id="$1"; shift
wt=/tmp/wt-seedchk-$$
git -C /repo worktree add --detach "$wt" HEAD >/dev/null 2>&1 || exit 2
if ! git -C "$wt" apply --3way /verif/seeded/$id/patch.diff >/dev/null 2>&1; then
  echo "seed $id: patch does not apply to HEAD"; git -C /repo worktree remove --force "$wt"; exit 2
fi
cd /verif
for c in "$@"; do
  VERIF_REPO="$wt" ./check "$c" ${TIER:+--tier $TIER} 2>&1 | grep -E "^(PASS|FAIL|VIOLATION|INFRA)" | cut -c1-150 | head -3
done
git -C /repo worktree remove --force "$wt"
