#!/bin/sh
# usage: lib/mutant_run.sh <patch> <Cxx> [Cxx ...]   — applies the patch to a scratch worktree of /repo
# (never to /repo itself), runs the given checks against it and removes the worktree.
patch="$(realpath "$1")"; shift
wt="/tmp/wt-mut-$$"
git -C /repo worktree add --detach "$wt" HEAD >/dev/null 2>&1 || exit 2
git -C "$wt" apply "$patch" || { git -C /repo worktree remove --force "$wt"; echo "patch does not apply"; exit 2; }
cd /verif
for c in "$@"; do
  VERIF_REPO="$wt" ./check "$c" ${TIER:+--tier $TIER} 2>&1 | grep -E "^(PASS|FAIL|VIOLATION|KNOWN|INFRA)" | cut -c1-220 | head -6
done
git -C /repo worktree remove --force "$wt"
