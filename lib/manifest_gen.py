#!/usr/bin/env python3
"""Regenerates /verif/MANIFEST.json from the check modules (checks/Cxx.py)."""
import importlib.util, json, os, subprocess, sys
HERE = os.path.dirname(os.path.dirname(os.path.abspath(__file__)))
sys.path.insert(0, os.path.join(HERE, "lib"))

NA_REASONS = {
    "C35": "quantifies over raw byte streams into third-party protocol parsers on ten listeners; there is no state/transition "
           "structure a TLA+ specification could enumerate or monitor (needs fuzzing, another technique); see DESIGN.md section 7",
}
DEFAULT_NA = "not claimed: no TLA+-based check has been built for it yet in this framework (design in DESIGN.md section 6)"


def main():
    props = [json.loads(l) for l in open(os.path.join(HERE, "properties.jsonl"))]
    checks, na = [], []
    ready = set(open(os.path.join(HERE, "checks", "ready.txt")).read().split())
    for p in props:
        pid = p["id"]
        f = os.path.join(HERE, "checks", pid + ".py")
        if not os.path.exists(f) or pid not in ready:
            na.append({"property_id": pid, "reason": NA_REASONS.get(pid, DEFAULT_NA)})
            continue
        spec = importlib.util.spec_from_file_location("c_" + pid, f)
        m = importlib.util.module_from_spec(spec)
        spec.loader.exec_module(m)
        checks.append({
            "property_id": pid,
            "quick_cmd": "./check %s --tier quick" % pid,
            "thorough_cmd": "./check %s --tier thorough" % pid,
            "evidence_file": "/verif/evidence/%s.json" % pid,
            "replay_cmd_template": "./check %s --replay {path}" % pid,
            "engine": "tlc+go-overlay",
            "level_claimed": {
                "category": getattr(m, "LEVEL", "model_checking"),
                "text": getattr(m, "LEVEL_TEXT", (m.__doc__ or "").strip()),
                "design_ref": getattr(m, "DESIGN_REF", "DESIGN.md section 6, " + pid),
            },
            "level_note": getattr(m, "LEVEL_NOTE", "TLC 1.8 and the Go toolchain are trusted; bounded domains as stated in the evidence"),
            "technique": getattr(m, "TECHNIQUE", "TLA+ spec checked by TLC; TLC-generated cases replayed into the real code; recorded traces validated by TLC"),
        })
    hooks_commits = []
    hp = os.path.join(HERE, "hooks_commits.txt")
    if os.path.exists(hp):
        hooks_commits = [l.split()[0] for l in open(hp) if l.strip() and not l.startswith("#")]
    man = {
        "version": 1,
        "setup_cmd": "./setup.sh",
        "hooks": {
            "guard": "verif",
            "enable": "go test -tags verif -overlay <generated overlay adding /verif/harness files and embed stubs> (see lib/vf.py gotest)",
            "baseline_off_cmd": "cd /repo && GOFLAGS=-mod=mod GOPROXY=off go test -vet=off -count=1 -timeout 25m ./...",
            "source_commits": hooks_commits,
            "add_only": True,
        },
        "engines": [
            {"name": "tlc+go-overlay", "path": "/verif/check",
             "serves_properties": [c["property_id"] for c in checks],
             "kind_free_text": "python driver: TLC (model check, case/walk generation, trace validation) + Go harness tests injected "
                               "into /repo's working tree with go test -overlay"},
        ],
        "checks": checks,
        "not_applicable": na,
        "notes": "Verdict policy: exit 1 only for a violation of the property formula by the real code; exit 2 for infrastructure "
                 "problems. Known findings: /verif/known_findings.json. Extension modules beyond the listed properties (static source handler X01, recorder supervisor X02, HLS muxer lifecycle X03): ./check X01|X02|X03 [--tier ...], evidence in /verif/evidence_ext/, see DESIGN.md A7.",
    }
    with open(os.path.join(HERE, "MANIFEST.json"), "w") as fh:
        json.dump(man, fh, indent=1)
        fh.write("\n")
    print("MANIFEST.json: %d checks, %d not_applicable" % (len(checks), len(na)))


if __name__ == "__main__":
    main()
