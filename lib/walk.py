"""Edge-covering walks over a TLC state graph dumped with `-dump dot,actionlabels file.dot`.

graph = load(path)                   -> Graph(init=[node], edges={node: [(label, dst)]})
walks = edge_cover(graph, maxlen, seed, limit) -> list of walks; a walk is a list of (label, dst)
parse_label("AddPub(\"p1\", 2)")     -> ("AddPub", ["p1", 2])
Every labelled transition of the bounded model is taken at least once (unless `limit` caps the
number of walks); every walk starts in an initial state.
"""
import re, random, collections

_EDGE = re.compile(r'^(-?\d+) -> (-?\d+) \[label="((?:[^"\\]|\\.)*)"')
_NODE = re.compile(r'^(-?\d+) \[label="((?:[^"\\]|\\.)*)"(.*)$')


class Graph:
    def __init__(self):
        self.init = []
        self.edges = collections.defaultdict(list)
        self.labels = {}
        self.nedges = 0


def load(path, keep_state_labels=False):
    g = Graph()
    seen = set()
    with open(path) as fh:
        for line in fh:
            m = _EDGE.match(line)
            if m:
                a, b, lab = m.group(1), m.group(2), m.group(3).replace('\\"', '"').replace("\\\\", "\\")
                key = (a, lab, b)
                if key not in seen:
                    seen.add(key)
                    g.edges[a].append((lab, b))
                    g.nedges += 1
                continue
            m = _NODE.match(line)
            if m:
                n = m.group(1)
                if "style = filled" in m.group(3) and n not in g.init:
                    g.init.append(n)
                if keep_state_labels:
                    g.labels[n] = m.group(2).replace("\\n", "\n").replace('\\"', '"').replace("\\\\", "\\")
    return g


def edge_cover(g, maxlen=30, seed=1, limit=None):
    rnd = random.Random(seed)
    uncovered = set()
    for a, outs in g.edges.items():
        for i in range(len(outs)):
            uncovered.add((a, i))
    total = len(uncovered)
    walks = []
    # distance from init for reachability ordering is implicit in the BFS below

    def bfs_to_uncovered(start):
        """shortest path (list of (node, idx)) from start to an uncovered edge, inclusive."""
        prev = {start: None}
        q = collections.deque([start])
        while q:
            n = q.popleft()
            outs = g.edges.get(n, [])
            idxs = list(range(len(outs)))
            rnd.shuffle(idxs)
            for i in idxs:
                if (n, i) in uncovered:
                    path = [(n, i)]
                    cur = n
                    while prev[cur] is not None:
                        p, pi = prev[cur]
                        path.append((p, pi))
                        cur = p
                    path.reverse()
                    return path
            for i in idxs:
                d = outs[i][1]
                if d not in prev:
                    prev[d] = (n, i)
                    q.append(d)
        return None

    while uncovered and (limit is None or len(walks) < limit):
        start = rnd.choice(g.init)
        walk = []
        cur = start
        while len(walk) < maxlen:
            path = bfs_to_uncovered(cur)
            if path is None:
                break
            if walk and len(walk) + len(path) > maxlen:
                break
            for (n, i) in path:
                lab, d = g.edges[n][i]
                walk.append((lab, d))
                uncovered.discard((n, i))
                cur = d
        if not walk:
            # remaining uncovered edges are unreachable from the initial states within maxlen
            break
        walks.append(walk)
    return walks, total - len(uncovered), total


_TOK = re.compile(r'\s*(?:(-?\d+)|"((?:[^"\\]|\\.)*)"|(TRUE|FALSE)|([A-Za-z_][A-Za-z0-9_]*)|(.))')


def parse_value(s):
    v, rest = _pv(s.strip())
    return v


def _pv(s):
    s = s.lstrip()
    if s.startswith("<<"):
        s = s[2:].lstrip()
        out = []
        while not s.startswith(">>"):
            v, s = _pv(s)
            out.append(v)
            s = s.lstrip()
            if s.startswith(","):
                s = s[1:]
            s = s.lstrip()
        return out, s[2:]
    if s.startswith("{"):
        s = s[1:].lstrip()
        out = []
        while not s.startswith("}"):
            v, s = _pv(s)
            out.append(v)
            s = s.lstrip()
            if s.startswith(","):
                s = s[1:]
            s = s.lstrip()
        return out, s[1:]
    if s.startswith("["):
        s = s[1:].lstrip()
        out = {}
        while not s.startswith("]"):
            m = re.match(r"([A-Za-z_][A-Za-z0-9_]*)\s*\|->\s*", s)
            if not m:
                raise ValueError("cannot parse record at " + s[:40])
            k = m.group(1)
            v, s = _pv(s[m.end():])
            out[k] = v
            s = s.lstrip()
            if s.startswith(","):
                s = s[1:]
            s = s.lstrip()
        return out, s[1:]
    m = re.match(r'-?\d+', s)
    if m:
        return int(m.group(0)), s[m.end():]
    m = re.match(r'"((?:[^"\\]|\\.)*)"', s)
    if m:
        return m.group(1).replace('\\"', '"').replace("\\\\", "\\"), s[m.end():]
    m = re.match(r'(TRUE|FALSE)', s)
    if m:
        return m.group(1) == "TRUE", s[m.end():]
    m = re.match(r'[A-Za-z_][A-Za-z0-9_]*', s)
    if m:
        return m.group(0), s[m.end():]
    raise ValueError("cannot parse value at " + s[:40])


def parse_label(lab):
    m = re.match(r'^([A-Za-z_][A-Za-z0-9_]*)(?:\((.*)\))?$', lab.strip(), re.S)
    if not m:
        return lab, []
    name, args = m.group(1), m.group(2)
    if args is None or args.strip() == "":
        return name, []
    vals, _ = _pv("<<" + args + ">>")
    return name, vals


def parse_state(label):
    """'/\\ a = 1\n/\\ b = <<>>' -> {'a': 1, 'b': []} (best effort)."""
    out = {}
    for part in re.split(r'(?:^|\n)/\\ ', label):
        part = part.strip()
        if not part:
            continue
        m = re.match(r'([A-Za-z_][A-Za-z0-9_]*) = (.*)$', part, re.S)
        if m:
            try:
                out[m.group(1)] = parse_value(m.group(2))
            except Exception:
                out[m.group(1)] = m.group(2)
    return out
