#!/bin/sh
# usage: lib/seed_eval.sh <seed-id> <worktree> <Cxx> [more checks]
# Confirms a seeded change (demo fails with it, passes without it), runs the given checks against
# the worktree, and stores the seed under /verif/seeded/<seed-id>/.
id="$1"; wt="$2"; shift 2
export GOFLAGS=-mod=mod GOPROXY=off
dst=/verif/seeded/$id
mkdir -p "$dst"
cp "$wt"/SEED/* "$dst"/ 2>/dev/null
demo=$(cd "$wt" && git status --short | grep zz_seed_demo | awk '{print $2}' | head -1)
pkg=./$(dirname "$demo")/
echo "demo: $demo pkg: $pkg"
# (never git stash: the stash is shared by all worktrees of /repo)
(cd "$wt" && git checkout -q -- . && git apply "$dst/patch.diff" && echo "patch.diff applies on a clean tree")
(cd "$wt" && unshare -rn sh -c "ip link set lo up 2>/dev/null; go test -count=1 -run 'Seed|seed|Demo|demo' $pkg" > /tmp/seed_with.txt 2>&1; echo "with change: rc=$?" )
(cd "$wt" && git apply -R "$dst/patch.diff" && unshare -rn sh -c "ip link set lo up 2>/dev/null; go test -count=1 -run 'Seed|seed|Demo|demo' $pkg" > /tmp/seed_without.txt 2>&1; echo "without change: rc=$?"; git apply "$dst/patch.diff")
(cd "$wt" && go build ./... >/dev/null 2>&1; echo "build rc=$?")
# the existing tests of every touched package still pass with the change (demo skipped)
pkgs=$(grep '^+++ b/' "$dst/patch.diff" | sed 's#^+++ b/##' | xargs -n1 dirname | sort -u | sed 's#^#./#')
# (private network namespace: the repo's own tests bind fixed ports and other runs use them at the same time)
(cd "$wt" && unshare -rn sh -c "ip link set lo up 2>/dev/null; go test -count=1 -skip 'TestSeed|SeedDemo' $pkgs" > /tmp/seed_pkgtests.txt 2>&1; echo "existing tests of touched packages ($pkgs): rc=$?")
cd /verif
for c in "$@"; do
  VERIF_REPO="$wt" ./check "$c" 2>&1 | grep -E "^(PASS|FAIL|VIOLATION|INFRA)" | cut -c1-160 | head -3
done
