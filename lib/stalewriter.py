"""C16, directed stage "stale writer" (spec/stream/StaleWriter.tla, TraceStaleWriter.tla,
harness/internal/stream/zz_verif_c16sw_test.go).

run(ctx) is called from checks/C16.py after its own stages. It
  1. model checks StaleWriter.tla (third-party read-lock holder, a stall between guard and fan-out, replaced publisher's WriteUnit in parts, replacement's
     Initialize over an RW lock with writer preference) at lock granularity and at gate granularity: the statement
     "no unit of the replaced publisher is handed to a reader after the swap" must hold for layer 1 (the code: guard
     under the lock, Initialize under the write lock) and must FAIL for each named deviation (CheckOutsideLock,
     InitUnderReadLock); all three results go into the evidence;
  2. takes every complete gate schedule TLC prints (SCHED lines) and replays it on the real stream.Stream / SubStream
     (in-package: Stream.mutex.RLock held by the harness, goroutine parking read from runtime.Stack);
  3. lets TLC judge the recorded deliveries (TraceStaleWriter.tla). A violation is reported through ctx.violation.
"""
import os, threading, time
import vf

PKG = "./internal/stream/"


def _par(jobs):
    res = [None] * len(jobs)
    err = []

    def work(i, fn):
        try:
            time.sleep(0.07 * i)      # vf.tlc names its metadir after the millisecond clock
            res[i] = fn()
        except BaseException as e:   # noqa
            err.append(e)
    ths = [threading.Thread(target=work, args=(i, fn)) for i, fn in enumerate(jobs)]
    for t in ths:
        t.start()
    for t in ths:
        t.join()
    if err:
        raise err[0]
    return res


def run(ctx):
    d = ctx.specdir()
    t0 = time.time()
    vf.overlay(ctx)

    def warm():
        # compile the test package while TLC runs (the schedules are needed before the real run can start)
        try:
            vf.gotest(ctx, PKG, "^TestVerif_C16SW_None$", timeout=600)
        except vf.Infra:
            pass

    mc, dev, dev2, _ = _par([
        lambda: vf.tlc(ctx, "StaleWriter", "StaleWriter.cfg", workers=2, timeout=300),
        lambda: vf.tlc(ctx, "StaleWriter", "StaleWriter_dev.cfg", workers=2, timeout=300, allow_violation=True),
        lambda: vf.tlc(ctx, "StaleWriter", "StaleWriter_dev2.cfg", workers=2, timeout=300, allow_violation=True),
        warm,
    ])
    ctx.add("states", mc.distinct)
    ctx.add("transitions", mc.generated)
    ctx.cov.setdefault("mc_runs", []).append(
        {"module": "StaleWriter", "cfg": "StaleWriter.cfg", "distinct": mc.distinct, "generated": mc.generated,
         "depth": mc.depth, "wall_s": round(mc.wall, 2), "result": "statement holds (layer 1 = the code: both deviations FALSE)"})
    for r, cfgname, devname in ((dev, "StaleWriter_dev.cfg", "CheckOutsideLock"), (dev2, "StaleWriter_dev2.cfg", "InitUnderReadLock")):
        if r.violated != "PropNoStale":
            raise vf.Infra("StaleWriter.tla with %s = TRUE does not violate PropNoStale (got %r): "
                           "the model cannot see the defect it is built for" % (devname, r.violated))
        ctx.cov.setdefault("mc_runs", []).append(
            {"module": "StaleWriter", "cfg": cfgname, "distinct": r.distinct, "generated": r.generated,
             "depth": r.depth, "wall_s": round(r.wall, 2),
             "result": "PropNoStale violated, as it must be (named deviation %s = TRUE)" % devname})

    scheds = []
    for x in mc.tagged("SCHED"):
        c = {"id": len(scheds), "mode": x["mode"], "gates": x["gates"]}
        if (c["mode"], c["gates"]) not in [(s["mode"], s["gates"]) for s in scheds]:
            scheds.append(c)
    if len(scheds) < 20:
        raise vf.Infra("StaleWriter.tla produced only %d schedules" % len(scheds))
    cf = vf.write_ndjson(ctx.path("sw_cases.ndjson"), scheds)
    of = ctx.path("sw_obs.ndjson")
    vf.gotest_ok(ctx, PKG, "^TestVerif_C16SW_Replay$", cases=cf, out=of, timeout=600)
    recs = vf.read_ndjson(of)
    if len(recs) != len(scheds):
        raise vf.Infra("stale-writer harness replayed %d of %d schedules" % (len(recs), len(scheds)))
    vf.write_ndjson(os.path.join(d, "C16sw_trace.ndjson"), recs)
    tv = vf.tlc(ctx, "TraceStaleWriter", "TraceStaleWriter.cfg", workers=1, timeout=300)
    for bad in tv.tagged("BAD"):
        rec = recs[bad["l"] - 1]
        ctx.violation({"stage": "stale-writer", "monitor": bad["monitor"], "gates": rec["gates"]},
                      "a unit written by the replaced publisher reached the reader after the replacement: schedule %s "
                      "(HAcq/HRel: a third party holds Stream.mutex for reading; SHold/SRel: writes are stalled between the guard "
                      "and the fan-out; RCall: SubStream.Initialize of the new "
                      "publisher; WCall: WriteUnit of the old one); observed after each gate (old publisher's write, "
                      "replacement, TryRLock) %s; the reader received %s, %s being the old publisher's unit"
                      % (rec["gates"], [(o["w"], o["r"], o["try"]) for o in rec["obs"]],
                         ["%02x" % x for x in rec["delivered"]], "%02x" % rec["stale"]))
    drift = len(tv.tagged("DRIFT"))
    if drift:
        ctx.note("stale-writer stage: %d replayed schedules differ from what layer 1 of StaleWriter.tla predicts "
                 "(DRIFT, not a verdict)" % drift)
    ctx.add("traces_validated_against_impl", len(recs))
    ctx.set("sw_schedules_replayed", len(recs))
    ctx.set("sw_schedules_with_write_ordered_after_swap",
            sum(1 for r in recs if any((o["r"] == "done" and o["w"] in ("notstarted", "blocked", "stalled"))
                                       or (o["r"] == "pending" and o["w"] in ("notstarted", "blocked")) for o in r["obs"])))
    ctx.set("sw_schedules_with_replacement_waiting_for_a_write_in_progress",
            sum(1 for r in recs if any(o["r"] == "pending" and o["w"] == "stalled" for o in r["obs"])))
    ctx.set("sw_drift_events", drift)
    ctx.set("sw_wall_s", round(time.time() - t0, 1))
    ctx.sample({"stale_writer_schedule": recs[len(recs) // 2]["gates"], "obs": recs[len(recs) // 2]["obs"],
                "delivered": recs[len(recs) // 2]["delivered"]})
    ctx.assume("Go's sync.RWMutex: a Lock() that is waiting blocks every later RLock() until it has been served "
               "(used to order the old publisher's write after the swap when it was seen parked behind the replacement)")
    ctx.assume("runtime.Stack reports a goroutine parked in RWMutex.RLock / RWMutex.Lock with those wait reasons")
