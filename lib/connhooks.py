"""Second stage of C20: runOnRead/runOnUnread per reader and runOnConnect/runOnDisconnect per
connection — spec/core/ConnHooks.tla (called by checks/C20.py after the path-level stage).

 1. MC    : TLC checks layer 1 |= the statement's monitors on every behaviour of the bounded model
            (full histories, no VIEW); state counts go into the evidence
 2. GEN   : TLC dumps the state graph (GenView), lib/walk.py covers every labelled transition
 3. REPLAY: internal/core harness drives a REAL Core (RTSP, RTMP, SRT, HLS, API servers) with real
            protocol clients through every walk, recording hook commands in the caller's order
 4. TV    : TLC (TraceConnHooks.tla) evaluates the monitors on the observed histories (verdict)
            and conformance with layer 1 (DRIFT only)
"""
import concurrent.futures as cf
import json, os, time
import vf, walk

CFG = """SPECIFICATION %(spec)s
CONSTANTS
  RtspClients = {%(rtsp)s}
  RtmpClients = {%(rtmp)s}
  SrtClients = {%(srt)s}
  HlsClients = {%(hls)s}
  MaxGen = %(maxgen)d
  MaxSteps = %(steps)d
  KeepHist = %(kh)s
%(rest)s
CHECK_DEADLOCK FALSE
"""

PROTOS = ("rtsp", "rtmp", "srt", "hls")


def _set(names):
    return ",".join('"%s"' % n for n in names)


def write_cfg(ctx, name, clients, spec, steps, maxgen, kh, rest):
    by = {p: [c for c, q in sorted(clients.items()) if q == p] for p in PROTOS}
    with open(os.path.join(ctx.specdir(), name), "w") as fh:
        fh.write(CFG % dict(spec=spec, rtsp=_set(by["rtsp"]), rtmp=_set(by["rtmp"]), srt=_set(by["srt"]),
                            hls=_set(by["hls"]), maxgen=maxgen, steps=steps, kh="TRUE" if kh else "FALSE", rest=rest))
    return name


def run(ctx):
    quick = not ctx.thorough
    t0 = time.time()
    ctx.specdir()
    # one client per protocol; thorough adds a second RTSP client (pause/play next to another reader)
    clients = {"c1": "rtsp", "c2": "rtmp", "c3": "srt", "c4": "hls"}
    gen_clients = dict(clients)
    if not quick:
        gen_clients["c5"] = "rtsp"
    mc_steps = ctx.pick(5, 6)
    walk_len = ctx.pick(14, 20)
    walk_cap = ctx.pick(int(os.environ.get("VERIF_CONN_CAP", "90")), None)

    # ---- 1. MC (in the background while walks are generated and replayed)
    def do_mc():
        cfg = write_cfg(ctx, "ConnHooks_mc.cfg", clients, "Spec", mc_steps, 2, True, "INVARIANTS TypeOK MonC20C")
        return vf.tlc(ctx, "ConnHooks", cfg, workers=3, timeout=1500)
    pool = cf.ThreadPoolExecutor(max_workers=2)
    mc_f = pool.submit(do_mc)

    # ---- 2. GEN
    cfg = write_cfg(ctx, "ConnHooks_gen.cfg", gen_clients, "Spec", 99, 99, False, "VIEW GenView")
    dot = ctx.path("connhooks.dot")
    vf.tlc(ctx, "ConnHooks", cfg, workers=1, timeout=900, extra=["-dump", "dot,actionlabels", dot])
    g = walk.load(dot)
    os.remove(dot)
    # the whole cover is computed; a cap replays a seeded sample of it (its first walks are the shallow ones)
    ws, ecov, etot = walk.edge_cover(g, maxlen=walk_len, seed=ctx.seed, limit=None)
    if walk_cap is not None and len(ws) > walk_cap:
        import random
        ws = random.Random(ctx.seed * 7919 + len(ws)).sample(ws, walk_cap)
        ecov = len({(w[k - 1][1] if k else "init", w[k][0], w[k][1]) for w in ws for k in range(len(w))})
    runs = []
    for w in ws:
        inputs = []
        for lab, _ in w:
            name, args = walk.parse_label(lab)
            if name != "Do" or not args or not isinstance(args[0], dict):
                raise vf.Infra("unexpected transition label %r" % lab)
            inputs.append({"a": args[0]["a"], "c": args[0]["c"]})
        if inputs[-1]["a"] != "Shutdown":
            inputs.append({"a": "Shutdown", "c": "core"})   # every run ends with Core.Close
        runs.append({"run": len(runs), "clients": gen_clients, "inputs": inputs})
    if not runs:
        raise vf.Infra("no walks generated")
    t_gen = time.time()

    # ---- 3. REPLAY on the real code
    cases = vf.write_ndjson(ctx.path("c20c_walks.ndjson"), runs)
    obsf = ctx.path("c20c_obs.ndjson")
    vf.gotest_ok(ctx, "./internal/core/", "^TestVerif_C20C_Replay$", cases=cases, out=obsf, timeout=1500)
    obs = vf.read_ndjson(obsf)
    if len(obs) != len(runs):
        raise vf.Infra("harness replayed %d of %d walks" % (len(obs), len(runs)))
    t_rep = time.time()

    # ---- 4. TV
    vf.write_ndjson(os.path.join(ctx.specdir(), "C20C_trace.ndjson"), obs)
    cfg = write_cfg(ctx, "ConnHooks_tv.cfg", gen_clients, "TraceSpec", 99, 99, True,
                    "INVARIANTS Verdicts Drift\nPOSTCONDITION Accepted")
    tv = vf.tlc(ctx, "TraceConnHooks", cfg, workers=1, timeout=1500, java_opts=["-Xmx4g"])
    t_tv = time.time()

    r = mc_f.result()
    pool.shutdown()
    ctx.add("states", r.distinct)
    ctx.add("transitions", r.generated)
    ctx.cov.setdefault("mc_runs", []).append({"module": "ConnHooks", "clients": clients, "distinct": r.distinct,
                                              "generated": r.generated, "depth": r.depth, "wall_s": round(r.wall, 1),
                                              "max_steps": mc_steps})

    nsteps = sum(len(o["steps"]) for o in obs)
    nev = sum(len(s["ev"]) for o in obs for s in o["steps"])
    typs = sorted({e["typ"] for o in obs for s in o["steps"] for e in s["ev"]})
    # one violation per (monitor, hook family, entity types, action at which it first shows): the record of
    # the shortest run of the group; C20C_ClosedAtEnd is implied by C20C_ClosedWhenGone on the same run
    bads = tv.tagged("BAD")
    gone = {(b["l"], b["family"]) for b in bads if b["monitor"] == "C20C_ClosedWhenGone"}
    groups = {}
    for bad in bads:
        if bad["monitor"] == "C20C_ClosedAtEnd" and (bad["l"], bad["family"]) in gone:
            continue
        o = obs[bad["l"] - 1]
        i = bad["step"]
        ids = set(bad.get("ids", []))
        typ = sorted({e["typ"] for s in o["steps"][:i] for e in s["ev"] if e["id"] in ids})
        ins = ["%s:%s" % (s["in"]["a"], o["clients"].get(s["in"]["c"], s["in"]["c"])) for s in o["steps"][:i]]
        key = (bad["monitor"], bad["family"], tuple(typ), ins[-1])
        groups.setdefault(key, []).append((len(ins), ins, o, i))
    for (mon, fam, typ, at), members in sorted(groups.items()):
        _, ins, o, i = min(members, key=lambda m: (m[0], m[1]))
        rec = {"stage": "conn", "monitor": mon, "family": fam, "types": list(typ), "at": at, "inputs": ins}
        ctx.violation(rec, "monitor %s (run%s/run%s pairs) fails on the real server for the %s entity at %s, in %d run(s); "
                      "shortest: inputs %s (fails at step %d); observed steps: %s" % (
                          mon, {"connect": "OnConnect", "read": "OnRead"}[fam],
                          {"connect": "OnDisconnect", "read": "OnUnread"}[fam], "/".join(typ) or "?", at, len(members), ins, i,
                          json.dumps([{"in": s["in"], "ev": [[e["h"], e["v"], e["id"], e["typ"]] for e in s["ev"]],
                                       "conns": s["conns"], "readers": s["readers"]} for s in o["steps"][:i]])[:3000]))
    drift = 0
    for d in tv.tagged("DRIFT"):
        drift += 1
        o = obs[d["l"] - 1]
        if drift <= 5:
            ctx.note("DRIFT (not a verdict): conn-hooks run %s step %s: %s" % (
                o["run"], d["step"], json.dumps(o["steps"][d["step"] - 1])[:600]))
    ctx.add("traces_validated_against_impl", len(obs))
    ctx.set("conn_stage", {"walks": len(obs), "steps_replayed": nsteps, "hook_events_observed": nev,
                           "edges_covered": ecov, "edges_total": etot, "drift_runs": drift,
                           "entity_types_observed": typs, "clients": gen_clients,
                           "quiescence_polls": sum(o.get("polls", 0) for o in obs),
                           "phase_wall_s": {"gen": round(t_gen - t0, 1), "replay": round(t_rep - t_gen, 1),
                                            "tv": round(t_tv - t_rep, 1), "mc_wait": round(time.time() - t_tv, 1)}})
    if walk_cap is None and ecov == etot:
        ctx.set("conn_stage_all_transitions_replayed", True)
    ctx.sample({"conn_stage_run": obs[0]["run"],
                "steps": [{"in": s["in"], "ev": [[e["h"], e["v"], e["id"], e["typ"]] for e in s["ev"]]} for s in obs[0]["steps"][:5]]})
    ctx.assume("per-connection / per-reader hook commands are intercepted at externalcmd.Cmd.Start/Close (verif hook), "
               "not executed; the entity is read from MTX_CONN_ID / MTX_READER_ID of the command's environment")
    ctx.assume("a step of the conn-hooks stage ends at observed quiescence (API lists + goroutine dump: every server "
               "goroutine that can launch a hook is parked at its idle select); client actions are sequential")
    ctx.assume("WebRTC readers (the hooks.OnRead call site in servers/webrtc) and the TLS variants "
               "(rtsps, rtmps) are not driven")
