package core

// Verification harness for C13 (hot reload applies every changed parameter to running
// components). Differential oracle: for every global parameter p found by reflection in
// conf.Conf and an alternative valid value, a FRESH Core built with the changed configuration
// defines what "running with the new values" means; a LIVE Core reloaded from the old to the new
// configuration (Core.reloadConf, the function the API and the file watcher call) is compared
// with it component by component. Records; TLC (spec/core/Reload.tla, TraceReload.tla) decides.

import (
	"runtime"
	"context"
	"fmt"
	"go/ast"
	"go/parser"
	"go/token"
	"net"
	"os"
	"path/filepath"
	"reflect"
	"sort"
	"strconv"
	"strings"
	"testing"
	"time"

	"github.com/bluenviron/gohlslib/v2"
	"github.com/bluenviron/gortsplib/v5"

	"github.com/bluenviron/mediamtx/internal/conf"
	"github.com/bluenviron/mediamtx/internal/conf/jsonwrapper"
	"github.com/bluenviron/mediamtx/internal/logger"
	"github.com/bluenviron/mediamtx/internal/test"
	"github.com/bluenviron/mediamtx/internal/verifrt"
)

var vf13Comps = []string{"logger", "authManager", "metrics", "pprof", "recordCleaner", "playbackServer", "pathManager",
	"rtspServer", "rtspsServer", "rtmpServer", "rtmpsServer", "hlsServer", "webRTCServer", "srtServer", "moqServer", "api"}

func vf13Comp(p *Core, name string) reflect.Value {
	return reflect.ValueOf(p).Elem().FieldByName(name)
}

// identity of a component: its pointer (0 = absent)
func vf13ID(p *Core, name string) uintptr {
	v := vf13Comp(p, name)
	if v.IsNil() {
		return 0
	}
	return v.Pointer()
}

var vf13SkipPkgs = []string{"sync", "context", "net", "time.Timer", "net/http", "crypto/tls"}

// snapshot renders the configuration-bearing fields of a component: every field that is not a
// pointer / interface / func / chan / lock (those are runtime state or references), recursively.
// References to other components are returned separately by name.
func vf13Snapshot(p *Core, name string) (string, []string) {
	v := vf13Comp(p, name)
	if v.IsNil() {
		return "absent", nil
	}
	ids := map[uintptr]string{}
	for _, c := range vf13Comps {
		if id := vf13ID(p, c); id != 0 {
			ids[id] = c
		}
	}
	var sb strings.Builder
	refs := map[string]bool{}
	s := v.Elem()
	for i := 0; i < s.NumField(); i++ {
		f := s.Type().Field(i)
		fv := s.Field(i)
		switch fv.Kind() {
		case reflect.Ptr, reflect.Interface:
			// a reference: to another component?
			x := fv
			if x.Kind() == reflect.Interface && !x.IsNil() {
				x = x.Elem()
			}
			if x.Kind() == reflect.Ptr && !x.IsNil() {
				if c, ok := ids[x.Pointer()]; ok && c != name {
					refs[c] = true
				}
			}
			continue
		case reflect.Func, reflect.Chan, reflect.UnsafePointer:
			continue
		}
		if !f.IsExported() {
			// unexported fields are runtime state, except in pathManager (package core), whose
			// configuration fields are unexported: take the plain-valued ones
			if name != "pathManager" {
				continue
			}
			if f.Name != "pathConfs" && (fv.Kind() == reflect.Map || fv.Kind() == reflect.Struct || fv.Kind() == reflect.Slice) {
				continue // paths, wg
			}
		}
		if f.Type.PkgPath() == "sync" || f.Type.PkgPath() == "context" {
			continue
		}
		if f.Name == "PathConfs" || (name == "pathManager" && f.Name == "pathConfs") {
			// path configurations are applied in place (their content is C15's subject): here only
			// WHICH path configurations the component runs with
			names := []string{}
			for _, k := range fv.MapKeys() {
				names = append(names, k.String())
			}
			sort.Strings(names)
			sb.WriteString(f.Name + "=" + strings.Join(names, ",") + ";")
			continue
		}
		sb.WriteString(f.Name)
		sb.WriteString("=")
		sb.WriteString(vf13Render(fv))
		sb.WriteString(";")
	}
	rs := []string{}
	for c := range refs {
		rs = append(rs, c)
	}
	sort.Strings(rs)
	return sb.String(), rs
}

func vf13Render(v reflect.Value) string {
	switch v.Kind() {
	case reflect.Bool:
		return strconv.FormatBool(v.Bool())
	case reflect.Int, reflect.Int8, reflect.Int16, reflect.Int32, reflect.Int64:
		return strconv.FormatInt(v.Int(), 10)
	case reflect.Uint, reflect.Uint8, reflect.Uint16, reflect.Uint32, reflect.Uint64:
		return strconv.FormatUint(v.Uint(), 10)
	case reflect.Float32, reflect.Float64:
		return strconv.FormatFloat(v.Float(), 'g', -1, 64)
	case reflect.String:
		return strconv.Quote(v.String())
	case reflect.Slice, reflect.Array:
		if v.Kind() == reflect.Slice && v.Type().Elem().Kind() == reflect.Uint8 {
			return fmt.Sprintf("x%x", v.Bytes())
		}
		parts := []string{}
		for i := 0; i < v.Len(); i++ {
			parts = append(parts, vf13Render(v.Index(i)))
		}
		return "[" + strings.Join(parts, ",") + "]"
	case reflect.Map:
		parts := []string{}
		it := v.MapRange()
		for it.Next() {
			parts = append(parts, vf13Render(it.Key())+":"+vf13Render(it.Value()))
		}
		sort.Strings(parts)
		return "{" + strings.Join(parts, ",") + "}"
	case reflect.Struct:
		parts := []string{}
		for i := 0; i < v.NumField(); i++ {
			parts = append(parts, v.Type().Field(i).Name+":"+vf13Render(v.Field(i)))
		}
		return "{" + strings.Join(parts, ",") + "}"
	case reflect.Ptr, reflect.Interface:
		if v.IsNil() {
			return "nil"
		}
		return "&" + vf13Render(v.Elem())
	}
	return "?"
}

// ---- ports

type vf13Ports struct{ used map[int]bool }

func (a *vf13Ports) tcp(t testing.TB) int {
	for i := 0; i < 100; i++ {
		l, err := net.Listen("tcp", "127.0.0.1:0")
		if err != nil {
			t.Fatal(err)
		}
		p := l.Addr().(*net.TCPAddr).Port
		l.Close()
		// also free on UDP (QUIC, SRT and WebRTC listeners share the allocator)
		u, err := net.ListenPacket("udp", "127.0.0.1:"+strconv.Itoa(p))
		if err != nil {
			continue
		}
		u.Close()
		if !a.used[p] && !a.used[p+1] {
			a.used[p] = true
			return p
		}
	}
	t.Fatal("verif: no free port")
	return 0
}

func vf13Free(p int) bool {
	l, err := net.Listen("tcp", "127.0.0.1:"+strconv.Itoa(p))
	if err != nil {
		return false
	}
	l.Close()
	u, err := net.ListenPacket("udp", "127.0.0.1:"+strconv.Itoa(p))
	if err != nil {
		return false
	}
	u.Close()
	return true
}

// an even port p such that p+1 is free too (the kernel hands out odd ports for bind(0) here,
// so the pair is searched next to a kernel-chosen port)
func (a *vf13Ports) evenPair(t testing.TB) int {
	for i := 0; i < 200; i++ {
		p := a.tcp(t)
		if p%2 != 0 {
			p++
		}
		if p > 65000 || a.used[p] && p%2 == 0 && false {
			continue
		}
		if a.used[p+1] || (a.used[p] && !vf13Free(p)) {
			continue
		}
		if !vf13Free(p) || !vf13Free(p+1) {
			continue
		}
		a.used[p] = true
		a.used[p+1] = true
		return p
	}
	t.Fatal("verif: no free even port pair")
	return 0
}

type vf13Env struct {
	ports            *vf13Ports
	dir              string
	keyA, certA      string
	keyB, certB      string
}

func vf13BaseYAML(t testing.TB, e *vf13Env) string {
	a := func() string { return "127.0.0.1:" + strconv.Itoa(e.ports.tcp(t)) }
	rtp := e.ports.evenPair(t)
	srtp := e.ports.evenPair(t)
	mrtp := e.ports.evenPair(t)
	msrtp := e.ports.evenPair(t)
	moq := a()
	y := "logLevel: error\n" +
		"api: yes\napiAddress: " + a() + "\n" +
		"metrics: yes\nmetricsAddress: " + a() + "\n" +
		"pprof: yes\npprofAddress: " + a() + "\n" +
		"playback: yes\nplaybackAddress: " + a() + "\n" +
		"rtsp: yes\nrtspEncryption: optional\nrtspAddress: " + a() + "\nrtspsAddress: " + a() + "\n" +
		"rtpAddress: 127.0.0.1:" + strconv.Itoa(rtp) + "\nrtcpAddress: 127.0.0.1:" + strconv.Itoa(rtp+1) + "\n" +
		"srtpAddress: 127.0.0.1:" + strconv.Itoa(srtp) + "\nsrtcpAddress: 127.0.0.1:" + strconv.Itoa(srtp+1) + "\n" +
		"multicastRTPPort: " + strconv.Itoa(mrtp) + "\nmulticastRTCPPort: " + strconv.Itoa(mrtp+1) + "\n" +
		"multicastSRTPPort: " + strconv.Itoa(msrtp) + "\nmulticastSRTCPPort: " + strconv.Itoa(msrtp+1) + "\n" +
		"rtspServerKey: " + e.keyA + "\nrtspServerCert: " + e.certA + "\n" +
		"rtmp: yes\nrtmpEncryption: optional\nrtmpAddress: " + a() + "\nrtmpsAddress: " + a() + "\n" +
		"rtmpServerKey: " + e.keyA + "\nrtmpServerCert: " + e.certA + "\n" +
		"hls: yes\nhlsAddress: " + a() + "\nhlsServerKey: " + e.keyA + "\nhlsServerCert: " + e.certA + "\n" +
		"webrtc: yes\nwebrtcAddress: " + a() + "\nwebrtcLocalUDPAddress: " + a() + "\n" +
		"webrtcServerKey: " + e.keyA + "\nwebrtcServerCert: " + e.certA + "\n" +
		"srt: yes\nsrtAddress: " + a() + "\n" +
		"moq: yes\nmoqHTTP2Address: " + moq + "\nmoqHTTP3Address: " + moq + "\nmoqQUICAddress: " + a() + "\n" +
		"moqServerKey: " + e.keyA + "\nmoqServerCert: " + e.certA + "\n" +
		"apiServerKey: " + e.keyA + "\napiServerCert: " + e.certA + "\n" +
		"metricsServerKey: " + e.keyA + "\nmetricsServerCert: " + e.certA + "\n" +
		"pprofServerKey: " + e.keyA + "\npprofServerCert: " + e.certA + "\n" +
		"playbackServerKey: " + e.keyA + "\nplaybackServerCert: " + e.certA + "\n" +
		"paths:\n  all_others:\n    recordDeleteAfter: 1h\n"
	return y
}

// vf13Alt proposes an alternative value for a global parameter, or ok=false.
func vf13Alt(t testing.TB, e *vf13Env, f reflect.StructField, cur reflect.Value) (reflect.Value, bool) {
	name := f.Name
	nv := reflect.New(f.Type).Elem()
	switch f.Type.String() {
	case "conf.Duration":
		nv.SetInt(cur.Int() + int64(time.Second))
		return nv, true
	case "conf.LogLevel":
		nv.SetInt(int64(conf.LogLevel(2))) // info
		if cur.Int() == nv.Int() {
			nv.SetInt(1)
		}
		return nv, true
	case "conf.Encryption":
		// optional -> strict
		nv.SetString(string(conf.EncryptionStrict))
		return nv, cur.String() != nv.String()
	case "conf.HLSVariant":
		nv.SetInt(int64(gohlslib.MuxerVariantFMP4))
		return nv, cur.Int() != nv.Int()
	case "conf.AuthMethod":
		return nv, false // needs an external server
	case "conf.StringSize":
		nv.SetUint(cur.Uint() + 1024*1024)
		return nv, true
	case "conf.IPNetworks":
		var n conf.IPNetworks
		if err := n.UnmarshalEnv("", "127.0.0.1/32"); err != nil {
			return nv, false
		}
		return reflect.ValueOf(n), true
	case "conf.RTSPTransports":
		alt := conf.RTSPTransports{gortsplib.ProtocolTCP: {}, gortsplib.ProtocolUDP: {}}
		return reflect.ValueOf(alt), !reflect.DeepEqual(cur.Interface(), alt)
	case "conf.RTSPAuthMethods", "conf.LogDestinations":
		return nv, false
	case "[]string":
		switch {
		case strings.HasSuffix(name, "AllowOrigins"):
			return reflect.ValueOf([]string{"https://example.com"}), true
		case name == "WebRTCAdditionalHosts":
			return reflect.ValueOf([]string{"example.com"}), true
		case name == "WebRTCIPsFromInterfacesList":
			return reflect.ValueOf([]string{"lo"}), true
		}
		return nv, false
	case "[]conf.WebRTCICEServer":
		return reflect.ValueOf([]conf.WebRTCICEServer{{URL: "stun:127.0.0.1:3478"}}), true
	case "[]conf.AuthInternalUser":
		us := append([]conf.AuthInternalUser{}, cur.Interface().([]conf.AuthInternalUser)...)
		us = append(us, conf.AuthInternalUser{User: "vfuser", Pass: "vfpass", IPs: conf.IPNetworks{},
			Permissions: []conf.AuthInternalUserPermission{{Action: conf.AuthActionRead}}})
		return reflect.ValueOf(us), true
	case "[]conf.AuthInternalUserPermission":
		return reflect.ValueOf([]conf.AuthInternalUserPermission{{Action: conf.AuthActionMetrics}}), true
	}
	switch f.Type.Kind() {
	case reflect.Bool:
		nv.SetBool(!cur.Bool())
		return nv, true
	case reflect.Int:
		switch {
		case name == "WriteQueueSize":
			nv.SetInt(cur.Int() * 2)
		case name == "UDPMaxPayloadSize":
			nv.SetInt(cur.Int() - 40)
		case strings.HasPrefix(name, "Multicast") && strings.HasSuffix(name, "Port"):
			p := e.ports.evenPair(t)
			if strings.Contains(name, "RTCP") {
				p++
			}
			// RTP ports must be even and RTCP = RTP+1 is not required by validation
			nv.SetInt(int64(p))
		default:
			nv.SetInt(cur.Int() + 1)
		}
		return nv, true
	case reflect.Uint:
		nv.SetUint(cur.Uint() + 4096)
		return nv, true
	case reflect.String:
		switch {
		case name == "RTPAddress" || name == "SRTPAddress":
			nv.SetString("127.0.0.1:" + strconv.Itoa(e.ports.evenPair(t)))
		case name == "RTCPAddress" || name == "SRTCPAddress":
			nv.SetString("127.0.0.1:" + strconv.Itoa(e.ports.evenPair(t)+1))
		case strings.HasSuffix(name, "Address") && name != "AuthHTTPAddress":
			if cur.String() == "" {
				return nv, false
			}
			nv.SetString("127.0.0.1:" + strconv.Itoa(e.ports.tcp(t)))
		case name == "AuthHTTPAddress":
			nv.SetString("http://127.0.0.1:9/auth")
		case strings.HasSuffix(name, "ServerKey"):
			nv.SetString(e.keyB)
		case strings.HasSuffix(name, "ServerCert"):
			nv.SetString(e.certB)
		case name == "LogFile":
			nv.SetString(filepath.Join(e.dir, "other.log"))
		case name == "HLSDirectory":
			nv.SetString(e.dir)
		case name == "MulticastIPRange":
			nv.SetString("224.2.0.0/16")
		case name == "AuthJWTJWKS":
			nv.SetString("http://127.0.0.1:9/jwks")
		case name == "RunOnConnect" || name == "RunOnDisconnect":
			nv.SetString("echo verif")
		default:
			nv.SetString(cur.String() + "x")
		}
		return nv, true
	}
	return nv, false
}

func vf13NewCore(c *conf.Conf) (*Core, error) {
	ctx, cancel := context.WithCancel(context.Background())
	p := &Core{ctx: ctx, ctxCancel: cancel, done: make(chan struct{})}
	p.conf.Store(c)
	if err := p.createResources(true); err != nil {
		p.closeResources(nil)
		p.logger = vf13Quiet
		cancel()
		return nil, err
	}
	return p, nil
}

// vf13Quiet is installed after shutdown: goroutines of closed components (certificate watchers)
// may still log for a moment, and Core.Log dereferences p.logger (nil after closeResources(nil);
// in the real server the process exits right after).
var vf13Quiet = func() *logger.Logger {
	l := &logger.Logger{Level: logger.Error + 1, Destinations: nil}
	l.Initialize() //nolint:errcheck
	return l
}()

func vf13Close(p *Core) {
	p.closeResources(nil)
	p.logger = vf13Quiet
	p.ctxCancel()
}

type vf13Rec struct {
	Kind      string              `json:"kind"`
	Param     string              `json:"param"`
	Params    []string            `json:"params"`
	Skipped   string              `json:"skipped"`
	Differs   []string            `json:"differs"`   // components whose fresh construction differs between old and new conf
	Recreated []string            `json:"recreated"` // components whose identity changed in the live reload
	Stale     []string            `json:"stale"`     // live components whose configuration differs from the fresh construction
	StaleRefs []string            `json:"staleRefs"` // live components referencing a component instance that is no longer live
	RefsNew   map[string][]string `json:"refs"`      // references of each component in the fresh Core of the new conf
	Present   []string            `json:"present"`   // components present in the fresh Core of the new conf
	PresentL  []string            `json:"presentLive"`
	Detail    map[string]string   `json:"detail,omitempty"`
	// Dir: "fwd" = base -> changed configuration, "rev" = the same change undone on a live Core
	// that was started with the changed configuration (e.g. a server switched ON by the reload)
	Dir string `json:"dir"`
}

func vf13Snapshots(p *Core) (map[string]string, map[string][]string) {
	// the HLS server registers itself with the path manager from its own goroutine (SetHLSServer goes
	// through the manager loop): wait for that hand-shake before looking at references
	if !vf13Comp(p, "hlsServer").IsNil() && !vf13Comp(p, "pathManager").IsNil() {
		for try := 0; try < 400; try++ {
			_, refs := vf13Snapshot(p, "pathManager")
			found := false
			for _, x := range refs {
				if x == "hlsServer" {
					found = true
				}
			}
			if found {
				break
			}
			time.Sleep(5 * time.Millisecond)
		}
	}
	s := map[string]string{}
	r := map[string][]string{}
	for _, c := range vf13Comps {
		s[c], r[c] = vf13Snapshot(p, c)
		if r[c] == nil {
			r[c] = []string{}
		}
	}
	return s, r
}

// one experiment: old conf -> new conf
func vf13Experiment(base *conf.Conf, newConf *conf.Conf, rec *vf13Rec) {
	vf13ExperimentVia(base, nil, newConf, rec)
}

// vf13ExperimentVia: live Core started with base, reloaded to via (if not nil), then to newConf; compared with a
// fresh Core of newConf. With via != nil and newConf == base this is the chain base -> changed -> base.
// vf13Copy: an independent, usable copy of a validated configuration. Conf.Clone() alone leaves the compiled
// regular expressions of the path entries unusable (deepClone cannot copy regexp.Regexp's unexported fields;
// production code always re-validates a clone before using it) - see findings/C13.md.
func vf13Copy(c *conf.Conf) *conf.Conf {
	n := c.Clone()
	if err := n.Validate(nil); err != nil {
		panic("verif: a validated configuration does not validate after Clone: " + err.Error())
	}
	return n
}

func vf13ExperimentVia(base *conf.Conf, via *conf.Conf, newConf *conf.Conf, rec *vf13Rec) {
	freshOld, err := vf13NewCore(vf13Copy(base))
	if err != nil {
		rec.Skipped = "fresh core with the old configuration failed: " + err.Error()
		return
	}
	snapOld, _ := vf13Snapshots(freshOld)
	vf13Close(freshOld)

	freshNew, err := vf13NewCore(vf13Copy(newConf))
	if err != nil {
		rec.Skipped = "fresh core with the new configuration failed: " + err.Error()
		return
	}
	snapNew, refsNew := vf13Snapshots(freshNew)
	vf13Close(freshNew)

	live, err := vf13NewCore(vf13Copy(base))
	if err != nil {
		rec.Skipped = "live core failed: " + err.Error()
		return
	}
	idsBefore := map[string]uintptr{}
	// the old instances are kept reachable until the end of the experiment, so that the
	// allocator cannot hand their addresses to new objects (identity is compared by address)
	keep := []reflect.Value{}
	for _, c := range vf13Comps {
		idsBefore[c] = vf13ID(live, c)
		keep = append(keep, vf13Comp(live, c))
	}
	defer runtime.KeepAlive(&keep)
	idsMid := map[string]uintptr{}
	if via != nil {
		if err := live.reloadConf(vf13Copy(via)); err != nil {
			rec.Skipped = "first reload of the chain failed: " + err.Error()
			vf13Close(live)
			return
		}
		for _, c := range vf13Comps {
			idsMid[c] = vf13ID(live, c)
			keep = append(keep, vf13Comp(live, c))
		}
	}
	if err := live.reloadConf(vf13Copy(newConf)); err != nil {
		rec.Skipped = "reload failed: " + err.Error()
		vf13Close(live)
		return
	}
	// in-place reloads (path configurations, internal users) are handed to the services' own loops:
	// give them a moment to apply what they were given
	snapLive, refsLive := vf13Snapshots(live)
	for try := 0; try < 200; try++ {
		same := true
		for _, c := range vf13Comps {
			if snapLive[c] != snapNew[c] {
				same = false
			}
		}
		if same {
			break
		}
		time.Sleep(5 * time.Millisecond)
		snapLive, refsLive = vf13Snapshots(live)
	}
	rec.Differs, rec.Recreated, rec.Stale, rec.StaleRefs, rec.Present, rec.PresentL = []string{}, []string{}, []string{}, []string{}, []string{}, []string{}
	rec.RefsNew = refsNew
	rec.Detail = map[string]string{}
	liveIDs := map[uintptr]bool{}
	for _, c := range vf13Comps {
		if id := vf13ID(live, c); id != 0 {
			liveIDs[id] = true
		}
	}
	for _, c := range vf13Comps {
		if snapOld[c] != snapNew[c] {
			rec.Differs = append(rec.Differs, c)
		}
		if snapNew[c] != "absent" {
			rec.Present = append(rec.Present, c)
		}
		if snapLive[c] != "absent" {
			rec.PresentL = append(rec.PresentL, c)
		}
		if idsBefore[c] != vf13ID(live, c) {
			rec.Recreated = append(rec.Recreated, c)
		}
		if snapLive[c] != snapNew[c] {
			rec.Stale = append(rec.Stale, c)
			rec.Detail[c] = "live: " + vf13Short(snapLive[c], snapNew[c]) + " fresh: " + vf13Short(snapNew[c], snapLive[c])
		}
		// a live component references exactly the components its freshly built counterpart references
		// (a component that came to life in this reload must be known to those that use it: nil is stale too)
		if snapLive[c] != "absent" && snapNew[c] != "absent" && strings.Join(refsLive[c], ",") != strings.Join(refsNew[c], ",") {
			rec.StaleRefs = append(rec.StaleRefs, c)
			rec.Detail[c+"->refs"] = "references [" + strings.Join(refsLive[c], ",") + "], a fresh Core's references [" + strings.Join(refsNew[c], ",") + "]"
		}
		// every reference of a live component must point to a live component instance
		v := vf13Comp(live, c)
		if !v.IsNil() {
			s := v.Elem()
			for i := 0; i < s.NumField(); i++ {
				fv := s.Field(i)
				x := fv
				if x.Kind() == reflect.Interface && !x.IsNil() {
					x = x.Elem()
				}
				if x.Kind() != reflect.Ptr || x.IsNil() {
					continue
				}
				id := x.Pointer()
				// does it point to an instance that was a component before the reload and is not one any more?
				for _, d := range vf13Comps {
					if ((idsBefore[d] != 0 && idsBefore[d] == id) || (idsMid[d] != 0 && idsMid[d] == id)) && !liveIDs[id] {
						rec.StaleRefs = append(rec.StaleRefs, c)
						rec.Detail[c+"->"+d] = "references the closed instance"
					}
				}
			}
		}
	}
	vf13Close(live)
}

// the part of a that differs from b (for diagnostics)
func vf13Short(a, b string) string {
	fa := strings.Split(a, ";")
	fb := map[string]bool{}
	for _, x := range strings.Split(b, ";") {
		fb[x] = true
	}
	out := []string{}
	for _, x := range fa {
		if !fb[x] && x != "" {
			if len(x) > 160 {
				x = x[:160] + "..."
			}
			out = append(out, x)
		}
	}
	return strings.Join(out, ";")
}

func TestVerif_C13_Reload(t *testing.T) {
	vfpInstallHooks() // no external command is really executed
	out := verifrt.NewOut(t)
	defer out.Close()
	dir := t.TempDir()
	// dumpPackets writes capture files into the working directory: never into the repository
	if wd, err := os.Getwd(); err == nil {
		defer os.Chdir(wd) //nolint:errcheck
	}
	if err := os.Chdir(dir); err != nil {
		t.Fatal(err)
	}
	w := func(name string, b []byte) string {
		p := filepath.Join(dir, name)
		if err := os.WriteFile(p, b, 0o600); err != nil {
			t.Fatal(err)
		}
		return p
	}
	e := &vf13Env{ports: &vf13Ports{used: map[int]bool{}}, dir: dir,
		keyA: w("a.key", test.TLSCertKey), certA: w("a.crt", test.TLSCertPub),
		keyB: w("b.key", test.TLSCertKeyAlt), certB: w("b.crt", test.TLSCertPubAlt)}
	cf := w("base.yml", []byte(vf13BaseYAML(t, e)))
	base, _, err := conf.Load(cf, nil, nil)
	if err != nil {
		t.Fatalf("verif: base configuration does not load: %v", err)
	}

	// references measured on a fresh Core of the base configuration
	{
		p, err := vf13NewCore(base.Clone())
		if err != nil {
			t.Fatalf("verif: base core does not start: %v", err)
		}
		_, refs := vf13Snapshots(p)
		present := []string{}
		for _, c := range vf13Comps {
			if vf13ID(p, c) != 0 {
				present = append(present, c)
			}
		}
		vf13Close(p)
		out.Emit(&vf13Rec{Kind: "refs", RefsNew: refs, Present: present})
	}

	only := verifrt.ParamS("ONLY", "")
	pairs := verifrt.Param("PAIRS", 0)
	rnd := verifrt.Rand(13)
	ct := reflect.TypeOf(*base)
	type cand struct {
		f   reflect.StructField
		alt reflect.Value
	}
	cands := []cand{}
	for i := 0; i < ct.NumField(); i++ {
		f := ct.Field(i)
		tag := strings.Split(f.Tag.Get("json"), ",")[0]
		if tag == "" || tag == "-" || f.Tag.Get("deprecated") == "true" ||
			f.Name == "Paths" || f.Name == "OptionalPaths" || f.Name == "PathDefaults" {
			continue
		}
		if only != "" && only != tag {
			continue
		}
		cur := reflect.ValueOf(base).Elem().Field(i)
		alt, ok := vf13Alt(t, e, f, cur)
		rec := &vf13Rec{Kind: "param", Param: tag, Params: []string{tag}}
		if !ok {
			rec.Skipped = "no alternative value generator for " + f.Type.String()
			out.Emit(rec)
			continue
		}
		nc := base.Clone()
		reflect.ValueOf(nc).Elem().Field(i).Set(alt)
		if err := nc.Validate(nil); err != nil {
			rec.Skipped = "alternative value rejected by Validate: " + err.Error()
			out.Emit(rec)
			continue
		}
		rec.Dir = "fwd"
		vf13Experiment(base, nc, rec)
		out.Emit(rec)
		if rec.Skipped == "" {
			cands = append(cands, cand{f, alt})
			// the same parameter, the other way round: start with the alternative value, reload to the base value
			rev := &vf13Rec{Kind: "param", Param: tag, Params: []string{tag}, Dir: "rev"}
			vf13Experiment(nc, base, rev)
			out.Emit(rev)
			// and the chain base -> changed -> base on ONE live Core (state left behind by the first reload)
			if chains := verifrt.Param("CHAINS", 0); chains < 0 || rnd.IntN(100) < chains {
				ch := &vf13Rec{Kind: "param", Param: tag, Params: []string{tag}, Dir: "chain"}
				vf13ExperimentVia(base, nc, base, ch)
				out.Emit(ch)
			}
		}
	}
	// the set of path configurations, alone and together with each global parameter of PATHPAIRS
	// ("*" = every parameter that could be exercised): services that keep running must apply the
	// new path configurations in place, services that are recreated must be built with them
	withPath := func(c *conf.Conf) (*conf.Conf, error) {
		nc := c.Clone()
		var op conf.OptionalPath
		if err := jsonwrapper.Unmarshal([]byte(`{"recordDeleteAfter":"2h"}`), &op); err != nil {
			return nil, err
		}
		if err := nc.AddPath("vfextra", &op); err != nil {
			return nil, err
		}
		if err := nc.Validate(nil); err != nil {
			return nil, err
		}
		return nc, nil
	}
	if pp := verifrt.ParamS("PATHPAIRS", ""); pp != "" {
		want := map[string]bool{}
		for _, x := range strings.Split(pp, ",") {
			want[x] = true
		}
		rec := &vf13Rec{Kind: "paths", Param: "paths", Params: []string{"paths"}}
		if nc, err := withPath(base); err != nil {
			rec.Skipped = "cannot add a path: " + err.Error()
		} else {
			vf13Experiment(base, nc, rec)
			out.Emit(rec)
			// the same number of path configurations under other names (an entry renamed), a path removed,
			// and the added path changed back and forth
			ren := nc.Clone()
			var op conf.OptionalPath
			if err := jsonwrapper.Unmarshal([]byte(`{"recordDeleteAfter":"2h"}`), &op); err == nil {
				if err = ren.RemovePath("vfextra"); err == nil {
					err = ren.AddPath("vfrenamed", &op)
				}
				if err == nil {
					err = ren.Validate(nil)
				}
				if err == nil {
					r2 := &vf13Rec{Kind: "paths", Param: "paths", Params: []string{"paths"}, Dir: "rename"}
					vf13Experiment(nc, ren, r2)
					out.Emit(r2)
					r3 := &vf13Rec{Kind: "paths", Param: "paths", Params: []string{"paths"}, Dir: "remove"}
					vf13Experiment(nc, base, r3)
					out.Emit(r3)
					r4 := &vf13Rec{Kind: "paths", Param: "paths", Params: []string{"paths"}, Dir: "chain"}
					vf13ExperimentVia(base, nc, ren, r4)
					out.Emit(r4)
				}
			}
			rec = nil
		}
		if rec != nil {
			out.Emit(rec)
		}
		for _, ca := range cands {
			tag := strings.Split(ca.f.Tag.Get("json"), ",")[0]
			if !want["*"] && !want[tag] {
				continue
			}
			rec := &vf13Rec{Kind: "pathpair", Param: "paths+" + tag, Params: []string{"paths", tag}}
			nc := base.Clone()
			reflect.ValueOf(nc).Elem().FieldByName(ca.f.Name).Set(ca.alt)
			nc2, err := withPath(nc)
			if err != nil {
				rec.Skipped = "rejected: " + err.Error()
				out.Emit(rec)
				continue
			}
			vf13Experiment(base, nc2, rec)
			out.Emit(rec)
		}
	}
	// parameters that are only valid when changed together (port pairs, key + certificate)
	for _, grp := range strings.Split(verifrt.ParamS("COMPOUND", ""), ";") {
		names := strings.Split(grp, ",")
		if len(names) < 2 {
			continue
		}
		rec := &vf13Rec{Kind: "compound", Param: strings.Join(names, "+"), Params: names}
		nc := base.Clone()
		ok := true
		evenBase := 0
		for _, tag := range names {
			found := false
			for i := 0; i < ct.NumField(); i++ {
				f := ct.Field(i)
				if strings.Split(f.Tag.Get("json"), ",")[0] != tag {
					continue
				}
				found = true
				cur := reflect.ValueOf(base).Elem().Field(i)
				alt, ok2 := vf13Alt(t, e, f, cur)
				if !ok2 {
					ok = false
					break
				}
				// consecutive port pairs: the second member follows the first
				if strings.Contains(tag, "Address") && (strings.HasPrefix(tag, "rt") || strings.HasPrefix(tag, "srt")) && f.Type.Kind() == reflect.String {
					if evenBase == 0 {
						evenBase = e.ports.evenPair(t)
						alt = reflect.ValueOf("127.0.0.1:" + strconv.Itoa(evenBase))
					} else {
						alt = reflect.ValueOf("127.0.0.1:" + strconv.Itoa(evenBase+1))
					}
				}
				if strings.HasPrefix(tag, "multicast") && f.Type.Kind() == reflect.Int {
					if evenBase == 0 {
						evenBase = e.ports.evenPair(t)
						alt = reflect.ValueOf(evenBase)
					} else {
						alt = reflect.ValueOf(evenBase + 1)
					}
				}
				reflect.ValueOf(nc).Elem().Field(i).Set(alt)
			}
			if !found {
				ok = false
			}
		}
		if !ok {
			rec.Skipped = "no alternative for the group"
			out.Emit(rec)
			continue
		}
		if err := nc.Validate(nil); err != nil {
			rec.Skipped = "group rejected by Validate: " + err.Error()
			out.Emit(rec)
			continue
		}
		vf13Experiment(base, nc, rec)
		out.Emit(rec)
	}
	// pairs of parameters changed together
	for k := 0; k < pairs && len(cands) >= 2; k++ {
		a := cands[rnd.IntN(len(cands))]
		b := cands[rnd.IntN(len(cands))]
		if a.f.Name == b.f.Name {
			continue
		}
		ta := strings.Split(a.f.Tag.Get("json"), ",")[0]
		tb := strings.Split(b.f.Tag.Get("json"), ",")[0]
		rec := &vf13Rec{Kind: "pair", Param: ta + "+" + tb, Params: []string{ta, tb}}
		nc := base.Clone()
		reflect.ValueOf(nc).Elem().FieldByName(a.f.Name).Set(a.alt)
		reflect.ValueOf(nc).Elem().FieldByName(b.f.Name).Set(b.alt)
		if err := nc.Validate(nil); err != nil {
			rec.Skipped = "pair rejected by Validate: " + err.Error()
			out.Emit(rec)
			continue
		}
		vf13Experiment(base, nc, rec)
		out.Emit(rec)
	}
}

// ---- tables extracted from the source of core.go (go/ast), so that the specification's
// constants follow the code: Consumes (what each constructor block of createResources reads from
// the configuration, including its enabling condition) and CloseIf/CloseDeps (the close*
// predicates of closeResources). TLC compares the two (spec/core/Reload.tla).

var vf13CloseVar = map[string]string{
	"closeLogger": "logger", "closeAuthManager": "authManager", "closeMetrics": "metrics", "closePPROF": "pprof",
	"closeRecorderCleaner": "recordCleaner", "closePlaybackServer": "playbackServer", "closePathManager": "pathManager",
	"closeRTSPServer": "rtspServer", "closeRTSPSServer": "rtspsServer", "closeRTMPServer": "rtmpServer",
	"closeRTMPSServer": "rtmpsServer", "closeHLSServer": "hlsServer", "closeWebRTCServer": "webRTCServer",
	"closeSRTServer": "srtServer", "closeMoQServer": "moqServer", "closeAPI": "api",
}

func vf13FieldTags() map[string]string {
	out := map[string]string{}
	ct := reflect.TypeOf(conf.Conf{})
	for i := 0; i < ct.NumField(); i++ {
		tag := strings.Split(ct.Field(i).Tag.Get("json"), ",")[0]
		if tag != "" && tag != "-" {
			out[ct.Field(i).Name] = tag
		}
	}
	return out
}

func TestVerif_C13_Tables(t *testing.T) {
	out := verifrt.NewOut(t)
	defer out.Close()
	fset := token.NewFileSet()
	file, err := parser.ParseFile(fset, "core.go", nil, 0)
	if err != nil {
		t.Fatalf("verif: cannot parse core.go: %v", err)
	}
	tags := vf13FieldTags()
	isComp := map[string]bool{}
	for _, c := range vf13Comps {
		isComp[c] = true
	}
	confFields := func(n ast.Node, recv map[string]bool) []string {
		set := map[string]bool{}
		ast.Inspect(n, func(x ast.Node) bool {
			if se, ok := x.(*ast.SelectorExpr); ok {
				if id, ok2 := se.X.(*ast.Ident); ok2 && recv[id.Name] {
					if tag, ok3 := tags[se.Sel.Name]; ok3 {
						set[tag] = true
					}
				}
			}
			return true
		})
		r := []string{}
		for k := range set {
			r = append(r, k)
		}
		sort.Strings(r)
		return r
	}
	consumes := map[string][]string{}
	ctorRefs := map[string][]string{}
	closeIf := map[string][]string{}
	closeDeps := map[string][]string{}
	for _, d := range file.Decls {
		fd, ok := d.(*ast.FuncDecl)
		if !ok {
			continue
		}
		switch fd.Name.Name {
		case "createResources":
			for _, st := range fd.Body.List {
				ifs, ok := st.(*ast.IfStmt)
				if !ok {
					continue
				}
				// which component does this block create?
				comp := ""
				ast.Inspect(ifs.Body, func(x ast.Node) bool {
					if as, ok := x.(*ast.AssignStmt); ok {
						for _, l := range as.Lhs {
							if se, ok := l.(*ast.SelectorExpr); ok {
								if id, ok2 := se.X.(*ast.Ident); ok2 && id.Name == "p" && isComp[se.Sel.Name] {
									comp = se.Sel.Name
								}
							}
						}
					}
					return true
				})
				if comp == "" {
					continue
				}
				fs := confFields(ifs, map[string]bool{"currentConf": true})
				consumes[comp] = append(consumes[comp], fs...)
				// references handed to the constructor: `Field: p.<component>`
				rs := map[string]bool{}
				ast.Inspect(ifs.Body, func(x ast.Node) bool {
					if kv, ok := x.(*ast.KeyValueExpr); ok {
						if se, ok2 := kv.Value.(*ast.SelectorExpr); ok2 {
							if id, ok3 := se.X.(*ast.Ident); ok3 && id.Name == "p" && isComp[se.Sel.Name] && se.Sel.Name != comp {
								rs[se.Sel.Name] = true
							}
						}
					}
					return true
				})
				for r := range rs {
					ctorRefs[comp] = append(ctorRefs[comp], r)
				}
				sort.Strings(ctorRefs[comp])
			}
		case "closeResources":
			for _, st := range fd.Body.List {
				as, ok := st.(*ast.AssignStmt)
				if !ok || len(as.Lhs) != 1 {
					continue
				}
				id, ok := as.Lhs[0].(*ast.Ident)
				if !ok {
					continue
				}
				comp, ok := vf13CloseVar[id.Name]
				if !ok {
					continue
				}
				closeIf[comp] = confFields(as.Rhs[0], map[string]bool{"newConf": true, "currentConf": true})
				deps := []string{}
				ast.Inspect(as.Rhs[0], func(x ast.Node) bool {
					if i2, ok := x.(*ast.Ident); ok {
						if c2, ok2 := vf13CloseVar[i2.Name]; ok2 && c2 != comp {
							deps = append(deps, c2)
						}
					}
					return true
				})
				sort.Strings(deps)
				closeDeps[comp] = deps
			}
		}
	}
	for _, c := range vf13Comps {
		if _, ok := consumes[c]; !ok {
			t.Fatalf("verif: no constructor block found for component %s in createResources", c)
		}
		if _, ok := closeIf[c]; !ok {
			t.Fatalf("verif: no close predicate found for component %s in closeResources", c)
		}
		sort.Strings(consumes[c])
	}
	out.Emit(map[string]any{"kind": "tables", "consumes": consumes, "closeIf": closeIf, "closeDeps": closeDeps, "ctorRefs": ctorRefs, "comps": vf13Comps})
}
