package core

// Verification harness for C15 (live paths reconcile with configuration after reloads):
// replays behaviours of spec/core/PathManager.tla (Reload / Deliver / Request) on the REAL
// pathManager. The order in which `go pa.reloadConf(c)` goroutines hand their configuration to
// the path is controlled with the verif gate hook in path.reloadConf. Records observations;
// TLC (TracePathManager.tla) decides.

import (
	"bytes"
	"regexp"
	"runtime"
	"sort"
	"strconv"
	"sync"
	"testing"
	"time"

	"github.com/bluenviron/mediamtx/internal/conf"
	"github.com/bluenviron/mediamtx/internal/defs"
	"github.com/bluenviron/mediamtx/internal/logger"
	"github.com/bluenviron/mediamtx/internal/verifrt"
)

type vfmConf struct {
	Hot  int `json:"hot"`
	Cold int `json:"cold"`
}

type vfmAct struct {
	A    string             `json:"a"`
	CM   map[string]vfmConf `json:"cm"`
	Name string             `json:"name"`
	RL   int                `json:"rl"`
}

type vfmLive struct {
	Alive    bool     `json:"alive"`
	Inc      int      `json:"inc"`
	Key      string   `json:"key"` // configuration the path reports to run with (SafeConf().Name)
	Hot      int      `json:"hot"`
	Cold     int      `json:"cold"`
	Groups   []string `json:"groups"`
	ConfName string   `json:"confName"` // the manager's record of the path's configuration name
}

type vfmStep struct {
	Act     vfmAct             `json:"act"`
	CM      map[string]vfmConf `json:"cm"`   // the manager's map after the step
	Live    map[string]vfmLive `json:"live"` // per name
	Pending int                `json:"pending"`
	Done    bool               `json:"done"`   // Deliver: the delivery was found at the gate and released
	Closed  []int              `json:"closed"` // incarnations whose publisher was closed in this step
}

type vfmRun struct {
	Run   int       `json:"run"`
	H     []vfmAct  `json:"h,omitempty"`
	Steps []vfmStep `json:"steps"`
	Src   string    `json:"src"`
}

var vfmNames = []string{"cam", "cam1", "dog"}

var vfmKeyName = map[string]string{
	"cam": "cam",
	"R1":  "~^cam(.*)$",
	"R2":  "~^cam1?(.*)$",
	"AO":  "all_others",
}

func vfmKeyOf(confName string) string {
	for k, v := range vfmKeyName {
		if v == confName {
			return k
		}
	}
	return "?" + confName
}

func vfmBuild(cm map[string]vfmConf) map[string]*conf.Path {
	out := map[string]*conf.Path{}
	for k, c := range cm {
		if c.Hot < 0 {
			continue
		}
		pc := &conf.Path{
			Name:              vfmKeyName[k],
			Source:            "publisher",
			RecordDeleteAfter: conf.Duration(time.Duration(c.Hot+1) * time.Hour), // hot-reloadable
			MaxReaders:        c.Cold * 5,                                          // not hot-reloadable
			RecordPath:        "/nonexistent/%path/%Y-%m-%d_%H-%M-%S-%f",
		}
		switch k {
		case "R1":
			pc.Regexp = regexp.MustCompile("^cam(.*)$")
		case "R2":
			pc.Regexp = regexp.MustCompile("^cam1?(.*)$")
		case "AO":
			pc.Regexp = regexp.MustCompile("^.*$")
		}
		out[pc.Name] = pc
	}
	return out
}

type vfmGate struct {
	pa      *path
	c       *conf.Path
	release chan struct{}
}

type vfmWorld struct {
	mu      sync.Mutex
	pm      *pathManager
	gates   []*vfmGate
	draining bool
	entered int
	exited  int
	incs    map[*path]int
	ninc    int
	reloads []map[string]*conf.Path // conf objects of reload i (1-based; 0 = initial)
	pubs    map[*path]*vfmPub
	byName  map[string]*vfmPub // the publisher that keeps a requested name busy
	closed  []int
}

var vfmCur *vfmWorld
var vfmCurMu sync.Mutex

type vfmPub struct {
	w  *vfmWorld
	pa *path
}

func (p *vfmPub) Close() {
	p.w.mu.Lock()
	p.w.closed = append(p.w.closed, p.w.incs[p.pa])
	for n, q := range p.w.byName {
		if q == p {
			delete(p.w.byName, n)
		}
	}
	p.w.mu.Unlock()
}
func (p *vfmPub) Log(logger.Level, string, ...any) {}
func (p *vfmPub) APISourceDescribe() *defs.APIPathSource {
	return &defs.APIPathSource{Type: defs.APIPathSourceTypeRTSPSession, ID: "pub"}
}

func vfmInstallHooks() {
	verifReloadConfEnter = func(pa *path, c *conf.Path) {
		vfmCurMu.Lock()
		w := vfmCur
		vfmCurMu.Unlock()
		if w == nil {
			return
		}
		g := &vfmGate{pa: pa, c: c, release: make(chan struct{})}
		w.mu.Lock()
		w.entered++
		if w.draining {
			// the run is over: late arrivals pass straight through
			w.mu.Unlock()
			return
		}
		w.gates = append(w.gates, g)
		w.mu.Unlock()
		<-g.release
	}
	verifReloadConfExit = func(pa *path, c *conf.Path) {
		vfmCurMu.Lock()
		w := vfmCur
		vfmCurMu.Unlock()
		if w == nil {
			return
		}
		w.mu.Lock()
		w.exited++
		w.mu.Unlock()
	}
}

func (w *vfmWorld) pathOf(name string) *path {
	req := pathAPIPathsGetReq{name: name, res: make(chan pathAPIPathsGetRes)}
	w.pm.chAPIPathsGet <- req
	res := <-req.res
	return res.path
}

func (w *vfmWorld) incOf(pa *path) int {
	w.mu.Lock()
	defer w.mu.Unlock()
	n, ok := w.incs[pa]
	if !ok {
		w.ninc++
		n = w.ninc
		w.incs[pa] = n
	}
	return n
}

// pending counts the goroutines that are inside path.reloadConf (spawned by
// pathManager.doReloadConf and not yet returned). A goroutine created with `go f()` is listed
// by runtime.Stack with f as its frame even before it has run, so after a barrier through the
// manager loop (no doReloadConf in progress) the count is exact, whatever the machine load.
func (w *vfmWorld) settle() int {
	n := vfmStackCount()
	w.mu.Lock()
	atGate := w.entered - w.exited
	w.mu.Unlock()
	if atGate > n {
		n = atGate
	}
	return n
}

// goroutines started by `go pa.reloadConf(c)` in doReloadConf that have not returned yet
func vfmStackCount() int {
	buf := make([]byte, 1<<20)
	for {
		n := runtime.Stack(buf, true)
		if n < len(buf) {
			buf = buf[:n]
			break
		}
		buf = make([]byte, 2*len(buf))
	}
	// goroutines started by `go pa.reloadConf(c)` in doReloadConf (before their first run they
	// only show the compiler's go-wrapper frame, so they are recognised by their creator)
	return bytes.Count(buf, []byte("created by github.com/bluenviron/mediamtx/internal/core.(*pathManager).doReloadConf"))
}

// vfmSelfTest makes sure that in-flight deliveries are visible to settle() the instant the
// manager has processed a reload; otherwise "quiescent" cannot be observed soundly.
func vfmSelfTest(t testing.TB) {
	r := vfmRun{H: []vfmAct{{A: "Reload", CM: map[string]vfmConf{"cam": {1, 0}, "R1": {0, 0}, "R2": {-1, -1}, "AO": {-1, -1}}, RL: 1}}}
	vfmExec(t, &r, map[string]vfmConf{"cam": {0, 0}, "R1": {0, 0}, "R2": {-1, -1}, "AO": {-1, -1}})
	if len(r.Steps) != 2 || r.Steps[1].Pending != 1 {
		t.Fatalf("verif: a hot reload of a live path must show exactly one pending delivery, saw %+v", r.Steps)
	}
}

func (w *vfmWorld) observe(st *vfmStep) {
	st.Live = map[string]vfmLive{}
	// the manager's map (read through the manager loop: pathOf is a barrier)
	for _, n := range vfmNames {
		pa := w.pathOf(n)
		if pa == nil {
			st.Live[n] = vfmLive{Groups: []string{}}
			continue
		}
		// barrier through the path loop, so that a delivered configuration has been applied
		_, err := pa.APIPathsGet(pathAPIPathsGetReq{})
		if err != nil {
			st.Live[n] = vfmLive{Groups: []string{}}
			continue
		}
		sc := pa.SafeConf()
		l := vfmLive{Alive: true, Inc: w.incOf(pa), Key: vfmKeyOf(sc.Name),
			Hot: int(time.Duration(sc.RecordDeleteAfter)/time.Hour) - 1, Cold: sc.MaxReaders / 5,
			Groups: []string{}, ConfName: vfmKeyOf(pa.confName)}
		env := pa.ExternalCmdEnv()
		for i := 1; ; i++ {
			v, ok := env["G"+strconv.Itoa(i)]
			if !ok {
				break
			}
			l.Groups = append(l.Groups, v)
		}
		st.Live[n] = l
	}
	st.CM = map[string]vfmConf{}
	for k := range vfmKeyName {
		st.CM[k] = vfmConf{Hot: -1, Cold: -1}
	}
	// pm.pathConfs is owned by the manager loop; pathOf above was a barrier and nothing else
	// is sent to the manager by the harness concurrently
	for name, pc := range w.pm.pathConfs {
		st.CM[vfmKeyOf(name)] = vfmConf{Hot: int(time.Duration(pc.RecordDeleteAfter)/time.Hour) - 1, Cold: pc.MaxReaders / 5}
	}
	st.Pending = w.settle()
	w.mu.Lock()
	st.Closed = append([]int{}, w.closed...)
	sort.Ints(st.Closed)
	w.closed = nil
	w.mu.Unlock()
}

func vfmExec(t testing.TB, r *vfmRun, init map[string]vfmConf) {
	w := &vfmWorld{incs: map[*path]int{}, pubs: map[*path]*vfmPub{}, byName: map[string]*vfmPub{}}
	vfmCurMu.Lock()
	vfmCur = w
	vfmCurMu.Unlock()
	confs := vfmBuild(init)
	w.reloads = append(w.reloads, confs)
	w.pm = &pathManager{
		writeQueueSize:    8,
		udpMaxPayloadSize: 1472,
		rtpMaxPayloadSize: 1450,
		readTimeout:       conf.Duration(10 * time.Second),
		writeTimeout:      conf.Duration(10 * time.Second),
		rtspAddress:       ":8554",
		pathConfs:         confs,
		authManager:       vfpAuth{},
		parent:            vfpNilLogger{},
	}
	w.pm.initialize()
	// number the initial static path first, as the spec does (incarnation 1)
	if pa := w.pathOf("cam"); pa != nil {
		w.incOf(pa)
	}

	r.Steps = []vfmStep{}
	st0 := vfmStep{Act: vfmAct{A: "Init", CM: init}}
	w.observe(&st0)
	r.Steps = append(r.Steps, st0)
	for _, a := range r.H {
		st := vfmStep{Act: a}
		switch a.A {
		case "Reload":
			nc := vfmBuild(a.CM)
			w.reloads = append(w.reloads, nc)
			w.pm.ReloadPathConfs(nc)

		case "Deliver":
			// the delivery spawned by reload a.RL for path a.Name
			var target map[string]*conf.Path
			if a.RL < len(w.reloads) {
				target = w.reloads[a.RL]
			}
			deadline := time.Now().Add(20 * time.Second)
			for !st.Done && time.Now().Before(deadline) {
				if w.settle() == 0 {
					break // nothing in flight: the real code spawned no such delivery (DRIFT)
				}
				w.mu.Lock()
				for i, g := range w.gates {
					if g.pa.name != a.Name {
						continue
					}
					mine := false
					for _, pc := range target {
						if pc == g.c {
							mine = true
						}
					}
					if mine {
						w.gates = append(w.gates[:i], w.gates[i+1:]...)
						before := w.exited
						w.mu.Unlock()
						close(g.release)
						for j := 0; j < 20000; j++ {
							w.mu.Lock()
							ex := w.exited
							w.mu.Unlock()
							if ex > before {
								break
							}
							time.Sleep(100 * time.Microsecond)
						}
						st.Done = true
						w.mu.Lock()
						break
					}
				}
				w.mu.Unlock()
				if !st.Done {
					time.Sleep(200 * time.Microsecond)
				}
			}

		case "Request":
			p := &vfmPub{w: w}
			res, err := w.pm.AddPublisher(defs.PathAddPublisherReq{
				Author:        p,
				Desc:          vfpDesc(),
				AccessRequest: defs.PathAccessRequest{Name: a.Name, Publish: true, SkipAuth: true},
			})
			if err == nil {
				p.pa = res.Path.(*path)
				w.incOf(p.pa)
				w.mu.Lock()
				w.byName[a.Name] = p
				w.mu.Unlock()
				st.Done = true
			}

		case "Release":
			// the publisher of the name leaves, as a closing connection does
			w.mu.Lock()
			p := w.byName[a.Name]
			delete(w.byName, a.Name)
			w.mu.Unlock()
			if p != nil && p.pa != nil {
				p.pa.RemovePublisher(defs.PathRemovePublisherReq{Author: p})
				// barrier through the path loop: the iteration that served the request (and, for a path
				// that closes itself, its closePathIfIdle round trip with the manager) is over
				p.pa.APIPathsGet(pathAPIPathsGetReq{}) //nolint:errcheck
				st.Done = true
			}
		}
		w.observe(&st)
		r.Steps = append(r.Steps, st)
	}

	// release whatever is still waiting at the gate, then shut down
	w.mu.Lock()
	w.draining = true
	for _, g := range w.gates {
		close(g.release)
	}
	w.gates = nil
	w.mu.Unlock()
	done := make(chan struct{})
	go func() { w.pm.close(); close(done) }()
	select {
	case <-done:
	case <-time.After(20 * time.Second):
		t.Fatalf("verif: pathManager.close() hangs")
	}
	// the released delivery goroutines must be gone before the next run counts its own
	deadline := time.Now().Add(20 * time.Second)
	for vfmStackCount() != 0 {
		if time.Now().After(deadline) {
			t.Fatalf("verif: delivery goroutines of a finished run do not exit")
		}
		time.Sleep(200 * time.Microsecond)
	}
	vfmCurMu.Lock()
	vfmCur = nil
	vfmCurMu.Unlock()
	r.H = nil
}

func TestVerif_C15_Replay(t *testing.T) {
	vfpInstallHooks() // external commands and static sources are never really started
	vfmInstallHooks()
	// cross-check the spec's regular-expression table (PathManagerMC.tla MatchDef) with Go's regexp
	expect := map[string]map[string][]string{
		"R2": {"cam": {""}, "cam1": {""}, "dog": nil},
		"R1": {"cam": {""}, "cam1": {"1"}, "dog": nil},
		"AO": {"cam": {}, "cam1": {}, "dog": {}},
	}
	full := map[string]map[string]vfmConf{}
	_ = full
	for k, byName := range expect {
		pc := vfmBuild(map[string]vfmConf{k: {}})[vfmKeyName[k]]
		for n, g := range byName {
			m := pc.Regexp.FindStringSubmatch(n)
			if (m == nil) != (g == nil) {
				t.Fatalf("verif: regexp table differs for %s/%s", k, n)
			}
			if m != nil {
				if len(m)-1 != len(g) {
					t.Fatalf("verif: regexp table differs for %s/%s", k, n)
				}
				for i := range g {
					if m[i+1] != g[i] {
						t.Fatalf("verif: regexp table differs for %s/%s", k, n)
					}
				}
			}
		}
	}
	// resolution order assumed by the spec (R1 before R2): ask the real resolver
	{
		both := vfmBuild(map[string]vfmConf{"R1": {0, 0}, "R2": {0, 0}})
		pc, _, err := conf.FindPathConf(both, "cam1")
		if err != nil || pc.Name != vfmKeyName["R1"] {
			t.Fatalf("verif: the resolver does not prefer R1 over R2 as the spec's RegexOrderDef assumes")
		}
	}
	init := map[string]vfmConf{"cam": {0, 0}, "R1": {0, 0}, "R2": {-1, -1}, "AO": {-1, -1}}
	for i := 0; i < 20; i++ {
		vfmSelfTest(t)
	}
	out := verifrt.NewOut(t)
	defer out.Close()
	verifrt.ForEachCase(t, func(raw []byte) {
		var r vfmRun
		verifrt.Decode(t, raw, &r)
		vfmExec(t, &r, init)
		out.Emit(&r)
	})
}
