package core

// Verification harness for the second stage of C20 (runOnConnect/runOnDisconnect per connection,
// runOnRead/runOnUnread per reader). Injected by /verif through -overlay. Behaviours of
// spec/core/ConnHooks.tla are replayed on a REAL Core (RTSP, RTMP, SRT, HLS and API servers on
// free ports) with real protocol clients (gortsplib, gortmplib, gosrt, net/http); kicks go
// through the HTTP API, configuration changes through the Core's own API methods. The
// external-command hook (build tag verif) observes every Cmd.Start / Cmd.Close in the caller's
// goroutine and suppresses the execution; the entity a command belongs to is read from the
// command line the real process would have seen (Cmdstr expanded with Env).
//
// A step ends when the server is quiescent, which is OBSERVED, never timed: an action-specific
// trigger (the client's call returned / the closed client's connection is no longer listed / the
// API call returned) and then a goroutine dump (stop-the-world, consistent) in which EVERY goroutine
// created by mediamtx or by the server half of gortsplib is parked at its known idle wait point
// (table vf20cPark; an unknown goroutine counts as busy), no goroutine is inside internal/hooks, an
// API handler or an HLS session's initialize/close2, and the number of connection / session /
// muxer goroutines equals the number of listed entities (the servers unlist a connection BEFORE
// its hooks run, so the lists alone would be racy). All hand-offs of the server's teardown chains
// are synchronous (channel sends, context cancellations, fd closes make the next goroutine runnable
// before the previous one parks), so once the trigger holds, a dump without a running/runnable
// server goroutine means the chain has ended. RTMP and SRT readers notice a closed peer only when
// they write: the harness feeds packets through its publisher while it waits for that trigger.
// A timeout is a harness failure (exit 2), never a verdict. The test records; TLC decides
// (spec/core/TraceConnHooks.tla).

import (
	"bytes"
	"context"
	"encoding/json"
	"fmt"
	"io"
	"net"
	"net/http"
	"net/url"
	"os"
	"path/filepath"
	"runtime"
	"sort"
	"strings"
	"sync"
	"sync/atomic"
	"testing"
	"time"

	"github.com/bluenviron/gortmplib"
	"github.com/bluenviron/gortsplib/v5"
	"github.com/bluenviron/gortsplib/v5/pkg/base"
	"github.com/bluenviron/gortsplib/v5/pkg/description"
	srt "github.com/datarhei/gosrt"
	"github.com/pion/rtp"

	"github.com/bluenviron/mediamtx/internal/conf"
	"github.com/bluenviron/mediamtx/internal/defs"
	"github.com/bluenviron/mediamtx/internal/externalcmd"
	"github.com/bluenviron/mediamtx/internal/test"
	"github.com/bluenviron/mediamtx/internal/verifrt"
)

const (
	vf20cPath    = "vfcam"
	vf20cTimeout = 25 * time.Second
)

type vf20cIn struct {
	A string `json:"a"`
	C string `json:"c"`
}

type vf20cEv struct {
	H   string `json:"h"`   // connect | disconnect | read | unread
	V   string `json:"v"`   // start (Cmd.Start) | stop (Cmd.Close)
	ID  string `json:"id"`  // short name of the identifier in $MTX_CONN_ID / $MTX_READER_ID
	O   string `json:"o"`   // the client whose action made the identifier appear ("?" = none)
	G   int    `json:"g"`   // that client's connection counter at that moment
	Typ string `json:"typ"` // $MTX_CONN_TYPE / $MTX_READER_TYPE
}

type vf20cStep struct {
	In      vf20cIn   `json:"in"`
	Ev      []vf20cEv `json:"ev"`
	Conns   []string  `json:"conns"`   // connections listed by the API after the step
	Readers []string  `json:"readers"` // readers listed by the API after the step
	Skipped bool      `json:"skipped"` // the harness could not perform the input (its client is gone)
	Note    string    `json:"note"`
}

type vf20cRun struct {
	Run     int               `json:"run"`
	Clients map[string]string `json:"clients"`
	Inputs  []vf20cIn         `json:"inputs,omitempty"`
	Steps   []vf20cStep       `json:"steps"`
	Polls   int               `json:"polls"`
}

type vf20cOwner struct {
	o string
	g int
}

type vf20cClient struct {
	name  string
	proto string
	// client-side objects
	rtsp    *gortsplib.Client
	rtspURL *base.URL
	rtmp    *gortmplib.Client
	srt     srt.Conn
	hlsStop func()
	hlsDone chan string
	// server-side identifiers learnt from the API lists (uuid strings)
	connID string
	sessID string
}

type vf20cWorld struct {
	t       testing.TB
	p       *Core
	api     string
	rtspA   string
	rtmpA   string
	hlsA    string
	srtA    string
	down    bool
	restart bool

	mu    sync.Mutex
	ev    []vf20cEv
	ids   map[string]string
	own   map[string]vf20cOwner
	actor string
	gens  map[string]int

	pub     *vf20cClient
	pubMed  *description.Media
	pubSeq  int
	clients map[string]*vf20cClient
	polls   int
}

var vf20cCur atomic.Pointer[vf20cWorld]

func vf20cInstallHooks() {
	externalcmd.VerifOnStart = func(c *externalcmd.Cmd) bool {
		if w := vf20cCur.Load(); w != nil {
			w.onCmd(c, "start")
		}
		return true
	}
	externalcmd.VerifOnClose = func(c *externalcmd.Cmd) bool {
		if w := vf20cCur.Load(); w != nil {
			w.onCmd(c, "stop")
		}
		return true
	}
}

// onCmd runs in the goroutine that called Cmd.Start / Cmd.Close.
func (w *vf20cWorld) onCmd(c *externalcmd.Cmd, v string) {
	line := os.Expand(c.Cmdstr, func(k string) string { return c.Env[k] })
	f := strings.Fields(line)
	if len(f) < 2 || f[0] != "vf20c" {
		return
	}
	e := vf20cEv{H: f[1], V: v}
	id := ""
	if len(f) >= 4 {
		e.Typ, id = f[2], f[3]
	}
	w.mu.Lock()
	e.ID = w.shortLocked(id)
	ow := w.own[e.ID]
	e.O, e.G = ow.o, ow.g
	w.ev = append(w.ev, e)
	w.mu.Unlock()
}

// shortLocked names an identifier; a new one belongs to the client that is acting.
func (w *vf20cWorld) shortLocked(id string) string {
	if id == "" {
		id = "(none)"
	}
	s, ok := w.ids[id]
	if !ok {
		s = fmt.Sprintf("e%d", len(w.ids)+1)
		w.ids[id] = s
		if w.actor != "" {
			w.own[s] = vf20cOwner{w.actor, w.gens[w.actor]}
		} else {
			w.own[s] = vf20cOwner{"?", 0}
		}
	}
	return s
}

func (w *vf20cWorld) short(id string) string {
	w.mu.Lock()
	defer w.mu.Unlock()
	return w.shortLocked(id)
}

// ---- the Core

func vf20cOptPath(t testing.TB) conf.OptionalPath {
	var op conf.OptionalPath
	js := `{"runOnRead": "vf20c read $MTX_READER_TYPE $MTX_READER_ID", "runOnReadRestart": true,` +
		` "runOnUnread": "vf20c unread $MTX_READER_TYPE $MTX_READER_ID"}`
	if err := json.Unmarshal([]byte(js), &op); err != nil {
		t.Fatal(err)
	}
	return op
}

// four free TCP ports and one free UDP port
func vf20cFreePorts(t testing.TB) []int {
	out := []int{}
	ls := []net.Listener{}
	for len(out) < 4 {
		l, err := net.Listen("tcp", "127.0.0.1:0")
		if err != nil {
			t.Fatal(err)
		}
		ls = append(ls, l)
		out = append(out, l.Addr().(*net.TCPAddr).Port)
	}
	for _, l := range ls {
		l.Close()
	}
	c, err := net.ListenPacket("udp", "127.0.0.1:0")
	if err != nil {
		t.Fatal(err)
	}
	defer c.Close()
	return append(out, c.LocalAddr().(*net.UDPAddr).Port)
}

func vf20cStart(t testing.TB) *vf20cWorld {
	var p *Core
	var ports []int
	for attempt := 0; attempt < 5 && p == nil; attempt++ {
		ports = vf20cFreePorts(t)
		var b strings.Builder
		fmt.Fprintf(&b, "logLevel: error\nreadTimeout: 20s\nwriteTimeout: 20s\n")
		fmt.Fprintf(&b, "api: yes\napiAddress: 127.0.0.1:%d\n", ports[0])
		fmt.Fprintf(&b, "rtsp: yes\nrtspTransports: [tcp]\nrtspEncryption: \"no\"\nrtspAddress: 127.0.0.1:%d\n", ports[1])
		fmt.Fprintf(&b, "rtmp: yes\nrtmpEncryption: \"no\"\nrtmpAddress: 127.0.0.1:%d\n", ports[2])
		fmt.Fprintf(&b, "hls: yes\nhlsAddress: 127.0.0.1:%d\nhlsVariant: mpegts\n", ports[3])
		fmt.Fprintf(&b, "srt: yes\nsrtAddress: 127.0.0.1:%d\n", ports[4])
		fmt.Fprintf(&b, "webrtc: no\nmoq: no\nmetrics: no\npprof: no\nplayback: no\n")
		fmt.Fprintf(&b, "runOnConnect: \"vf20c connect $MTX_CONN_TYPE $MTX_CONN_ID\"\nrunOnConnectRestart: no\n")
		fmt.Fprintf(&b, "runOnDisconnect: \"vf20c disconnect $MTX_CONN_TYPE $MTX_CONN_ID\"\n")
		fmt.Fprintf(&b, "paths:\n  %s:\n", vf20cPath)
		fmt.Fprintf(&b, "    runOnRead: \"vf20c read $MTX_READER_TYPE $MTX_READER_ID\"\n    runOnReadRestart: yes\n")
		fmt.Fprintf(&b, "    runOnUnread: \"vf20c unread $MTX_READER_TYPE $MTX_READER_ID\"\n")
		cf := filepath.Join(t.TempDir(), "mediamtx.yml")
		if err := os.WriteFile(cf, []byte(b.String()), 0o600); err != nil {
			t.Fatal(err)
		}
		var ok bool
		p, ok = New([]string{cf})
		if !ok {
			p = nil
		}
	}
	if p == nil {
		t.Fatal("vf20c: the Core does not start")
	}
	w := &vf20cWorld{
		t: t, p: p,
		api:     fmt.Sprintf("127.0.0.1:%d", ports[0]),
		rtspA:   fmt.Sprintf("127.0.0.1:%d", ports[1]),
		rtmpA:   fmt.Sprintf("127.0.0.1:%d", ports[2]),
		hlsA:    fmt.Sprintf("127.0.0.1:%d", ports[3]),
		srtA:    fmt.Sprintf("127.0.0.1:%d", ports[4]),
		ids:     map[string]string{},
		own:     map[string]vf20cOwner{},
		gens:    map[string]int{},
		clients: map[string]*vf20cClient{},
	}
	return w
}

// barrier: a second request through the Core's loop returns after the previous one (and the reload
// it caused) was completed.
func (w *vf20cWorld) barrier() {
	w.p.APIConfigPathsDelete("vf20c-barrier-nonexistent") //nolint:errcheck
}

// ---- what the API lists

type vf20cLists struct {
	rtspConns, rtspSess, rtmpConns, srtConns, hlsSess []string
	rtspReading                                       []string
	hlsMuxers                                         int
	pathReaders                                       []string
	rtmpReading, srtReading                           []string
}

func (w *vf20cWorld) lists() vf20cLists {
	var l vf20cLists
	if w.down {
		return l
	}
	if s := w.p.rtspServer; s != nil {
		if r, err := s.APIConnsList(); err == nil {
			for _, it := range r.Items {
				l.rtspConns = append(l.rtspConns, it.ID.String())
			}
		}
		if r, err := s.APISessionsList(); err == nil {
			for _, it := range r.Items {
				l.rtspSess = append(l.rtspSess, it.ID.String())
				if it.State == defs.APIRTSPSessionStateRead {
					l.rtspReading = append(l.rtspReading, it.ID.String())
				}
			}
		}
	}
	if s := w.p.rtmpServer; s != nil {
		if r, err := s.APIConnsList(); err == nil {
			for _, it := range r.Items {
				l.rtmpConns = append(l.rtmpConns, it.ID.String())
				if it.State == defs.APIRTMPConnStateRead {
					l.rtmpReading = append(l.rtmpReading, it.ID.String())
				}
			}
		}
	}
	if s := w.p.srtServer; s != nil {
		if r, err := s.APIConnsList(); err == nil {
			for _, it := range r.Items {
				l.srtConns = append(l.srtConns, it.ID.String())
				if it.State == defs.APISRTConnStateRead {
					l.srtReading = append(l.srtReading, it.ID.String())
				}
			}
		}
	}
	if s := w.p.hlsServer; s != nil {
		if r, err := s.APISessionsList(); err == nil {
			for _, it := range r.Items {
				l.hlsSess = append(l.hlsSess, it.ID.String())
			}
		}
		if r, err := s.APIMuxersList(); err == nil {
			l.hlsMuxers = len(r.Items)
		}
	}
	if pm := w.p.pathManager; pm != nil {
		if d, err := pm.APIPathsGet(vf20cPath); err == nil {
			for _, r := range d.Readers {
				if r.ID != "" {
					l.pathReaders = append(l.pathReaders, r.ID)
				}
			}
		}
	}
	return l
}

func (l *vf20cLists) conns() []string {
	out := append([]string{}, l.rtspConns...)
	out = append(out, l.rtmpConns...)
	return append(out, l.srtConns...)
}

func (l *vf20cLists) readers() []string {
	seen := map[string]bool{}
	out := []string{}
	for _, part := range [][]string{l.pathReaders, l.rtspReading, l.hlsSess, l.rtmpReading, l.srtReading} {
		for _, id := range part {
			if !seen[id] {
				seen[id] = true
				out = append(out, id)
			}
		}
	}
	return out
}

func vf20cHas(list []string, id string) bool {
	for _, x := range list {
		if x == id {
			return true
		}
	}
	return false
}

func vf20cNew(before, after []string) []string {
	out := []string{}
	for _, x := range after {
		if !vf20cHas(before, x) {
			out = append(out, x)
		}
	}
	return out
}

// ---- goroutine dump

type vf20cG struct {
	state   string
	frames  []string
	creator string
}

func vf20cDump() []vf20cG {
	buf := make([]byte, 1<<20)
	for {
		n := runtime.Stack(buf, true)
		if n < len(buf) {
			buf = buf[:n]
			break
		}
		buf = make([]byte, 2*len(buf))
	}
	var out []vf20cG
	for _, blk := range bytes.Split(buf, []byte("\n\n")) {
		lines := strings.Split(string(blk), "\n")
		if len(lines) == 0 || !strings.HasPrefix(lines[0], "goroutine ") {
			continue
		}
		var g vf20cG
		if i := strings.IndexByte(lines[0], '['); i >= 0 {
			st := lines[0][i+1:]
			if j := strings.IndexAny(st, ",]"); j >= 0 {
				st = st[:j]
			}
			g.state = st
		}
		for _, ln := range lines[1:] {
			if ln == "" || ln[0] == '\t' {
				continue
			}
			if strings.HasPrefix(ln, "created by ") {
				c := strings.TrimPrefix(ln, "created by ")
				if j := strings.Index(c, " in goroutine"); j >= 0 {
					c = c[:j]
				}
				g.creator = c
				continue
			}
			if j := strings.LastIndexByte(ln, '('); j > 0 {
				ln = ln[:j]
			}
			g.frames = append(g.frames, ln)
		}
		out = append(out, g)
	}
	return out
}

const (
	vf20cRtspLib = "github.com/bluenviron/gortsplib/v5."
	vf20cSrv     = "github.com/bluenviron/mediamtx/internal/servers/"
	vf20cCore    = "github.com/bluenviron/mediamtx/internal/core."
)

const vf20cMtx = "github.com/bluenviron/mediamtx/internal/"

type vf20cIdle struct {
	state string
	first string // first frame outside the runtime ("" = any)
}

// The server's goroutines and where each of them waits when it has nothing to do. Every goroutine
// created by mediamtx or by the server half of gortsplib must be listed here: an unknown one
// counts as busy (a timeout, never a verdict).
var vf20cPark = map[string][]vf20cIdle{
	vf20cRtspLib + "(*Server).Start":                   {{"select", vf20cRtspLib + "(*Server).runInner"}},
	vf20cRtspLib + "(*ServerConn).initialize":          {{"select", vf20cRtspLib + "(*ServerConn).runInner"}},
	vf20cRtspLib + "(*ServerSession).initialize":       {{"select", vf20cRtspLib + "(*ServerSession).runInner"}},
	vf20cRtspLib + "(*serverConnReader).initialize":    {{"IO wait", ""}},
	vf20cRtspLib + "(*serverTCPListener).initialize":   {{"IO wait", ""}},
	vf20cMtx + "confwatcher.(*ConfWatcher).Initialize": {{"select", vf20cMtx + "confwatcher.(*ConfWatcher).run"}},
	vf20cCore + "(*path).initialize":                   {{"select", vf20cCore + "(*path).runInner"}},
	vf20cCore + "(*pathManager).initialize":            {{"select", vf20cCore + "(*pathManager).run"}},
	vf20cCore + "New":                                  {{"select", vf20cCore + "(*Core).run"}},
	vf20cMtx + "counterdumper.(*Dumper).Start":         {{"select", vf20cMtx + "counterdumper.(*Dumper).run"}},
	vf20cMtx + "errordumper.(*Dumper).Start":           {{"select", vf20cMtx + "errordumper.(*Dumper).run"}},
	vf20cMtx + "protocols/httpp.(*Server).Initialize":  {{"IO wait", ""}},
	vf20cMtx + "recordcleaner.(*Cleaner).Initialize":   {{"select", vf20cMtx + "recordcleaner.(*Cleaner).run"}},
	vf20cSrv + "hls.(*Server).Initialize":              {{"select", vf20cSrv + "hls.(*Server).run"}},
	vf20cSrv + "hls.(*muxer).initialize":               {{"select", vf20cSrv + "hls.(*muxer).runInner"}},
	vf20cSrv + "hls.(*muxerInstance).initialize":       {{"select", vf20cSrv + "hls.(*muxerInstance).runInner"}},
	vf20cSrv + "rtmp.(*Server).Initialize":             {{"select", vf20cSrv + "rtmp.(*Server).run"}},
	vf20cSrv + "rtmp.(*conn).initialize":               {{"select", vf20cSrv + "rtmp.(*conn).runInner"}},
	vf20cSrv + "rtmp.(*conn).runInner":                 {{"select", vf20cSrv + "rtmp.(*conn).runRead"}},
	vf20cSrv + "rtmp.(*listener).initialize":           {{"IO wait", ""}},
	vf20cSrv + "rtsp.(*Server).Initialize":             {{"select", vf20cSrv + "rtsp.(*Server).run"}},
	vf20cSrv + "rtsp.(*Server).run":                    {{"sync.WaitGroup.Wait", ""}},
	vf20cSrv + "srt.(*Server).Initialize":              {{"select", vf20cSrv + "srt.(*Server).run"}},
	vf20cSrv + "srt.(*conn).initialize":                {{"select", vf20cSrv + "srt.(*conn).runRead"}},
	vf20cSrv + "srt.(*listener).initialize":            {{"select", "github.com/datarhei/gosrt.(*listener).Accept2"}},
	vf20cMtx + "stream.(*Reader).start":                {{"sync.Cond.Wait", ""}},
}

// frames that mean "a hook, or something that ends in a hook, is in progress" in any goroutine
var vf20cBusyFrames = []string{
	vf20cMtx + "hooks.",
	vf20cSrv + "hls.(*session).initialize",
	vf20cSrv + "hls.(*session).close2",
	vf20cMtx + "api.(*API)",
}

func vf20cServerSide(creator string) bool {
	if strings.HasPrefix(creator, vf20cCore+"(*vf20c") || strings.HasPrefix(creator, vf20cCore+"vf20c") ||
		strings.HasPrefix(creator, vf20cCore+"TestVerif") {
		return false // the harness's own goroutines
	}
	return strings.HasPrefix(creator, vf20cMtx) ||
		strings.HasPrefix(creator, vf20cRtspLib+"(*Server") || strings.HasPrefix(creator, vf20cRtspLib+"(*server")
}

// quiet reports whether no server goroutine can still be on its way to a hook, and if not, why.
func vf20cQuiet(gs []vf20cG, l *vf20cLists, down bool) (bool, string) {
	count := map[string]int{}
	for _, g := range gs {
		for _, f := range g.frames {
			for _, b := range vf20cBusyFrames {
				if strings.HasPrefix(f, b) {
					return false, "a goroutine is in " + f
				}
			}
		}
		if !vf20cServerSide(g.creator) {
			continue
		}
		if down {
			return false, "a server goroutine is alive after the shutdown: " + g.creator
		}
		count[g.creator]++
		first := ""
		for _, f := range g.frames {
			if !strings.HasPrefix(f, "runtime.") {
				first = f
				break
			}
		}
		ok := false
		for _, idle := range vf20cPark[g.creator] {
			if g.state == idle.state && (idle.first == "" || idle.first == first) {
				ok = true
			}
		}
		if !ok {
			return false, fmt.Sprintf("goroutine of %s is in %s [%s]", g.creator, first, g.state)
		}
	}
	for _, c := range []struct {
		key  string
		want int
	}{
		{vf20cRtspLib + "(*ServerConn).initialize", len(l.rtspConns)},
		{vf20cRtspLib + "(*serverConnReader).initialize", len(l.rtspConns)},
		{vf20cRtspLib + "(*ServerSession).initialize", len(l.rtspSess)},
		{vf20cSrv + "rtmp.(*conn).initialize", len(l.rtmpConns)},
		{vf20cSrv + "rtmp.(*conn).runInner", len(l.rtmpConns)},
		{vf20cSrv + "srt.(*conn).initialize", len(l.srtConns)},
		{vf20cSrv + "hls.(*muxer).initialize", l.hlsMuxers},
		// (the dump is understood: the goroutines that always exist are found in it)
		{vf20cCore + "New", vf20cB2I(!down)},
		{vf20cCore + "(*pathManager).initialize", vf20cB2I(!down)},
		{vf20cRtspLib + "(*Server).Start", vf20cB2I(!down)},
		{vf20cSrv + "rtmp.(*Server).Initialize", vf20cB2I(!down)},
		{vf20cSrv + "srt.(*Server).Initialize", vf20cB2I(!down)},
		{vf20cSrv + "hls.(*Server).Initialize", vf20cB2I(!down)},
	} {
		if count[c.key] != c.want {
			return false, fmt.Sprintf("%d goroutines of %s, %d listed", count[c.key], c.key, c.want)
		}
	}
	return true, ""
}

func vf20cB2I(b bool) int {
	if b {
		return 1
	}
	return 0
}

// settle waits for the trigger and then for quiescence; it returns the lists seen at that moment.
func (w *vf20cWorld) settle(what string, trigger func(l *vf20cLists) bool) vf20cLists {
	deadline := time.Now().Add(vf20cTimeout)
	why := "trigger"
	for {
		w.polls++
		l := w.lists()
		if trigger == nil || trigger(&l) {
			ok, reason := vf20cQuiet(vf20cDump(), &l, w.down)
			if ok {
				// the lists were read before the dump: read them again, they must not have moved
				l2 := w.lists()
				if fmt.Sprint(l) == fmt.Sprint(l2) {
					return l2
				}
				reason = "the lists moved"
			}
			why = reason
		}
		if time.Now().After(deadline) {
			w.t.Fatalf("vf20c: no quiescence after %s: %s", what, why)
		}
		time.Sleep(300 * time.Microsecond)
	}
}

// ---- clients

func (w *vf20cWorld) rtspClient() *gortsplib.Client {
	tcp := gortsplib.ProtocolTCP
	return &gortsplib.Client{Protocol: &tcp, ReadTimeout: 15 * time.Second, WriteTimeout: 15 * time.Second}
}

// feed writes one H264 IDR packet through the publisher (readers of byte-stream protocols notice
// a closed peer only when they write).
func (w *vf20cWorld) feed() {
	if w.pub == nil || w.pub.rtsp == nil {
		return
	}
	w.pubSeq++
	w.pub.rtsp.WritePacketRTP(w.pubMed, &rtp.Packet{ //nolint:errcheck
		Header: rtp.Header{
			Version: 2, Marker: true, PayloadType: 96,
			SequenceNumber: uint16(100 + w.pubSeq), Timestamp: uint32(45343 + w.pubSeq*3000), SSRC: 563423,
		},
		Payload: []byte{5, 1, 2, 3},
	})
}

func (c *vf20cClient) closeClientSide() {
	if c.rtsp != nil {
		c.rtsp.Close()
		c.rtsp = nil
	}
	if c.rtmp != nil {
		c.rtmp.Close()
		c.rtmp = nil
	}
	if c.srt != nil {
		c.srt.Close()
		c.srt = nil
	}
	if c.hlsStop != nil {
		c.hlsStop()
		c.hlsStop = nil
	}
}

func (c *vf20cClient) open() bool {
	return c.rtsp != nil || c.rtmp != nil || c.srt != nil || c.hlsStop != nil
}

// forget drops the client-side objects of clients whose server-side entity is gone.
func (w *vf20cWorld) forget(l *vf20cLists) {
	all := []*vf20cClient{}
	for _, c := range w.clients {
		all = append(all, c)
	}
	if w.pub != nil {
		all = append(all, w.pub)
	}
	for _, c := range all {
		if !c.open() {
			continue
		}
		alive := false
		switch c.proto {
		case "rtsp":
			alive = vf20cHas(l.rtspConns, c.connID)
			if !vf20cHas(l.rtspSess, c.sessID) {
				c.sessID = ""
			}
		case "rtmp":
			alive = vf20cHas(l.rtmpConns, c.connID)
		case "srt":
			alive = vf20cHas(l.srtConns, c.connID)
		case "hls":
			alive = vf20cHas(l.hlsSess, c.sessID)
		}
		if !alive {
			c.closeClientSide()
			c.connID, c.sessID = "", ""
		}
	}
}

func (w *vf20cWorld) kick(kind, id string) error {
	req, err := http.NewRequest(http.MethodPost, "http://"+w.api+"/v3/"+kind+"/kick/"+id, nil)
	if err != nil {
		return err
	}
	tr := &http.Transport{}
	defer tr.CloseIdleConnections()
	res, err := (&http.Client{Transport: tr, Timeout: 15 * time.Second}).Do(req)
	if err != nil {
		return err
	}
	defer res.Body.Close()
	io.Copy(io.Discard, res.Body) //nolint:errcheck
	if res.StatusCode != http.StatusOK {
		return fmt.Errorf("status %d", res.StatusCode)
	}
	return nil
}

func (w *vf20cWorld) client(name, proto string) *vf20cClient {
	c, ok := w.clients[name]
	if !ok {
		c = &vf20cClient{name: name, proto: proto}
		w.clients[name] = c
	}
	return c
}

// noneBut: the listed connections are exactly the ones known before (a refused client is gone)
func vf20cSame(a, b []string) bool {
	return len(vf20cNew(a, b)) == 0 && len(vf20cNew(b, a)) == 0
}

func (w *vf20cWorld) step(in vf20cIn, protos map[string]string) vf20cStep {
	st := vf20cStep{In: in}
	w.mu.Lock()
	w.ev = nil
	w.actor = ""
	w.mu.Unlock()
	setActor := func(newConn bool) {
		w.mu.Lock()
		w.actor = in.C
		if newConn {
			w.gens[in.C]++
		}
		w.mu.Unlock()
	}
	before := w.lists()
	var after vf20cLists
	skip := func(why string) {
		st.Skipped = true
		st.Note = why
		after = w.settle(in.A, nil)
	}

	switch in.A {
	case "PubStart", "PubStartFail":
		if w.pub != nil && w.pub.open() {
			skip("the publisher is already connected")
			break
		}
		setActor(true)
		c := &vf20cClient{name: "pub", proto: "rtsp", rtsp: w.rtspClient()}
		w.pubMed = test.UniqueMediaH264()
		err := c.rtsp.StartRecording("rtsp://"+w.rtspA+"/"+vf20cPath,
			&description.Session{Medias: []*description.Media{w.pubMed}})
		if err != nil {
			st.Note = "publish: " + err.Error()
			c.rtsp = nil // StartRecording closed it
			after = w.settle(in.A, func(l *vf20cLists) bool { return vf20cSame(before.rtspConns, l.rtspConns) })
			break
		}
		w.pub = c
		after = w.settle(in.A, nil)
		if n := vf20cNew(before.rtspConns, after.rtspConns); len(n) == 1 {
			c.connID = n[0]
		}
		if n := vf20cNew(before.rtspSess, after.rtspSess); len(n) == 1 {
			c.sessID = n[0]
		}

	case "PubStop":
		if w.pub == nil || !w.pub.open() {
			skip("no publisher")
			break
		}
		id := w.pub.connID
		w.pub.closeClientSide()
		after = w.settle(in.A, func(l *vf20cLists) bool { return !vf20cHas(l.rtspConns, id) })

	case "Connect":
		c := w.client(in.C, protos[in.C])
		if c.proto != "rtsp" || c.open() {
			skip("not applicable")
			break
		}
		setActor(true)
		u, err := base.ParseURL("rtsp://" + w.rtspA + "/" + vf20cPath)
		if err != nil {
			w.t.Fatal(err)
		}
		c.rtsp, c.rtspURL = w.rtspClient(), u
		c.rtsp.Scheme, c.rtsp.Host = u.Scheme, u.Host
		if err = c.rtsp.Start(); err == nil {
			_, err = c.rtsp.Options(u)
		}
		if err != nil {
			st.Note = "connect: " + err.Error()
			c.closeClientSide()
			after = w.settle(in.A, func(l *vf20cLists) bool { return vf20cSame(before.rtspConns, l.rtspConns) })
			break
		}
		after = w.settle(in.A, nil)
		if n := vf20cNew(before.rtspConns, after.rtspConns); len(n) == 1 {
			c.connID = n[0]
		}

	case "Read", "ReadFail":
		c := w.client(in.C, protos[in.C])
		switch c.proto {
		case "rtsp":
			if c.rtsp == nil {
				skip("not connected")
				break
			}
			setActor(false)
			desc, _, err := c.rtsp.Describe(c.rtspURL)
			if err != nil {
				st.Note = "describe: " + err.Error()
			} else if err = c.rtsp.SetupAll(desc.BaseURL, desc.Medias); err != nil {
				st.Note = "setup: " + err.Error()
			} else if _, err = c.rtsp.Play(nil); err != nil {
				st.Note = "play: " + err.Error()
			}
			after = w.settle(in.A, nil)
			if n := vf20cNew(before.rtspSess, after.rtspSess); len(n) == 1 {
				c.sessID = n[0]
			}

		case "rtmp":
			if c.open() {
				skip("already connected")
				break
			}
			setActor(true)
			u, err := url.Parse("rtmp://" + w.rtmpA + "/" + vf20cPath)
			if err != nil {
				w.t.Fatal(err)
			}
			ctx, cancel := context.WithTimeout(context.Background(), 15*time.Second)
			conn := &gortmplib.Client{URL: u, Publish: false}
			err = conn.Initialize(ctx)
			cancel()
			if err != nil {
				st.Note = "connect: " + err.Error()
				after = w.settle(in.A, func(l *vf20cLists) bool { return vf20cSame(before.rtmpConns, l.rtmpConns) })
				break
			}
			c.rtmp = conn
			after = w.settle(in.A, nil)
			if n := vf20cNew(before.rtmpConns, after.rtmpConns); len(n) == 1 {
				c.connID = n[0]
			}

		case "srt":
			if c.open() {
				skip("already connected")
				break
			}
			setActor(true)
			cfg := srt.DefaultConfig()
			cfg.StreamId = "read:" + vf20cPath
			cfg.ConnectionTimeout = 12 * time.Second
			conn, err := srt.Dial("srt", w.srtA, cfg)
			if err != nil {
				st.Note = "dial: " + err.Error()
				after = w.settle(in.A, func(l *vf20cLists) bool { return vf20cSame(before.srtConns, l.srtConns) })
				break
			}
			c.srt = conn
			after = w.settle(in.A, nil)
			if n := vf20cNew(before.srtConns, after.srtConns); len(n) == 1 {
				c.connID = n[0]
			}

		case "hls":
			if c.open() {
				skip("already reading")
				break
			}
			setActor(true)
			ctx, cancel := context.WithCancel(context.Background())
			tr := &http.Transport{}
			done := make(chan string, 1)
			go func() {
				req, err := http.NewRequestWithContext(ctx, http.MethodGet,
					"http://"+w.hlsA+"/"+vf20cPath+"/index.m3u8?cookieCheck=1", nil)
				if err != nil {
					done <- err.Error()
					return
				}
				res, err := (&http.Client{Transport: tr}).Do(req)
				if err != nil {
					done <- "get: " + err.Error()
					return
				}
				io.Copy(io.Discard, res.Body) //nolint:errcheck
				res.Body.Close()
				done <- fmt.Sprintf("status %d", res.StatusCode)
			}()
			c.hlsDone = done
			c.hlsStop = func() { cancel(); tr.CloseIdleConnections() }
			answered := false
			// the playlist request stays open until the muxer has segments: the session exists
			// (and its hook was launched) from the moment the handler left session.initialize
			after = w.settle(in.A, func(l *vf20cLists) bool {
				if !answered {
					select {
					case st.Note = <-done:
						answered = true
					default:
					}
				}
				return answered || len(vf20cNew(before.hlsSess, l.hlsSess)) > 0
			})
			if n := vf20cNew(before.hlsSess, after.hlsSess); len(n) == 1 {
				c.sessID = n[0]
			} else {
				c.closeClientSide()
			}
		default:
			w.t.Fatalf("vf20c: client %s has no protocol", in.C)
		}

	case "Pause", "Play":
		c := w.client(in.C, protos[in.C])
		if c.rtsp == nil || c.sessID == "" {
			skip("no session")
			break
		}
		setActor(false)
		var err error
		if in.A == "Pause" {
			_, err = c.rtsp.Pause()
		} else {
			_, err = c.rtsp.Play(nil)
		}
		if err != nil {
			st.Note = err.Error()
		}
		after = w.settle(in.A, nil)

	case "Stop":
		c := w.client(in.C, protos[in.C])
		if !c.open() || c.proto == "hls" {
			skip("not connected")
			break
		}
		id, proto := c.connID, c.proto
		c.closeClientSide()
		after = w.settle(in.A, func(l *vf20cLists) bool {
			switch proto {
			case "rtsp":
				return !vf20cHas(l.rtspConns, id)
			case "rtmp":
				w.feed()
				return !vf20cHas(l.rtmpConns, id)
			default:
				w.feed()
				return !vf20cHas(l.srtConns, id)
			}
		})

	case "Kick":
		c := w.client(in.C, protos[in.C])
		kind, id := "", ""
		switch c.proto {
		case "rtsp":
			kind, id = "rtspsessions", c.sessID
		case "rtmp":
			kind, id = "rtmpconns", c.connID
		case "srt":
			kind, id = "srtconns", c.connID
		case "hls":
			kind, id = "hlssessions", c.sessID
		}
		if !c.open() || id == "" {
			skip("nothing to kick")
			break
		}
		if err := w.kick(kind, id); err != nil {
			st.Note = "kick: " + err.Error()
		}
		after = w.settle(in.A, nil)

	case "DelConf":
		if err := w.p.APIConfigPathsDelete(vf20cPath); err != nil {
			st.Note = err.Error()
		}
		w.barrier()
		after = w.settle(in.A, nil)

	case "AddConf":
		if err := w.p.APIConfigPathsAdd(vf20cPath, vf20cOptPath(w.t)); err != nil {
			st.Note = err.Error()
		}
		w.barrier()
		after = w.settle(in.A, nil)

	case "Restart":
		// a server-level parameter changes: the RTSP, RTMP and SRT servers are closed and re-created
		w.restart = !w.restart
		var og conf.OptionalGlobal
		if err := json.Unmarshal([]byte(fmt.Sprintf(`{"runOnConnectRestart": %v}`, w.restart)), &og); err != nil {
			w.t.Fatal(err)
		}
		if err := w.p.APIConfigGlobalPatch(og); err != nil {
			st.Note = err.Error()
		}
		w.barrier()
		select {
		case <-w.p.done:
			w.t.Fatal("vf20c: the Core exited during the reload")
		default:
		}
		after = w.settle(in.A, nil)

	case "Shutdown":
		w.shutdown()
		after = w.settle(in.A, nil)

	default:
		w.t.Fatalf("vf20c: unknown input %q", in.A)
	}

	w.forget(&after)
	for _, id := range after.conns() {
		st.Conns = append(st.Conns, w.short(id))
	}
	for _, id := range after.readers() {
		st.Readers = append(st.Readers, w.short(id))
	}
	sort.Strings(st.Conns)
	sort.Strings(st.Readers)
	if st.Conns == nil {
		st.Conns = []string{}
	}
	if st.Readers == nil {
		st.Readers = []string{}
	}
	w.mu.Lock()
	st.Ev = append([]vf20cEv{}, w.ev...)
	w.actor = ""
	w.mu.Unlock()
	return st
}

func (w *vf20cWorld) shutdown() {
	if w.down {
		return
	}
	done := make(chan struct{})
	go func() {
		w.p.Close()
		close(done)
	}()
	select {
	case <-done:
	case <-time.After(vf20cTimeout):
		w.t.Fatal("vf20c: Core.Close does not return")
	}
	w.down = true
}

func vf20cExec(t testing.TB, r *vf20cRun) {
	w := vf20cStart(t)
	vf20cCur.Store(w)
	defer vf20cCur.Store(nil)
	w.settle("start", nil)
	r.Steps = []vf20cStep{}
	for _, in := range r.Inputs {
		if w.down {
			break
		}
		r.Steps = append(r.Steps, w.step(in, r.Clients))
	}
	if !w.down {
		// every run ends with the shutdown of the server
		r.Steps = append(r.Steps, w.step(vf20cIn{A: "Shutdown", C: "core"}, r.Clients))
	}
	for _, c := range w.clients {
		c.closeClientSide()
	}
	if w.pub != nil {
		w.pub.closeClientSide()
	}
	r.Polls = w.polls
	r.Inputs = nil
}

// spec -> impl: walks over the state graph of ConnHooks.tla
func TestVerif_C20C_Replay(t *testing.T) {
	vf20cInstallHooks()
	out := verifrt.NewOut(t)
	defer out.Close()
	verifrt.ForEachCase(t, func(raw []byte) {
		var r vf20cRun
		verifrt.Decode(t, raw, &r)
		vf20cExec(t, &r)
		out.Emit(&r)
	})
}
