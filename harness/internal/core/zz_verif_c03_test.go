package core

// Verification harness for C03 (every media publish or read is authorized for that path and
// action). Injected by /verif through -overlay. A real Core is started in-package from a
// generated configuration (RTSP, RTMP, SRT, HLS, WebRTC, MoQ, API on free ports; the users of the case file);
// the path manager's authManager field (an interface) is wrapped with a recorder that logs
// every Authenticate request and its outcome. Every scenario of the case file is played by a
// real client (gortsplib, gortmplib, gosrt, net/http, the repository's WHIP client, quic-go for MoQ) on its own fresh path name; configuration
// reloads (another entry / a non-hot-reloadable field / only a hot-reloadable field of the same
// entry / the name re-homed to a new exact entry) are made through the Core's own API methods
// between authorization and attachment, and what they did to the configuration in force is
// asked from the path manager itself; one route calls the path manager directly;
// attachment is read from the path manager's API. The test records; TLC decides
// (spec/auth/TraceAuthFlow.tla).

import (
	"bufio"
	"bytes"
	"context"
	"crypto/tls"
	"encoding/base64"
	"encoding/json"
	"fmt"
	"io"
	"net"
	"net/http"
	"net/url"
	"os"
	"path/filepath"
	"strings"
	"sync"
	"testing"
	"time"

	"github.com/bluenviron/gortmplib"
	rtmpcodecs "github.com/bluenviron/gortmplib/pkg/codecs"
	"github.com/bluenviron/gortsplib/v5"
	"github.com/bluenviron/gortsplib/v5/pkg/base"
	"github.com/bluenviron/gortsplib/v5/pkg/description"
	"github.com/bluenviron/gortsplib/v5/pkg/format"
	"github.com/bluenviron/mediacommon/v2/pkg/formats/mpegts"
	tscodecs "github.com/bluenviron/mediacommon/v2/pkg/formats/mpegts/codecs"
	srt "github.com/datarhei/gosrt"
	"github.com/pion/rtp"
	pwebrtc "github.com/pion/webrtc/v4"
	"github.com/quic-go/quic-go"

	"github.com/bluenviron/mediamtx/internal/auth"
	"github.com/bluenviron/mediamtx/internal/conf"
	"github.com/bluenviron/mediamtx/internal/defs"
	"github.com/bluenviron/mediamtx/internal/logger"
	"github.com/bluenviron/mediamtx/internal/protocols/moq/catalog"
	"github.com/bluenviron/mediamtx/internal/protocols/moq/controlmessage"
	"github.com/bluenviron/mediamtx/internal/protocols/moq/parameter"
	"github.com/bluenviron/mediamtx/internal/protocols/moq/subgroup"
	"github.com/bluenviron/mediamtx/internal/protocols/webrtc"
	"github.com/bluenviron/mediamtx/internal/protocols/whip"
	"github.com/bluenviron/mediamtx/internal/test"
	"github.com/bluenviron/mediamtx/internal/verifrt"
)

type vf03Scen struct {
	ID     int    `json:"id"`
	Proto  string `json:"proto"`
	Mode   string `json:"mode"`
	Place  string `json:"place"`
	Action string `json:"action"`
	Name   string `json:"name"`
	Cls    string `json:"cls"`
	Cred   string `json:"cred"`
	User   string `json:"user"`
	Pass   string `json:"pass"`
	IP     string `json:"ip"`
	Reload string `json:"reload"`
	Proxy  string `json:"proxy"` // HTTP protocols: "trusted" (the peer 127.0.0.1 is in the trusted-proxy list: the client IP is
	// the forwarded address) or "none" (empty list: the client IP is the TCP peer, the forwarded address is forged)

	attachedSeen *bool
}

type vf03Event struct {
	Op      string `json:"op"`
	Action  string `json:"action"`
	Path    string `json:"path"`
	User    string `json:"user"`
	Pass    string `json:"pass"`
	IP      string `json:"ip"`
	Proto   string `json:"proto"`
	OK      bool   `json:"ok"`
	Changes bool   `json:"changes"`
	Feed    bool   `json:"feed"` // asked for the harness's own publisher that feeds a read scenario
	Prep    bool   `json:"prep"` // a reload made before the client's first request (gives the path its own entry)
}

// the recorder around the path manager's authManager
type vf03Recorder struct {
	inner pathManagerAuthManager
	mu    sync.Mutex
	log   []vf03Event
}

func (r *vf03Recorder) Authenticate(req *auth.Request) (string, *auth.Error) {
	user, err := r.inner.Authenticate(req)
	if req.Query == vf03ProbeQuery {
		return user, err // the harness asking which configuration is in force: not a client
	}
	e := vf03Event{
		Op: "auth", Action: string(req.Action), Path: req.Path, Proto: string(req.Protocol), OK: err == nil,
		Feed: req.Query == vf03FeedQuery,
	}
	if req.Credentials != nil {
		e.User, e.Pass = req.Credentials.User, req.Credentials.Pass
	}
	if req.IP != nil {
		e.IP = req.IP.String()
	}
	r.mu.Lock()
	r.log = append(r.log, e)
	r.mu.Unlock()
	return user, err
}

func (r *vf03Recorder) note(e vf03Event) {
	r.mu.Lock()
	r.log = append(r.log, e)
	r.mu.Unlock()
}

func (r *vf03Recorder) eventsOf(name string) []vf03Event {
	r.mu.Lock()
	defer r.mu.Unlock()
	out := []vf03Event{}
	for _, e := range r.log {
		if e.Path == name {
			out = append(out, e)
		}
	}
	return out
}

func vf03FreePorts(t testing.TB, n int) []int {
	out := []int{}
	ls := []net.Listener{}
	for len(out) < n {
		l, err := net.Listen("tcp", "127.0.0.1:0")
		if err != nil {
			t.Fatal(err)
		}
		ls = append(ls, l)
		out = append(out, l.Addr().(*net.TCPAddr).Port)
	}
	for _, l := range ls {
		l.Close()
	}
	return out
}

type vf03User struct {
	IPs   []string `json:"ips"`
	Perms []struct {
		Action string `json:"action"`
		Kind   string `json:"kind"`
		Cls    string `json:"cls"`
	} `json:"perms"`
	User string `json:"user"`
	Pass string `json:"pass"`
}

type vf03Env struct {
	t    testing.TB
	p    *Core
	rec  *vf03Recorder
	rtsp string
	rtmp string
	hls  string
	srt  string
	wrtc string
	moq  string
}

func vf03FreeUDPPort(t testing.TB) int {
	c, err := net.ListenPacket("udp", "127.0.0.1:0")
	if err != nil {
		t.Fatal(err)
	}
	defer c.Close()
	return c.LocalAddr().(*net.UDPAddr).Port
}

func vf03StartCore(t testing.TB, users []vf03User, trusted bool) *vf03Env {
	proxies := "[]"
	if trusted {
		proxies = "[127.0.0.1]"
	}
	var p *Core
	var ports []int
	for attempt := 0; attempt < 5; attempt++ {
		ports = append(vf03FreePorts(t, 6), vf03FreeUDPPort(t), vf03FreeUDPPort(t), vf03FreeUDPPort(t), vf03FreeUDPPort(t))
		dir := t.TempDir()
		certFile, keyFile := filepath.Join(dir, "moq.crt"), filepath.Join(dir, "moq.key")
		if err := os.WriteFile(certFile, test.TLSCertPub, 0o600); err != nil {
			t.Fatal(err)
		}
		if err := os.WriteFile(keyFile, test.TLSCertKey, 0o600); err != nil {
			t.Fatal(err)
		}
		var b strings.Builder
		fmt.Fprintf(&b, "logLevel: error\nreadTimeout: 20s\nwriteTimeout: 20s\n")
		fmt.Fprintf(&b, "api: yes\napiAddress: 127.0.0.1:%d\n", ports[0])
		fmt.Fprintf(&b, "rtsp: yes\nrtspTransports: [tcp]\nrtspEncryption: \"no\"\nrtspAddress: 127.0.0.1:%d\n", ports[1])
		fmt.Fprintf(&b, "rtmp: yes\nrtmpEncryption: \"no\"\nrtmpAddress: 127.0.0.1:%d\n", ports[2])
		fmt.Fprintf(&b, "hls: yes\nhlsAddress: 127.0.0.1:%d\nhlsTrustedProxies: %s\nhlsVariant: mpegts\nhlsCDNSecret: %s\n", ports[3], proxies, vf03CDNSecret)
		fmt.Fprintf(&b, "srt: yes\nsrtAddress: 127.0.0.1:%d\n", ports[6])
		fmt.Fprintf(&b, "webrtc: yes\nwebrtcAddress: 127.0.0.1:%d\nwebrtcTrustedProxies: %s\n", ports[4], proxies)
		fmt.Fprintf(&b, "webrtcLocalUDPAddress: :%d\nwebrtcLocalTCPAddress: ''\nwebrtcICEServers2: []\n", ports[7])
		fmt.Fprintf(&b, "moq: yes\nmoqHTTP2Address: 127.0.0.1:%d\nmoqHTTP3Address: 127.0.0.1:%d\nmoqQUICAddress: 127.0.0.1:%d\n",
			ports[5], ports[8], ports[9])
		fmt.Fprintf(&b, "moqServerCert: %s\nmoqServerKey: %s\n", certFile, keyFile)
		fmt.Fprintf(&b, "metrics: no\npprof: no\nplayback: no\n")
		fmt.Fprintf(&b, "authInternalUsers:\n")
		for _, u := range users {
			fmt.Fprintf(&b, "- user: %s\n  pass: %q\n  ips: [%s]\n  permissions:\n", u.User, u.Pass, strings.Join(u.IPs, ", "))
			for _, pm := range u.Perms {
				path := ""
				if pm.Kind == "re" {
					path = "~^vf" + pm.Cls
				}
				fmt.Fprintf(&b, "  - action: %s\n    path: %q\n", pm.Action, path)
			}
		}
		fmt.Fprintf(&b, "paths:\n  all_others:\n")
		cf := filepath.Join(t.TempDir(), "mediamtx.yml")
		if err := os.WriteFile(cf, []byte(b.String()), 0o600); err != nil {
			t.Fatal(err)
		}
		var ok bool
		p, ok = New([]string{cf})
		if ok {
			break
		}
		p = nil
	}
	if p == nil {
		t.Fatal("vf03: the Core does not start")
	}
	rec := &vf03Recorder{inner: p.pathManager.authManager}
	p.pathManager.authManager = rec
	return &vf03Env{
		t: t, p: p, rec: rec,
		rtsp: fmt.Sprintf("127.0.0.1:%d", ports[1]),
		rtmp: fmt.Sprintf("127.0.0.1:%d", ports[2]),
		hls:  fmt.Sprintf("127.0.0.1:%d", ports[3]),
		srt:  fmt.Sprintf("127.0.0.1:%d", ports[6]),
		wrtc: fmt.Sprintf("127.0.0.1:%d", ports[4]),
		moq:  fmt.Sprintf("127.0.0.1:%d", ports[9]),
	}
}

const (
	vf03CDNSecret  = "vfcdn03secret"
	vf03ProbeQuery = "vfprobe=1"
	vf03FeedQuery  = "vffeed=1"
)

// inForce asks the real path manager (through its request channel) which configuration it
// resolves the name to, and renders it field by field (JSON of the entry, plus whether it is a
// regular-expression entry). The request is made with credentials that are always admitted and
// a query string the recorder recognizes, so that it is not taken for a client's request.
func (e *vf03Env) inForce(name string) string {
	res, err := e.p.pathManager.FindPathConf(defs.PathFindPathConfReq{
		Author: &vf03Direct{},
		AccessRequest: defs.PathAccessRequest{
			Name: name, Query: vf03ProbeQuery, Publish: true, Proto: auth.ProtocolRTSP,
			Credentials: &auth.Credentials{User: "alice", Pass: "pw"}, IP: net.ParseIP("127.0.0.1"),
		},
	})
	if err != nil {
		e.t.Fatalf("vf03: cannot ask for the configuration in force of %s: %v", name, err)
	}
	b, err := json.Marshal(res.Conf)
	if err != nil {
		e.t.Fatal(err)
	}
	re := ""
	if res.Conf.Regexp != nil {
		re = res.Conf.Regexp.String()
	}
	return string(b) + " regexp=" + re
}

func (e *vf03Env) apply(s *vf03Scen, prep bool, do func() error) {
	before := e.inForce(s.Name)
	if err := do(); err != nil {
		e.t.Fatalf("vf03: scenario %d: reload: %v", s.ID, err)
	}
	// a second request through the Core's loop returns after the first one was applied
	e.p.APIConfigPathsDelete("vfbarrier-nonexistent") //nolint:errcheck
	after := e.inForce(s.Name)
	e.rec.note(vf03Event{Op: "reload", Path: s.Name, Changes: before != after, Prep: prep})
}

func vf03Optional(t testing.TB, js string) conf.OptionalPath {
	var op conf.OptionalPath
	if err := json.Unmarshal([]byte(js), &op); err != nil {
		t.Fatal(err)
	}
	return op
}

// prepare gives the path its own configuration entry when the scenario is going to change a
// field of "the same entry" (the shared all_others entry must stay as it is for the others).
func (e *vf03Env) prepare(s *vf03Scen) {
	if s.Reload == "nonhot" || s.Reload == "hot" {
		e.apply(s, true, func() error { return e.p.APIConfigPathsAdd(s.Name, vf03Optional(e.t, `{}`)) })
	}
}

// reload changes the configuration through the Core's own API methods between authorization and
// attachment:
//
//	other   an entry for another name is added (the configuration in force for this name stays)
//	nonhot  a field of this path's entry that cannot be hot-reloaded changes (maxReaders)
//	hot     ONLY a hot-reloadable field of this path's entry changes (recordDeleteAfter)
//	rehome  an exact entry for this name is added, identical to all_others except for its name
func (e *vf03Env) reload(s *vf03Scen) {
	switch s.Reload {
	case "other":
		e.apply(s, false, func() error { return e.p.APIConfigPathsAdd("vfother"+s.Name, vf03Optional(e.t, `{"maxReaders": 7}`)) })
	case "nonhot":
		e.apply(s, false, func() error { return e.p.APIConfigPathsPatch(s.Name, vf03Optional(e.t, `{"maxReaders": 7}`)) })
	case "hot":
		e.apply(s, false, func() error { return e.p.APIConfigPathsPatch(s.Name, vf03Optional(e.t, `{"recordDeleteAfter": "1h"}`)) })
	case "rehome":
		e.apply(s, false, func() error { return e.p.APIConfigPathsAdd(s.Name, vf03Optional(e.t, `{}`)) })
	default:
		e.t.Fatalf("vf03: unknown reload kind %q", s.Reload)
	}
}

// a publisher that talks to the path manager directly
type vf03Direct struct{}

func (*vf03Direct) Close()                           {}
func (*vf03Direct) Log(logger.Level, string, ...any) {}
func (*vf03Direct) APISourceDescribe() *defs.APIPathSource {
	return &defs.APIPathSource{Type: "vf03Direct", ID: ""}
}

func (e *vf03Env) attached(s *vf03Scen, wait time.Duration) bool {
	deadline := time.Now().Add(wait)
	for {
		data, err := e.p.pathManager.APIPathsGet(s.Name)
		if err == nil {
			if s.Action == "publish" {
				want := map[string]string{"rtsp": "rtspSession", "rtmp": "rtmpConn", "srt": "srtConn", "pm": "vf03Direct", "webrtc": "webRTCSession", "moq": "moqSession"}[s.Proto]
				if data.Source != nil && string(data.Source.Type) == want {
					return true
				}
			} else {
				want := map[string]string{"rtsp": "rtspSession", "rtmp": "rtmpConn", "srt": "srtConn", "hls": "hlsSession", "webrtc": "webRTCSession", "moq": "moqSession"}[s.Proto]
				for _, r := range data.Readers {
					if string(r.Type) == want {
						return true
					}
				}
			}
		}
		if time.Now().After(deadline) {
			return false
		}
		time.Sleep(50 * time.Millisecond)
	}
}

// forwarded is the value of the forwarding headers: the client's address when the peer is the trusted proxy,
// otherwise a FORGED one (the single host the IP-restricted user is allowed from).
func (s *vf03Scen) forwarded() string {
	if s.Proxy == "none" {
		return "10.0.0.5"
	}
	return s.IP
}

func vf03UserInfo(s *vf03Scen) string {
	if s.User == "" && s.Pass == "" {
		return ""
	}
	return url.UserPassword(s.User, s.Pass).String() + "@"
}

func (e *vf03Env) rtspClient() *gortsplib.Client {
	tcp := gortsplib.ProtocolTCP
	return &gortsplib.Client{Protocol: &tcp, ReadTimeout: 15 * time.Second, WriteTimeout: 15 * time.Second}
}

// a publisher admitted for everything, so that a reader has something to read
func (e *vf03Env) feed(s *vf03Scen) func() {
	c := e.rtspClient()
	err := c.StartRecording("rtsp://alice:pw@"+e.rtsp+"/"+s.Name+"?"+vf03FeedQuery,
		&description.Session{Medias: []*description.Media{test.UniqueMediaH264()}})
	if err != nil {
		e.t.Fatalf("vf03: scenario %d: cannot publish the stream to read: %v", s.ID, err)
	}
	return c.Close
}

func (e *vf03Env) play(s *vf03Scen) (note string) {
	e.prepare(s)
	switch s.Proto + "/" + s.Action {
	case "pm/publish":
		// the calls a protocol handler makes, made directly: FindPathConf (authentication), then
		// AddPublisher with skipAuth and the configuration FindPathConf returned
		res1, err := e.p.pathManager.FindPathConf(defs.PathFindPathConfReq{
			Author: &vf03Direct{},
			AccessRequest: defs.PathAccessRequest{
				Name: s.Name, Publish: true, Proto: auth.ProtocolRTSP,
				Credentials: &auth.Credentials{User: s.User, Pass: s.Pass}, IP: net.ParseIP(s.IP),
			},
		})
		if s.Reload != "none" {
			e.reload(s)
		}
		if err != nil {
			return "findpathconf: " + err.Error() + fmt.Sprintf(" attached=%v", e.attachedNow(s, false))
		}
		author := &vf03Direct{}
		res2, err := e.p.pathManager.AddPublisher(defs.PathAddPublisherReq{
			Author:        author,
			Desc:          &description.Session{},
			ConfToCompare: res1.Conf,
			AccessRequest: defs.PathAccessRequest{Name: s.Name, Publish: true, SkipAuth: true},
		})
		if err != nil {
			return "addpublisher: " + err.Error() + fmt.Sprintf(" attached=%v", e.attachedNow(s, false))
		}
		defer res2.Path.RemovePublisher(defs.PathRemovePublisherReq{Author: author})
		return fmt.Sprintf("attached=%v", e.attachedNow(s, true))

	case "rtsp/publish":
		c := e.rtspClient()
		u, err := base.ParseURL("rtsp://" + vf03UserInfo(s) + e.rtsp + "/" + s.Name)
		if err != nil {
			e.t.Fatal(err)
		}
		c.Scheme, c.Host = u.Scheme, u.Host
		if err = c.Start(); err != nil {
			e.t.Fatalf("vf03: rtsp start: %v", err)
		}
		defer c.Close()
		desc := &description.Session{Medias: []*description.Media{test.UniqueMediaH264()}}
		if _, err = c.Announce(u, desc); err != nil {
			note = "announce: " + err.Error()
		}
		// the configuration is reloaded between authorization (ANNOUNCE) and attachment (RECORD)
		if s.Reload != "none" {
			e.reload(s)
		}
		if err == nil {
			if err = c.SetupAll(u, desc.Medias); err != nil {
				note = "setup: " + err.Error()
			} else if _, err = c.Record(); err != nil {
				note = "record: " + err.Error()
			}
		}
		return note + fmt.Sprintf(" attached=%v", e.attachedNow(s, err == nil))

	case "rtsp/read":
		stop := e.feed(s)
		defer stop()
		c := e.rtspClient()
		u, err := base.ParseURL("rtsp://" + vf03UserInfo(s) + e.rtsp + "/" + s.Name)
		if err != nil {
			e.t.Fatal(err)
		}
		c.Scheme, c.Host = u.Scheme, u.Host
		if err = c.Start(); err != nil {
			e.t.Fatalf("vf03: rtsp start: %v", err)
		}
		defer c.Close()
		desc, _, err := c.Describe(u)
		if err != nil {
			note = "describe: " + err.Error()
		} else if err = c.SetupAll(desc.BaseURL, desc.Medias); err != nil {
			note = "setup: " + err.Error()
		} else if _, err = c.Play(nil); err != nil {
			note = "play: " + err.Error()
		}
		return note + fmt.Sprintf(" attached=%v", e.attachedNow(s, err == nil))

	case "rtmp/publish", "rtmp/read":
		if s.Action == "read" {
			stop := e.feed(s)
			defer stop()
		}
		q := ""
		if s.User != "" || s.Pass != "" {
			q = "?user=" + url.QueryEscape(s.User) + "&pass=" + url.QueryEscape(s.Pass)
		}
		u, err := url.Parse("rtmp://" + e.rtmp + "/" + s.Name + q)
		if err != nil {
			e.t.Fatal(err)
		}
		ctx, cancel := context.WithTimeout(context.Background(), 15*time.Second)
		defer cancel()
		conn := &gortmplib.Client{URL: u, Publish: s.Action == "publish"}
		err = conn.Initialize(ctx)
		if err != nil {
			note = "connect: " + err.Error()
			if s.Reload != "none" {
				e.reload(s)
			}
			return note + fmt.Sprintf(" attached=%v", e.attachedNow(s, false))
		}
		defer conn.Close()
		if s.Action == "publish" {
			// authorized (FindPathConf) when the publish command was accepted; the publisher is
			// attached only when the tracks arrive: the reload goes in between
			if s.Reload != "none" {
				e.reload(s)
			}
			track := &gortmplib.Track{Codec: &rtmpcodecs.H264{SPS: test.FormatH264.SPS, PPS: test.FormatH264.PPS}}
			w := &gortmplib.Writer{Conn: conn, Tracks: []*gortmplib.Track{track}}
			if err = w.Initialize(); err != nil {
				note = "writer: " + err.Error()
			} else if err = w.WriteH264(track, 2*time.Second, 2*time.Second, [][]byte{{5, 2, 3, 4}}); err != nil {
				note = "write: " + err.Error()
			}
		}
		return note + fmt.Sprintf(" attached=%v", e.attachedNow(s, true))

	case "srt/publish", "srt/read":
		if s.Action == "read" {
			stop := e.feed(s)
			defer stop()
		}
		cfg := srt.DefaultConfig()
		mode := map[string]string{"publish": "publish", "read": "read"}[s.Action]
		cfg.StreamId = mode + ":" + s.Name
		if s.User != "" || s.Pass != "" {
			cfg.StreamId += ":" + s.User + ":" + s.Pass
		}
		cfg.ConnectionTimeout = 12 * time.Second
		conn, err := srt.Dial("srt", e.srt, cfg)
		if err != nil {
			note = "dial: " + err.Error()
			if s.Reload != "none" {
				e.reload(s)
			}
			return note + fmt.Sprintf(" attached=%v", e.attachedNow(s, false))
		}
		defer conn.Close()
		if s.Action == "publish" {
			// authorized (FindPathConf) when the connection request was accepted; the publisher is
			// attached only when the MPEG-TS tracks arrive: the reload goes in between
			if s.Reload != "none" {
				e.reload(s)
			}
			track := &mpegts.Track{Codec: &tscodecs.H264{}}
			bw := bufio.NewWriter(conn)
			w := &mpegts.Writer{W: bw, Tracks: []*mpegts.Track{track}}
			if err = w.Initialize(); err != nil {
				note = "writer: " + err.Error()
			} else if err = w.WriteH264(track, 0, 0, [][]byte{test.FormatH264.SPS, test.FormatH264.PPS, {5, 1}}); err != nil {
				note = "write: " + err.Error()
			} else if err = bw.Flush(); err != nil {
				note = "flush: " + err.Error()
			}
		}
		return note + fmt.Sprintf(" attached=%v", e.attachedNow(s, true))

	case "webrtc/publish", "webrtc/read":
		return e.playWebRTC(s)

	case "moq/publish", "moq/read":
		return e.playMoQ(s)

	case "hls/read":
		if s.Mode == "cdn" {
			return e.playHLSBehindCDN(s)
		}
		stop := e.feed(s)
		defer stop()
		tr := &http.Transport{}
		defer tr.CloseIdleConnections()
		hc := &http.Client{Transport: tr, Timeout: 8 * time.Second}
		done := make(chan string, 1)
		go func() {
			req, err := http.NewRequest(http.MethodGet, "http://"+e.hls+"/"+s.Name+"/index.m3u8?cookieCheck=1", nil)
			if err != nil {
				done <- err.Error()
				return
			}
			if s.User != "" || s.Pass != "" {
				req.SetBasicAuth(s.User, s.Pass)
			}
			req.Header.Set("X-Forwarded-For", s.forwarded())
			if s.Proxy == "none" {
				req.Header.Set("X-Real-IP", s.forwarded())
			}
			res, err := hc.Do(req)
			if err != nil {
				done <- "get: " + err.Error()
				return
			}
			res.Body.Close()
			done <- fmt.Sprintf("status %d", res.StatusCode)
		}()
		// the playlist request blocks until the muxer has segments (no media is sent here): the
		// session is a reader of the path from the moment it was admitted
		att := e.attached(s, 2500*time.Millisecond)
		select {
		case note = <-done:
		case <-time.After(100 * time.Millisecond):
			note = "request still open"
		}
		s.attachedSeen = &att
		return note
	}
	e.t.Fatalf("vf03: unknown scenario kind %s/%s", s.Proto, s.Action)
	return ""
}

// vf03Headers adds the forwarded client address and the credentials (where the scenario places
// them) to every request of an HTTP client.
type vf03Headers struct {
	base http.RoundTripper
	s    *vf03Scen
	// a client that posts its offer right away: the WHIP client's preliminary OPTIONS request (which
	// the server authenticates on its own) is answered here and never reaches the server
	noOptions bool
}

func (h *vf03Headers) RoundTrip(req *http.Request) (*http.Response, error) {
	if h.noOptions && req.Method == http.MethodOptions {
		return &http.Response{
			StatusCode: http.StatusNoContent, Status: "204 No Content", Proto: "HTTP/1.1", ProtoMajor: 1, ProtoMinor: 1,
			Header: http.Header{}, Body: http.NoBody, Request: req,
		}, nil
	}
	req = req.Clone(req.Context())
	req.Header.Set("X-Forwarded-For", h.s.forwarded())
	if h.s.Proxy == "none" {
		req.Header.Set("X-Real-IP", h.s.forwarded())
	}
	if h.s.User != "" || h.s.Pass != "" {
		switch h.s.Place {
		case "basic":
			req.SetBasicAuth(h.s.User, h.s.Pass)
		case "bearer":
			req.Header.Set("Authorization", "Bearer "+h.s.User+":"+h.s.Pass)
		case "query":
			q := req.URL.Query()
			q.Set("user", h.s.User)
			q.Set("pass", h.s.Pass)
			req.URL.RawQuery = q.Encode()
		}
	}
	return h.base.RoundTrip(req)
}

func (e *vf03Env) playWebRTC(s *vf03Scen) (note string) {
	tr := &http.Transport{}
	defer tr.CloseIdleConnections()
	hc := &http.Client{Transport: &vf03Headers{base: tr, s: s, noOptions: s.Mode == "full"}, Timeout: 15 * time.Second}
	ep := map[string]string{"publish": "whip", "read": "whep"}[s.Action]
	rawURL := "http://" + e.wrtc + "/" + s.Name + "/" + ep

	if s.Mode == "http" {
		// the decision side only: OPTIONS (authenticated by the HTTP handler itself), then a POST whose
		// body is no usable offer: the session authenticates before it looks at the offer
		if oreq, err := http.NewRequest(http.MethodOptions, rawURL, nil); err == nil {
			if ores, err2 := hc.Do(oreq); err2 == nil {
				ores.Body.Close()
				note = fmt.Sprintf("options %d ", ores.StatusCode)
			}
		}
		req, err := http.NewRequest(http.MethodPost, rawURL, bytes.NewReader([]byte("v=0\r\n")))
		if err != nil {
			e.t.Fatal(err)
		}
		req.Header.Set("Content-Type", "application/sdp")
		res, err := hc.Do(req)
		if err != nil {
			e.t.Fatalf("vf03: scenario %d: POST %s: %v", s.ID, rawURL, err)
		}
		res.Body.Close()
		return note + fmt.Sprintf("post %d attached=%v", res.StatusCode, e.attachedNow(s, false))
	}

	u, err := url.Parse(rawURL)
	if err != nil {
		e.t.Fatal(err)
	}
	ctx, cancel := context.WithTimeout(context.Background(), 14*time.Second)
	defer cancel()

	if s.Action == "publish" {
		track := &webrtc.OutboundTrack{Caps: pwebrtc.RTPCodecCapability{
			MimeType: pwebrtc.MimeTypeH264, ClockRate: 90000,
			SDPFmtpLine: "level-asymmetry-allowed=1;packetization-mode=1;profile-level-id=42e01f",
		}}
		c := &whip.Client{HTTPClient: hc, URL: u, Log: test.NilLogger, Publish: true, OutboundTracks: []*webrtc.OutboundTrack{track}}
		if err = c.Initialize(ctx); err != nil {
			if s.Reload != "none" {
				e.reload(s)
			}
			return "whip: " + err.Error() + fmt.Sprintf(" attached=%v", e.attachedNow(s, false))
		}
		defer c.Close() //nolint:errcheck
		// authorized (FindPathConf) when the offer was accepted; the publisher is attached only when
		// the tracks arrive: the reload goes in between
		if s.Reload != "none" {
			e.reload(s)
		}
		stop := make(chan struct{})
		defer close(stop)
		go func() {
			for i := 0; ; i++ {
				track.WriteRTP(&rtp.Packet{ //nolint:errcheck
					Header:  rtp.Header{Version: 2, Marker: true, PayloadType: 96, SequenceNumber: uint16(100 + i), Timestamp: uint32(i) * 9000, SSRC: 5634},
					Payload: []byte{5, 1, 2, 3, 4},
				})
				select {
				case <-stop:
					return
				case <-time.After(80 * time.Millisecond):
				}
			}
		}()
		return fmt.Sprintf("attached=%v", e.attachedNow(s, true))
	}

	stopFeed := e.feed(s)
	defer stopFeed()
	c := &whip.Client{HTTPClient: hc, URL: u, Log: test.NilLogger}
	done := make(chan error, 1)
	go func() { done <- c.Initialize(ctx) }()
	// the session is a reader of the path from the moment it was admitted (no media is sent here,
	// so the client gives up after its track timeout)
	att := e.attached(s, 4*time.Second)
	s.attachedSeen = &att
	cancel()
	if err = <-done; err == nil {
		c.Close() //nolint:errcheck
		return "whep: connected"
	}
	return "whep: " + err.Error()
}

func (e *vf03Env) playMoQ(s *vf03Scen) (note string) {
	if s.Action == "read" {
		stop := e.feed(s)
		defer stop()
	}
	ctx, cancel := context.WithTimeout(context.Background(), 12*time.Second)
	defer cancel()
	conn, err := quic.DialAddr(ctx, e.moq, &tls.Config{
		InsecureSkipVerify: true, //nolint:gosec
		NextProtos:         []string{"moqt-19"},
	}, &quic.Config{EnableDatagrams: true})
	if err != nil {
		e.t.Fatalf("vf03: scenario %d: moq dial: %v", s.ID, err)
	}
	defer conn.CloseWithError(0, "") //nolint:errcheck
	fail := func(what string, err error) string {
		return what + ": " + err.Error() + fmt.Sprintf(" attached=%v", e.attachedNow(s, false))
	}
	setupStream, err := conn.AcceptUniStream(ctx)
	if err != nil {
		return fail("setup", err)
	}
	if _, err = controlmessage.Read(setupStream); err != nil {
		return fail("setup read", err)
	}
	clientSetup, err := conn.OpenUniStreamSync(ctx)
	if err != nil {
		return fail("setup open", err)
	}
	if _, err = clientSetup.Write(controlmessage.Setup{Path: "/" + s.Name}.Marshal()); err != nil {
		return fail("setup write", err)
	}
	params := parameter.Parameters{}
	if s.User != "" || s.Pass != "" {
		params = append(params, &parameter.AuthorizationToken{
			AliasType:  parameter.AuthorizationTokenAliasTypeUseValue,
			TokenType:  1,
			TokenValue: []byte("Basic " + base64.StdEncoding.EncodeToString([]byte(s.User+":"+s.Pass))),
		})
	}
	if s.Action == "publish" {
		cat, _ := json.Marshal(catalog.Catalog{Version: 1, Tracks: []catalog.Track{{
			Name: "0", Packaging: "loc", IsLive: true, Codec: "avc3.640028",
		}}})
		catalogData, err2 := conn.OpenUniStreamSync(ctx)
		if err2 != nil {
			return fail("catalog open", err2)
		}
		if _, err2 = catalogData.Write((&subgroup.SubGroup{
			Header:  subgroup.Header{FirstObject: true, TrackAlias: 0, GroupID: 0},
			Objects: []subgroup.Object{{Payload: cat}},
		}).Marshal()); err2 != nil {
			return fail("catalog write", err2)
		}
		catalogData.Close() //nolint:errcheck
	}
	bidi, err := conn.OpenStreamSync(ctx)
	if err != nil {
		return fail("request open", err)
	}
	var msg []byte
	if s.Action == "publish" {
		msg = controlmessage.Publish{RequestID: 1, TrackName: ".catalog", TrackAlias: 0, Parameters: params}.Marshal()
	} else {
		msg = controlmessage.Subscribe{RequestID: 1, TrackName: ".catalog", Parameters: params}.Marshal()
	}
	if _, err = bidi.Write(msg); err != nil {
		return fail("request write", err)
	}
	bidi.SetReadDeadline(time.Now().Add(10 * time.Second)) //nolint:errcheck
	reply, err := controlmessage.Read(bidi)
	if err != nil {
		return fail("reply", err)
	}
	_, refused := reply.(*controlmessage.RequestError)
	return fmt.Sprintf("reply %T attached=%v", reply, e.attachedNow(s, !refused))
}

// playHLSBehindCDN: a publisher sends real H.264 (so that the muxer has segments), a CDN pulls the
// multivariant and the media playlist with the configured CDN secret (its session exists from then
// on), then the scenario's client asks for the media playlist and a segment directly: no index.m3u8,
// no session secret, no CDN secret, its own credentials at most. Being served media is what makes
// an HLS client a reader.
func (e *vf03Env) playHLSBehindCDN(s *vf03Scen) string {
	medi := test.UniqueMediaH264()
	src := e.rtspClient()
	err := src.StartRecording("rtsp://alice:pw@"+e.rtsp+"/"+s.Name+"?"+vf03FeedQuery,
		&description.Session{Medias: []*description.Media{medi}})
	if err != nil {
		e.t.Fatalf("vf03: scenario %d: cannot publish: %v", s.ID, err)
	}
	defer src.Close()
	enc, err := medi.Formats[0].(*format.H264).CreateEncoder()
	if err != nil {
		e.t.Fatal(err)
	}
	stop := make(chan struct{})
	defer close(stop)
	go func() {
		for i := 0; ; i++ {
			pkts, err2 := enc.Encode([][]byte{{5, 1, 2, 3, 4}})
			if err2 == nil {
				for _, pkt := range pkts {
					pkt.Timestamp = uint32(i) * 90000
					src.WritePacketRTP(medi, pkt) //nolint:errcheck
				}
			}
			select {
			case <-stop:
				return
			case <-time.After(60 * time.Millisecond):
			}
		}
	}()

	tr := &http.Transport{}
	defer tr.CloseIdleConnections()
	hc := &http.Client{Transport: tr, Timeout: 20 * time.Second}
	get := func(name string, cdn bool) (int, string) {
		req, err2 := http.NewRequest(http.MethodGet, "http://"+e.hls+"/"+s.Name+"/"+name, nil)
		if err2 != nil {
			e.t.Fatal(err2)
		}
		req.Header.Set("X-Forwarded-For", s.forwarded())
		if cdn {
			req.Header.Set("Authorization", "Bearer "+vf03CDNSecret)
		} else if s.User != "" || s.Pass != "" {
			req.SetBasicAuth(s.User, s.Pass)
		}
		res, err2 := hc.Do(req)
		if err2 != nil {
			return 0, err2.Error()
		}
		defer res.Body.Close()
		b, _ := io.ReadAll(io.LimitReader(res.Body, 1<<20))
		return res.StatusCode, string(b)
	}
	firstURI := func(body string) string {
		for _, line := range strings.Split(body, "\n") {
			line = strings.TrimSpace(line)
			if line != "" && line[0] != '#' {
				return strings.SplitN(line, "?", 2)[0]
			}
		}
		return ""
	}
	status, body := get("index.m3u8", true)
	playlist := firstURI(body)
	if status != http.StatusOK || playlist == "" {
		e.t.Fatalf("vf03: scenario %d: the CDN cannot pull index.m3u8: %d %q", s.ID, status, body)
	}
	status, body = get(playlist, true)
	segment := firstURI(body)
	if status != http.StatusOK || segment == "" {
		e.t.Fatalf("vf03: scenario %d: the CDN cannot pull %s: %d %q", s.ID, playlist, status, body)
	}
	// the client
	st1, b1 := get(playlist, false)
	st2, b2 := get(segment, false)
	served := (st1 == http.StatusOK && b1 != "") || (st2 == http.StatusOK && b2 != "")
	s.attachedSeen = &served
	return fmt.Sprintf("media playlist %d, segment %d", st1, st2)
}

// attachedNow looks the client up in the path manager; after a success it allows the server a
// moment to finish the attachment, after a failure it still looks for a while (a wrongful
// attachment must be seen).
func (e *vf03Env) attachedNow(s *vf03Scen, clientOK bool) bool {
	wait := 1200 * time.Millisecond
	if clientOK {
		wait = 3 * time.Second
	}
	att := e.attached(s, wait)
	s.attachedSeen = &att
	return att
}

func TestVerif_C03_Scenarios(t *testing.T) {
	out := verifrt.NewOut(t)
	defer out.Close()
	var users []vf03User
	var scens []*vf03Scen
	verifrt.ForEachCase(t, func(raw []byte) {
		var probe struct {
			Setup *struct {
				Users []vf03User `json:"users"`
			} `json:"setup"`
		}
		verifrt.Decode(t, raw, &probe)
		if probe.Setup != nil {
			users = probe.Setup.Users
			return
		}
		s := &vf03Scen{}
		verifrt.Decode(t, raw, s)
		scens = append(scens, s)
	})
	if users == nil {
		t.Fatal("vf03: no setup line")
	}
	envs := map[string]*vf03Env{"trusted": vf03StartCore(t, users, true)}
	defer envs["trusted"].p.Close()
	for _, s := range scens {
		if s.Proxy == "none" && envs["none"] == nil {
			// a second Core whose HTTP listeners trust no proxy
			envs["none"] = vf03StartCore(t, users, false)
			defer envs["none"].p.Close()
		}
	}

	par := verifrt.Param("PAR", 48)
	sem := make(chan struct{}, par)
	var wg sync.WaitGroup
	for _, s := range scens {
		sem <- struct{}{}
		wg.Add(1)
		go func(s *vf03Scen) {
			defer wg.Done()
			defer func() { <-sem }()
			env := envs["trusted"]
			if s.Proxy == "none" {
				env = envs["none"]
			}
			note := env.play(s)
			att := false
			if s.attachedSeen != nil {
				att = *s.attachedSeen
			}
			// the log is read after the attachment was looked up: everything that led to it is in it
			out.Emit(map[string]any{
				"id": s.ID, "proto": s.Proto, "mode": s.Mode, "place": s.Place, "action": s.Action, "name": s.Name, "cls": s.Cls, "cred": s.Cred,
				"user": s.User, "pass": s.Pass, "ip": s.IP, "reload": s.Reload, "proxy": s.Proxy,
				"events": env.rec.eventsOf(s.Name), "attached": att, "note": note,
			})
		}(s)
	}
	wg.Wait()
}
