package core

// Verification harness for C40 (concurrent operation is race-free and deadlock-free): a stress
// driver runs publishing, reading, describing, API queries, configuration reloads (hot and
// cold) and finally shutdown concurrently on a real pathManager (built with -race by the check).
// Every operation logs start and end; a watchdog turns an operation that does not finish into
// an observation ("hang" with a goroutine dump). Records; TLC (TraceChannels.tla) decides.

import (
	"math/rand/v2"
	"regexp"
	"runtime"
	"sync"
	"sync/atomic"
	"testing"
	"time"

	"github.com/bluenviron/mediamtx/internal/conf"
	"github.com/bluenviron/mediamtx/internal/defs"
	"github.com/bluenviron/mediamtx/internal/logger"
	"github.com/bluenviron/mediamtx/internal/verifrt"
)

type vf40Op struct {
	ID    int    `json:"id"`
	Kind  string `json:"kind"`
	Start int64  `json:"start"`
	End   int64  `json:"end"` // 0 = did not finish within the watchdog period
	Res   string `json:"res"`
}

type vf40Run struct {
	Run      int      `json:"run"`
	Ops      []vf40Op `json:"ops"`
	Shutdown vf40Op   `json:"shutdown"`
	Dump     string   `json:"dump,omitempty"`
}

type vf40Client struct {
	pm     *pathManager
	closed atomic.Bool
	path   atomic.Pointer[path]
	pub    bool
}

// Close is called by the path loop: a real session reacts by leaving the path from its own goroutine
func (c *vf40Client) Close() {
	if c.closed.CompareAndSwap(false, true) {
		go func() {
			if pa := c.path.Load(); pa != nil {
				if c.pub {
					pa.RemovePublisher(defs.PathRemovePublisherReq{Author: c})
				} else {
					pa.RemoveReader(defs.PathRemoveReaderReq{Author: c})
				}
			}
		}()
	}
}
func (c *vf40Client) Log(logger.Level, string, ...any) {}
func (c *vf40Client) APISourceDescribe() *defs.APIPathSource {
	return &defs.APIPathSource{Type: defs.APIPathSourceTypeRTSPSession, ID: "p"}
}

func (c *vf40Client) APIReaderDescribe() *defs.APIPathReader {
	return &defs.APIPathReader{Type: defs.APIPathReaderTypeRTSPSession, ID: "r"}
}

func vf40Confs(variant int) map[string]*conf.Path {
	mk := func(name string, re *regexp.Regexp) *conf.Path {
		return &conf.Path{
			Name: name, Regexp: re, Source: "publisher", OverridePublisher: variant%2 == 0,
			MaxReaders:        (variant / 2 % 2) * 3,                                        // cold
			RecordDeleteAfter: conf.Duration(time.Duration(1+variant%3) * time.Hour),       // hot
			RecordPath:        "/nonexistent/%path/%Y-%m-%d_%H-%M-%S-%f",
			RunOnDemandStartTimeout: conf.Duration(3 * time.Millisecond), RunOnDemandCloseAfter: conf.Duration(2 * time.Millisecond),
			RunOnDemand: map[bool]string{true: "demand", false: ""}[variant%4 == 1],
		}
	}
	out := map[string]*conf.Path{"all_others": mk("all_others", regexp.MustCompile("^.*$"))}
	if variant%5 != 4 {
		out["cam"] = mk("cam", nil)
	}
	return out
}

func vf40Stress(t testing.TB, run int, dur time.Duration, workers int, seed uint64, focus bool) *vf40Run {
	pm := &pathManager{
		writeQueueSize: 8, udpMaxPayloadSize: 1472, rtpMaxPayloadSize: 1450,
		readTimeout: conf.Duration(10 * time.Second), writeTimeout: conf.Duration(10 * time.Second),
		rtspAddress: ":8554", pathConfs: vf40Confs(0), authManager: vfpAuth{}, parent: vfpNilLogger{},
	}
	pm.initialize()

	var clock atomic.Int64
	var mu sync.Mutex
	res := &vf40Run{Run: run}
	var nextID atomic.Int64
	stop := make(chan struct{})
	var wg sync.WaitGroup
	const watchdog = 30 * time.Second
	hung := atomic.Bool{}

	do := func(kind string, fn func() string) {
		op := vf40Op{ID: int(nextID.Add(1)), Kind: kind, Start: clock.Add(1)}
		done := make(chan string, 1)
		go func() { done <- fn() }()
		select {
		case r := <-done:
			op.Res = r
			op.End = clock.Add(1)
		case <-time.After(watchdog):
			hung.Store(true)
		}
		mu.Lock()
		res.Ops = append(res.Ops, op)
		mu.Unlock()
	}
	names := []string{"cam", "dyn1", "dyn2"}
	errKind := func(err error) string {
		if err == nil {
			return "ok"
		}
		return vfpErrKind(err)
	}
	for w := 0; w < workers; w++ {
		wg.Add(1)
		go func(w int) {
			defer wg.Done()
			rnd := rand.New(rand.NewPCG(seed, uint64(w)))
			for {
				select {
				case <-stop:
					return
				default:
				}
				if hung.Load() {
					return
				}
				name := names[rnd.IntN(len(names))]
				kind := rnd.IntN(10)
				if focus {
					// the delicate orders of Channels.tla: a path that tells the manager something
					// (setPathReady after a publish) while the manager closes it (cold reload),
					// and readers of the path configuration during hot reloads
					name = "cam"
					if w == 0 {
						// one worker reloads (alternating cold changes), pacing itself
						kind = 9
						time.Sleep(time.Duration(100+rnd.IntN(400)) * time.Microsecond)
					} else {
						kind = []int{0, 0, 0, 0, 0, 3, 10, 10, 6, 8}[rnd.IntN(10)]
					}
				} else if kind == 9 && rnd.IntN(3) != 0 {
					kind = 7 // reloads are rarer than client operations
				}
				switch kind {
				case 0, 1, 2:
					c := &vf40Client{pm: pm, pub: true}
					do("publish", func() string {
						r, err := pm.AddPublisher(defs.PathAddPublisherReq{Author: c, Desc: vfpDesc(),
							AccessRequest: defs.PathAccessRequest{Name: name, Publish: true, SkipAuth: true}})
						if err != nil {
							return errKind(err)
						}
						c.path.Store(r.Path.(*path))
						return "ok"
					})
					if pa := c.path.Load(); pa != nil {
						time.Sleep(time.Duration(rnd.IntN(300)) * time.Microsecond)
						do("unpublish", func() string {
							pa.RemovePublisher(defs.PathRemovePublisherReq{Author: c})
							return "ok"
						})
					}
				case 3, 4, 5:
					c := &vf40Client{pm: pm}
					do("read", func() string {
						r, err := pm.AddReader(defs.PathAddReaderReq{Author: c,
							AccessRequest: defs.PathAccessRequest{Name: name, SkipAuth: true}})
						if err != nil {
							return errKind(err)
						}
						c.path.Store(r.Path.(*path))
						return "ok"
					})
					if pa := c.path.Load(); pa != nil {
						time.Sleep(time.Duration(rnd.IntN(300)) * time.Microsecond)
						do("unread", func() string {
							pa.RemoveReader(defs.PathRemoveReaderReq{Author: c})
							return "ok"
						})
					}
				case 6:
					do("describe", func() string {
						_, err := pm.Describe(defs.PathDescribeReq{AccessRequest: defs.PathAccessRequest{Name: name, SkipAuth: true}})
						return errKind(err)
					})
				case 7:
					do("apilist", func() string { _, err := pm.APIPathsList(); return errKind(err) })
				case 8:
					do("apiget", func() string { _, err := pm.APIPathsGet(name); return errKind(err) })
				case 10:
					// what protocol sessions do with the path they hold: read its configuration
					c := &vf40Client{pm: pm}
					do("read", func() string {
						r, err := pm.AddReader(defs.PathAddReaderReq{Author: c,
							AccessRequest: defs.PathAccessRequest{Name: name, SkipAuth: true}})
						if err != nil {
							return errKind(err)
						}
						pa := r.Path.(*path)
						c.path.Store(pa)
						for k := 0; k < 20; k++ {
							_ = r.Path.SafeConf().MaxReaders
							_ = r.Path.ExternalCmdEnv()
						}
						pa.RemoveReader(defs.PathRemoveReaderReq{Author: c})
						return "ok"
					})
				default:
					v := rnd.IntN(20)
					if focus {
						v = rnd.IntN(4) // keep the static path, alternate hot and cold changes
					}
					do("reload", func() string { pm.ReloadPathConfs(vf40Confs(v)); return "ok" })
				}
			}
		}(w)
	}
	time.Sleep(dur)
	// shutdown while operations are still in flight
	sd := vf40Op{Kind: "shutdown", Start: clock.Add(1)}
	done := make(chan struct{})
	go func() { pm.close(); close(done) }()
	select {
	case <-done:
		sd.End = clock.Add(1)
		sd.Res = "ok"
	case <-time.After(watchdog):
		hung.Store(true)
	}
	close(stop)
	wgDone := make(chan struct{})
	go func() { wg.Wait(); close(wgDone) }()
	select {
	case <-wgDone:
	case <-time.After(2 * watchdog):
		hung.Store(true)
	}
	mu.Lock()
	res.Shutdown = sd
	if hung.Load() {
		buf := make([]byte, 1<<20)
		n := runtime.Stack(buf, true)
		d := string(buf[:n])
		if len(d) > 60000 {
			d = d[:60000]
		}
		res.Dump = d
	}
	mu.Unlock()
	return res
}

func TestVerif_C40_Stress(t *testing.T) {
	vfpInstallHooks()
	out := verifrt.NewOut(t)
	defer out.Close()
	rounds := verifrt.Param("ROUNDS", 4)
	ms := verifrt.Param("MS", 400)
	for i := 0; i < rounds; i++ {
		r := vf40Stress(t, i, time.Duration(ms)*time.Millisecond, 8, verifrt.Seed()*1000+uint64(i), i%2 == 1)
		out.Emit(r)
		if r.Dump != "" {
			break // goroutines of a hung run are abandoned; do not pile further runs on top
		}
	}
}

// ---- directed replays of the delicate orders of Channels.tla: the path loop is parked inside
// setAvailable (the publisher's APISourceDescribe, which the path calls before it tells the
// manager that it is ready, blocks on a harness gate) while the manager is made to close that
// path (cold reload) or to shut down; then the gate is released. No hook is needed.

type vf40GatedPub struct {
	vf40Client
	gate    chan struct{}
	entered chan struct{}
	once    sync.Once
}

func (c *vf40GatedPub) APISourceDescribe() *defs.APIPathSource {
	c.once.Do(func() {
		close(c.entered)
		<-c.gate
	})
	return &defs.APIPathSource{Type: defs.APIPathSourceTypeRTSPSession, ID: "gated"}
}

func vf40Directed(t testing.TB, run int, closer string) *vf40Run {
	pm := &pathManager{
		writeQueueSize: 8, udpMaxPayloadSize: 1472, rtpMaxPayloadSize: 1450,
		readTimeout: conf.Duration(10 * time.Second), writeTimeout: conf.Duration(10 * time.Second),
		rtspAddress: ":8554", pathConfs: vf40Confs(0), authManager: vfpAuth{}, parent: vfpNilLogger{},
	}
	pm.initialize()
	var clock atomic.Int64
	var mu sync.Mutex
	res := &vf40Run{Run: run}
	const watchdog = 10 * time.Second
	var wg sync.WaitGroup
	hung := atomic.Bool{}
	spawn := func(kind string, fn func() string) {
		wg.Add(1)
		go func() {
			defer wg.Done()
			op := vf40Op{Kind: kind, Start: clock.Add(1)}
			done := make(chan string, 1)
			go func() { done <- fn() }()
			select {
			case r := <-done:
				op.Res = r
				op.End = clock.Add(1)
			case <-time.After(watchdog):
				hung.Store(true)
			}
			mu.Lock()
			op.ID = len(res.Ops) + 1
			res.Ops = append(res.Ops, op)
			mu.Unlock()
		}()
	}
	pub := &vf40GatedPub{gate: make(chan struct{}), entered: make(chan struct{})}
	pub.pm = pm
	pub.pub = true
	spawn("publish", func() string {
		r, err := pm.AddPublisher(defs.PathAddPublisherReq{Author: pub, Desc: vfpDesc(),
			AccessRequest: defs.PathAccessRequest{Name: "cam", Publish: true, SkipAuth: true}})
		if err != nil {
			return vfpErrKind(err)
		}
		pub.path.Store(r.Path.(*path))
		return "ok"
	})
	select {
	case <-pub.entered: // the path loop is now parked inside setAvailable
	case <-time.After(watchdog):
		hung.Store(true)
	}
	sd := vf40Op{Kind: "shutdown"}
	shutdownDone := make(chan struct{})
	switch closer {
	case "reload":
		spawn("reload", func() string { pm.ReloadPathConfs(vf40Confs(2)); return "ok" }) // cold change: the path is closed
		// a second request that needs the manager loop: it can only be served after the close
		spawn("apilist", func() string { _, err := pm.APIPathsList(); if err != nil { return vfpErrKind(err) }; return "ok" })
	case "hotreload":
		// only a hot-reloadable field changes: the path stays, the new configuration is handed to its loop,
		// which is parked - the manager loop must stay free meanwhile (it is needed by the parked path next)
		spawn("reload", func() string { pm.ReloadPathConfs(vf40Confs(8)); return "ok" })
		spawn("apilist", func() string { _, err := pm.APIPathsList(); if err != nil { return vfpErrKind(err) }; return "ok" })
	case "shutdown":
		sd.Start = clock.Add(1)
		go func() { pm.close(); close(shutdownDone) }()
	}
	// give the manager time to reach doClosePath / the shutdown to cancel the contexts
	time.Sleep(20 * time.Millisecond)
	spawn("describe", func() string {
		_, err := pm.Describe(defs.PathDescribeReq{AccessRequest: defs.PathAccessRequest{Name: "cam", SkipAuth: true}})
		if err != nil {
			return vfpErrKind(err)
		}
		return "ok"
	})
	time.Sleep(5 * time.Millisecond)
	close(pub.gate)
	wg.Wait()
	if closer != "shutdown" {
		sd.Start = clock.Add(1)
		go func() { pm.close(); close(shutdownDone) }()
	}
	select {
	case <-shutdownDone:
		sd.End = clock.Add(1)
		sd.Res = "ok"
	case <-time.After(watchdog):
		hung.Store(true)
	}
	res.Shutdown = sd
	if hung.Load() {
		buf := make([]byte, 1<<20)
		n := runtime.Stack(buf, true)
		d := string(buf[:n])
		if len(d) > 60000 {
			d = d[:60000]
		}
		res.Dump = d
	}
	return res
}

func TestVerif_C40_Directed(t *testing.T) {
	vfpInstallHooks()
	out := verifrt.NewOut(t)
	defer out.Close()
	n := verifrt.Param("REPEAT", 3)
	for i := 0; i < n; i++ {
		for j, closer := range []string{"reload", "shutdown", "hotreload"} {
			r := vf40Directed(t, -(1 + 3*i + j), closer)
			out.Emit(r)
			if r.Dump != "" {
				return
			}
		}
	}
}
