package core

// Verification harness for the path event loop (C16, C18, C19, C20): replays behaviours of
// spec/core/Path.tla on the REAL pathManager + path, with harness publishers/readers, the
// external-command hook (build tag verif) as observer of hook commands, and a harness static
// source injected through the static-source hook. It records events; TLC decides.

import (
	"errors"
	"fmt"
	"regexp"
	"strings"
	"sync"
	"sync/atomic"
	"testing"
	"time"

	"github.com/bluenviron/gortsplib/v5/pkg/description"
	"github.com/bluenviron/gortsplib/v5/pkg/format"

	"github.com/bluenviron/mediamtx/internal/auth"
	"github.com/bluenviron/mediamtx/internal/conf"
	"github.com/bluenviron/mediamtx/internal/defs"
	"github.com/bluenviron/mediamtx/internal/externalcmd"
	"github.com/bluenviron/mediamtx/internal/logger"
	"github.com/bluenviron/mediamtx/internal/staticsources"
	"github.com/bluenviron/mediamtx/internal/stream"
	"github.com/bluenviron/mediamtx/internal/unit"
	"github.com/bluenviron/mediamtx/internal/verifrt"
)

type vfpEvent struct {
	T string `json:"t"`
	C string `json:"c"`
	V string `json:"v"`
	S int    `json:"s"`
}

type vfpIn struct {
	A string `json:"a"`
	C string `json:"c"`
}

type vfpObs struct {
	Alive      bool     `json:"alive"`
	Source     string   `json:"source"`
	Ready      bool     `json:"ready"`
	Readers    []string `json:"readers"`
	Held       int      `json:"held"`
	ReadyArmed bool     `json:"readyArmed"`
	CloseArmed bool     `json:"closeArmed"`
	Od         string   `json:"od"`
}

type vfpStep struct {
	In    vfpIn      `json:"in"`
	Ev    []vfpEvent `json:"ev"`
	Obs   vfpObs     `json:"obs"`
	Fired bool       `json:"fired"`
	Hang  bool       `json:"hang"`
}

type vfpProfile struct {
	Name        string `json:"name"`
	SourceKind  string `json:"sourceKind"`
	Override    bool   `json:"override"`
	MaxReaders  int    `json:"maxReaders"`
	OnDemandPub bool   `json:"onDemandPub"`
	Regex       bool   `json:"regex"`
	Fallback    bool   `json:"fallback"`
	AlwaysAvail bool   `json:"alwaysAvail"`
}

type vfpRun struct {
	Run     int        `json:"run"`
	Profile vfpProfile `json:"profile"`
	Inputs  []vfpIn    `json:"inputs,omitempty"`
	Steps   []vfpStep  `json:"steps"`
	Src     string     `json:"src"`
	// the manager shutdown after the run did not complete
	CloseHang bool `json:"closeHang"`
	// not executed: several earlier runs of this test hung (each costs watchdog time)
	Skipped bool `json:"skipped,omitempty"`
}

type vfpWorld struct {
	t       testing.TB
	prof    vfpProfile
	pm      *pathManager
	name    string
	mu      sync.Mutex
	ev      []vfpEvent
	streams map[*stream.Stream]int
	nstream int
	// requests whose goroutine has not returned yet
	outstanding atomic.Int32
	static      *vfpStatic
	pubs        map[string]*vfpClient
	readers     map[string]*vfpClient
	// gate: when armed, the first hook command the path launches waits here (the hook observer runs
	// in the path goroutine, in the caller's order), so that the harness can act while the path
	// loop is held in the middle of the request it is serving
	gate atomic.Pointer[vfpGate]
	// raceReady: the static source reports ready while the path is stopping it (armed by timer steps)
	raceReady atomic.Bool
	raceDone  atomic.Pointer[chan struct{}]
}

type vfpGate struct {
	reached chan struct{}
	release chan struct{}
	once    sync.Once
}

var vfpCurrent atomic.Pointer[vfpWorld]

// probeWrite: the publisher writes one unit through the handle it holds; waits for the readers' logs to settle
func (w *vfpWorld) probeWrite(c *vfpClient) {
	if c.sub == nil {
		return
	}
	medi := c.desc.Medias[0]
	c.sub.WriteUnit(medi, medi.Formats[0], &unit.Unit{
		PTS:     0,
		NTP:     time.Now(),
		Payload: unit.PayloadH264{{0x05, 0xEE, c.id[1] - '0'}},
	})
	last, stable := -1, 0
	for i := 0; i < 60 && stable < 4; i++ {
		time.Sleep(2 * time.Millisecond)
		w.mu.Lock()
		n := len(w.ev)
		w.mu.Unlock()
		if n == last {
			stable++
		} else {
			stable, last = 0, n
		}
	}
}

func (w *vfpWorld) log(e vfpEvent) {
	w.mu.Lock()
	w.ev = append(w.ev, e)
	w.mu.Unlock()
}

func (w *vfpWorld) streamNo(s *stream.Stream) int {
	if s == nil {
		return 0
	}
	w.mu.Lock()
	defer w.mu.Unlock()
	n, ok := w.streams[s]
	if !ok {
		w.nstream++
		n = w.nstream
		w.streams[s] = n
	}
	return n
}

// ---- clients

type vfpClient struct {
	w    *vfpWorld
	id   string
	path defs.Path
	// publisher: the sub-stream handle it was given, and the description it announced
	sub  *stream.SubStream
	desc *description.Session
	// reader: its registration on the stream it was given
	rmu      sync.Mutex
	rd       *stream.Reader
	rdStream *stream.Stream
}

// Close is called by the path loop. A real session reacts by tearing its reader down.
func (c *vfpClient) Close() {
	c.w.log(vfpEvent{T: "close", C: c.id})
	go c.detach()
}

// detach removes the reader's registration from the stream (idempotent).
func (c *vfpClient) detach() {
	c.rmu.Lock()
	rd, st := c.rd, c.rdStream
	c.rd, c.rdStream = nil, nil
	c.rmu.Unlock()
	if rd != nil {
		st.RemoveReader(rd)
	}
}

// attach registers a stream reader whose callback logs which publisher's unit arrived.
func (c *vfpClient) attach(st *stream.Stream) {
	c.rmu.Lock()
	defer c.rmu.Unlock()
	if c.rd != nil && c.rdStream == st {
		return
	}
	if c.rd != nil {
		old, oldSt := c.rd, c.rdStream
		go oldSt.RemoveReader(old)
	}
	rd := &stream.Reader{Parent: vfpNilLogger{}}
	medi := st.OrigDesc.Medias[0]
	rd.OnData(medi, medi.Formats[0], func(u *unit.Unit) error {
		if au, ok := u.Payload.(unit.PayloadH264); ok {
			for _, nalu := range au {
				if len(nalu) == 3 && nalu[0] == 0x05 && nalu[1] == 0xEE {
					c.w.log(vfpEvent{T: "data", C: c.id, V: "p" + string(rune('0'+nalu[2]))})
				}
			}
		}
		return nil
	})
	st.AddReader(rd)
	c.rd, c.rdStream = rd, st
}
func (c *vfpClient) Log(logger.Level, string, ...any) {}
func (c *vfpClient) APISourceDescribe() *defs.APIPathSource {
	return &defs.APIPathSource{Type: defs.APIPathSourceTypeRTSPSession, ID: c.id}
}

func (c *vfpClient) APIReaderDescribe() *defs.APIPathReader {
	return &defs.APIPathReader{Type: defs.APIPathReaderTypeRTSPSession, ID: c.id}
}

// ---- static source instance (through the verif hook of staticsources)

type vfpStatic struct {
	w *vfpWorld
	h *staticsources.Handler
}

func (s *vfpStatic) Log(_ logger.Level, f string, _ ...any) {
	switch {
	case strings.HasPrefix(f, "started"):
		s.w.log(vfpEvent{T: "static", V: "start"})
	case strings.HasPrefix(f, "stopped"):
		s.w.log(vfpEvent{T: "static", V: "stop"})
		// Handler.Stop logs this from the path goroutine BEFORE it cancels the handler's context and waits
		// for the handler loop. During a timer step the source reports "ready" at exactly this moment: the
		// handler loop takes the report and tries to hand it to the path loop, which is busy stopping the
		// source. Stop must still return (the hand-over escapes on the handler's context).
		if s.w.raceReady.CompareAndSwap(true, false) {
			done := make(chan struct{})
			s.w.raceDone.Store(&done)
			go func() {
				s.h.SetReady(defs.PathSourceStaticSetReadyReq{Desc: vfpDesc()})
				close(done)
			}()
			time.Sleep(10 * time.Millisecond)
		}
	}
}

func (s *vfpStatic) Run(p defs.StaticSourceRunParams) error {
	<-p.Context.Done()
	return fmt.Errorf("terminated")
}

func (s *vfpStatic) APISourceDescribe() *defs.APIPathSource {
	return &defs.APIPathSource{Type: defs.APIPathSourceTypeRTSPSource, ID: "static"}
}

type vfpNilLogger struct{}

func (vfpNilLogger) Log(logger.Level, string, ...any) {}

type vfpAuth struct{}

func (vfpAuth) Authenticate(*auth.Request) (string, *auth.Error) { return "", nil }

func vfpDesc() *description.Session {
	return &description.Session{Medias: []*description.Media{{
		Type:    description.MediaTypeVideo,
		Formats: []format.Format{&format.H264{PayloadTyp: 96, PacketizationMode: 1}},
	}}}
}

const vfpLong = conf.Duration(time.Hour)

func vfpConf(p vfpProfile) (map[string]*conf.Path, string) {
	pc := &conf.Path{
		Name:                       "vfcam",
		Source:                     "publisher",
		OverridePublisher:          p.Override,
		MaxReaders:                 p.MaxReaders,
		SourceOnDemandStartTimeout: vfpLong,
		SourceOnDemandCloseAfter:   vfpLong,
		RunOnDemandStartTimeout:    vfpLong,
		RunOnDemandCloseAfter:      vfpLong,
		RunOnAvailable:             "available",
		RunOnUnavailable:           "unavailable",
		RunOnOnline:                "online",
		RunOnOffline:               "offline",
	}
	switch p.SourceKind {
	case "static":
		pc.Source = "rtsp://127.0.0.1:1/vf"
	case "staticOnDemand":
		pc.Source = "rtsp://127.0.0.1:1/vf"
		pc.SourceOnDemand = true
	case "redirect":
		pc.Source = "redirect"
		pc.SourceRedirect = "rtsp://127.0.0.1:1/other"
	}
	if p.OnDemandPub {
		pc.RunOnDemand = "demand"
		pc.RunOnUnDemand = "undemand"
	}
	if p.Fallback {
		fb := "/otherpath"
		pc.Fallback = &fb
	}
	if p.AlwaysAvail {
		pc.AlwaysAvailable = true
		pc.AlwaysAvailableTracks = []conf.AlwaysAvailableTrack{{Codec: conf.CodecH264}}
	}
	if p.Regex {
		pc.Name = "~^vf(.*)$"
		pc.Regexp = regexp.MustCompile("^vf(.*)$")
	}
	return map[string]*conf.Path{pc.Name: pc}, "vfcam"
}

func vfpNewWorld(t testing.TB, p vfpProfile) *vfpWorld {
	w := &vfpWorld{t: t, prof: p, streams: map[*stream.Stream]int{}, pubs: map[string]*vfpClient{}, readers: map[string]*vfpClient{}}
	vfpCurrent.Store(w)
	confs, name := vfpConf(p)
	w.name = name
	w.pm = &pathManager{
		writeQueueSize:    8,
		udpMaxPayloadSize: 1472,
		rtpMaxPayloadSize: 1450,
		readTimeout:       conf.Duration(10 * time.Second),
		writeTimeout:      conf.Duration(10 * time.Second),
		rtspAddress:       ":8554",
		pathConfs:         confs,
		authManager:       vfpAuth{},
		parent:            vfpNilLogger{},
	}
	w.pm.initialize()
	return w
}

func vfpInstallHooks() {
	externalcmd.VerifOnStart = func(c *externalcmd.Cmd) bool {
		if w := vfpCurrent.Load(); w != nil {
			if g := w.gate.Load(); g != nil {
				g.once.Do(func() { close(g.reached) })
				<-g.release
			}
			w.log(vfpEvent{T: "cmd", C: c.Cmdstr, V: "start"})
		}
		return true
	}
	externalcmd.VerifOnClose = func(c *externalcmd.Cmd) bool {
		if w := vfpCurrent.Load(); w != nil {
			w.log(vfpEvent{T: "cmd", C: c.Cmdstr, V: "stop"})
		}
		return true
	}
	staticsources.VerifNewInstance = func(h *staticsources.Handler) staticsources.VerifStaticSource {
		w := vfpCurrent.Load()
		if w == nil {
			return nil
		}
		s := &vfpStatic{w: w, h: h}
		w.mu.Lock()
		w.static = s
		w.mu.Unlock()
		return s
	}
}

// current path object through the manager loop (also a barrier through the manager loop)
func (w *vfpWorld) curPath() *path {
	req := pathAPIPathsGetReq{name: w.name, res: make(chan pathAPIPathsGetRes)}
	select {
	case w.pm.chAPIPathsGet <- req:
		res := <-req.res
		return res.path
	case <-time.After(10 * time.Second):
		return nil
	}
}

// barrier through the path loop; returns API data or nil if the path is gone
func (w *vfpWorld) barrier(pa *path) *defs.APIPath {
	if pa == nil {
		return nil
	}
	ch := make(chan *defs.APIPath, 1)
	go func() {
		d, err := pa.APIPathsGet(pathAPIPathsGetReq{})
		if err != nil {
			ch <- nil
			return
		}
		ch <- d
	}()
	select {
	case d := <-ch:
		return d
	case <-time.After(10 * time.Second):
		return nil
	}
}

func vfpOd(s pathOnDemandState) string {
	switch s {
	case pathOnDemandStateInitial:
		return "initial"
	case pathOnDemandStateWaitingReady:
		return "waiting"
	case pathOnDemandStateReady:
		return "ready"
	default:
		return "closing"
	}
}

func (w *vfpWorld) odState(pa *path) pathOnDemandState {
	if w.prof.OnDemandPub {
		return pa.onDemandPublisherState
	}
	return pa.onDemandStaticSourceState
}

func vfpArmed(t *time.Timer) bool {
	if t.Stop() {
		t.Reset(time.Hour)
		return true
	}
	return false
}

func vfpErrKind(err error) string {
	var ns *defs.PathNoStreamAvailableError
	switch {
	case errors.As(err, &ns):
		return "err_nostream"
	case strings.Contains(err.Error(), "maximum reader count"):
		return "err_max"
	case strings.Contains(err.Error(), "already publishing"):
		return "err_busy"
	case strings.Contains(err.Error(), "timed out"):
		return "err_timeout"
	case strings.Contains(err.Error(), "terminated"):
		return "err_terminated"
	case strings.Contains(err.Error(), "is not 'publisher'"):
		return "err_notpub"
	case strings.Contains(err.Error(), "not configured"):
		return "err_noconf"
	}
	return "err_other"
}

// quiesce waits until every request goroutine has either returned or is held by the path.
// Returns the current path (nil if gone) and false on a hang.
func (w *vfpWorld) quiesce() (*path, bool) {
	deadline := time.Now().Add(15 * time.Second)
	for {
		pa := w.curPath()
		held := 0
		if pa != nil {
			if w.barrier(pa) == nil {
				// the path terminated between the two calls, or it is blocked
				select {
				case <-pa.done:
					pa = nil
				default:
				}
			}
			if pa != nil {
				held = len(pa.describeRequestsOnHold) + len(pa.readerAddRequestsOnHold)
			}
		}
		if int(w.outstanding.Load()) == held {
			return pa, true
		}
		if time.Now().After(deadline) {
			return pa, false
		}
		time.Sleep(200 * time.Microsecond)
	}
}

func (w *vfpWorld) client(m map[string]*vfpClient, id string) *vfpClient {
	c, ok := m[id]
	if !ok {
		c = &vfpClient{w: w, id: id}
		m[id] = c
	}
	return c
}

func (w *vfpWorld) step(in vfpIn) vfpStep {
	w.mu.Lock()
	w.ev = nil
	w.mu.Unlock()
	st := vfpStep{In: in}

	switch in.A {
	case "AddPublisher", "AddPublisherBad":
		c := w.client(w.pubs, in.C)
		w.outstanding.Add(1)
		bad := in.A == "AddPublisherBad"
		go func() {
			desc := vfpDesc()
			if bad {
				// RTP packets of a packetization the server cannot decode: SubStream.Initialize fails
				desc.Medias[0].Formats[0].(*format.H264).PacketizationMode = 2
			}
			res, err := w.pm.AddPublisher(defs.PathAddPublisherReq{
				Author:        c,
				Desc:          desc,
				UseRTPPackets: bad,
				AccessRequest: defs.PathAccessRequest{Name: w.name, Publish: true, SkipAuth: true},
			})
			if err != nil {
				k := vfpErrKind(err)
				if bad && k == "err_other" {
					k = "err_init"
				}
				w.log(vfpEvent{T: "resp", C: in.C, V: k})
			} else {
				c.path = res.Path
				c.sub = res.SubStream
				c.desc = desc
				w.log(vfpEvent{T: "resp", C: in.C, V: "stream", S: w.streamNo(res.SubStream.Stream)})
			}
			w.outstanding.Add(-1)
		}()

	case "Write":
		// the publisher writes one unit through the handle it holds (possibly a stale one)
		c := w.client(w.pubs, in.C)
		if c.sub != nil {
			medi := c.desc.Medias[0]
			c.sub.WriteUnit(medi, medi.Formats[0], &unit.Unit{
				PTS:     0,
				NTP:     time.Now(),
				Payload: unit.PayloadH264{{0x05, 0xEE, in.C[1] - '0'}},
			})
			// deliveries run in the readers' goroutines: wait until the event log is quiet
			last, stable := -1, 0
			for i := 0; i < 60 && stable < 4; i++ {
				time.Sleep(2 * time.Millisecond)
				w.mu.Lock()
				n := len(w.ev)
				w.mu.Unlock()
				if n == last {
					stable++
				} else {
					stable, last = 0, n
				}
			}
		}

	case "AddReader":
		c := w.client(w.readers, in.C)
		w.outstanding.Add(1)
		go func() {
			res, err := w.pm.AddReader(defs.PathAddReaderReq{
				Author:        c,
				AccessRequest: defs.PathAccessRequest{Name: w.name, SkipAuth: true},
			})
			if err != nil {
				w.log(vfpEvent{T: "resp", C: in.C, V: vfpErrKind(err)})
			} else {
				c.path = res.Path
				c.attach(res.Stream)
				w.log(vfpEvent{T: "resp", C: in.C, V: "stream", S: w.streamNo(res.Stream)})
			}
			w.outstanding.Add(-1)
		}()

	case "Describe":
		w.outstanding.Add(1)
		go func() {
			res, err := w.pm.Describe(defs.PathDescribeReq{
				AccessRequest: defs.PathAccessRequest{Name: w.name, SkipAuth: true},
			})
			switch {
			case err != nil:
				w.log(vfpEvent{T: "resp", C: in.C, V: vfpErrKind(err)})
			case res.Redirect != "":
				w.log(vfpEvent{T: "resp", C: in.C, V: "redirect"})
			default:
				w.log(vfpEvent{T: "resp", C: in.C, V: "stream", S: w.streamNo(res.Stream)})
			}
			w.outstanding.Add(-1)
		}()

	case "RemovePublisher":
		c := w.client(w.pubs, in.C)
		if c.path != nil {
			// "replaced/removed publishers are cut off": once RemovePublisher has RETURNED nothing the
			// publisher writes may reach a reader. The path loop is held at the first hook command it
			// launches while serving the request; if the call returns before that point is reached
			// (or no hook is launched at all) the publisher tries a write at once.
			g := &vfpGate{reached: make(chan struct{}), release: make(chan struct{})}
			w.gate.Store(g)
			ret := make(chan struct{})
			pa := c.path
			go func() {
				pa.RemovePublisher(defs.PathRemovePublisherReq{Author: c})
				close(ret)
			}()
			returned := false
			select {
			case <-ret:
				returned = true
			case <-g.reached:
				// the path loop is held inside the request: has the call returned to the publisher all the
				// same? (the caller's goroutine may need a moment to run)
				select {
				case <-ret:
					returned = true
				case <-time.After(20 * time.Millisecond):
				}
			case <-time.After(10 * time.Second):
			}
			if returned {
				w.log(vfpEvent{T: "returned", C: in.C})
				w.probeWrite(c)
			}
			w.gate.Store(nil)
			close(g.release)
			<-ret
		}

	case "RemoveReader":
		c := w.client(w.readers, in.C)
		c.detach()
		if c.path != nil {
			c.path.RemoveReader(defs.PathRemoveReaderReq{Author: c})
		}

	case "StaticReady":
		w.mu.Lock()
		s := w.static
		w.mu.Unlock()
		if s != nil {
			res := s.h.SetReady(defs.PathSourceStaticSetReadyReq{Desc: vfpDesc()})
			if res.Err != nil {
				w.log(vfpEvent{T: "resp", C: "static", V: "err_static"})
			} else {
				w.log(vfpEvent{T: "resp", C: "static", V: "ok", S: w.streamNo(res.SubStream.Stream)})
			}
		}

	case "StaticNotReady":
		w.mu.Lock()
		s := w.static
		w.mu.Unlock()
		if s != nil {
			s.h.SetNotReady(defs.PathSourceStaticSetNotReadyReq{})
		}

	case "ReadyTimer", "CloseTimer":
		pa, _ := w.quiesce()
		if pa != nil {
			var tm *time.Timer
			switch {
			case w.prof.OnDemandPub && in.A == "ReadyTimer":
				tm = pa.onDemandPublisherReadyTimer
			case w.prof.OnDemandPub:
				tm = pa.onDemandPublisherCloseTimer
			case in.A == "ReadyTimer":
				tm = pa.onDemandStaticSourceReadyTimer
			default:
				tm = pa.onDemandStaticSourceCloseTimer
			}
			before := w.odState(pa)
			// fire only a timer that the code has armed
			if tm.Stop() {
				if !w.prof.OnDemandPub {
					w.raceReady.Store(true)
				}
				tm.Reset(0)
				st.Fired = true
				deadline := time.Now().Add(10 * time.Second)
				for {
					if w.barrier(pa) == nil {
						break // path gone
					}
					if w.odState(pa) != before {
						break
					}
					if time.Now().After(deadline) {
						st.Hang = true
						break
					}
					time.Sleep(200 * time.Microsecond)
				}
				w.raceReady.Store(false)
				if dp := w.raceDone.Swap(nil); dp != nil {
					select {
					case <-*dp:
					case <-time.After(10 * time.Second):
						st.Hang = true // the source's report never returned: the handler loop is stuck
					}
				}
			}
		}

	case "Terminate":
		w.pm.ReloadPathConfs(map[string]*conf.Path{})
	}

	pa, ok := w.quiesce()
	if !ok {
		st.Hang = true
	}
	// an idle path of a regular-expression configuration is closed by the manager
	// asynchronously: wait for it so that its events belong to this step
	if ok && pa != nil && pa.conf.Regexp != nil && pa.shouldClose() {
		select {
		case <-pa.done:
			pa, ok = w.quiesce()
			if !ok {
				st.Hang = true
			}
		case <-time.After(2 * time.Second):
		}
	}

	if pa != nil && !st.Hang {
		if d := w.barrier(pa); d != nil {
			st.Obs.Alive = true
			st.Obs.Ready = d.Ready
			if d.Source != nil {
				st.Obs.Source = d.Source.ID
				if d.Source.Type == defs.APIPathSourceTypeRedirect {
					st.Obs.Source = "redirect"
				}
			}
			for _, r := range d.Readers {
				st.Obs.Readers = append(st.Obs.Readers, r.ID)
			}
			st.Obs.Held = len(pa.describeRequestsOnHold) + len(pa.readerAddRequestsOnHold)
			st.Obs.Od = vfpOd(w.odState(pa))
			if w.prof.OnDemandPub {
				st.Obs.ReadyArmed = vfpArmed(pa.onDemandPublisherReadyTimer)
				st.Obs.CloseArmed = vfpArmed(pa.onDemandPublisherCloseTimer)
			} else {
				st.Obs.ReadyArmed = vfpArmed(pa.onDemandStaticSourceReadyTimer)
				st.Obs.CloseArmed = vfpArmed(pa.onDemandStaticSourceCloseTimer)
			}
		}
	}
	if st.Obs.Readers == nil {
		st.Obs.Readers = []string{}
	}
	w.mu.Lock()
	st.Ev = append([]vfpEvent{}, w.ev...)
	w.mu.Unlock()
	return st
}

// close shuts the manager down; false means that the shutdown did not complete (a blocked
// path loop: recorded as an observation, the leaked goroutines are abandoned).
func (w *vfpWorld) close() bool {
	done := make(chan struct{})
	go func() {
		w.pm.close()
		close(done)
	}()
	ok := true
	select {
	case <-done:
	case <-time.After(15 * time.Second):
		ok = false
	}
	vfpCurrent.Store(nil)
	return ok
}

func vfpExec(t testing.TB, r *vfpRun) {
	w := vfpNewWorld(t, r.Profile)
	// events caused by creating the manager (static source of a non-regex path starts at once)
	pa, _ := w.quiesce()
	_ = pa
	w.mu.Lock()
	pre := append([]vfpEvent{}, w.ev...)
	w.mu.Unlock()
	// step 1 is the pseudo-step "Init": the events of the path's creation
	r.Steps = []vfpStep{{In: vfpIn{A: "Init", C: "init"}, Ev: pre, Obs: vfpObs{Readers: []string{}}}}
	if r.Steps[0].Ev == nil {
		r.Steps[0].Ev = []vfpEvent{}
	}
	for _, in := range r.Inputs {
		s := w.step(in)
		r.Steps = append(r.Steps, s)
		if s.Hang {
			break
		}
	}
	// timers the code has armed are allowed to expire before the run ends (ready timer first, then the
	// close timer, at most four expiries): a timer that layer 1 does not know about - left armed by an
	// earlier step - shows its effect this way; the steps are ordinary inputs of the model
	hung := len(r.Steps) > 0 && r.Steps[len(r.Steps)-1].Hang
	for i := 0; i < 4 && !hung; i++ {
		pa2, ok := w.quiesce()
		if !ok || pa2 == nil {
			break
		}
		fired := false
		for _, a := range []string{"ReadyTimer", "CloseTimer"} {
			s := w.step(vfpIn{A: a, C: "timer"})
			if s.Fired {
				r.Steps = append(r.Steps, s)
				fired = true
				hung = s.Hang
				break
			}
		}
		if !fired {
			break
		}
	}
	// requests still held are answered by the shutdown; wait for them
	r.CloseHang = !w.close()
	deadline := time.Now().Add(10 * time.Second)
	for !r.CloseHang && w.outstanding.Load() != 0 && time.Now().Before(deadline) {
		time.Sleep(time.Millisecond)
	}
	r.Inputs = nil
}

// spec -> impl: walks over the state graph of Path.tla, one file of runs per profile.
func TestVerif_Path_Replay(t *testing.T) {
	vfpInstallHooks()
	out := verifrt.NewOut(t)
	defer out.Close()
	hangs := 0
	verifrt.ForEachCase(t, func(raw []byte) {
		var r vfpRun
		verifrt.Decode(t, raw, &r)
		if hangs >= 6 {
			// every hanging run costs tens of seconds of watchdog time: the verdicts are established
			r.Skipped = true
			r.Inputs = nil
			r.Steps = []vfpStep{}
			out.Emit(&r)
			return
		}
		vfpExec(t, &r)
		if r.CloseHang {
			hangs++
		} else {
			for _, s := range r.Steps {
				if s.Hang {
					hangs++
					break
				}
			}
		}
		out.Emit(&r)
	})
}
