package core

// Verification harness for C06 (path names cannot escape the recording tree): the path manager's
// entry points for publishing and reading (FindPathConf, AddPublisher, AddReader, Describe), which
// every protocol server calls with the name a client wrote. Injected by /verif through -overlay.
// The test records what the real path manager does; verdicts are taken by TLC
// (spec/conf/TracePathSafety.tla).

import (
	"errors"
	"os"
	"testing"

	"github.com/bluenviron/gortsplib/v5/pkg/description"

	"github.com/bluenviron/mediamtx/internal/defs"
	"github.com/bluenviron/mediamtx/internal/logger"
	"github.com/bluenviron/mediamtx/internal/test"
	"github.com/bluenviron/mediamtx/internal/verifc06"
	"github.com/bluenviron/mediamtx/internal/verifrt"
)

type vf06Publisher struct{}

func (*vf06Publisher) Close()                                 {}
func (*vf06Publisher) Log(logger.Level, string, ...any)       {}
func (*vf06Publisher) APISourceDescribe() *defs.APIPathSource { return nil }

type vf06Reader struct{}

func (*vf06Reader) Close()                                 {}
func (*vf06Reader) Log(logger.Level, string, ...any)       {}
func (*vf06Reader) APIReaderDescribe() *defs.APIPathReader { return nil }

// a name is accepted for reading when the path manager resolved it and handed the request to a
// path; "no one is publishing" is an answer about an accepted name
func vf06AcceptedRead(err error) bool {
	if err == nil {
		return true
	}
	var e *defs.PathNoStreamAvailableError
	return errors.As(err, &e)
}

func TestVerif_C06_PathManager(t *testing.T) {
	out := verifrt.NewOutFile(t, vf06OutPath("core"))
	defer out.Close()
	in := verifc06.ReadInput(t)
	tr := verifc06.Setup(t)

	run := func(ctx *verifc06.Context, names []string) {
		pm := &pathManager{
			authManager: test.NilAuthManager,
			pathConfs:   ctx.Paths,
			parent:      test.NilLogger,
		}
		pm.initialize()
		defer pm.close()

		for _, name := range names {
			for _, publish := range []bool{true, false} {
				_, err := pm.FindPathConf(defs.PathFindPathConfReq{
					AccessRequest: defs.PathAccessRequest{Name: name, Publish: publish},
				})
				entry := "pathManager/FindPathConf(read)"
				if publish {
					entry = "pathManager/FindPathConf(publish)"
				}
				out.Emit(tr.NewRec(entry, ctx, name, err == nil, nil, ""))
			}

			pub := &vf06Publisher{}
			res, err := pm.AddPublisher(defs.PathAddPublisherReq{
				Author:        pub,
				Desc:          &description.Session{},
				AccessRequest: defs.PathAccessRequest{Name: name, Publish: true, SkipAuth: true},
			})
			seen := name
			if err == nil {
				seen = res.Path.Name() // the name the path was created with
			}
			out.Emit(tr.NewRec("pathManager/AddPublisher", ctx, seen, err == nil, nil, ""))

			rd := &vf06Reader{}
			res2, err2 := pm.AddReader(defs.PathAddReaderReq{
				Author:        rd,
				AccessRequest: defs.PathAccessRequest{Name: name, SkipAuth: true},
			})
			out.Emit(tr.NewRec("pathManager/AddReader", ctx, name, vf06AcceptedRead(err2), nil, ""))
			if err2 == nil {
				res2.Path.RemoveReader(defs.PathRemoveReaderReq{Author: rd})
			}

			res3, err3 := pm.Describe(defs.PathDescribeReq{
				AccessRequest: defs.PathAccessRequest{Name: name, SkipAuth: true},
			})
			_ = res3
			out.Emit(tr.NewRec("pathManager/Describe", ctx, name, vf06AcceptedRead(err3), nil, ""))

			if err == nil {
				res.Path.RemovePublisher(defs.PathRemovePublisherReq{Author: pub})
			}
		}
	}

	std := tr.StdContexts(t, 0)
	for _, ctx := range std {
		run(ctx, in.HTTPNames)
	}
	for _, name := range in.HTTPNames {
		if kc := tr.KeyContext(t, name, 0); kc != nil {
			run(kc, []string{name})
		}
	}
}

// the four C06 harness tests run in one `go test` invocation; each writes its own file
func vf06OutPath(suffix string) string {
	p := os.Getenv("VERIF_OUT")
	if p == "" {
		return ""
	}
	return p + "." + suffix
}
