package core

// Verification harness for C10, hot reload: a real Core is started on a valid configuration
// file, the file is replaced by the case's content, and what the Core does is recorded
// (reloaded with which configuration / stopped with an error / the process died).
// Every case runs in its own child process (the test binary re-executed): a panic in the
// Core's goroutine cannot be recovered and is an observation. Injected by /verif through
// -overlay; verdicts are taken by TLC (spec/conf/TraceConfValidate.tla).

import (
	"bytes"
	"encoding/base64"
	"encoding/json"
	"fmt"
	"os"
	"os/exec"
	"path/filepath"
	"reflect"
	"sort"
	"strconv"
	"strings"
	"sync"
	"testing"
	"time"

	"github.com/bluenviron/mediamtx/internal/conf"
	"github.com/bluenviron/mediamtx/internal/verifrt"
)

type vf10cCase struct {
	ID   int               `json:"id"`
	Env  map[string]string `json:"env"`
	Init string            `json:"init"` // base64
	File string            `json:"file"` // base64
	// a sequence of file contents (base64) submitted one after the other in the same process
	Files []string `json:"files"`
}

type vf10cI64 struct {
	Neg bool     `json:"neg"`
	H   []string `json:"h"`
}

func vf10cHex(v int64) vf10cI64 {
	neg := v < 0
	var m uint64
	if neg {
		m = uint64(-(v + 1)) + 1
	} else {
		m = uint64(v)
	}
	return vf10cI64{Neg: neg, H: strings.Split(fmt.Sprintf("%016x", m), "")}
}

func vf10cChars(s string) []string {
	out := []string{}
	for _, r := range s {
		out = append(out, string(r))
	}
	return out
}

func vf10cObserve(cf *conf.Conf) map[string]any {
	paths := []map[string]any{}
	other := []map[string]any{}
	rv := reflect.ValueOf(cf).Elem()
	for _, n := range []string{"WebRTCSTUNGatherTimeout", "WebRTCHandshakeTimeout", "WebRTCTrackGatherTimeout"} {
		if f := rv.FieldByName(n); f.IsValid() {
			other = append(other, map[string]any{"name": n, "v": vf10cHex(f.Int())})
		}
	}
	names := make([]string, 0, len(cf.Paths))
	for n := range cf.Paths {
		names = append(names, n)
	}
	sort.Strings(names)
	for i, n := range names {
		if i >= 6 {
			break
		}
		p := cf.Paths[n]
		if p == nil {
			continue
		}
		paths = append(paths, map[string]any{
			"name": vf10cChars(n), "source": p.Source, "onDemand": p.SourceOnDemand,
			"recordPath": vf10cChars(p.RecordPath),
			"seg":        vf10cHex(int64(p.RecordSegmentDuration)),
			"del":        vf10cHex(int64(p.RecordDeleteAfter)),
			"camID":      strconv.FormatUint(uint64(p.RPICameraCamID), 10),
			"secondary":  p.RPICameraSecondary,
		})
	}
	return map[string]any{
		"rt": vf10cHex(int64(cf.ReadTimeout)), "wt": vf10cHex(int64(cf.WriteTimeout)),
		"wq": vf10cHex(int64(cf.WriteQueueSize)), "playback": cf.Playback,
		"npaths": len(cf.Paths), "paths": paths, "otherTimeouts": other,
	}
}

func vf10cTrunc(s string, n int) string {
	if len(s) > n {
		return s[:n] + "..."
	}
	return s
}

// TestVerif_C10_HotReloadChild runs one case (line VERIF_C10_INDEX of VERIF_CASES) and appends one
// observation line per step to VERIF_C10_CHILDOUT. A case is a SEQUENCE of file contents submitted to
// a running Core in this one process: when a refused file has stopped the Core (it stops on a reload
// error), a new Core is started in the same process on the valid initial file and the sequence goes on,
// so that whatever earlier loads left behind in the process is there for the later ones.
func TestVerif_C10_HotReloadChild(t *testing.T) {
	if os.Getenv("VERIF_C10_CHILD") != "1" {
		t.Skip("child mode only")
	}
	var c vf10cCase
	want, _ := strconv.Atoi(os.Getenv("VERIF_C10_INDEX"))
	n := 0
	verifrt.ForEachCase(t, func(raw []byte) {
		if n == want {
			verifrt.Decode(t, raw, &c)
		}
		n++
	})
	outf, err := os.OpenFile(os.Getenv("VERIF_C10_CHILDOUT"), os.O_APPEND|os.O_CREATE|os.O_WRONLY, 0o600)
	if err != nil {
		t.Fatal(err)
	}
	defer outf.Close()
	emit := func(step int, o map[string]any) {
		o["id"] = c.ID
		o["step"] = step
		b, _ := json.Marshal(o)
		outf.Write(append(b, '\n'))
	}
	files := c.Files
	if len(files) == 0 {
		files = []string{c.File}
	}
	initB, _ := base64.StdEncoding.DecodeString(c.Init)
	dir := t.TempDir()
	fp := filepath.Join(dir, "mediamtx.yml")
	for k, v := range c.Env {
		os.Setenv(k, v)
	}

	var p *Core
	var lastSignal time.Time
	for step, f64 := range files {
		fileB, _ := base64.StdEncoding.DecodeString(f64)
		if p == nil {
			if err = os.WriteFile(fp, initB, 0o600); err != nil {
				t.Fatal(err)
			}
			var ok bool
			p, ok = New([]string{fp})
			if !ok {
				emit(step, map[string]any{"infra": "the initial configuration was not accepted by core.New"})
				return
			}
			lastSignal = time.Time{}
		} else if d := 1200*time.Millisecond - time.Since(lastSignal); d > 0 {
			time.Sleep(d) // the configuration watcher ignores changes within one second of the last one it reported
		}
		before := p.conf.Load()

		// replace the file atomically (what an editor or a config management tool does)
		tmp := filepath.Join(dir, ".mediamtx.yml.new")
		if err = os.WriteFile(tmp, fileB, 0o600); err != nil {
			t.Fatal(err)
		}
		if err = os.Rename(tmp, fp); err != nil {
			t.Fatal(err)
		}

		deadline := time.After(20 * time.Second)
		tick := time.NewTicker(2 * time.Millisecond)
		waiting := true
		for waiting {
			select {
			case <-p.done:
				// Core.run closes this channel in a deferred call, which also runs while that goroutine is
				// panicking: give a dying process the time to die before calling this an orderly stop
				// (the parent, too, puts a panic in the child's output before any observation)
				// (between the steps of a sequence a shorter wait is enough: a dying process does not survive
				// the next step, and the parent reports the crash)
				if step == len(files)-1 {
					time.Sleep(1500 * time.Millisecond)
				} else {
					time.Sleep(500 * time.Millisecond)
				}
				emit(step, map[string]any{"err": true, "errMsg": "core stopped after the reload"})
				p = nil
				waiting = false
			case <-tick.C:
				if now := p.conf.Load(); now != before {
					lastSignal = time.Now()
					emit(step, map[string]any{"ok": true, "conf": vf10cObserve(now)})
					waiting = false
				}
			case <-deadline:
				emit(step, map[string]any{"infra": "no reaction of the Core within 20 s after the file was replaced"})
				tick.Stop()
				p.Close()
				return
			}
		}
		tick.Stop()
	}
	if p != nil {
		p.Close()
	}
}

// TestVerif_C10_HotReload is the parent: one child process per case, a few at a time.
func TestVerif_C10_HotReload(t *testing.T) {
	out := verifrt.NewOut(t)
	defer out.Close()
	var cases []json.RawMessage
	verifrt.ForEachCase(t, func(raw []byte) { cases = append(cases, json.RawMessage(raw)) })
	tmp := t.TempDir()
	sem := make(chan struct{}, 12)
	var wg sync.WaitGroup
	for i, raw := range cases {
		wg.Add(1)
		sem <- struct{}{}
		go func(i int, raw json.RawMessage) {
			defer wg.Done()
			defer func() { <-sem }()
			var c vf10cCase
			if err := json.Unmarshal(raw, &c); err != nil {
				out.Emit(map[string]any{"id": -1, "infra": err.Error()})
				return
			}
			childOut := filepath.Join(tmp, fmt.Sprintf("o%d.json", i))
			cmd := exec.Command(os.Args[0], "-test.run=^TestVerif_C10_HotReloadChild$", "-test.timeout=120s")
			for _, kv := range os.Environ() {
				if strings.HasPrefix(kv, "MTX_") || strings.HasPrefix(kv, "RTSP_") {
					continue
				}
				cmd.Env = append(cmd.Env, kv)
			}
			cmd.Env = append(cmd.Env, "VERIF_C10_CHILD=1", "VERIF_C10_INDEX="+strconv.Itoa(i), "VERIF_C10_CHILDOUT="+childOut)
			var buf bytes.Buffer
			cmd.Stdout = &buf
			cmd.Stderr = &buf
			runErr := cmd.Run()
			died := runErr != nil && (strings.Contains(buf.String(), "panic:") || strings.Contains(buf.String(), "fatal error:"))
			steps := 0
			if b, err := os.ReadFile(childOut); err == nil {
				for _, line := range bytes.Split(b, []byte("\n")) {
					var o map[string]any
					if len(bytes.TrimSpace(line)) == 0 || json.Unmarshal(line, &o) != nil {
						continue
					}
					if msg, bad := o["infra"].(string); bad {
						o["infra"] = msg + " | child output: " + vf10cTrunc(buf.String(), 600)
					}
					out.Emit(o)
					steps++
				}
			}
			tail := buf.String()
			if died {
				// the process died while the next step was in flight
				if j := strings.Index(tail, "panic:"); j >= 0 {
					tail = tail[j:]
				} else if j = strings.Index(tail, "fatal error:"); j >= 0 {
					tail = tail[j:]
				}
				out.Emit(map[string]any{"id": c.ID, "step": steps, "crash": true, "msg": vf10cTrunc(tail, 400)})
				return
			}
			if runErr != nil {
				out.Emit(map[string]any{"id": c.ID, "step": steps, "infra": "child failed: " + runErr.Error() + ": " + vf10cTrunc(tail, 500)})
				return
			}
			if steps == 0 {
				out.Emit(map[string]any{"id": c.ID, "step": 0, "infra": "child ended without an observation: " + vf10cTrunc(tail, 500)})
			}
		}(i, raw)
	}
	wg.Wait()
}
