package core

// Verification harness for C12 (API configuration edits are exact and atomic): replays walks of
// spec/conf/ApiEdits.tla through the real HTTP Control API of a real Core and reads the whole
// configuration back through the API after every edit. Records; TLC decides.

import (
	"bytes"
	"crypto/sha1"
	"encoding/hex"
	"encoding/json"
	"io"
	"net/http"
	"os"
	"path/filepath"
	"strconv"
	"testing"
	"time"

	"github.com/bluenviron/mediamtx/internal/verifrt"
)

type vf12Payload struct {
	// global
	Origins  string `json:"origins,omitempty"`
	Playback string `json:"playback,omitempty"`
	// defaults / path
	MaxReaders string `json:"maxReaders,omitempty"`
	RDA        string `json:"rda,omitempty"`
	Override   string `json:"override,omitempty"`
	Ports      string `json:"ports,omitempty"` // a list-typed path parameter: rtspUDPSourcePortRange
	Bad        string `json:"bad"`
}

type vf12Op struct {
	Kind string      `json:"kind"`
	Name string      `json:"name"`
	Pl   vf12Payload `json:"pl"`
}

type vf12PathView struct {
	MaxReaders string `json:"maxReaders"`
	Override   string `json:"override"`
	Ports      string `json:"ports"`
}

var vf12Ports = map[string][]uint{"a": {10000, 10100}, "b": {20000, 20100}, "def": {32768, 60999}}

// vf12PortsName names a rtspUDPSourcePortRange value read back through the API
func vf12PortsName(x any) string {
	l, ok := x.([]any)
	if !ok || len(l) != 2 {
		return "?"
	}
	for name, v := range vf12Ports {
		if a, ok1 := l[0].(float64); ok1 {
			if b, ok2 := l[1].(float64); ok2 && uint(a) == v[0] && uint(b) == v[1] {
				return name
			}
		}
	}
	return "?"
}

type vf12View struct {
	G struct {
		Origins  string `json:"origins"`
		Playback string `json:"playback"`
	} `json:"g"`
	D struct {
		MaxReaders string `json:"maxReaders"`
		RDA        string `json:"rda"`
	} `json:"d"`
	Paths map[string]vf12PathView `json:"paths"`
}

type vf12Rest struct {
	G     string            `json:"g"`
	D     string            `json:"d"`
	Paths map[string]string `json:"paths"`
	Path  string            `json:"path,omitempty"`
}

type vf12Step struct {
	Op     vf12Op   `json:"op"`
	Status int      `json:"status"`
	Body   string   `json:"body"`
	View    vf12View `json:"view"`
	ViewNow vf12View `json:"viewNow"`
	Rest    vf12Rest `json:"rest"`
}

type vf12Run struct {
	Run   int        `json:"run"`
	Ops   []vf12Op   `json:"ops,omitempty"`
	Steps []vf12Step `json:"steps"`
	Rest0 vf12Rest   `json:"rest0"`
	Src   string     `json:"src"`
}

var vf12Names = []string{"p1", "p2"}

func vf12Unset(s string) bool { return s == "" || s == "unset" }

func vf12Body(op vf12Op) []byte {
	m := map[string]any{}
	pl := op.Pl
	switch op.Kind {
	case "PatchGlobal":
		if !vf12Unset(pl.Origins) {
			m["pprofAllowOrigins"] = []string{"https://" + map[string]string{"A": "a", "B": "b"}[pl.Origins] + ".example"}
		}
		if !vf12Unset(pl.Playback) {
			m["playback"] = pl.Playback == "on"
		}
		switch pl.Bad {
		case "value":
			m["readTimeout"] = "0s"
		case "type":
			m["pprofAllowOrigins"] = 5
		case "unknown":
			m["verifNoSuchParameter"] = 1
		}
	case "PatchDefaults":
		if !vf12Unset(pl.MaxReaders) {
			n, _ := strconv.Atoi(pl.MaxReaders)
			m["maxReaders"] = n
		}
		if !vf12Unset(pl.RDA) {
			m["recordDeleteAfter"] = pl.RDA
		}
		switch pl.Bad {
		case "value":
			// rejected whether or not a path exists (path defaults are otherwise only validated
			// through the paths that inherit them)
			m["recordFormat"] = "verif-no-such-format"
		case "type":
			m["maxReaders"] = "many"
		case "unknown":
			m["verifNoSuchParameter"] = 1
		}
	default:
		if !vf12Unset(pl.MaxReaders) {
			n, _ := strconv.Atoi(pl.MaxReaders)
			m["maxReaders"] = n
		}
		if !vf12Unset(pl.Override) {
			m["overridePublisher"] = pl.Override == "t"
		}
		if !vf12Unset(pl.Ports) {
			m["rtspUDPSourcePortRange"] = vf12Ports[pl.Ports]
		}
		switch pl.Bad {
		case "value":
			m["source"] = "invalid://x"
		case "type":
			m["maxReaders"] = "many"
		case "unknown":
			m["verifNoSuchParameter"] = 1
		}
	}
	b, _ := json.Marshal(m)
	return b
}

type vf12Client struct {
	t    testing.TB
	base string
	hc   *http.Client
}

func (c *vf12Client) do(method, path string, body []byte) (int, []byte) {
	var lastErr error
	for i := 0; i < 200; i++ {
		req, _ := http.NewRequest(method, c.base+path, bytes.NewReader(body))
		res, err := c.hc.Do(req)
		if err != nil {
			// the API server itself is restarted by some reloads: retry briefly
			lastErr = err
			time.Sleep(10 * time.Millisecond)
			continue
		}
		b, _ := io.ReadAll(res.Body)
		res.Body.Close()
		return res.StatusCode, b
	}
	c.t.Fatalf("verif: API not reachable: %v", lastErr)
	return 0, nil
}

func vf12Digest(m map[string]any, drop ...string) string {
	c := map[string]any{}
	for k, v := range m {
		c[k] = v
	}
	for _, k := range drop {
		delete(c, k)
	}
	b, _ := json.Marshal(c) // map keys are sorted
	h := sha1.Sum(b)
	return hex.EncodeToString(h[:8])
}

func (c *vf12Client) observe() (vf12View, vf12Rest) {
	var v vf12View
	var r vf12Rest
	v.Paths = map[string]vf12PathView{}
	r.Paths = map[string]string{}
	get := func(path string) (int, map[string]any) {
		st, b := c.do(http.MethodGet, path, nil)
		m := map[string]any{}
		if st == 200 {
			if err := json.Unmarshal(b, &m); err != nil {
				c.t.Fatalf("verif: bad JSON from %s: %v", path, err)
			}
		}
		return st, m
	}
	_, g := get("/v3/config/global/get")
	v.G.Origins = "?"
	if l, ok := g["pprofAllowOrigins"].([]any); ok && len(l) == 1 {
		switch l[0] {
		case "https://a.example":
			v.G.Origins = "A"
		case "https://b.example":
			v.G.Origins = "B"
		}
	}
	v.G.Playback = map[bool]string{true: "on", false: "off"}[g["playback"] == true]
	r.G = vf12Digest(g, "pprofAllowOrigins", "playback")
	_, d := get("/v3/config/pathdefaults/get")
	v.D.MaxReaders = vf12Num(d["maxReaders"])
	v.D.RDA, _ = d["recordDeleteAfter"].(string)
	if v.D.RDA == "1h0m0s" {
		v.D.RDA = "1h"
	}
	if v.D.RDA == "2h0m0s" {
		v.D.RDA = "2h"
	}
	r.D = vf12Digest(d, "maxReaders", "recordDeleteAfter")
	for _, n := range append([]string{"ref"}, vf12Names...) {
		st, p := get("/v3/config/paths/get/" + n)
		if st != 200 {
			if n != "ref" {
				v.Paths[n] = vf12PathView{MaxReaders: "absent", Override: "absent", Ports: "absent"}
				r.Paths[n] = "absent"
			}
			continue
		}
		dg := vf12Digest(p, "maxReaders", "overridePublisher", "name", "recordDeleteAfter", "rtspUDPSourcePortRange")
		if n == "ref" {
			r.Path = dg
			continue
		}
		v.Paths[n] = vf12PathView{MaxReaders: vf12Num(p["maxReaders"]), Override: map[bool]string{true: "t", false: "f"}[p["overridePublisher"] == true],
			Ports: vf12PortsName(p["rtspUDPSourcePortRange"])}
		r.Paths[n] = dg
	}
	return v, r
}

func vf12Num(x any) string {
	if f, ok := x.(float64); ok {
		return strconv.Itoa(int(f))
	}
	return "?"
}

func vf12Exec(t testing.TB, r *vf12Run) {
	dir := t.TempDir()
	ports := &vf13Ports{used: map[int]bool{}}
	api := "127.0.0.1:" + strconv.Itoa(ports.tcp(t))
	y := "logLevel: error\napi: yes\napiAddress: " + api + "\n" +
		"pprof: yes\npprofAddress: 127.0.0.1:" + strconv.Itoa(ports.tcp(t)) + "\npprofAllowOrigins: ['https://a.example']\n" +
		"playback: yes\nplaybackAddress: 127.0.0.1:" + strconv.Itoa(ports.tcp(t)) + "\n" +
		"rtsp: no\nrtmp: no\nhls: no\nwebrtc: no\nsrt: no\nmoq: no\n" +
		"pathDefaults:\n  recordDeleteAfter: 1h\n" +
		"paths:\n  ref:\n"
	cf := filepath.Join(dir, "c.yml")
	if err := os.WriteFile(cf, []byte(y), 0o600); err != nil {
		t.Fatal(err)
	}
	p, ok := New([]string{cf})
	if !ok {
		t.Fatalf("verif: core does not start")
	}
	defer p.Close()
	tr := &http.Transport{}
	defer tr.CloseIdleConnections()
	c := &vf12Client{t: t, base: "http://" + api, hc: &http.Client{Transport: tr, Timeout: 10 * time.Second}}
	_, r.Rest0 = c.observe()
	// the reference path has given the digest of an untouched path; remove it so that the run
	// starts from an EMPTY path store (an empty, non-nil map is a different object from a nil or
	// a populated one for the clone/validate/commit sequence behind every edit)
	if st, _ := c.do(http.MethodDelete, "/v3/config/paths/delete/ref", nil); st != 200 {
		t.Fatalf("verif: cannot delete the reference path (status %d)", st)
	}
	c.do(http.MethodDelete, "/v3/config/paths/delete/verif-no-such-path", nil)
	r.Steps = []vf12Step{}
	for _, op := range r.Ops {
		var st int
		var b []byte
		switch op.Kind {
		case "PatchGlobal":
			st, b = c.do(http.MethodPatch, "/v3/config/global/patch", vf12Body(op))
		case "PatchDefaults":
			st, b = c.do(http.MethodPatch, "/v3/config/pathdefaults/patch", vf12Body(op))
		case "AddPath":
			st, b = c.do(http.MethodPost, "/v3/config/paths/add/"+op.Name, vf12Body(op))
		case "PatchPath":
			st, b = c.do(http.MethodPatch, "/v3/config/paths/patch/"+op.Name, vf12Body(op))
		case "ReplacePath":
			st, b = c.do(http.MethodPost, "/v3/config/paths/replace/"+op.Name, vf12Body(op))
		case "DeletePath":
			st, b = c.do(http.MethodDelete, "/v3/config/paths/delete/"+op.Name, nil)
		}
		s := vf12Step{Op: op, Status: st, Body: string(b)}
		if len(s.Body) > 200 {
			s.Body = s.Body[:200]
		}
		// read immediately after the answer ...
		s.ViewNow, _ = c.observe()
		// ... and after the core has finished applying the edit: a request that goes through the
		// core's event loop is only answered when the loop is free again
		c.do(http.MethodDelete, "/v3/config/paths/delete/verif-no-such-path", nil)
		s.View, s.Rest = c.observe()
		r.Steps = append(r.Steps, s)
	}
	r.Ops = nil
}

func TestVerif_C12_Replay(t *testing.T) {
	vfpInstallHooks()
	out := verifrt.NewOut(t)
	defer out.Close()
	verifrt.ForEachCase(t, func(raw []byte) {
		var r vf12Run
		verifrt.Decode(t, raw, &r)
		vf12Exec(t, &r)
		out.Emit(&r)
	})
}
