package conf

// Verification harness for C11 (configuration copies are independent). Injected by /verif through
// -overlay. Every mutation path into a clone of a fully populated conf.Conf / conf.Path is enumerated
// by reflection over the REAL types (fields, pointer targets, slice elements, map values, values held
// by interfaces such as OptionalPath.Values); for each path and each mutation operation of the spec's
// table (ConfStore.tla OpsOf) a fresh clone is mutated and what the ORIGINAL reads is recorded.
// Second recorder: edits rejected by Validate, applied the way Core applies API edits.
// The tests only record; TLC evaluates IndependentObs / RejectedObs on the records.
// Uses the helpers of zz_verif_c08_test.go (vf08Dump, vf08Hash, vf08LoadTables, vf08NewBase).

import (
	"fmt"
	"reflect"
	"regexp"
	"sort"
	"strconv"
	"strings"
	"testing"

	"github.com/bluenviron/mediamtx/internal/conf/jsonwrapper"
	"github.com/bluenviron/mediamtx/internal/verifrt"
)

// ---------------------------------------------------------------- a fully populated configuration

var vf11OptionalPathType = reflect.TypeOf(OptionalPath{})

// vf11Variant selects how containers are populated:
//
//	full      lists of 2 with spare capacity (cap 4), maps of 2
//	empty     every list and map empty but NOT nil (cap 0), e.g. OptionalPaths after the last path was deleted
//	emptycap  every list of zero length with spare capacity (cap 4), maps empty but not nil
var vf11Variant = "full"

func vf11Populate(v reflect.Value, salt int) {
	t := v.Type()
	switch v.Kind() {
	case reflect.Bool:
		v.SetBool(true)
	case reflect.Int, reflect.Int8, reflect.Int16, reflect.Int32, reflect.Int64:
		v.SetInt(int64(7 + salt%3))
	case reflect.Uint, reflect.Uint8, reflect.Uint16, reflect.Uint32, reflect.Uint64:
		v.SetUint(uint64(7 + salt%3))
	case reflect.Float32, reflect.Float64:
		v.SetFloat(1.5 + float64(salt%3))
	case reflect.String:
		v.SetString("s" + strconv.Itoa(salt%3))
	case reflect.Pointer:
		if t == vf08RegexpType {
			v.Set(reflect.ValueOf(regexp.MustCompile("^x" + strconv.Itoa(salt%3) + "(.*)$")))
			return
		}
		p := reflect.New(t.Elem())
		vf11Populate(p.Elem(), salt)
		v.Set(p)
	case reflect.Slice:
		switch vf11Variant {
		case "empty":
			v.Set(reflect.MakeSlice(t, 0, 0))
		case "emptycap":
			v.Set(reflect.MakeSlice(t, 0, 4))
		default:
			s := reflect.MakeSlice(t, 2, 4) // spare capacity: an append through the copy stays in its array
			vf11Populate(s.Index(0), salt)
			vf11Populate(s.Index(1), salt+1)
			v.Set(s)
		}
	case reflect.Map:
		m := reflect.MakeMap(t)
		for i := 0; i < 2 && vf11Variant == "full"; i++ {
			k := reflect.New(t.Key()).Elem()
			switch k.Kind() {
			case reflect.String:
				k.SetString([]string{"cam", "~^re(.*)$"}[i])
			case reflect.Int, reflect.Int8, reflect.Int16, reflect.Int32, reflect.Int64:
				k.SetInt(int64(i))
			default:
				panic("vf11: unsupported map key type " + t.Key().String())
			}
			e := reflect.New(t.Elem()).Elem()
			vf11Populate(e, salt+i)
			m.SetMapIndex(k, e)
		}
		v.Set(m)
	case reflect.Struct:
		if t == vf11OptionalPathType {
			vals := newOptionalPathValues()
			vf11Populate(reflect.ValueOf(vals).Elem(), salt)
			v.Field(0).Set(reflect.ValueOf(vals))
			return
		}
		for i := 0; i < t.NumField(); i++ {
			if t.Field(i).IsExported() {
				vf11Populate(v.Field(i), salt+i%2)
			}
		}
	case reflect.Interface:
		panic("vf11: interface-typed field outside OptionalPath: " + t.String())
	default:
		panic("vf11: unsupported kind " + v.Kind().String() + " (" + t.String() + ")")
	}
}

func vf11FullConf(variant string) *Conf {
	vf11Variant = variant
	defer func() { vf11Variant = "full" }()
	c := &Conf{}
	vf11Populate(reflect.ValueOf(c).Elem(), 0)
	if variant != "full" {
		// the optional store of a path exists although the path maps of the other variants are empty:
		// one path whose own lists are empty
		op := reflect.New(vf11OptionalPathType).Elem()
		vf11Populate(op, 1)
		c.OptionalPaths["cam"] = op.Addr().Interface().(*OptionalPath)
	}
	return c
}

func vf11FullPath(variant string) *Path {
	vf11Variant = variant
	defer func() { vf11Variant = "full" }()
	p := &Path{}
	vf11Populate(reflect.ValueOf(p).Elem(), 0)
	return p
}

// ---------------------------------------------------------------- positions

type vf11Step struct {
	s    string // f field, * deref, i index, k map key, x interface content
	fidx int
	idx  int
	key  reflect.Value
	name string
}

type vf11Pos struct {
	steps   []vf11Step
	kind    string // s scalar, p pointer, l slice, m map, i interface
	through string // first interface-typed field on the way ("" if none)
	opaque  bool   // pointer whose target cannot be written from outside (*regexp.Regexp)
	fixed   bool   // not assignable itself (the pointer held by an interface)
}

func (p vf11Pos) path() string {
	var b strings.Builder
	for _, st := range p.steps {
		switch st.s {
		case "f":
			b.WriteString("." + st.name)
		case "*":
			b.WriteString(".*")
		case "i":
			b.WriteString("[" + strconv.Itoa(st.idx) + "]")
		case "k":
			b.WriteString("[" + st.name + "]")
		case "x":
			b.WriteString(".(x)")
		}
	}
	return strings.TrimPrefix(b.String(), ".")
}

func (p vf11Pos) shape() string {
	var b strings.Builder
	for _, st := range p.steps {
		b.WriteString(st.s)
	}
	return b.String()
}

func vf11KindOf(v reflect.Value) string {
	switch v.Kind() {
	case reflect.Pointer:
		return "p"
	case reflect.Slice:
		return "l"
	case reflect.Map:
		return "m"
	case reflect.Interface:
		return "i"
	case reflect.Struct:
		return "st"
	}
	return "s"
}

func vf11Walk(v reflect.Value, steps []vf11Step, through string, fixed bool, visit func(vf11Pos)) {
	cp := func(extra vf11Step) []vf11Step {
		return append(append([]vf11Step(nil), steps...), extra)
	}
	k := vf11KindOf(v)
	if k != "st" {
		visit(vf11Pos{steps: steps, kind: k, through: through, opaque: v.Type() == vf08RegexpType, fixed: fixed})
	}
	switch v.Kind() {
	case reflect.Pointer:
		if !v.IsNil() && v.Type() != vf08RegexpType {
			vf11Walk(v.Elem(), cp(vf11Step{s: "*"}), through, false, visit)
		}
	case reflect.Interface:
		if !v.IsNil() {
			vf11Walk(v.Elem(), cp(vf11Step{s: "x"}), through, true, visit)
		}
	case reflect.Slice:
		for i := 0; i < v.Len(); i++ {
			vf11Walk(v.Index(i), cp(vf11Step{s: "i", idx: i}), through, false, visit)
		}
	case reflect.Map:
		keys := v.MapKeys()
		sort.Slice(keys, func(i, j int) bool { return vf08Dump(keys[i]) < vf08Dump(keys[j]) })
		for _, key := range keys {
			vf11Walk(v.MapIndex(key), cp(vf11Step{s: "k", key: key, name: fmt.Sprint(key.Interface())}), through, false, visit)
		}
	case reflect.Struct:
		t := v.Type()
		for i := 0; i < t.NumField(); i++ {
			f := t.Field(i)
			if !f.IsExported() {
				continue
			}
			th := through
			if th == "" && f.Type.Kind() == reflect.Interface {
				th = t.Name() + "." + f.Name
			}
			vf11Walk(v.Field(i), cp(vf11Step{s: "f", fidx: i, name: f.Name}), th, false, visit)
		}
	}
}

// vf11Nav follows steps from root; it returns the value at the position and, when the last step is a
// map key, the map and key through which the position is assigned.
func vf11Nav(root reflect.Value, steps []vf11Step) (v reflect.Value, inMap reflect.Value, key reflect.Value, ok bool) {
	v = root
	for n, st := range steps {
		switch st.s {
		case "f":
			v = v.Field(st.fidx)
		case "*":
			if v.IsNil() {
				return v, inMap, key, false
			}
			v = v.Elem()
		case "x":
			if v.IsNil() {
				return v, inMap, key, false
			}
			v = v.Elem()
		case "i":
			if v.Len() <= st.idx {
				return v, inMap, key, false
			}
			v = v.Index(st.idx)
		case "k":
			e := v.MapIndex(st.key)
			if !e.IsValid() {
				return v, inMap, key, false
			}
			if n == len(steps)-1 {
				inMap, key = v, st.key
			}
			v = e
		}
	}
	return v, inMap, key, true
}

// vf11Shared: does the position hold, in original and clone, a reference to the same mutable memory?
func vf11Shared(kind string, o, c reflect.Value) bool {
	switch kind {
	case "p":
		return !o.IsNil() && !c.IsNil() && o.Type().Elem().Size() > 0 && o.Pointer() == c.Pointer()
	case "l":
		return !o.IsNil() && !c.IsNil() && o.Cap() > 0 && c.Cap() > 0 && o.Type().Elem().Size() > 0 && o.Pointer() == c.Pointer()
	case "m":
		return !o.IsNil() && !c.IsNil() && o.Pointer() == c.Pointer()
	case "i":
		if o.IsNil() || c.IsNil() {
			return false
		}
		oe, ce := o.Elem(), c.Elem()
		if oe.Kind() == reflect.Pointer && ce.Kind() == reflect.Pointer {
			return !oe.IsNil() && oe.Pointer() == ce.Pointer()
		}
	}
	return false
}

// vf11Apply performs one mutation at a position of the clone. false: not applicable here.
func vf11Apply(op string, kind string, v, inMap, key reflect.Value) bool {
	set := func(nv reflect.Value) bool {
		if inMap.IsValid() {
			inMap.SetMapIndex(key, nv)
			return true
		}
		if !v.CanSet() {
			return false
		}
		v.Set(nv)
		return true
	}
	t := v.Type()
	switch op {
	case "set":
		nv := reflect.New(t).Elem()
		switch v.Kind() {
		case reflect.Bool:
			nv.SetBool(!v.Bool())
		case reflect.Int, reflect.Int8, reflect.Int16, reflect.Int32, reflect.Int64:
			nv.SetInt(v.Int() + 1)
		case reflect.Uint, reflect.Uint8, reflect.Uint16, reflect.Uint32, reflect.Uint64:
			nv.SetUint(v.Uint() + 1)
		case reflect.Float32, reflect.Float64:
			nv.SetFloat(v.Float() + 0.25)
		case reflect.String:
			nv.SetString(v.String() + "~mutated")
		default:
			return false
		}
		return set(nv)
	case "setnil":
		if v.IsNil() {
			return false
		}
		return set(reflect.Zero(t))
	case "setnew":
		if kind != "p" {
			return false
		}
		return set(reflect.New(t.Elem()))
	case "append":
		if kind != "l" || v.IsNil() {
			return false
		}
		return set(reflect.Append(v, reflect.Zero(t.Elem())))
	case "growset":
		// reslice within the capacity and set the new element: a write into the same backing array
		if kind != "l" || v.IsNil() || v.Cap() <= v.Len() {
			return false
		}
		n := v.Len()
		if !set(v.Slice(0, n+1)) {
			return false
		}
		if inMap.IsValid() {
			return true
		}
		e := v.Index(n)
		fresh := reflect.New(e.Type()).Elem()
		vf11Variant = "empty"
		vf11Populate(fresh, 2)
		vf11Variant = "full"
		e.Set(fresh)
		return true
	case "mapins":
		if kind != "m" || v.IsNil() {
			return false
		}
		k := reflect.New(t.Key()).Elem()
		switch k.Kind() {
		case reflect.String:
			k.SetString("zz-inserted")
		default:
			k.SetInt(99)
		}
		v.SetMapIndex(k, reflect.Zero(t.Elem()))
		return true
	case "mapdel":
		if kind != "m" || v.IsNil() || v.Len() == 0 {
			return false
		}
		keys := v.MapKeys()
		sort.Slice(keys, func(i, j int) bool { return vf08Dump(keys[i]) < vf08Dump(keys[j]) })
		v.SetMapIndex(keys[0], reflect.Value{})
		return true
	}
	return false
}

type vf11Target struct {
	name  string
	build func() reflect.Value                   // pointer to a fresh fully populated original
	clone func(orig reflect.Value) reflect.Value // pointer to its clone (the REAL Clone)
}

// TestVerif_C11_Mutations: every mutation path x every operation, on Conf.Clone and Path.Clone.
func TestVerif_C11_Mutations(t *testing.T) {
	tb := vf08LoadTables(t)
	out := verifrt.NewOut(t)
	defer out.Close()
	if len(tb.ops) == 0 {
		t.Fatal("no mutation-operation table")
	}
	confClone := func(o reflect.Value) reflect.Value { return reflect.ValueOf(o.Interface().(*Conf).Clone()) }
	pathClone := func(o reflect.Value) reflect.Value { return reflect.ValueOf(o.Interface().(*Path).Clone()) }
	type target struct {
		vf11Target
		origin string
	}
	var targets []target
	for _, variant := range []string{"full", "empty", "emptycap"} {
		variant := variant
		origin := map[string]string{"full": "populated", "empty": "empty-containers", "emptycap": "zero-length-with-capacity"}[variant]
		targets = append(targets,
			target{vf11Target{"Conf.Clone", func() reflect.Value { return reflect.ValueOf(vf11FullConf(variant)) }, confClone}, origin},
			target{vf11Target{"Path.Clone", func() reflect.Value { return reflect.ValueOf(vf11FullPath(variant)) }, pathClone}, origin})
	}
	targets = append(targets,
		// configurations as they run: decoded by the real decoders and validated (nil optional fields,
		// empty lists, paths resolved by Validate); with paths, and after the last path was deleted
		target{vf11Target{"Conf.Clone", func() reflect.Value { return reflect.ValueOf(vf11Live(t)) }, confClone}, "validated"},
		target{vf11Target{"Path.Clone", func() reflect.Value { return reflect.ValueOf(vf11Live(t).Paths["cam1"]) }, pathClone}, "validated"},
		target{vf11Target{"Conf.Clone", func() reflect.Value { return reflect.ValueOf(vf11LiveNoPaths(t)) }, confClone}, "validated-no-paths"})
	realized := map[string]bool{}
	for _, tg := range targets {
		origin := tg.origin
		orig := tg.build()
		clean := vf08Hash(vf08Dump(orig))
		// is the clone equal to the original at all (the canonical dump follows pointers and interfaces)
		cl0 := tg.clone(orig)
		od, cd := vf08Dump(orig), vf08Dump(cl0)
		out.Emit(map[string]any{"rec": "cloneequal", "target": tg.name, "origin": origin, "equal": od == cd,
			"firstDifference": vf11FirstDiff(od, cd)})
		var positions []vf11Pos
		vf11Walk(cl0.Elem(), nil, "", false, func(p vf11Pos) { positions = append(positions, p) })
		npos, nrec := 0, 0
		for _, pos := range positions {
			ops, ok := tb.ops[pos.kind]
			if !ok {
				t.Fatalf("the spec has no mutation operations for cell kind %q (path %s)", pos.kind, pos.path())
			}
			npos++
			realized[pos.shape()] = true
			for _, op := range ops {
				cl := tg.clone(orig)
				ov, _, _, ook := vf11Nav(orig.Elem(), pos.steps)
				cv, inMap, key, cok := vf11Nav(cl.Elem(), pos.steps)
				if !ook || !cok {
					t.Fatalf("%s: path %s does not exist in a fresh clone", tg.name, pos.path())
				}
				shared := vf11Shared(pos.kind, ov, cv)
				readBefore := vf08Short(vf11DumpCap(ov))
				if pos.fixed && (op == "setnil" || op == "setnew") {
					continue // the pointer held by an interface is replaced by assigning the interface
				}
				if !vf11Apply(op, pos.kind, cv, inMap, key) {
					continue
				}
				after := vf08Dump(orig)
				ov2, _, _, ook2 := vf11Nav(orig.Elem(), pos.steps)
				readAfter := "(gone)"
				if ook2 {
					readAfter = vf08Short(vf11DumpCap(ov2))
				}
				rec := map[string]any{
					"rec": "mutation", "target": tg.name, "origin": origin, "path": pos.path(), "shape": pos.shape(), "kind": pos.kind, "op": op,
					"through": pos.through, "top": pos.steps[0].name,
					"origBefore": clean, "origAfter": vf08Hash(after), "readBefore": readBefore, "readAfter": readAfter,
					"shared": shared,
				}
				out.Emit(rec)
				nrec++
				if vf08Hash(after) != clean {
					orig = tg.build() // the original was changed through the copy: start from a fresh one
					if vf08Hash(vf08Dump(orig)) != clean {
						t.Fatal("populator is not deterministic")
					}
				}
			}
		}
		out.Emit(map[string]any{"rec": "summary", "target": tg.name, "origin": origin, "positions": npos, "records": nrec})
	}
	var missing []string
	for sh := range tb.shapes {
		if !realized[sh] {
			missing = append(missing, sh)
		}
	}
	sort.Strings(missing)
	if missing == nil {
		missing = []string{}
	}
	out.Emit(map[string]any{"rec": "shapes", "specShapes": len(tb.shapes), "realShapes": len(realized), "specShapesNotInRealTypes": missing})
}

// vf11DumpCap renders a value; a slice is shown up to its capacity (what its holder can reach by reslicing).
func vf11DumpCap(v reflect.Value) string {
	if v.Kind() == reflect.Slice && !v.IsNil() && v.Cap() > v.Len() {
		return vf08Dump(v) + " cap:" + vf08Dump(v.Slice(0, v.Cap()))
	}
	return vf08Dump(v)
}

func vf11FirstDiff(a, b string) string {
	if a == b {
		return ""
	}
	i := 0
	for i < len(a) && i < len(b) && a[i] == b[i] {
		i++
	}
	lo := i - 60
	if lo < 0 {
		lo = 0
	}
	ha, hb := i+40, i+40
	if ha > len(a) {
		ha = len(a)
	}
	if hb > len(b) {
		hb = len(b)
	}
	return "original ..." + a[lo:ha] + "... clone ..." + b[lo:hb] + "..."
}

// ---------------------------------------------------------------- rejected edits

// vf11Live is a valid running configuration with three paths.
func vf11Live(t testing.TB) *Conf {
	c := vf08NewBase(t)
	c.OptionalPaths = map[string]*OptionalPath{}
	for name, body := range map[string]string{
		"cam1":      `{"source":"rtsp://cam1:554/stream","sourceOnDemand":true,"maxReaders":3,"rtspUDPSourcePortRange":[10000,10100],"runOnReadRestart":true}`,
		"~^re(.*)$": `{"record":true,"recordDeleteAfter":"48h","forward":[{"dest":"rtmp://up/live"}]}`,
		"pub":       `{}`,
	} {
		var op OptionalPath
		if err := jsonwrapper.Unmarshal([]byte(body), &op); err != nil {
			t.Fatalf("scenario path %s: %v", name, err)
		}
		c.OptionalPaths[name] = &op
	}
	if err := c.Validate(nil); err != nil {
		t.Fatalf("scenario configuration is not valid: %v", err)
	}
	return c
}

// vf11LiveNoPaths is the running configuration after every path was deleted through the API
// (the path maps are empty but not nil).
func vf11LiveNoPaths(t testing.TB) *Conf {
	c := vf11Live(t)
	for _, n := range []string{"cam1", "pub", "~^re(.*)$"} {
		var e string
		c, e = vf11DoEdit(t, c, vf11Edit{"RemovePath", n, ""})
		if e != "" {
			t.Fatalf("scenario: cannot delete path %s: %s", n, e)
		}
	}
	if c.OptionalPaths == nil || len(c.OptionalPaths) != 0 {
		t.Fatalf("scenario: expected an empty, non-nil path map")
	}
	return c
}

type vf11Edit struct {
	Edit string `json:"edit"`
	Name string `json:"name"`
	Body string `json:"body"`
}

// vf11DoEdit applies an API edit the way Core does (core.go doAPIConfig*): clone the running
// configuration, apply, Validate; the running configuration is replaced only if that succeeds.
func vf11DoEdit(t testing.TB, live *Conf, e vf11Edit) (newLive *Conf, errS string) {
	newConf := live.Clone()
	var err error
	switch e.Edit {
	case "PatchGlobal":
		var og OptionalGlobal
		if err = jsonwrapper.Unmarshal([]byte(e.Body), &og); err != nil {
			t.Fatalf("scenario body %s: %v", e.Body, err)
		}
		newConf.PatchGlobal(&og)
	case "PatchPathDefaults", "AddPath", "PatchPath", "ReplacePath":
		var op OptionalPath
		if err = jsonwrapper.Unmarshal([]byte(e.Body), &op); err != nil {
			t.Fatalf("scenario body %s: %v", e.Body, err)
		}
		switch e.Edit {
		case "PatchPathDefaults":
			newConf.PatchPathDefaults(&op)
		case "AddPath":
			err = newConf.AddPath(e.Name, &op)
		case "PatchPath":
			err = newConf.PatchPath(e.Name, &op)
		case "ReplacePath":
			err = newConf.ReplacePath(e.Name, &op)
		}
	case "RemovePath":
		err = newConf.RemovePath(e.Name)
	default:
		t.Fatalf("unknown edit %s", e.Edit)
	}
	if err == nil {
		err = newConf.Validate(nil)
	}
	if err != nil {
		return live, err.Error()
	}
	return newConf, ""
}

// vf11Diff lists the places where two equal-shaped values differ.
func vf11Diff(a, b reflect.Value, path string, out *[]string) {
	if len(*out) >= 6 {
		return
	}
	if vf08Dump(a) == vf08Dump(b) {
		return
	}
	if a.Kind() != b.Kind() {
		*out = append(*out, path)
		return
	}
	switch a.Kind() {
	case reflect.Pointer, reflect.Interface:
		if a.IsNil() || b.IsNil() || a.Type() == vf08RegexpType {
			*out = append(*out, path)
			return
		}
		vf11Diff(a.Elem(), b.Elem(), path, out)
	case reflect.Struct:
		if a.Type() != b.Type() {
			*out = append(*out, path)
			return
		}
		for i := 0; i < a.NumField(); i++ {
			if a.Type().Field(i).IsExported() {
				vf11Diff(a.Field(i), b.Field(i), path+"."+a.Type().Field(i).Name, out)
			}
		}
	case reflect.Map:
		if a.IsNil() || b.IsNil() {
			*out = append(*out, path)
			return
		}
		keys := a.MapKeys()
		sort.Slice(keys, func(i, j int) bool { return vf08Dump(keys[i]) < vf08Dump(keys[j]) })
		for _, k := range keys {
			bv := b.MapIndex(k)
			if !bv.IsValid() {
				*out = append(*out, path+"["+fmt.Sprint(k.Interface())+"] (removed)")
				continue
			}
			vf11Diff(a.MapIndex(k), bv, path+"["+fmt.Sprint(k.Interface())+"]", out)
		}
		for _, k := range b.MapKeys() {
			if !a.MapIndex(k).IsValid() {
				*out = append(*out, path+"["+fmt.Sprint(k.Interface())+"] (added)")
			}
		}
	default:
		*out = append(*out, path)
	}
}

// TestVerif_C11_Rejected: "a rejected API edit leaves the running configuration untouched".
func TestVerif_C11_Rejected(t *testing.T) {
	if verifrt.ParamS("OUT2", "") == "" {
		t.Skip("VERIF_P_OUT2 not set: this test is driven by /verif/check")
	}
	out := verifrt.NewOutFile(t, verifrt.ParamS("OUT2", ""))
	defer out.Close()
	edits := []vf11Edit{
		// rejected by Validate
		{"PatchPath", "cam1", `{"source":"invalid://x"}`},
		{"PatchPath", "cam1", `{"recordPath":"/no/path/variable"}`},
		{"PatchPath", "cam1", `{"srtReadPassphrase":"short"}`},
		{"PatchPath", "cam1", `{"recordSegmentDuration":"48h"}`},
		{"PatchPath", "cam1", `{"maxReaders":9,"rtspUDPSourcePortRange":[1,2],"sourceRedirect":"/x"}`},
		{"PatchPath", "pub", `{"sourceOnDemand":true}`},
		{"PatchPath", "~^re(.*)$", `{"runOnInit":"echo"}`},
		{"PatchPath", "~^re(.*)$", `{"forward":[{"dest":"ftp://nope"}]}`},
		{"PatchPath", "missing", `{"maxReaders":1}`},
		{"ReplacePath", "cam1", `{"source":"invalid://x"}`},
		{"ReplacePath", "pub", `{"alwaysAvailable":true}`},
		{"AddPath", "new1", `{"source":"invalid://x"}`},
		{"AddPath", "bad name!", `{}`},
		{"AddPath", "cam1", `{}`},
		{"RemovePath", "missing", ``},
		{"PatchGlobal", "", `{"readTimeout":"0s"}`},
		{"PatchGlobal", "", `{"writeQueueSize":3}`},
		{"PatchGlobal", "", `{"authMethod":"http"}`},
		{"PatchGlobal", "", `{"rtspAuthMethods":[]}`},
		{"PatchGlobal", "", `{"apiAllowOrigins":["https://x"],"udpMaxPayloadSize":5000}`},
		{"PatchGlobal", "", `{"authInternalUsers":[{"user":"","pass":"","ips":[],"permissions":[]}]}`},
		{"PatchGlobal", "", `{"rtspTransports":["tcp"],"hlsAddress":""}`},
		{"PatchPathDefaults", "", `{"recordPath":"x"}`},
		{"PatchPathDefaults", "", `{"source":"bad"}`},
		{"PatchPathDefaults", "", `{"rtspUDPSourcePortRange":[1,2],"srtReadPassphrase":"short"}`},
		{"PatchPathDefaults", "", `{"rpiCameraAWBGains":[1.5,2.5],"sourceOnDemand":true}`},
		// accepted (non-vacuity: rejected = false)
		{"PatchPath", "cam1", `{"maxReaders":5}`},
		{"PatchGlobal", "", `{"logLevel":"debug"}`},
		{"RemovePath", "pub", ``},
	}
	// the same on a running configuration whose last path was deleted (empty, non-nil path maps)
	editsNoPaths := []vf11Edit{
		{"AddPath", "new1", `{"source":"invalid://x"}`},
		{"AddPath", "new1", `{"recordPath":"/no/path/variable"}`},
		{"AddPath", "bad name!", `{}`},
		{"ReplacePath", "new1", `{"source":"invalid://x"}`},
		{"ReplacePath", "~^re(", `{}`},
		{"PatchPath", "missing", `{"maxReaders":1}`},
		{"RemovePath", "missing", ``},
		{"PatchGlobal", "", `{"readTimeout":"0s"}`},
		{"PatchGlobal", "", `{"apiAllowOrigins":["https://x"],"udpMaxPayloadSize":5000}`},
		{"PatchPathDefaults", "", `{"recordPath":"x"}`},
		// accepted
		{"AddPath", "new1", `{"maxReaders":2}`},
		{"ReplacePath", "new2", `{}`},
	}
	type scenario struct {
		base  string
		build func(testing.TB) *Conf
		e     vf11Edit
	}
	var scenarios []scenario
	for _, e := range edits {
		scenarios = append(scenarios, scenario{"three-paths", vf11Live, e})
	}
	for _, e := range editsNoPaths {
		scenarios = append(scenarios, scenario{"no-paths", vf11LiveNoPaths, e})
	}
	followUp := vf11Edit{"PatchGlobal", "", `{"logLevel":"debug"}`}
	for i, sc := range scenarios {
		e := sc.e
		live := sc.build(t)
		ref := sc.build(t) // an equal configuration nobody edits
		before := vf08Dump(reflect.ValueOf(live))
		if before != vf08Dump(reflect.ValueOf(ref)) {
			t.Fatal("scenario builder is not deterministic")
		}
		newLive, errS := vf11DoEdit(t, live, e)
		after := vf08Dump(reflect.ValueOf(live))
		diffAt := []string{}
		vf11Diff(reflect.ValueOf(ref).Elem(), reflect.ValueOf(live).Elem(), "", &diffAt)
		for k := range diffAt {
			diffAt[k] = strings.TrimPrefix(diffAt[k], ".")
		}
		rec := map[string]any{
			"rec": "rejected", "n": i, "base": sc.base, "edit": e.Edit, "name": e.Name, "body": e.Body,
			"rejected": errS != "", "error": errS,
			"liveBefore": vf08Hash(before), "liveAfter": vf08Hash(after), "diffAt": diffAt,
		}
		// what the damage means: the next unrelated, valid edit either is refused because of the leftover
		// or turns the leftover into the running paths
		if errS != "" {
			l2, e2 := vf11DoEdit(t, newLive, followUp)
			r2, _ := vf11DoEdit(t, ref, followUp)
			vis := []string{}
			if e2 == "" {
				vf11Diff(reflect.ValueOf(r2.Paths), reflect.ValueOf(l2.Paths), "Paths", &vis)
			}
			rec["nextEdit"] = followUp.Edit + " " + followUp.Body
			rec["nextEditError"] = e2
			rec["nextEditPathsDiffer"] = vis
		}
		out.Emit(rec)
	}
}
