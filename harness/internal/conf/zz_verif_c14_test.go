package conf

// Verification harness for C14 (path configuration resolution). Injected by /verif through -overlay.
// The test records what conf.FindPathConf returns and, separately, what Go's regexp package says
// about (expression, name); verdicts are taken by TLC (spec/conf/PathResolveMC.tla).

import (
	"encoding/json"
	"os"
	"path/filepath"
	"regexp"
	"testing"

	"github.com/bluenviron/mediamtx/internal/verifrt"
)

type vf14Key struct {
	Idx   int    `json:"idx"`
	S     string `json:"s"`
	Regex bool   `json:"regex"`
	Src   string `json:"src"`
}

type vf14Res struct {
	OK     bool     `json:"ok"`
	Key    int      `json:"key"`
	Groups []string `json:"groups"`
}

type vf14RX struct {
	OK bool     `json:"ok"`
	G  []string `json:"g"`
}

func vf14Chars(s string) []string {
	out := []string{}
	for _, r := range s {
		out = append(out, string(r))
	}
	return out
}

// vf14Load builds the validated path configurations of one configuration set through the real
// loader (file -> conf.Load -> Validate), so that Regexp/Name are filled by the code under test.
func vf14Load(t *testing.T, dir string, keys []string) map[string]*Path {
	paths := map[string]any{}
	for _, k := range keys {
		paths[k] = map[string]any{}
	}
	byts, err := json.Marshal(map[string]any{"paths": paths})
	if err != nil {
		t.Fatal(err)
	}
	fpath := filepath.Join(dir, "c14.yml")
	if err = os.WriteFile(fpath, byts, 0o644); err != nil {
		t.Fatal(err)
	}
	c, _, err := Load(fpath, nil, nil)
	if err != nil {
		t.Fatalf("configuration set %v does not load: %v", keys, err)
	}
	if len(c.Paths) != len(keys) {
		t.Fatalf("configuration set %v loaded as %d paths", keys, len(c.Paths))
	}
	return c.Paths
}

func vf14Same(a, b vf14Res) bool {
	if a.OK != b.OK || a.Key != b.Key || len(a.Groups) != len(b.Groups) {
		return false
	}
	for i := range a.Groups {
		if a.Groups[i] != b.Groups[i] {
			return false
		}
	}
	return true
}

func TestVerif_C14_Resolve(t *testing.T) {
	out := verifrt.NewOut(t)
	defer out.Close()
	reps := verifrt.Param("REPS", 32)
	nrand := verifrt.Param("RANDOM", 200)
	rnd := verifrt.Rand(14)

	dir, err := os.MkdirTemp(os.Getenv("VERIF_WORK"), "c14-")
	if err != nil {
		t.Fatal(err)
	}
	defer os.RemoveAll(dir)

	var in struct {
		Keys  []vf14Key `json:"keys"`
		Cfgs  [][]int   `json:"cfgs"`
		Names []string  `json:"names"`
	}
	got := false
	verifrt.ForEachCase(t, func(raw []byte) {
		verifrt.Decode(t, raw, &in)
		got = true
	})
	if !got {
		t.Fatal("no input")
	}
	keyByIdx := map[int]vf14Key{}
	for _, k := range in.Keys {
		keyByIdx[k.Idx] = k
	}

	// random names outside the bounded model: mutations of keys and of ordinary names
	alphabet := []rune(" !\"#$%&'()*+,-./0123456789:;<=>?@ABCXYZ[\\]^_`abcmxyz{|}~éд")
	seeds := []string{"cam", "cam/a", "b", "c", "all", "all_others", "camera", "a/b"}
	for _, k := range in.Keys {
		seeds = append(seeds, k.S)
	}
	names := append([]string{}, in.Names...)
	for i := 0; i < nrand; i++ {
		r := []rune(seeds[rnd.IntN(len(seeds))])
		for n := rnd.IntN(4); n >= 0; n-- {
			c := alphabet[rnd.IntN(len(alphabet))]
			switch rnd.IntN(3) {
			case 0: // append
				r = append(r, c)
			case 1: // replace
				if len(r) > 0 {
					r[rnd.IntN(len(r))] = c
				}
			default: // insert
				p := rnd.IntN(len(r) + 1)
				r = append(r[:p], append([]rune{c}, r[p:]...)...)
			}
		}
		names = append(names, string(r))
	}

	// ground truth of matching: Go's regexp alone
	res := map[int]*regexp.Regexp{}
	for _, k := range in.Keys {
		if k.Regex {
			res[k.Idx] = regexp.MustCompile(k.Src)
		}
	}
	for n, name := range names {
		rx := make([]vf14RX, len(in.Keys))
		for i, k := range in.Keys {
			rx[i] = vf14RX{G: []string{}}
			if re := res[k.Idx]; re != nil {
				if m := re.FindStringSubmatch(name); m != nil {
					rx[i] = vf14RX{OK: true, G: append([]string{}, m[1:]...)}
				}
			}
		}
		out.Emit(map[string]any{"t": "name", "n": n, "s": name, "chars": vf14Chars(name), "rx": rx})
	}

	for ci, cfg := range in.Cfgs {
		keys := make([]string, len(cfg))
		for i, idx := range cfg {
			keys[i] = keyByIdx[idx].S
		}
		loaded := vf14Load(t, dir, keys)
		idxOf := map[*Path]int{}
		for i, idx := range cfg {
			idxOf[loaded[keys[i]]] = idx
		}
		all := make([][]vf14Res, len(names))
		order := make([]int, len(keys))
		for n, name := range names {
			distinct := []vf14Res{}
			for r := 0; r < reps; r++ {
				// a freshly built map: random capacity hint, random insertion order
				for i := range order {
					order[i] = i
				}
				rnd.Shuffle(len(order), func(i, j int) { order[i], order[j] = order[j], order[i] })
				m := make(map[string]*Path, rnd.IntN(12))
				for _, i := range order {
					m[keys[i]] = loaded[keys[i]]
				}
				pc, groups, err := FindPathConf(m, name)
				o := vf14Res{Groups: []string{}}
				if err == nil {
					o.OK = true
					o.Key = idxOf[pc] // 0 when the returned pointer is not an entry of the map
					if len(groups) > 1 {
						o.Groups = append(o.Groups, groups[1:]...)
					}
				}
				dup := false
				for _, d := range distinct {
					if vf14Same(d, o) {
						dup = true
						break
					}
				}
				if !dup {
					distinct = append(distinct, o)
				}
			}
			all[n] = distinct
		}
		out.Emit(map[string]any{"t": "obs", "c": ci, "res": all})
	}
}
