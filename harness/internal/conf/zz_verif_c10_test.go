package conf

// Verification harness for C10 (loading any configuration input never panics). Injected by
// /verif through -overlay. The tests record what the real conf.Load does with every case of
// spec/conf/ConfValidate.tla (abstract configurations and robustness shape classes, made
// concrete by checks/C10.py); verdicts are taken by TLC (spec/conf/TraceConfValidate.tla).
//
// Every case is executed in a CHILD process (the test binary re-executed in child mode) under
// recover: a recovered panic is recorded with its message, an unrecoverable crash of the child
// is recorded by the parent for the case that was in flight, and the child is restarted after it.

import (
	"bufio"
	"bytes"
	"encoding/base64"
	"encoding/json"
	"fmt"
	"os"
	"os/exec"
	"path/filepath"
	"reflect"
	"sort"
	"strconv"
	"strings"
	"testing"
	"time"

	"golang.org/x/crypto/nacl/secretbox"

	"github.com/bluenviron/mediamtx/internal/conf/env"
	"github.com/bluenviron/mediamtx/internal/verifrt"
)

// ---------------------------------------------------------------------------- case format

type vf10Enc struct {
	Key  string `json:"key"`  // key text (as given in the environment variable)
	Kind string `json:"kind"` // valid | random | flip
	N    int    `json:"n"`    // random: number of cipher bytes; flip: index of the byte to change
	B64  string `json:"b64"`  // valid | badchar | badpad | newline
}

type vf10File struct {
	Kind  string          `json:"kind"` // none | text | b64 | doc | deep
	Text  string          `json:"text"`
	B64   string          `json:"b64"`
	Doc   json.RawMessage `json:"doc"`
	Style string          `json:"style"` // block | flow
	Shape string          `json:"shape"` // deep: flowSeq | flowMap | blockMap | blockSeq
	Depth int             `json:"depth"`
	Under string          `json:"under"`
}

type vf10Case struct {
	ID   int               `json:"id"`
	File vf10File          `json:"file"`
	Enc  []vf10Enc         `json:"enc"` // applied in order (inner layer first)
	Env  map[string]string `json:"env"`
	// optional: the environment without the variables under test; the case is then loaded a second
	// time with it and the observation says whether both loads gave the same configuration
	BaseEnv *map[string]string `json:"baseEnv,omitempty"`
	// history runs: the case continues the process state left by the previous case (same environment),
	// nothing is reset in between
	Keep bool `json:"keep"`
}

type vf10I64 struct {
	Neg bool     `json:"neg"`
	H   []string `json:"h"` // 16 hexadecimal digits of the magnitude, most significant first
}

type vf10PathObs struct {
	Name       []string `json:"name"` // characters
	Source     string   `json:"source"`
	OnDemand   bool     `json:"onDemand"`
	RecordPath []string `json:"recordPath"` // characters
	Seg        vf10I64  `json:"seg"`
	Del        vf10I64  `json:"del"`
	CamID      string   `json:"camID"`
	Secondary  bool     `json:"secondary"`
}

type vf10TimeoutObs struct {
	Name string  `json:"name"`
	V    vf10I64 `json:"v"`
}

type vf10ConfObs struct {
	RT       vf10I64          `json:"rt"`
	WT       vf10I64          `json:"wt"`
	WQ       vf10I64          `json:"wq"`
	Playback bool             `json:"playback"`
	NPaths   int              `json:"npaths"`
	Paths    []vf10PathObs    `json:"paths"`
	Other    []vf10TimeoutObs `json:"otherTimeouts"`
}

type vf10Obs struct {
	ID              int          `json:"id"`
	Crash           bool         `json:"crash"`
	Panic           bool         `json:"panic"`
	Msg             string       `json:"msg"`
	Err             bool         `json:"err"`
	ErrMsg          string       `json:"errMsg"`
	OK              bool         `json:"ok"`
	Conf            *vf10ConfObs `json:"conf,omitempty"`
	DefaultsMutated bool         `json:"defaultsMutated"`
	FileLen         int          `json:"fileLen"`
	Micros          int64        `json:"micros"`
	// only with baseEnv: both loads returned a configuration and they are reflect.DeepEqual
	Compared bool   `json:"compared"`
	Same     bool   `json:"same"`
	BaseErr  string `json:"baseErr,omitempty"`
}

func vf10Hex(v int64) vf10I64 {
	neg := v < 0
	var m uint64
	if neg {
		m = uint64(-(v + 1)) + 1
	} else {
		m = uint64(v)
	}
	s := fmt.Sprintf("%016x", m)
	return vf10I64{Neg: neg, H: strings.Split(s, "")}
}

func vf10Chars(s string) []string {
	out := []string{}
	for _, r := range s {
		out = append(out, string(r))
	}
	return out
}

// ---------------------------------------------------------------------------- YAML writer

func vf10YamlScalar(v any) string {
	switch x := v.(type) {
	case nil:
		return "null"
	case bool:
		if x {
			return "true"
		}
		return "false"
	case json.Number:
		return x.String()
	case string:
		b, _ := json.Marshal(x) // a JSON string is a YAML double-quoted scalar
		return string(b)
	}
	return "null"
}

func vf10YamlKey(k string) string {
	plain := k != ""
	for _, r := range k {
		if !(r >= 'a' && r <= 'z' || r >= 'A' && r <= 'Z' || r >= '0' && r <= '9' || r == '_') {
			plain = false
		}
	}
	if plain && (k[0] < '0' || k[0] > '9') {
		switch strings.ToLower(k) {
		case "yes", "no", "on", "off", "true", "false", "null", "y", "n":
		default:
			return k
		}
	}
	b, _ := json.Marshal(k)
	return string(b)
}

func vf10YamlBlock(b *strings.Builder, v any, indent int) {
	pad := strings.Repeat("  ", indent)
	switch x := v.(type) {
	case map[string]any:
		keys := make([]string, 0, len(x))
		for k := range x {
			keys = append(keys, k)
		}
		sort.Strings(keys)
		for _, k := range keys {
			b.WriteString(pad + vf10YamlKey(k) + ":")
			vf10YamlValue(b, x[k], indent)
		}
	case []any:
		for _, e := range x {
			b.WriteString(pad + "-")
			switch y := e.(type) {
			case map[string]any:
				if len(y) == 0 {
					b.WriteString(" {}\n")
				} else {
					b.WriteString("\n")
					vf10YamlBlock(b, y, indent+1)
				}
			case []any:
				if len(y) == 0 {
					b.WriteString(" []\n")
				} else {
					b.WriteString("\n")
					vf10YamlBlock(b, y, indent+1)
				}
			default:
				b.WriteString(" " + vf10YamlScalar(e) + "\n")
			}
		}
	}
}

func vf10YamlValue(b *strings.Builder, v any, indent int) {
	switch y := v.(type) {
	case map[string]any:
		if len(y) == 0 {
			b.WriteString(" {}\n")
		} else {
			b.WriteString("\n")
			vf10YamlBlock(b, y, indent+1)
		}
	case []any:
		if len(y) == 0 {
			b.WriteString(" []\n")
		} else {
			b.WriteString("\n")
			vf10YamlBlock(b, y, indent+1)
		}
	default:
		b.WriteString(" " + vf10YamlScalar(v) + "\n")
	}
}

func vf10Deep(f vf10File) string {
	var b strings.Builder
	prefix := ""
	switch f.Under {
	case "top":
	default:
		prefix = f.Under + ": "
	}
	d := f.Depth
	switch f.Shape {
	case "flowSeq":
		b.WriteString(prefix + strings.Repeat("[", d) + strings.Repeat("]", d) + "\n")
	case "flowMap":
		b.WriteString(prefix + strings.Repeat("{a: ", d) + "1" + strings.Repeat("}", d) + "\n")
	case "blockMap":
		start := 0
		if prefix != "" {
			b.WriteString(f.Under + ":\n")
			start = 1
		}
		for i := 0; i < d; i++ {
			b.WriteString(strings.Repeat(" ", start+i) + "a:\n")
		}
	case "blockSeq":
		if prefix != "" {
			b.WriteString(f.Under + ":\n  ")
		}
		b.WriteString(strings.Repeat("- ", d) + "a\n")
	}
	return b.String()
}

func vf10Plain(f vf10File) ([]byte, bool, error) {
	switch f.Kind {
	case "none":
		return nil, false, nil
	case "text":
		return []byte(f.Text), true, nil
	case "b64":
		b, err := base64.StdEncoding.DecodeString(f.B64)
		return b, true, err
	case "doc":
		if f.Style == "flow" {
			return []byte(f.Doc), true, nil
		}
		dec := json.NewDecoder(bytes.NewReader(f.Doc))
		dec.UseNumber()
		var v any
		if err := dec.Decode(&v); err != nil {
			return nil, true, err
		}
		var b strings.Builder
		switch x := v.(type) {
		case map[string]any:
			if len(x) == 0 {
				b.WriteString("{}\n")
			} else {
				vf10YamlBlock(&b, x, 0)
			}
		case []any:
			if len(x) == 0 {
				b.WriteString("[]\n")
			} else {
				vf10YamlBlock(&b, x, 0)
			}
		default:
			b.WriteString(vf10YamlScalar(v) + "\n")
		}
		return []byte(b.String()), true, nil
	case "deep":
		return []byte(vf10Deep(f)), true, nil
	}
	return nil, false, fmt.Errorf("unknown file kind %q", f.Kind)
}

func vf10Encrypt(id int, layer int, e vf10Enc, plain []byte) []byte {
	rnd := verifrt.Rand(uint64(1000003*id + layer + 10))
	var cipher []byte
	switch e.Kind {
	case "random":
		cipher = make([]byte, e.N)
		for i := range cipher {
			cipher[i] = byte(rnd.IntN(256))
		}
	default:
		var key [32]byte
		copy(key[:], e.Key)
		var nonce [24]byte
		for i := range nonce {
			nonce[i] = byte(rnd.IntN(256))
		}
		cipher = secretbox.Seal(nonce[:], plain, &nonce, &key)
		if e.Kind == "flip" {
			i := e.N % len(cipher)
			cipher[i] ^= 0x41
		}
	}
	s := base64.StdEncoding.EncodeToString(cipher)
	switch e.B64 {
	case "badchar":
		s = s[:len(s)/2] + "!" + s[len(s)/2:]
	case "badpad":
		if strings.HasSuffix(s, "=") {
			s = strings.TrimRight(s, "=")
		} else {
			s += "="
		}
	case "newline":
		s += "\n"
	}
	return []byte(s)
}

// VfC10FileBytes builds the bytes of the configuration file of a case.
func vf10FileBytes(c *vf10Case) ([]byte, bool, error) {
	b, has, err := vf10Plain(c.File)
	if err != nil {
		return nil, has, err
	}
	for i, e := range c.Enc {
		b = vf10Encrypt(c.ID, i, e, b)
		has = true
	}
	return b, has, nil
}

// ---------------------------------------------------------------------------- observation

var vf10OtherTimeoutFields = []string{
	"WebRTCSTUNGatherTimeout", "WebRTCHandshakeTimeout", "WebRTCTrackGatherTimeout",
}

var vf10OtherPathTimeoutFields = []string{
	"SourceOnDemandStartTimeout", "RunOnDemandStartTimeout", "WHEPSTUNGatherTimeout",
	"WHEPHandshakeTimeout", "WHEPTrackGatherTimeout",
}

func vf10Observe(cf *Conf) *vf10ConfObs {
	o := &vf10ConfObs{
		RT:       vf10Hex(int64(cf.ReadTimeout)),
		WT:       vf10Hex(int64(cf.WriteTimeout)),
		WQ:       vf10Hex(int64(cf.WriteQueueSize)),
		Playback: cf.Playback,
		NPaths:   len(cf.Paths),
		Paths:    []vf10PathObs{},
		Other:    []vf10TimeoutObs{},
	}
	rv := reflect.ValueOf(cf).Elem()
	for _, n := range vf10OtherTimeoutFields {
		if f := rv.FieldByName(n); f.IsValid() {
			o.Other = append(o.Other, vf10TimeoutObs{Name: n, V: vf10Hex(f.Int())})
		}
	}
	names := make([]string, 0, len(cf.Paths))
	for n := range cf.Paths {
		names = append(names, n)
	}
	sort.Strings(names)
	for i, n := range names {
		if i >= 6 {
			break
		}
		p := cf.Paths[n]
		if p == nil {
			continue
		}
		o.Paths = append(o.Paths, vf10PathObs{
			Name:       vf10Chars(n),
			Source:     p.Source,
			OnDemand:   p.SourceOnDemand,
			RecordPath: vf10Chars(p.RecordPath),
			Seg:        vf10Hex(int64(p.RecordSegmentDuration)),
			Del:        vf10Hex(int64(p.RecordDeleteAfter)),
			CamID:      strconv.FormatUint(uint64(p.RPICameraCamID), 10),
			Secondary:  p.RPICameraSecondary,
		})
		pv := reflect.ValueOf(p).Elem()
		for _, fn := range vf10OtherPathTimeoutFields {
			if f := pv.FieldByName(fn); f.IsValid() {
				o.Other = append(o.Other, vf10TimeoutObs{Name: "paths." + n + "." + fn, V: vf10Hex(f.Int())})
			}
		}
	}
	return o
}

func vf10Trunc(s string, n int) string {
	if len(s) > n {
		return s[:n] + "..."
	}
	return s
}

var vf10Users []byte

func vf10PristineUsers() []AuthInternalUser {
	if vf10Users == nil {
		vf10Users, _ = json.Marshal(defaultAuthInternalUsers)
	}
	var out []AuthInternalUser
	if err := json.Unmarshal(vf10Users, &out); err != nil {
		panic(err)
	}
	return out
}

func vf10UsersJSON() []byte {
	b, _ := json.Marshal(defaultAuthInternalUsers)
	return bytes.ReplaceAll(b, []byte("null"), []byte("[]"))
}

func vf10RunCase(c *vf10Case, dir string) vf10Obs {
	obs := vf10Obs{ID: c.ID}
	byts, has, err := vf10FileBytes(c)
	if err != nil {
		panic(fmt.Sprintf("verif C10: cannot build the file of case %d: %v", c.ID, err))
	}
	fp := ""
	if has {
		fp = filepath.Join(dir, "mediamtx.yml")
		if err = os.WriteFile(fp, byts, 0o600); err != nil {
			panic(err)
		}
		obs.FileLen = len(byts)
	}
	// the built-in user list is a package variable that Load hands out and that the environment
	// loader can write through: every load gets a pristine copy, as in a fresh process
	// (Load itself turns the nil lists inside it into empty lists: not counted as a change)
	load := func(env map[string]string) (cf *Conf, err error, panicked bool, msg string, mutated bool) {
		for k, v := range env {
			os.Setenv(k, v)
		}
		defer func() {
			for k := range env {
				os.Unsetenv(k)
			}
		}()
		if !c.Keep {
			defaultAuthInternalUsers = vf10PristineUsers()
		}
		before := vf10UsersJSON()
		panicked, msg = verifrt.Catch(func() {
			cf, _, err = Load(fp, nil, nil)
		})
		mutated = !bytes.Equal(before, vf10UsersJSON())
		return
	}

	t0 := time.Now()
	cf, err, panicked, msg, mutated := load(c.Env)
	obs.Micros = time.Since(t0).Microseconds()
	obs.Panic = panicked
	obs.Msg = vf10Trunc(msg, 300)
	obs.DefaultsMutated = mutated
	if !panicked {
		if err != nil {
			obs.Err = true
			obs.ErrMsg = vf10Trunc(err.Error(), 300)
		} else if cf != nil {
			obs.OK = true
			obs.Conf = vf10Observe(cf)
		}
	}
	if c.BaseEnv != nil && obs.OK {
		cf2, err2, panicked2, msg2, _ := load(*c.BaseEnv)
		switch {
		case panicked2:
			obs.BaseErr = "panic: " + vf10Trunc(msg2, 200)
		case err2 != nil:
			obs.BaseErr = vf10Trunc(err2.Error(), 200)
		case cf2 != nil:
			obs.Compared = true
			obs.Same = reflect.DeepEqual(cf, cf2)
		}
	}
	return obs
}

// ---------------------------------------------------------------------------- child / parent

func vf10ReadCasesFile(t testing.TB, path string) []vf10Case {
	var cases []vf10Case
	verifrt.ForEachCaseFile(t, path, func(raw []byte) {
		var c vf10Case
		verifrt.Decode(t, raw, &c)
		cases = append(cases, c)
	})
	return cases
}

// TestVerif_C10_Child executes the cases from index VERIF_C10_SKIP on and appends one
// "start" line and one observation line per case to VERIF_C10_CHILDOUT (unbuffered).
func TestVerif_C10_Child(t *testing.T) {
	if os.Getenv("VERIF_C10_CHILD") != "1" {
		t.Skip("child mode only")
	}
	skip, _ := strconv.Atoi(os.Getenv("VERIF_C10_SKIP"))
	f, err := os.OpenFile(os.Getenv("VERIF_C10_CHILDOUT"), os.O_APPEND|os.O_CREATE|os.O_WRONLY, 0o600)
	if err != nil {
		t.Fatal(err)
	}
	defer f.Close()
	dir := t.TempDir()
	cases := vf10ReadCasesFile(t, os.Getenv("VERIF_C10_CASES"))
	for i := skip; i < len(cases); i++ {
		fmt.Fprintf(f, "{\"start\":%d}\n", cases[i].ID)
		obs := vf10RunCase(&cases[i], dir)
		b, _ := json.Marshal(obs)
		f.Write(append(b, '\n'))
	}
}

// TestVerif_C10_Run is the parent: it runs children until every case has an observation.
func TestVerif_C10_Run(t *testing.T) {
	vf10Parent(t, os.Getenv("VERIF_CASES"), os.Getenv("VERIF_OUT"))
}

// TestVerif_C10_History is the same parent for the history sequences: the steps of all sequences are
// executed in order by ONE child process (restarted only if it dies), so that whatever a load leaves
// behind in the process is there for the next one.
func TestVerif_C10_History(t *testing.T) {
	vf10Parent(t, verifrt.ParamS("HISTIN", ""), verifrt.ParamS("HISTOUT", ""))
}

func vf10Parent(t *testing.T, casesPath string, outPath string) {
	out := verifrt.NewOutFile(t, outPath)
	defer out.Close()
	cases := vf10ReadCasesFile(t, casesPath)
	index := map[int]int{}
	for i, c := range cases {
		index[c.ID] = i
	}
	childOut := filepath.Join(t.TempDir(), "child.ndjson")
	skip := 0
	restarts := 0
	for skip < len(cases) {
		os.Remove(childOut)
		cmd := exec.Command(os.Args[0], "-test.run=^TestVerif_C10_Child$", "-test.timeout=1500s")
		cmd.Env = []string{}
		for _, kv := range os.Environ() {
			if strings.HasPrefix(kv, "MTX_") || strings.HasPrefix(kv, "RTSP_") {
				continue
			}
			cmd.Env = append(cmd.Env, kv)
		}
		cmd.Env = append(cmd.Env, "VERIF_C10_CHILD=1", "VERIF_C10_SKIP="+strconv.Itoa(skip), "VERIF_C10_CHILDOUT="+childOut,
			"VERIF_C10_CASES="+casesPath)
		var stderr bytes.Buffer
		cmd.Stdout = &stderr
		cmd.Stderr = &stderr
		runErr := cmd.Run()

		inFlight := -1
		done := 0
		f, err := os.Open(childOut)
		if err != nil {
			t.Fatalf("child produced no output: %v\n%s", runErr, vf10Trunc(stderr.String(), 3000))
		}
		sc := bufio.NewScanner(f)
		sc.Buffer(make([]byte, 1<<20), 1<<28)
		for sc.Scan() {
			line := sc.Bytes()
			if bytes.HasPrefix(line, []byte("{\"start\":")) {
				var s struct {
					Start int `json:"start"`
				}
				if json.Unmarshal(line, &s) == nil {
					inFlight = s.Start
				}
				continue
			}
			var o vf10Obs
			if err = json.Unmarshal(line, &o); err != nil {
				continue // a line cut short by the crash
			}
			out.Emit(o)
			done++
			if o.ID == inFlight {
				inFlight = -1
			}
		}
		f.Close()
		if runErr == nil && inFlight == -1 {
			if skip+done != len(cases) {
				t.Fatalf("child ended after %d of %d cases", skip+done, len(cases))
			}
			break
		}
		if inFlight == -1 {
			t.Fatalf("child failed outside a case: %v\n%s", runErr, vf10Trunc(stderr.String(), 3000))
		}
		// the child died while executing case inFlight: that is an observation
		tail := stderr.String()
		if i := strings.Index(tail, "panic:"); i >= 0 {
			tail = tail[i:]
		} else if i = strings.Index(tail, "fatal error:"); i >= 0 {
			tail = tail[i:]
		}
		out.Emit(vf10Obs{ID: inFlight, Crash: true, Msg: vf10Trunc(tail, 400)})
		skip = index[inFlight] + 1
		restarts++
		if restarts > 200 {
			t.Fatalf("more than 200 child crashes")
		}
	}
}

// ---------------------------------------------------------------------------- parameter table

type vf10Param struct {
	Addr []string `json:"addr"` // JSON tags; "*" = map key, "#" = list index
	Kind string   `json:"kind"`
	Type string   `json:"type"`
	Ptr  bool     `json:"ptr"` // the Go field is a pointer (deprecated parameters, every field of a paths entry)
	Elem string   `json:"elem"`
}

var vf10EnvUnmarshaler = reflect.TypeOf((*env.Unmarshaler)(nil)).Elem()

func vf10Kind(t reflect.Type) (kind string, elem string) {
	if t == reflect.TypeOf(OptionalPath{}) {
		return "optpath", ""
	}
	if reflect.PointerTo(t).Implements(vf10EnvUnmarshaler) {
		switch t.Name() {
		case "Duration":
			return "duration", ""
		case "StringSize":
			return "stringsize", ""
		case "Credential":
			return "credential", ""
		}
		if t.Kind() == reflect.Slice || t.Kind() == reflect.Map {
			return "ulist", "unmarshaler"
		}
		return "enum", ""
	}
	switch t.Kind() {
	case reflect.String:
		return "string", ""
	case reflect.Int:
		return "int", ""
	case reflect.Uint:
		return "uint", ""
	case reflect.Float64:
		return "float", ""
	case reflect.Bool:
		return "bool", ""
	case reflect.Struct:
		return "struct", ""
	case reflect.Map:
		return "map", ""
	case reflect.Slice:
		switch t.Elem().Kind() {
		case reflect.String:
			return "strlist", "string"
		case reflect.Uint:
			return "uintlist", "uint"
		case reflect.Float64:
			return "floatlist", "float"
		case reflect.Struct:
			return "structlist", "struct"
		}
	}
	return "unsupported", ""
}

func vf10Walk(t reflect.Type, addr []string, ptr bool, emit func(vf10Param)) {
	if t.Kind() == reflect.Pointer {
		vf10Walk(t.Elem(), addr, true, emit)
		return
	}
	kind, elem := vf10Kind(t)
	if len(addr) > 0 {
		emit(vf10Param{Addr: append([]string(nil), addr...), Kind: kind, Type: t.String(), Ptr: ptr, Elem: elem})
	}
	switch kind {
	case "struct":
		for i := 0; i < t.NumField(); i++ {
			f := t.Field(i)
			tag := strings.TrimSuffix(f.Tag.Get("json"), ",omitempty")
			if tag == "-" || tag == "" {
				continue
			}
			vf10Walk(f.Type, append(addr, tag), false, emit)
		}
	case "map":
		vf10Walk(t.Elem(), append(addr, "*"), false, emit)
	case "optpath":
		vt := optionalPathValuesType
		for i := 0; i < vt.NumField(); i++ {
			f := vt.Field(i)
			tag := strings.TrimSuffix(f.Tag.Get("json"), ",omitempty")
			vf10Walk(f.Type, append(addr, tag), false, emit)
		}
	case "structlist":
		vf10Walk(t.Elem(), append(addr, "#"), false, emit)
	}
}

// TestVerif_C10_Params lists every parameter of the real configuration structs.
func TestVerif_C10_Params(t *testing.T) {
	out := verifrt.NewOut(t)
	defer out.Close()
	vf10Walk(reflect.TypeOf(Conf{}), nil, false, func(p vf10Param) { out.Emit(p) })
}

// TestVerif_C10_Files writes the concrete bytes of the initial and the replacing configuration
// file of the hot-reload cases (executed by the harness in internal/core).
func TestVerif_C10_Files(t *testing.T) {
	out := verifrt.NewOutFile(t, verifrt.ParamS("FILESOUT", ""))
	defer out.Close()
	verifrt.ForEachCaseFile(t, verifrt.ParamS("FILESIN", ""), func(raw []byte) {
		var c struct {
			vf10Case
			Init    vf10File  `json:"init"`
			InitEnc []vf10Enc `json:"initEnc"`
			// history: the contents submitted one after the other (the case's own file when empty)
			Seq []struct {
				Same bool      `json:"same"` // the case's own content
				File vf10File  `json:"file"`
				Enc  []vf10Enc `json:"enc"`
			} `json:"seq"`
		}
		verifrt.Decode(t, raw, &c)
		byts, _, err := vf10FileBytes(&c.vf10Case)
		if err != nil {
			t.Fatalf("case %d: %v", c.ID, err)
		}
		ic := vf10Case{ID: c.ID + 500000, File: c.Init, Enc: c.InitEnc}
		ibyts, _, err := vf10FileBytes(&ic)
		if err != nil {
			t.Fatalf("case %d: %v", c.ID, err)
		}
		files := []string{}
		for k, st := range c.Seq {
			if st.Same {
				files = append(files, base64.StdEncoding.EncodeToString(byts))
				continue
			}
			sc := vf10Case{ID: c.ID + 1000000*(k+1), File: st.File, Enc: st.Enc}
			sb, _, serr := vf10FileBytes(&sc)
			if serr != nil {
				t.Fatalf("case %d: %v", c.ID, serr)
			}
			files = append(files, base64.StdEncoding.EncodeToString(sb))
		}
		out.Emit(map[string]any{
			"id": c.ID, "env": c.Env,
			"init": base64.StdEncoding.EncodeToString(ibyts),
			"file": base64.StdEncoding.EncodeToString(byts),
			"files": files,
		})
	})
}
