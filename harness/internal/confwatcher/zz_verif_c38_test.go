package confwatcher

// Verification harness for C38 (the configuration watcher never loses the final file content).
// Injected by /verif through -overlay. Replays timing scenarios of spec/misc/ConfWatcher.tla on the
// real ConfWatcher: real files in a private directory, real time. The harness plays the role of the
// core: on every signal it reads the watched file's current content. It records the timeline
// (operations, signals, what was read) and the final content; TLC decides
// (spec/misc/TraceConfWatcher.tla). Nothing is written outside VERIF_WORK.

import (
	"fmt"
	"os"
	"path/filepath"
	"sync"
	"testing"
	"time"

	"github.com/bluenviron/mediamtx/internal/verifrt"
)

type vf38Op struct {
	Op  string `json:"op"`  // Write | Remove | Create | Swap
	Gap int    `json:"gap"` // nominal pause before the operation, ms
	S   int64  `json:"s"`   // measured start, microseconds since the scenario's origin
	E   int64  `json:"e"`   // measured end
	// Slow: the writer takes its time between the system calls of os.WriteFile (open with O_TRUNC,
	// pause of a third of additionalWait, write) - "allow the writer to complete its job"
	Slow bool `json:"slow"`
}

// vf38SlowWriteFile is os.WriteFile with a pause between the truncation and the data.
func vf38SlowWriteFile(name string, data []byte, pause time.Duration) error {
	f, err := os.OpenFile(name, os.O_WRONLY|os.O_CREATE|os.O_TRUNC, 0o644)
	if err != nil {
		return err
	}
	time.Sleep(pause)
	_, err = f.Write(data)
	if err1 := f.Close(); err1 != nil && err == nil {
		err = err1
	}
	return err
}

type vf38Sig struct {
	T       int64  `json:"t"`       // when the harness received the signal
	Content string `json:"content"` // what it read right afterwards ("err" = unreadable)
}

type vf38Run struct {
	Run     int       `json:"run"`
	Layout  string    `json:"layout"`
	Pred    string    `json:"pred"`
	Ops     []vf38Op  `json:"ops"`
	Signals []vf38Sig `json:"signals"`
	Exists  bool      `json:"exists"`
	Final   string    `json:"final"`
	Loaded  string    `json:"loaded"`
	ObsEnd  int64     `json:"obsEnd"`
	Problem string    `json:"problem"`
}

func vf38Exec(work string, windowMs int, r *vf38Run) {
	fail := func(format string, a ...any) { r.Problem = fmt.Sprintf(format, a...) }
	dir, err := os.MkdirTemp(work, "c38-")
	if err != nil {
		fail("mkdir: %v", err)
		return
	}
	defer os.RemoveAll(dir)
	dir, _ = filepath.EvalSymlinks(dir)
	watched := filepath.Join(dir, "conf.yml")
	t1 := filepath.Join(dir, "t1.yml")
	t2 := filepath.Join(dir, "t2.yml")
	tmp := filepath.Join(dir, "tmp.lnk")
	target := watched
	if r.Layout == "link" {
		target = t1
		if err = os.WriteFile(t1, []byte("v0"), 0o644); err == nil {
			err = os.Symlink(t1, watched)
		}
	} else {
		err = os.WriteFile(watched, []byte("v0"), 0o644)
	}
	if err != nil {
		fail("setup: %v", err)
		return
	}

	w := &ConfWatcher{FilePath: watched}
	if err = w.Initialize(); err != nil {
		fail("Initialize: %v", err)
		return
	}

	t0 := time.Now()
	us := func() int64 { return time.Since(t0).Microseconds() }
	var mu sync.Mutex
	sigs := []vf38Sig{}
	loaded := "v0" // what the core loaded at start-up
	r.Signals = []vf38Sig{}
	clientDone := make(chan struct{})
	go func() {
		defer close(clientDone)
		for range w.Watch() {
			t := us()
			content := "err"
			if b, err2 := os.ReadFile(watched); err2 == nil {
				content = string(b)
			}
			mu.Lock()
			sigs = append(sigs, vf38Sig{T: t, Content: content})
			loaded = content
			mu.Unlock()
		}
	}()

	for k := range r.Ops {
		op := &r.Ops[k]
		if op.Gap > 0 {
			time.Sleep(time.Duration(op.Gap) * time.Millisecond)
		}
		content := []byte(fmt.Sprintf("v%d", k+1))
		op.S = us()
		switch op.Op {
		case "Write", "Create":
			if op.Slow {
				err = vf38SlowWriteFile(target, content, additionalWait/3)
			} else {
				err = os.WriteFile(target, content, 0o644)
			}
		case "Touch":
			err = os.WriteFile(filepath.Join(dir, "sibling.txt"), content, 0o644)
		case "Remove":
			err = os.Remove(target)
		case "Swap":
			other := t2
			if target == t2 {
				other = t1
			}
			if err = os.WriteFile(other, content, 0o644); err == nil {
				if err = os.Symlink(other, tmp); err == nil {
					err = os.Rename(tmp, watched)
				}
			}
			target = other
		default:
			err = fmt.Errorf("unknown op %q", op.Op)
		}
		op.E = us()
		if err != nil {
			fail("op %d %s: %v", k+1, op.Op, err)
			break
		}
	}

	if r.Problem == "" {
		time.Sleep(time.Duration(windowMs) * time.Millisecond)
		mu.Lock()
		r.ObsEnd = us()
		if b, err2 := os.ReadFile(watched); err2 == nil {
			r.Exists = true
			r.Final = string(b)
		} else {
			r.Exists = false
			r.Final = "none"
		}
		// freeze the observation
		r.Signals = append([]vf38Sig{}, sigs...)
		r.Loaded = loaded
		mu.Unlock()
	}

	closed := make(chan struct{})
	go func() {
		w.Close()
		close(closed)
	}()
	select {
	case <-closed:
		<-clientDone
	case <-time.After(10 * time.Second):
		fail("ConfWatcher.Close did not return within 10 s")
	}
}

// spec -> impl: the scenarios selected by checks/C38.py, run concurrently in private directories.
func TestVerif_C38_Replay(t *testing.T) {
	out := verifrt.NewOut(t)
	defer out.Close()
	work := os.Getenv("VERIF_WORK")
	if work == "" {
		t.Skip("VERIF_WORK not set: this test is driven by /verif/check")
	}
	par := verifrt.Param("PAR", 16)
	window := verifrt.Param("WINDOW_MS", 3000)
	var runs []*vf38Run
	verifrt.ForEachCase(t, func(raw []byte) {
		r := &vf38Run{}
		verifrt.Decode(t, raw, r)
		runs = append(runs, r)
	})
	sem := make(chan struct{}, par)
	var wg sync.WaitGroup
	for _, r := range runs {
		wg.Add(1)
		sem <- struct{}{}
		go func(r *vf38Run) {
			defer wg.Done()
			defer func() { <-sem }()
			vf38Exec(work, window, r)
		}(r)
	}
	wg.Wait()
	for _, r := range runs {
		out.Emit(r)
	}
}
