package pprof //nolint:revive

// Verification harness for C04 (administrative endpoints enforce their permission): the pprof
// listener. Injected by /verif through -overlay. One real PPROF per instance of the case file,
// each with the REAL auth.Manager configured with the instance's internal users.
// The test records; TLC decides.

import (
	"sync"
	"testing"
	"time"

	"github.com/gin-gonic/gin"

	"github.com/bluenviron/mediamtx/internal/conf"
	"github.com/bluenviron/mediamtx/internal/verifc04"
	"github.com/bluenviron/mediamtx/internal/verifrt"
)

func TestVerif_C04_Pprof(t *testing.T) {
	out := verifrt.NewOutFile(t, verifc04.OutPath("pprof"))
	defer out.Close()
	in := verifc04.Load(t, "pprof")

	bases := make([]string, len(in.Instances))
	var first *PPROF
	for i, ins := range in.Instances {
		var pp *PPROF
		addr := verifc04.Listen(t, func(addr string) error {
			pp = &PPROF{
				Address:        addr,
				TrustedProxies: verifc04.TrustedProxies(t, ins.Trusted),
				ReadTimeout:    conf.Duration(30 * time.Second),
				WriteTimeout:   conf.Duration(30 * time.Second),
				AuthManager:    verifc04.NewManager(t, ins.Users),
				Parent:         verifc04.NilLogger{},
			}
			return pp.Initialize()
		})
		defer pp.Close()
		bases[i] = "http://" + addr
		if first == nil {
			first = pp
		}
	}

	routes := []map[string]string{}
	for _, r := range first.httpServer.Handler.(*gin.Engine).Routes() {
		routes = append(routes, map[string]string{"m": r.Method, "p": r.Path})
	}
	out.Emit(map[string]any{"routes": routes})

	eng := &verifc04.Engine{
		T:        t,
		Base:     func(inst int) string { return bases[inst-1] },
		SoloLock: func(int) *sync.Mutex { return &sync.Mutex{} },
		SoloRead: func(int) int { return 0 },
	}
	for _, o := range eng.Run(in.Cases) {
		out.Emit(o)
	}
}
