package metrics //nolint:revive

// Verification harness for C04 (administrative endpoints enforce their permission): the metrics
// listener. Injected by /verif through -overlay. One real Metrics per instance of the case file,
// each with the REAL auth.Manager configured with the instance's internal users and stub
// servers whose data carries a canary. The test records; TLC decides.

import (
	"sync"
	"testing"
	"time"

	"github.com/gin-gonic/gin"

	"github.com/bluenviron/mediamtx/internal/conf"
	"github.com/bluenviron/mediamtx/internal/verifc04"
	"github.com/bluenviron/mediamtx/internal/verifrt"
)

func TestVerif_C04_Metrics(t *testing.T) {
	out := verifrt.NewOutFile(t, verifc04.OutPath("metrics"))
	defer out.Close()
	in := verifc04.Load(t, "metrics")

	bases := make([]string, len(in.Instances))
	var first *Metrics
	for i, ins := range in.Instances {
		var m *Metrics
		lg := &verifc04.StateLog{}
		addr := verifc04.Listen(t, func(addr string) error {
			m = &Metrics{
				Address:        addr,
				TrustedProxies: verifc04.TrustedProxies(t, ins.Trusted),
				ReadTimeout:    conf.Duration(30 * time.Second),
				WriteTimeout:   conf.Duration(30 * time.Second),
				AuthManager:    verifc04.NewManager(t, ins.Users),
				Parent:         verifc04.NilLogger{},
			}
			return m.Initialize()
		})
		defer m.Close()
		m.SetPathManager(verifc04.PathManager{})
		m.SetHLSServer(&verifc04.HLS{Log: lg})
		m.SetRTSPServer(&verifc04.RTSP{Log: lg, Kind: "rtsp"})
		m.SetRTSPSServer(&verifc04.RTSP{Log: lg, Kind: "rtsps"})
		m.SetRTMPServer(&verifc04.RTMP{Log: lg, Kind: "rtmp"})
		m.SetRTMPSServer(&verifc04.RTMP{Log: lg, Kind: "rtmps"})
		m.SetSRTServer(&verifc04.SRT{Log: lg})
		m.SetWebRTCServer(&verifc04.WebRTC{Log: lg})
		m.SetMoQServer(&verifc04.MoQ{Log: lg})
		bases[i] = "http://" + addr
		if first == nil {
			first = m
		}
	}

	routes := []map[string]string{}
	for _, r := range first.httpServer.Handler.(*gin.Engine).Routes() {
		routes = append(routes, map[string]string{"m": r.Method, "p": r.Path})
	}
	out.Emit(map[string]any{"routes": routes})

	eng := &verifc04.Engine{
		T:        t,
		Base:     func(inst int) string { return bases[inst-1] },
		SoloLock: func(int) *sync.Mutex { return &sync.Mutex{} },
		SoloRead: func(int) int { return 0 },
	}
	for _, o := range eng.Run(in.Cases) {
		out.Emit(o)
	}
}
