package metrics //nolint:revive

// Verification harness for C36 (metrics exposition). Injected by /verif through -overlay.
// The tests record what the real Metrics server answers; verdicts are taken by TLC.

import (
	"fmt"
	"io"
	"math"
	"net"
	"net/http"
	"net/url"
	"reflect"
	"strconv"
	"strings"
	"testing"
	"time"
	"unicode/utf8"

	"github.com/google/uuid"

	"github.com/bluenviron/mediamtx/internal/auth"
	"github.com/bluenviron/mediamtx/internal/conf"
	"github.com/bluenviron/mediamtx/internal/defs"
	"github.com/bluenviron/mediamtx/internal/logger"
	"github.com/bluenviron/mediamtx/internal/verifrt"
)

// ---------------------------------------------------------------- strict parser of the text format
// Written from https://prometheus.io/docs/instrumenting/exposition_formats/ (text format 0.0.4):
//   - lines are separated by LF, the last line must end with LF, empty lines are ignored
//   - '#' as first non-blank character: comment, unless the next token is HELP or TYPE
//   - sample: metric_name [ '{' label_name '=' '"' label_value '"' { ',' ... } [ ',' ] '}' ] value [ timestamp ]
//   - metric_name [a-zA-Z_:][a-zA-Z0-9_:]*, label_name [a-zA-Z_][a-zA-Z0-9_]*
//   - label_value: any UTF-8; backslash, double quote, line feed escaped as \\ \" \n; nothing else is an escape
//   - value: a Go float (strconv.ParseFloat), NaN, +Inf, -Inf; timestamp: int64
//   - tokens may be separated by any number of blanks or tabs

type vf36Label struct {
	K string `json:"k"`
	V []int  `json:"v"`
}

type vf36Sample struct {
	Name   string      `json:"name"`
	Kind   string      `json:"kind"`
	Key    string      `json:"key"`
	Labels []vf36Label `json:"labels"`
	Val4   int64       `json:"val4"`
	ValOK  bool        `json:"valOK"`
	ValTxt string      `json:"valTxt"`
	Ln     int         `json:"ln"`
}

type vf36Err struct {
	Ln   int    `json:"ln"`
	Msg  string `json:"msg"`
	Text string `json:"text"` // Go-quoted line
}

type vf36Parse struct {
	OK      bool         `json:"parseOK"`
	Errs    []vf36Err    `json:"errs"`
	NErrs   int          `json:"nErrs"`
	Samples []vf36Sample `json:"samples"` // samples that carry labels
	NBare   int          `json:"nBare"`   // samples without labels
	Dup     bool         `json:"dup"`
	DupOf   string       `json:"dupOf"`
}

func vf36IsNameStart(c byte, colon bool) bool {
	return c == '_' || (c >= 'a' && c <= 'z') || (c >= 'A' && c <= 'Z') || (colon && c == ':')
}

func vf36IsNameChar(c byte, colon bool) bool {
	return vf36IsNameStart(c, colon) || (c >= '0' && c <= '9')
}

func vf36SkipBlanks(s string, i int) int {
	for i < len(s) && (s[i] == ' ' || s[i] == '\t') {
		i++
	}
	return i
}

// vf36ParseLine parses one sample line (without the LF).
func vf36ParseLine(s string) (name string, labels []vf36Label, val string, err error) {
	i := vf36SkipBlanks(s, 0)
	st := i
	if i >= len(s) || !vf36IsNameStart(s[i], true) {
		return "", nil, "", fmt.Errorf("metric name expected")
	}
	for i < len(s) && vf36IsNameChar(s[i], true) {
		i++
	}
	name = s[st:i]
	afterName := i
	i = vf36SkipBlanks(s, i)
	labels = []vf36Label{}
	hasBlock := false
	if i < len(s) && s[i] == '{' {
		hasBlock = true
		i++
		for {
			i = vf36SkipBlanks(s, i)
			if i < len(s) && s[i] == '}' {
				i++
				break
			}
			ls := i
			if i >= len(s) || !vf36IsNameStart(s[i], false) {
				return "", nil, "", fmt.Errorf("label name expected at column %d", i+1)
			}
			for i < len(s) && vf36IsNameChar(s[i], false) {
				i++
			}
			ln := s[ls:i]
			i = vf36SkipBlanks(s, i)
			if i >= len(s) || s[i] != '=' {
				return "", nil, "", fmt.Errorf("'=' expected after label name %q", ln)
			}
			i = vf36SkipBlanks(s, i+1)
			if i >= len(s) || s[i] != '"' {
				return "", nil, "", fmt.Errorf("'\"' expected after %s=", ln)
			}
			i++
			var v []rune
			closed := false
			for i < len(s) {
				c := s[i]
				if c == '"' {
					closed = true
					i++
					break
				}
				if c == '\\' {
					if i+1 >= len(s) {
						return "", nil, "", fmt.Errorf("label value of %s: backslash at end of line", ln)
					}
					switch s[i+1] {
					case '\\':
						v = append(v, '\\')
					case '"':
						v = append(v, '"')
					case 'n':
						v = append(v, '\n')
					default:
						return "", nil, "", fmt.Errorf("label value of %s: invalid escape \\%c", ln, s[i+1])
					}
					i += 2
					continue
				}
				r, w := utf8.DecodeRuneInString(s[i:])
				if r == utf8.RuneError && w == 1 {
					return "", nil, "", fmt.Errorf("label value of %s: invalid UTF-8", ln)
				}
				v = append(v, r)
				i += w
			}
			if !closed {
				return "", nil, "", fmt.Errorf("label value of %s: unterminated (line ends inside the quotes)", ln)
			}
			cps := make([]int, len(v))
			for k, r := range v {
				cps[k] = int(r)
			}
			for _, l := range labels {
				if l.K == ln {
					return "", nil, "", fmt.Errorf("label name %s repeated", ln)
				}
			}
			labels = append(labels, vf36Label{K: ln, V: cps})
			i = vf36SkipBlanks(s, i)
			if i < len(s) && s[i] == ',' {
				i++
				continue
			}
			if i < len(s) && s[i] == '}' {
				i++
				break
			}
			return "", nil, "", fmt.Errorf("',' or '}' expected after the value of label %s", ln)
		}
	}
	if !hasBlock && i == afterName {
		if i >= len(s) {
			return "", nil, "", fmt.Errorf("value expected")
		}
		return "", nil, "", fmt.Errorf("unexpected character %q in the metric name", s[i])
	}
	i = vf36SkipBlanks(s, i)
	rest := strings.FieldsFunc(s[i:], func(r rune) bool { return r == ' ' || r == '\t' })
	if len(rest) == 0 {
		return "", nil, "", fmt.Errorf("value expected")
	}
	if len(rest) > 2 {
		return "", nil, "", fmt.Errorf("unexpected text after value and timestamp: %q", strings.Join(rest[2:], " "))
	}
	val = rest[0]
	switch val {
	case "NaN", "+Inf", "-Inf":
	default:
		if _, perr := strconv.ParseFloat(val, 64); perr != nil {
			return "", nil, "", fmt.Errorf("value %q is not a float", val)
		}
	}
	if len(rest) == 2 {
		if _, perr := strconv.ParseInt(rest[1], 10, 64); perr != nil {
			return "", nil, "", fmt.Errorf("timestamp %q is not an integer", rest[1])
		}
	}
	return name, labels, val, nil
}

var vf36Kinds = []string{
	"rtsps_sessions", "webrtc_sessions", "rtsp_sessions", "forward_dests", "hls_sessions", "moq_sessions",
	"rtsps_conns", "rtmps_conns", "hls_muxers", "rtsp_conns", "rtmp_conns", "srt_conns", "paths",
}

// vf36Split maps a metric name to (entity kind, counter key): the kind is the longest documented
// prefix, the key the rest without underscores (rtsp_sessions_inbound_rtp_packets -> inboundrtppackets).
func vf36Split(name string) (string, string) {
	for _, k := range vf36Kinds {
		if name == k {
			return k, ""
		}
		if strings.HasPrefix(name, k+"_") {
			return k, strings.ReplaceAll(name[len(k)+1:], "_", "")
		}
	}
	return "", name
}

func vf36ParseText(body []byte) vf36Parse {
	res := vf36Parse{Errs: []vf36Err{}, Samples: []vf36Sample{}}
	addErr := func(ln int, msg, text string) {
		res.NErrs++
		if len(res.Errs) < 4 {
			res.Errs = append(res.Errs, vf36Err{Ln: ln, Msg: msg, Text: strconv.Quote(text)})
		}
	}
	text := string(body)
	if len(text) > 0 && text[len(text)-1] != '\n' {
		addErr(0, "the last line does not end with a line feed", "")
	}
	seen := map[string]bool{}
	lines := strings.Split(text, "\n")
	for n, line := range lines {
		if n == len(lines)-1 && line == "" {
			break
		}
		ln := n + 1
		if !utf8.ValidString(line) {
			addErr(ln, "invalid UTF-8", line)
			continue
		}
		t := strings.TrimLeft(line, " \t")
		if t == "" {
			continue
		}
		if t[0] == '#' {
			f := strings.Fields(t[1:])
			if len(f) > 0 && (f[0] == "HELP" || f[0] == "TYPE") {
				if len(f) < 2 || !vf36IsNameStart(f[1][0], true) {
					addErr(ln, "malformed "+f[0]+" line", line)
				} else if f[0] == "TYPE" && (len(f) != 3 || !strings.Contains(" counter gauge histogram summary untyped ", " "+f[2]+" ")) {
					addErr(ln, "malformed TYPE line", line)
				}
			}
			continue
		}
		name, labels, val, err := vf36ParseLine(line)
		if err != nil {
			addErr(ln, err.Error(), line)
			continue
		}
		// identity of the sample: name + sorted label set
		id := name
		ks := make([]string, len(labels))
		for i, l := range labels {
			ks[i] = fmt.Sprintf("%s=%v", l.K, l.V)
		}
		sortStrings(ks)
		id += "{" + strings.Join(ks, ",") + "}"
		if seen[id] {
			res.Dup = true
			if res.DupOf == "" {
				res.DupOf = strconv.Quote(line)
			}
		}
		seen[id] = true
		if len(labels) == 0 {
			res.NBare++
			continue
		}
		smp := vf36Sample{Name: name, Labels: labels, ValTxt: val, Ln: ln}
		smp.Kind, smp.Key = vf36Split(name)
		if f, perr := strconv.ParseFloat(val, 64); perr == nil {
			f4 := f * 4
			if f4 == math.Trunc(f4) && math.Abs(f4) < 2e9 {
				smp.Val4 = int64(f4)
				smp.ValOK = true
			}
		}
		res.Samples = append(res.Samples, smp)
	}
	res.OK = res.NErrs == 0
	return res
}

func sortStrings(a []string) {
	for i := 1; i < len(a); i++ {
		for j := i; j > 0 && a[j] < a[j-1]; j-- {
			a[j], a[j-1] = a[j-1], a[j]
		}
	}
}

// parser self-check: lines rendered by the specification (conformant and not) are parsed and reported
func TestVerif_C36_Parser(t *testing.T) {
	out := verifrt.NewOut(t)
	defer out.Close()
	verifrt.ForEachCase(t, func(raw []byte) {
		var c struct {
			ID   int   `json:"id"`
			Text []int `json:"text"`
		}
		verifrt.Decode(t, raw, &c)
		p := vf36ParseText([]byte(vf36Str(c.Text)))
		out.Emit(map[string]any{"id": c.ID, "parse": p})
	})
}

// ---------------------------------------------------------------- the world served to the real Metrics

func vf36Str(cps []int) string {
	var b strings.Builder
	for _, c := range cps {
		b.WriteRune(rune(c))
	}
	return b.String()
}

type vf36Ent struct {
	Kind    string      `json:"kind"`
	Idx     int         `json:"idx"`
	G       int         `json:"g"`
	Attrs   []vf36Label `json:"attrs"`
	Ready   bool        `json:"ready"`
	Readers [][]int     `json:"readers"`
}

func (e *vf36Ent) attr(k string) (string, bool) {
	for _, a := range e.Attrs {
		if a.K == k {
			return vf36Str(a.V), true
		}
	}
	return "", false
}

type vf36Counter struct {
	K  string `json:"k"`
	V4 int64  `json:"v4"`
}

// vf36Fill sets the fields of an API struct from the entity: labelled fields by their JSON name (for a
// muxer the label "name" is its path), every numeric field to a value unique in the scenario.
func vf36Fill(t testing.TB, ptr any, e *vf36Ent) []vf36Counter {
	v := reflect.ValueOf(ptr).Elem()
	ty := v.Type()
	counters := []vf36Counter{}
	used := map[string]bool{}
	for i := 0; i < v.NumField(); i++ {
		f := v.Field(i)
		sf := ty.Field(i)
		tag := strings.Split(sf.Tag.Get("json"), ",")[0]
		label := tag
		if e.Kind == "hls_muxers" && tag == "path" {
			label = "name"
		}
		switch {
		case sf.Type == reflect.TypeOf(uuid.UUID{}) && tag == "id":
			s, ok := e.attr("id")
			if !ok {
				s = fmt.Sprintf("00000000-0000-4000-8000-0000000000%02d", e.G)
			}
			f.Set(reflect.ValueOf(uuid.MustParse(s)))
			used["id"] = true
		case f.Kind() == reflect.String:
			if s, ok := e.attr(label); ok && !(e.Kind == "paths" && tag == "state") {
				f.SetString(s)
				used[label] = true
			}
		case f.Kind() == reflect.Uint64 || f.Kind() == reflect.Uint32 || f.Kind() == reflect.Uint:
			val := int64(e.G*1000 + i)
			f.SetUint(uint64(val))
			counters = append(counters, vf36Counter{K: strings.ToLower(sf.Name), V4: 4 * val})
		case f.Kind() == reflect.Int64 || f.Kind() == reflect.Int32 || f.Kind() == reflect.Int:
			val := int64(e.G*1000 + i)
			f.SetInt(val)
			counters = append(counters, vf36Counter{K: strings.ToLower(sf.Name), V4: 4 * val})
		case f.Kind() == reflect.Float64:
			q := int64(4*(e.G*1000+i) + 1 + i%3) // a multiple of 0.25 that is not an integer
			f.SetFloat(float64(q) / 4)
			counters = append(counters, vf36Counter{K: strings.ToLower(sf.Name), V4: q})
		}
	}
	for _, a := range e.Attrs {
		if !used[a.K] && !(e.Kind == "paths" && a.K == "state") && !(e.Kind == "forward_dests" && a.K == "path") {
			t.Fatalf("entity kind %s: no field for label %s", e.Kind, a.K)
		}
	}
	return counters
}

type vf36World struct {
	paths    []defs.APIPath
	forwards map[string][]defs.APIForwardDest
	hlsSess  []defs.APIHLSSession
	hlsMux   []defs.APIHLSMuxer
	rtspC    [2][]defs.APIRTSPConn
	rtspS    [2][]defs.APIRTSPSession
	rtmpC    [2][]defs.APIRTMPConn
	srtC     []defs.APISRTConn
	webrtcS  []defs.APIWebRTCSession
	moqS     []defs.APIMoQSession
}

func vf36Build(t testing.TB, ents []vf36Ent) (*vf36World, map[int][]vf36Counter) {
	w := &vf36World{forwards: map[string][]defs.APIForwardDest{}}
	cs := map[int][]vf36Counter{}
	for i := range ents {
		e := &ents[i]
		switch e.Kind {
		case "paths":
			var x defs.APIPath
			cs[e.G] = vf36Fill(t, &x, e)
			x.Ready = e.Ready
			x.Tracks = []defs.APIPathTrackCodec{}
			x.Readers = []defs.APIPathReader{}
			for k, r := range e.Readers {
				x.Readers = append(x.Readers, defs.APIPathReader{Type: defs.APIPathReaderType(vf36Str(r)), ID: strconv.Itoa(k)})
			}
			w.paths = append(w.paths, x)
		case "forward_dests":
			var x defs.APIForwardDest
			cs[e.G] = vf36Fill(t, &x, e)
			owner, _ := e.attr("path")
			w.forwards[owner] = append(w.forwards[owner], x)
		case "hls_sessions":
			var x defs.APIHLSSession
			cs[e.G] = vf36Fill(t, &x, e)
			w.hlsSess = append(w.hlsSess, x)
		case "hls_muxers":
			var x defs.APIHLSMuxer
			cs[e.G] = vf36Fill(t, &x, e)
			w.hlsMux = append(w.hlsMux, x)
		case "rtsp_conns", "rtsps_conns":
			var x defs.APIRTSPConn
			cs[e.G] = vf36Fill(t, &x, e)
			k := 0
			if e.Kind == "rtsps_conns" {
				k = 1
			}
			w.rtspC[k] = append(w.rtspC[k], x)
		case "rtsp_sessions", "rtsps_sessions":
			var x defs.APIRTSPSession
			cs[e.G] = vf36Fill(t, &x, e)
			k := 0
			if e.Kind == "rtsps_sessions" {
				k = 1
			}
			w.rtspS[k] = append(w.rtspS[k], x)
		case "rtmp_conns", "rtmps_conns":
			var x defs.APIRTMPConn
			cs[e.G] = vf36Fill(t, &x, e)
			k := 0
			if e.Kind == "rtmps_conns" {
				k = 1
			}
			w.rtmpC[k] = append(w.rtmpC[k], x)
		case "srt_conns":
			var x defs.APISRTConn
			cs[e.G] = vf36Fill(t, &x, e)
			w.srtC = append(w.srtC, x)
		case "webrtc_sessions":
			var x defs.APIWebRTCSession
			cs[e.G] = vf36Fill(t, &x, e)
			w.webrtcS = append(w.webrtcS, x)
		case "moq_sessions":
			var x defs.APIMoQSession
			cs[e.G] = vf36Fill(t, &x, e)
			w.moqS = append(w.moqS, x)
		default:
			t.Fatalf("unknown entity kind %q", e.Kind)
		}
	}
	return w, cs
}

type vf36Holder struct{ w *vf36World }

type vf36PM struct{ h *vf36Holder }

func (p vf36PM) APIPathsList() (*defs.APIPathList, error) {
	return &defs.APIPathList{ItemCount: len(p.h.w.paths), PageCount: 1, Items: p.h.w.paths}, nil
}
func (p vf36PM) APIPathsGet(string) (*defs.APIPath, error) { return nil, conf.ErrPathNotFound }
func (p vf36PM) APIForwardDestList(name string) (*defs.APIForwardDestList, error) {
	it := p.h.w.forwards[name]
	return &defs.APIForwardDestList{ItemCount: len(it), PageCount: 1, Items: it}, nil
}

func (p vf36PM) APIForwardDestGet(string, uuid.UUID) (*defs.APIForwardDest, error) {
	return nil, conf.ErrPathNotFound
}

type vf36HLS struct{ h *vf36Holder }

func (s vf36HLS) APISessionsList() (*defs.APIHLSSessionList, error) {
	return &defs.APIHLSSessionList{ItemCount: len(s.h.w.hlsSess), PageCount: 1, Items: s.h.w.hlsSess}, nil
}
func (s vf36HLS) APISessionsGet(uuid.UUID) (*defs.APIHLSSession, error) { return nil, fmt.Errorf("unused") }
func (s vf36HLS) APISessionsKick(uuid.UUID) error                       { return fmt.Errorf("unused") }
func (s vf36HLS) APIMuxersList() (*defs.APIHLSMuxerList, error) {
	return &defs.APIHLSMuxerList{ItemCount: len(s.h.w.hlsMux), PageCount: 1, Items: s.h.w.hlsMux}, nil
}
func (s vf36HLS) APIMuxersGet(string) (*defs.APIHLSMuxer, error) { return nil, fmt.Errorf("unused") }

type vf36RTSP struct {
	h *vf36Holder
	k int
}

func (s vf36RTSP) APIConnsList() (*defs.APIRTSPConnsList, error) {
	return &defs.APIRTSPConnsList{ItemCount: len(s.h.w.rtspC[s.k]), PageCount: 1, Items: s.h.w.rtspC[s.k]}, nil
}
func (s vf36RTSP) APIConnsGet(uuid.UUID) (*defs.APIRTSPConn, error) { return nil, fmt.Errorf("unused") }
func (s vf36RTSP) APISessionsList() (*defs.APIRTSPSessionList, error) {
	return &defs.APIRTSPSessionList{ItemCount: len(s.h.w.rtspS[s.k]), PageCount: 1, Items: s.h.w.rtspS[s.k]}, nil
}

func (s vf36RTSP) APISessionsGet(uuid.UUID) (*defs.APIRTSPSession, error) {
	return nil, fmt.Errorf("unused")
}
func (s vf36RTSP) APISessionsKick(uuid.UUID) error { return fmt.Errorf("unused") }

type vf36RTMP struct {
	h *vf36Holder
	k int
}

func (s vf36RTMP) APIConnsList() (*defs.APIRTMPConnList, error) {
	return &defs.APIRTMPConnList{ItemCount: len(s.h.w.rtmpC[s.k]), PageCount: 1, Items: s.h.w.rtmpC[s.k]}, nil
}
func (s vf36RTMP) APIConnsGet(uuid.UUID) (*defs.APIRTMPConn, error) { return nil, fmt.Errorf("unused") }
func (s vf36RTMP) APIConnsKick(uuid.UUID) error                     { return fmt.Errorf("unused") }

type vf36SRT struct{ h *vf36Holder }

func (s vf36SRT) APIConnsList() (*defs.APISRTConnList, error) {
	return &defs.APISRTConnList{ItemCount: len(s.h.w.srtC), PageCount: 1, Items: s.h.w.srtC}, nil
}
func (s vf36SRT) APIConnsGet(uuid.UUID) (*defs.APISRTConn, error) { return nil, fmt.Errorf("unused") }
func (s vf36SRT) APIConnsKick(uuid.UUID) error                    { return fmt.Errorf("unused") }

type vf36WebRTC struct{ h *vf36Holder }

func (s vf36WebRTC) APISessionsList() (*defs.APIWebRTCSessionList, error) {
	return &defs.APIWebRTCSessionList{ItemCount: len(s.h.w.webrtcS), PageCount: 1, Items: s.h.w.webrtcS}, nil
}

func (s vf36WebRTC) APISessionsGet(uuid.UUID) (*defs.APIWebRTCSession, error) {
	return nil, fmt.Errorf("unused")
}
func (s vf36WebRTC) APISessionsKick(uuid.UUID) error { return fmt.Errorf("unused") }

type vf36MoQ struct{ h *vf36Holder }

func (s vf36MoQ) APISessionsList() (*defs.APIMoQSessionList, error) {
	return &defs.APIMoQSessionList{ItemCount: len(s.h.w.moqS), PageCount: 1, Items: s.h.w.moqS}, nil
}
func (s vf36MoQ) APISessionsGet(uuid.UUID) (*defs.APIMoQSession, error) { return nil, fmt.Errorf("unused") }
func (s vf36MoQ) APISessionsKick(uuid.UUID) error                       { return fmt.Errorf("unused") }

type vf36Auth struct{}

func (vf36Auth) Authenticate(*auth.Request) (string, *auth.Error) { return "", nil }

type vf36Log struct{}

func (vf36Log) Log(logger.Level, string, ...any) {}

// spec -> impl -> spec: every scenario of the bounded model is served by the real Metrics server over
// HTTP; the answer is parsed by the strict parser and recorded.
func TestVerif_C36_Replay(t *testing.T) {
	out := verifrt.NewOut(t)
	defer out.Close()

	l, err := net.Listen("tcp", "127.0.0.1:0")
	if err != nil {
		t.Fatal(err)
	}
	addr := l.Addr().String()
	l.Close()

	h := &vf36Holder{w: &vf36World{}}
	m := &Metrics{
		Address:      addr,
		ReadTimeout:  conf.Duration(10 * time.Second),
		WriteTimeout: conf.Duration(10 * time.Second),
		AuthManager:  vf36Auth{},
		Parent:       vf36Log{},
	}
	if err = m.Initialize(); err != nil {
		t.Fatal(err)
	}
	defer m.Close()
	m.SetPathManager(&vf36PM{h})
	m.SetHLSServer(&vf36HLS{h})
	m.SetRTSPServer(&vf36RTSP{h, 0})
	m.SetRTSPSServer(&vf36RTSP{h, 1})
	m.SetRTMPServer(&vf36RTMP{h, 0})
	m.SetRTMPSServer(&vf36RTMP{h, 1})
	m.SetSRTServer(&vf36SRT{h})
	m.SetWebRTCServer(&vf36WebRTC{h})
	m.SetMoQServer(&vf36MoQ{h})

	tr := &http.Transport{}
	defer tr.CloseIdleConnections()
	hc := &http.Client{Transport: tr, Timeout: 20 * time.Second}

	verifrt.ForEachCase(t, func(raw []byte) {
		var c struct {
			ID      int       `json:"id"`
			Ents    []vf36Ent `json:"ents"`
			Filter  string    `json:"filter"`
			TypeArg string    `json:"typeArg"`
			PathArg []int     `json:"pathArg"`
		}
		verifrt.Decode(t, raw, &c)
		w, counters := vf36Build(t, c.Ents)
		h.w = w
		q := url.Values{}
		switch c.Filter {
		case "none":
		case "type":
			q.Set("type", c.TypeArg)
		case "path":
			q.Set("path", vf36Str(c.PathArg))
		default:
			t.Fatalf("unknown filter %q", c.Filter)
		}
		u := "http://" + addr + "/metrics"
		if len(q) != 0 {
			u += "?" + q.Encode()
		}
		res, err2 := hc.Get(u)
		if err2 != nil {
			t.Fatal(err2)
		}
		body, err2 := io.ReadAll(res.Body)
		res.Body.Close()
		if err2 != nil {
			t.Fatal(err2)
		}
		p := vf36ParseText(body)
		cl := []map[string]any{}
		for _, e := range c.Ents {
			cl = append(cl, map[string]any{"g": e.G, "counters": counters[e.G]})
		}
		out.Emit(map[string]any{"id": c.ID, "status": res.StatusCode, "parse": p, "counters": cl, "bodyLen": len(body)})
	})
}
