// Package verifc06 is shared by the C06 harness tests (packages recordstore, playback, api, core).
// It is NOT part of mediamtx: it is injected through `go test -overlay` by /verif/lib/vf.py.
// It deliberately does not import recordstore/playback/api/core (the harness tests live inside
// those packages) and formats the names of the planted files itself, independently of
// recordstore.Path.Encode.
package verifc06

import (
	"encoding/json"
	"fmt"
	"os"
	"path/filepath"
	"regexp"
	"sort"
	"strconv"
	"strings"
	"testing"
	"time"

	"github.com/bluenviron/mediacommon/v2/pkg/formats/fmp4"
	"github.com/bluenviron/mediacommon/v2/pkg/formats/fmp4/seekablebuffer"
	mcodecs "github.com/bluenviron/mediacommon/v2/pkg/formats/mp4/codecs"

	"github.com/bluenviron/mediamtx/internal/conf"
	"github.com/bluenviron/mediamtx/internal/test"
	"github.com/bluenviron/mediamtx/internal/verifrt"
)

// Input is the case file written by checks/C06.py.
type Input struct {
	Names     []string `json:"names"`     // every name (direct function entry points)
	HTTPNames []string `json:"httpNames"` // the subset driven through HTTP servers
	Shapes    []string `json:"shapes"`    // names that are tried with every record path format
}

// ReadInput reads VERIF_CASES.
func ReadInput(t testing.TB) *Input {
	in := &Input{}
	got := false
	verifrt.ForEachCase(t, func(raw []byte) {
		verifrt.Decode(t, raw, in)
		got = true
	})
	if !got {
		t.Fatal("verifc06: no input")
	}
	return in
}

// Chars splits a string into one-character strings (the representation used by the TLA+ spec).
func Chars(s string) []string {
	out := []string{}
	for _, r := range s {
		out = append(out, string(r))
	}
	return out
}

// Planted is a segment file written by the harness.
type Planted struct {
	Path   string // absolute, clean
	Start  time.Time
	Format int
	Target string
}

// Tree is a temporary directory with a recording tree and files around it.
type Tree struct {
	Top     string   // temporary directory (alias /T)
	Root    string   // Top/r1/r2 (alias /R)
	Formats []string // record path formats, absolute
	Planted []*Planted
	content []byte
}

// Targets are the names whose derived location gets a planted segment, for every format:
// two ordinary ones, locations outside the recording tree that traversal names would reach,
// a sibling directory whose name starts like the tree's, and directories with odd names.
var Targets = []string{
	"cam1", "a/b",
	"../outside", "../../outside", "../rec-evil/x", "../../rec-evil/x", "../../up2", "../../../up3",
	"a b", "é", "%2e%2e", "..hidden", "~x",
}

// formatsRel are the record path formats (relative to Root); the same three as in PathNameGen.tla.
var formatsRel = []string{
	"rec/%path/%Y-%m-%d_%H-%M-%S-%f",
	"rec/%Y/%path_%m-%d_%H-%M-%S-%f",
	"rec/sub/x%path-%s-%f",
}

func lz(v int, n int) string {
	s := strconv.Itoa(v)
	for len(s) < n {
		s = "0" + s
	}
	return s
}

// FormatName renders a record path format (own implementation, local time zone).
func FormatName(format string, name string, t time.Time) string {
	t = t.Local()
	r := strings.NewReplacer(
		"%path", name,
		"%Y", strconv.Itoa(t.Year()),
		"%m", lz(int(t.Month()), 2),
		"%d", lz(t.Day(), 2),
		"%H", lz(t.Hour(), 2),
		"%M", lz(t.Minute(), 2),
		"%S", lz(t.Second(), 2),
		"%f", lz(t.Nanosecond()/1000, 6),
		"%s", strconv.FormatInt(t.Unix(), 10),
	)
	return r.Replace(format)
}

// Setup creates the tree below VERIF_WORK and plants the segments.
func Setup(t testing.TB) *Tree {
	top, err := os.MkdirTemp(os.Getenv("VERIF_WORK"), "c06-")
	if err != nil {
		t.Fatal(err)
	}
	top, err = filepath.Abs(top)
	if err != nil {
		t.Fatal(err)
	}
	tr := &Tree{Top: top, Root: filepath.Join(top, "r1", "r2")}
	t.Cleanup(func() { os.RemoveAll(top) })
	if err = os.MkdirAll(filepath.Join(tr.Root, "rec"), 0o755); err != nil {
		t.Fatal(err)
	}
	for _, f := range formatsRel {
		tr.Formats = append(tr.Formats, tr.Root+"/"+f)
	}
	tr.content = segmentBytes(t)
	base := time.Date(2008, 11, 7, 11, 22, 0, 0, time.Local)
	seen := map[string]bool{}
	i := 0
	for fi, f := range tr.Formats {
		for _, target := range Targets {
			i++
			start := base.Add(time.Duration(i) * 24 * time.Hour)
			p := filepath.Clean(FormatName(f, target, start) + ".mp4")
			if seen[p] {
				t.Fatalf("verifc06: planted twice: %s", p)
			}
			seen[p] = true
			tr.Planted = append(tr.Planted, &Planted{Path: p, Start: start, Format: fi, Target: target})
		}
	}
	tr.Replant(t)
	return tr
}

// Replant (re)creates every planted file that is missing and returns the paths of the missing ones.
func (tr *Tree) Replant(t testing.TB) []string {
	var missing []string
	for _, p := range tr.Planted {
		if _, err := os.Stat(p.Path); err == nil {
			continue
		}
		missing = append(missing, p.Path)
		if err := os.MkdirAll(filepath.Dir(p.Path), 0o755); err != nil {
			t.Fatal(err)
		}
		if err := os.WriteFile(p.Path, tr.content, 0o644); err != nil {
			t.Fatal(err)
		}
	}
	sort.Strings(missing)
	return missing
}

// ByStart finds the planted file with the given start instant (planted starts are unique).
func (tr *Tree) ByStart(s time.Time) *Planted {
	for _, p := range tr.Planted {
		if p.Start.Equal(s) {
			return p
		}
	}
	return nil
}

// Alias shortens an absolute path: Root -> /R, Top -> /T (injective on clean paths).
func (tr *Tree) Alias(p string) string {
	if p == tr.Root || strings.HasPrefix(p, tr.Root+"/") {
		return "/R" + p[len(tr.Root):]
	}
	if p == tr.Top || strings.HasPrefix(p, tr.Top+"/") {
		return "/T" + p[len(tr.Top):]
	}
	return p
}

// AliasAll applies Alias and converts to character sequences.
func (tr *Tree) AliasAll(ps []string) [][]string {
	out := [][]string{}
	for _, p := range ps {
		out = append(out, Chars(tr.Alias(p)))
	}
	return out
}

// Context is a set of path configurations, loaded by the real loader.
type Context struct {
	Name   string
	Format int
	Paths  map[string]*conf.Path
	Conf   *conf.Conf
}

// Load loads a configuration with the given path keys and record path through conf.Load.
// It returns nil when the real loader refuses it.
func (tr *Tree) Load(t testing.TB, keys []string, format int) *conf.Conf {
	paths := map[string]any{}
	for _, k := range keys {
		paths[k] = map[string]any{}
	}
	byts, err := json.Marshal(map[string]any{
		"pathDefaults": map[string]any{"recordPath": tr.Formats[format]},
		"paths":        paths,
	})
	if err != nil {
		t.Fatal(err)
	}
	fpath := filepath.Join(tr.Top, "conf.yml")
	if err = os.WriteFile(fpath, byts, 0o644); err != nil {
		t.Fatal(err)
	}
	c, _, err := conf.Load(fpath, nil, nil)
	if err != nil {
		return nil
	}
	return c
}

// StdContexts returns the four fixed contexts for a record path format.
func (tr *Tree) StdContexts(t testing.TB, format int) []*Context {
	var out []*Context
	for _, d := range []struct {
		name string
		keys []string
	}{
		{"static", []string{"cam1", "a/b"}},
		{"allothers", []string{"all_others"}},
		{"regex", []string{"~^cam[0-9]+$", "~^a(.*)$"}},
		// expressions that are not anchored match when they are FOUND in the name: the whole
		// name, not the matched text, is what the statement's rules apply to
		{"unanchored", []string{"~cam[0-9]+", "~a0"}},
	} {
		c := tr.Load(t, d.keys, format)
		if c == nil {
			t.Fatalf("verifc06: context %s does not load", d.name)
		}
		out = append(out, &Context{Name: d.name, Format: format, Paths: c.Paths, Conf: c})
	}
	return out
}

var reMaybeKey = regexp.MustCompile(`^~`)

// KeyContext returns the context whose only path configuration has the requested name itself as
// key, or nil when no such configuration can exist (the real loader refuses the key).
// Only keys that are regular expressions are tried: a static key that loads is a valid name.
func (tr *Tree) KeyContext(t testing.TB, name string, format int) *Context {
	if !reMaybeKey.MatchString(name) || strings.ContainsAny(name, "\n\t") {
		return nil
	}
	c := tr.Load(t, []string{name}, format)
	if c == nil {
		return nil
	}
	if _, ok := c.Paths[name]; !ok {
		return nil
	}
	return &Context{Name: "keyname", Format: format, Paths: c.Paths, Conf: c}
}

// AnyConf returns one path configuration of the context (they all share the record path).
func (c *Context) AnyConf() *conf.Path {
	keys := make([]string, 0, len(c.Paths))
	for k := range c.Paths {
		keys = append(keys, k)
	}
	sort.Strings(keys)
	return c.Paths[keys[len(keys)-1]]
}

// Rec is one observation: what an entry point did with a name.
type Rec struct {
	Entry    string     `json:"entry"`
	Ctx      string     `json:"ctx"`
	Format   int        `json:"format"`
	NameS    string     `json:"nameS"`
	Name     []string   `json:"name"`
	Accepted bool       `json:"accepted"`
	IsKey    bool       `json:"nameIsConfKey"` // the requested name is itself a key of the context's paths
	RP       []string   `json:"rp"`
	Files    [][]string `json:"files"`
	FilesS   []string   `json:"filesS"`
	Info     string     `json:"info,omitempty"`
}

// NewRec builds a record; files are absolute paths as the real code produced them.
func (tr *Tree) NewRec(entry string, ctx *Context, name string, accepted bool, files []string, info string) *Rec {
	r := &Rec{Entry: entry, NameS: name, Name: Chars(name), Accepted: accepted, RP: []string{}, Info: info}
	if ctx != nil {
		r.Ctx = ctx.Name
		r.Format = ctx.Format
		r.RP = Chars(tr.Alias(tr.Formats[ctx.Format]))
		_, r.IsKey = ctx.Paths[name]
	}
	r.Files = tr.AliasAll(files)
	r.FilesS = []string{}
	for _, f := range files {
		r.FilesS = append(r.FilesS, tr.Alias(f))
	}
	return r
}

func segmentBytes(t testing.TB) []byte {
	init := fmp4.Init{
		Tracks: []*fmp4.InitTrack{{
			ID:        1,
			TimeScale: 90000,
			Codec: &mcodecs.H264{
				SPS: test.FormatH264.SPS,
				PPS: test.FormatH264.PPS,
			},
		}},
	}
	var buf1 seekablebuffer.Buffer
	if err := init.Marshal(&buf1); err != nil {
		t.Fatal(err)
	}
	parts := fmp4.Parts{{
		Tracks: []*fmp4.PartTrack{{
			ID:       1,
			BaseTime: 0,
			Samples: []*fmp4.Sample{
				{Duration: 90000, Payload: []byte{1, 2}},
				{Duration: 90000, Payload: []byte{3, 4}},
			},
		}},
	}}
	var buf2 seekablebuffer.Buffer
	if err := parts.Marshal(&buf2); err != nil {
		t.Fatal(err)
	}
	return append(append([]byte{}, buf1.Bytes()...), buf2.Bytes()...)
}

// WireQuery renders a query value so that the server sees exactly v after its one URL decoding.
func WireQuery(v string) string {
	var b strings.Builder
	for i := 0; i < len(v); i++ {
		c := v[i]
		switch {
		case c >= 'a' && c <= 'z', c >= 'A' && c <= 'Z', c >= '0' && c <= '9',
			c == '-', c == '_', c == '.', c == '~', c == '/':
			b.WriteByte(c)
		default:
			fmt.Fprintf(&b, "%%%02X", c)
		}
	}
	return b.String()
}
