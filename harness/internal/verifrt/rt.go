// Package verifrt is the shared runtime of the verification harness.
// It is NOT part of mediamtx: it is injected into the build of /repo's working
// tree through `go test -overlay` by /verif/lib/vf.py.
package verifrt

import (
	"bufio"
	"encoding/json"
	"fmt"
	"math/rand/v2"
	"os"
	"strconv"
	"sync"
	"testing"
)

// Seed returns VERIF_SEED (default 1).
func Seed() uint64 {
	s := os.Getenv("VERIF_SEED")
	if s == "" {
		return 1
	}
	v, err := strconv.ParseInt(s, 10, 64)
	if err != nil {
		return 1
	}
	return uint64(v)
}

// Rand returns a PRNG seeded from VERIF_SEED and a per-use salt.
func Rand(salt uint64) *rand.Rand {
	return rand.New(rand.NewPCG(Seed(), salt))
}

// Tier returns VERIF_TIER (quick|thorough).
func Tier() string {
	s := os.Getenv("VERIF_TIER")
	if s == "" {
		return "quick"
	}
	return s
}

// Thorough reports whether the thorough tier is selected.
func Thorough() bool { return Tier() == "thorough" }

// Param returns an integer parameter passed by the check driver (VERIF_P_<name>).
func Param(name string, def int) int {
	s := os.Getenv("VERIF_P_" + name)
	if s == "" {
		return def
	}
	v, err := strconv.Atoi(s)
	if err != nil {
		return def
	}
	return v
}

// ParamS returns a string parameter passed by the check driver (VERIF_P_<name>).
func ParamS(name string, def string) string {
	s := os.Getenv("VERIF_P_" + name)
	if s == "" {
		return def
	}
	return s
}

// ForEachCase streams the ndjson file named by the environment variable env
// (default VERIF_CASES) and calls fn with each raw line.
func ForEachCase(t testing.TB, fn func(raw []byte)) {
	ForEachCaseFile(t, os.Getenv("VERIF_CASES"), fn)
}

// ForEachCaseFile streams an ndjson file.
func ForEachCaseFile(t testing.TB, path string, fn func(raw []byte)) {
	if path == "" {
		t.Skip("VERIF_CASES not set: this test is driven by /verif/check")
	}
	f, err := os.Open(path)
	if err != nil {
		t.Fatalf("verifrt: %v", err)
	}
	defer f.Close()
	sc := bufio.NewScanner(f)
	sc.Buffer(make([]byte, 1<<20), 1<<28)
	for sc.Scan() {
		b := sc.Bytes()
		if len(b) == 0 {
			continue
		}
		cp := make([]byte, len(b))
		copy(cp, b)
		fn(cp)
	}
	if err := sc.Err(); err != nil {
		t.Fatalf("verifrt: %v", err)
	}
}

// Decode unmarshals raw into v or fails the test (a harness problem, exit 2).
func Decode(t testing.TB, raw []byte, v any) {
	if err := json.Unmarshal(raw, v); err != nil {
		t.Fatalf("verifrt: cannot decode case %s: %v", string(raw), err)
	}
}

// Out is an ndjson writer for observations.
type Out struct {
	mu sync.Mutex
	f  *os.File
	w  *bufio.Writer
	n  int
}

// NewOut opens the file named by VERIF_OUT.
func NewOut(t testing.TB) *Out {
	return NewOutFile(t, os.Getenv("VERIF_OUT"))
}

// NewOutFile opens an ndjson output file.
func NewOutFile(t testing.TB, path string) *Out {
	if path == "" {
		t.Skip("VERIF_OUT not set: this test is driven by /verif/check")
	}
	f, err := os.Create(path)
	if err != nil {
		t.Fatalf("verifrt: %v", err)
	}
	return &Out{f: f, w: bufio.NewWriterSize(f, 1<<20)}
}

// Emit writes one record.
func (o *Out) Emit(rec any) {
	b, err := json.Marshal(rec)
	if err != nil {
		panic(fmt.Sprintf("verifrt: cannot marshal record: %v", err))
	}
	o.mu.Lock()
	o.w.Write(b)
	o.w.WriteByte('\n')
	o.n++
	o.mu.Unlock()
}

// Count returns the number of records emitted.
func (o *Out) Count() int {
	o.mu.Lock()
	defer o.mu.Unlock()
	return o.n
}

// Close flushes the file.
func (o *Out) Close() {
	o.mu.Lock()
	defer o.mu.Unlock()
	o.w.Flush()
	o.f.Close()
}

// Catch runs fn and converts a panic into (true, message).
func Catch(fn func()) (panicked bool, msg string) {
	defer func() {
		if r := recover(); r != nil {
			panicked = true
			msg = fmt.Sprint(r)
		}
	}()
	fn()
	return false, ""
}
