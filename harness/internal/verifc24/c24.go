// Package verifc24 is shared by the C24 harness tests (one per package that holds a copy of the
// timestamp scaling helper). It is NOT part of mediamtx: it is injected through `go test -overlay`
// by /verif/lib/vf.py. It only draws inputs and records outputs; verdicts are taken by TLC (small
// domain, table of spec/time/ScaleMC.tla) and Apalache (64-bit records, spec/time/ScaleBig.tla).
package verifc24

import (
	"math/big"
	"path/filepath"
	"testing"

	"github.com/bluenviron/mediamtx/internal/verifrt"
)

// Giga is the number of nanoseconds per second.
const Giga = int64(1000000000)

// Fn is one copy of the helper. Call computes the copy's result for the conversion
// "v * m / d"; copies with a built-in factor have FixM or FixD set (to 10^9) and ignore that argument.
type Fn struct {
	Name    string // "<package>.<function>"
	FixM    int64  // 0: m is a parameter
	FixD    int64  // 0: d is a parameter
	MaxRate int64  // largest rate the parameter type can hold within the property's range 1..2^32
	Call    func(v, m, d int64) int64
}

// Rec is one observed call.
type Rec struct {
	ID  int    `json:"id"` // small domain: id of the TLC case; 64-bit sampling: running number
	Fn  string `json:"fn"`
	Src string `json:"src"` // "small" | "big"
	V   string `json:"v"`   // decimal strings: 64-bit values do not survive JSON numbers
	M   string `json:"m"`
	D   string `json:"d"`
	Out string `json:"out"`
	// for 64-bit samples: the exact result according to math/big (always representable: inputs
	// whose exact result does not fit into int64 are not recorded)
	Exact    string `json:"exact,omitempty"`
	Panicked bool   `json:"panicked,omitempty"`
}

func itoa(x int64) string { return big.NewInt(x).String() }

// exact returns trunc(v*m/d) and whether it fits into int64.
func exact(v, m, d int64) (int64, bool) {
	p := new(big.Int).Mul(big.NewInt(v), big.NewInt(m))
	q := new(big.Int).Quo(p, big.NewInt(d)) // Quo truncates toward zero
	return q.Int64(), q.IsInt64()
}

// rn draws from [0, n); n <= 0 (an overflowed bound) counts as the whole non-negative range.
func rn(r interface{ Int64N(int64) int64 }, n int64) int64 {
	if n <= 0 {
		n = 1<<63 - 1
	}
	return r.Int64N(n)
}

func call(f Fn, v, m, d int64) (out int64, panicked bool) {
	panicked, _ = verifrt.Catch(func() { out = f.Call(v, m, d) })
	return
}

// Run replays the small-domain cases of VERIF_CASES and draws the 64-bit samples for every copy in
// fns; records go to <VERIF_P_OUTDIR>/c24_<pkg>.ndjson.
func Run(t *testing.T, pkg string, fns []Fn) {
	dir := verifrt.ParamS("OUTDIR", "")
	if dir == "" {
		t.Skip("VERIF_P_OUTDIR not set: this test is driven by /verif/check")
	}
	out := verifrt.NewOutFile(t, filepath.Join(dir, "c24_"+pkg+".ndjson"))
	defer out.Close()

	// ---- spec -> impl: the small domain enumerated by TLC
	verifrt.ForEachCase(t, func(raw []byte) {
		var c struct {
			ID int   `json:"id"`
			V  int64 `json:"v"`
			M  int64 `json:"m"`
			D  int64 `json:"d"`
		}
		verifrt.Decode(t, raw, &c)
		for _, f := range fns {
			v, m, d := c.V, c.M, c.D
			// a copy with a built-in 10^9 computes the same quotient for the case when the
			// case's factor divides 10^9: v*m/d = v*10^9/(d*10^9/m) = (v*10^9/d)*m/10^9
			switch {
			case f.FixM != 0:
				if f.FixM%m != 0 {
					continue
				}
				d *= f.FixM / m
				m = f.FixM
			case f.FixD != 0:
				if f.FixD%d != 0 {
					continue
				}
				v *= f.FixD / d
				d = f.FixD
			}
			if (f.FixM == 0 && m > f.MaxRate) || (f.FixD == 0 && d > f.MaxRate) {
				continue // outside the property's range of rates / the parameter type
			}
			o, p := call(f, v, m, d)
			out.Emit(&Rec{ID: c.ID, Fn: f.Name, Src: "small", V: itoa(v), M: itoa(m), D: itoa(d), Out: itoa(o), Panicked: p})
		}
	})

	// ---- 64-bit sampling: boundary classes of v, rates of the property's range
	n := verifrt.Param("SAMPLES", 40)
	rates := []int64{1, 8000, 48000, 90000, Giga, 1<<32 - 1, 1 << 32}
	// fixed corners, drawn for every seed: the largest rates with a remainder above and below 2^31,
	// the representability limit at 90 kHz <-> ns
	corners := [][3]int64{
		{3000000000, 1 << 32, 1 << 32},
		{-3000000000, 1<<32 - 1, 1 << 32},
		{1 << 31, 1 << 32, 1<<32 - 1},
		{1<<31 - 1, 1 << 32, 1 << 32},
		{1<<62 + 12345, 1<<32 - 1, 1<<32 - 1},
		{1<<63 - 1, 90000, Giga},
		{-(1<<63 - 1) / 11112, Giga, 90000},
		{1<<63 - 1, Giga, Giga},
	}
	for _, f := range fns {
		rnd := verifrt.Rand(24) // the same inputs for every copy of the same shape
		id := 0
		for _, c := range corners {
			v, m, d := c[0], c[1], c[2]
			if (f.FixM != 0 && m != f.FixM) || (f.FixD != 0 && d != f.FixD) ||
				(f.FixM == 0 && m > f.MaxRate) || (f.FixD == 0 && d > f.MaxRate) {
				continue
			}
			ex, ok := exact(v, m, d)
			if !ok {
				continue
			}
			o, p := call(f, v, m, d)
			id++
			out.Emit(&Rec{ID: id, Fn: f.Name, Src: "big", V: itoa(v), M: itoa(m), D: itoa(d), Out: itoa(o),
				Exact: itoa(ex), Panicked: p})
		}
		for tries := 0; id < n && tries < 200*n; tries++ {
			m := rates[rnd.IntN(len(rates))]
			d := rates[rnd.IntN(len(rates))]
			switch rnd.IntN(10) {
			case 0: // other real-world rates
				more := []int64{1000, 11025, 16000, 22050, 44100, 96000, 1000000, 27000000}
				m = more[rnd.IntN(len(more))]
			case 1:
				m = 1 + rnd.Int64N(1<<32)
			case 2:
				d = 1 + rnd.Int64N(1<<32)
			}
			if f.FixM != 0 {
				m = f.FixM
			}
			if f.FixD != 0 {
				d = f.FixD
			}
			if (f.FixM == 0 && m > f.MaxRate) || (f.FixD == 0 && d > f.MaxRate) {
				continue // the parameter type of this copy cannot hold the rate
			}
			// the largest |v| whose exact result is representable: |v| <= (2^63-1) * d / m
			lim := new(big.Int).Mul(big.NewInt(1<<63-1), big.NewInt(d))
			lim.Quo(lim, big.NewInt(m))
			if !lim.IsInt64() {
				lim.SetInt64(1<<63 - 1)
			}
			L := lim.Int64()
			var v int64
			switch rnd.IntN(12) {
			case 0:
				v = L - rn(rnd, 4) // at the representability limit
			case 1:
				v = L - rn(rnd, 1<<20)
			case 2:
				v = L + 1 + rn(rnd, 3) // just beyond: dropped below unless still representable
			case 3:
				v = 1<<63 - 1 - rn(rnd, 1000) // near 2^63 (kept only where representable)
			case 4:
				v = rn(rnd, L/2+1) + L/2 // upper half of the representable range
			case 5:
				v = rn(rnd, L + 1) // anywhere
			case 6: // a multiple of d, one less, one more
				k := rn(rnd, L/d + 1)
				v = k*d + rn(rnd, 3) - 1
			case 7: // realistic: up to some days in ns or ticks
				v = rn(rnd, 1 << 50)
			case 8:
				v = rn(rnd, 1 << 34)
			case 9: // remainder close to d (largest intermediate product)
				k := rn(rnd, L/d + 1)
				v = k*d + d - 1 - rn(rnd, 3)
			case 10:
				v = rn(rnd, 1 << 33) // around 2^31 .. 2^32
			default:
				v = rn(rnd, 1000)
			}
			if v < 0 {
				v = -v
			}
			if rnd.IntN(2) == 0 {
				v = -v
			}
			if rnd.IntN(40) == 0 {
				v = -1 << 63
			}
			ex, ok := exact(v, m, d)
			if !ok {
				continue // the statement says nothing about this input
			}
			o, p := call(f, v, m, d)
			id++
			out.Emit(&Rec{ID: id, Fn: f.Name, Src: "big", V: itoa(v), M: itoa(m), D: itoa(d), Out: itoa(o),
				Exact: itoa(ex), Panicked: p})
		}
		if id < n {
			t.Fatalf("verifc24: only %d of %d samples drawn for %s", id, n, f.Name)
		}
	}
}
