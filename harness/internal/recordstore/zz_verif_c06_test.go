package recordstore

// Verification harness for C06 (path names cannot escape the recording tree), direct entry points:
// conf.IsValidPathName, conf.FindPathConf (+ the segment path the recorder derives for the name),
// FindSegments, CommonPath. Injected by /verif through -overlay. The test records what the real
// code does; verdicts are taken by TLC (spec/conf/TracePathSafety.tla).

import (
	"os"
	"strings"
	"testing"
	"time"

	"github.com/bluenviron/mediamtx/internal/conf"
	"github.com/bluenviron/mediamtx/internal/verifc06"
	"github.com/bluenviron/mediamtx/internal/verifrt"
)

// vf06RecorderPath is the file name the recorder derives for a path name
// (recorder_instance.go: pathFormat2; format_fmp4_segment.go: Path{Start}.Encode(pathFormat2)),
// built from the real PathAddExtension and Path.Encode.
func vf06RecorderPath(pc *conf.Path, name string, start time.Time) string {
	pathFormat2 := PathAddExtension(
		strings.ReplaceAll(pc.RecordPath, "%path", name),
		pc.RecordFormat,
	)
	return Path{Start: start}.Encode(pathFormat2)
}

func TestVerif_C06_Store(t *testing.T) {
	out := verifrt.NewOutFile(t, vf06OutPath("store"))
	defer out.Close()
	in := verifc06.ReadInput(t)
	tr := verifc06.Setup(t)
	start := time.Date(2009, 5, 20, 22, 15, 25, 427000, time.Local)

	isShape := map[string]bool{}
	for _, s := range in.Shapes {
		isShape[s] = true
	}

	// the directory the real code takes as the fixed prefix of each record path
	for fi, f := range tr.Formats {
		out.Emit(map[string]any{"entry": "CommonPath", "format": fi, "rp": verifc06.Chars(tr.Alias(f)),
			"common": verifc06.Chars(tr.Alias(CommonPath(f)))})
	}

	for _, name := range in.Names {
		err := conf.IsValidPathName(name)
		out.Emit(tr.NewRec("IsValidPathName", nil, name, err == nil, nil, ""))
	}

	for fi := range tr.Formats {
		std := tr.StdContexts(t, fi)
		for _, name := range in.Names {
			if fi > 0 && !isShape[name] {
				continue // the bounded names are tried with the default-shaped format only
			}
			ctxs := std
			if kc := tr.KeyContext(t, name, fi); kc != nil {
				ctxs = append(append([]*verifc06.Context{}, std...), kc)
			}
			for _, ctx := range ctxs {
				// publishing / reading: the path manager and every server resolve the name with
				// conf.FindPathConf; for an accepted name the recorder would write this file
				pc, _, err := conf.FindPathConf(ctx.Paths, name)
				var files []string
				if err == nil {
					files = []string{vf06RecorderPath(pc, name, start)}
				}
				out.Emit(tr.NewRec("FindPathConf+recorderPath", ctx, name, err == nil, files, ""))

				// playback / API / cleaner: the files FindSegments hands out for the name
				if pc == nil {
					pc = ctx.AnyConf()
				}
				segs, err := FindSegments(pc, name, nil, nil)
				files = nil
				for _, s := range segs {
					files = append(files, s.Fpath)
				}
				info := ""
				if err != nil {
					info = err.Error()
					if len(info) > 60 {
						info = info[:60]
					}
				}
				out.Emit(tr.NewRec("FindSegments", ctx, name, err == nil, files, info))
			}
		}
	}
}

// the four C06 harness tests run in one `go test` invocation; each writes its own file
func vf06OutPath(suffix string) string {
	p := os.Getenv("VERIF_OUT")
	if p == "" {
		return ""
	}
	return p + "." + suffix
}
