package recordstore

// Verification harness for C26 (segment file names). Injected by /verif through -overlay.
// It only records what the real Path.Encode / Path.Decode do under the server zone of each case;
// TLC decides (spec/record/TraceSegName.tla).

import (
	"bufio"
	"encoding/json"
	"os"
	"os/exec"
	"path/filepath"
	"strconv"
	"strings"
	"testing"
	"time"

	"github.com/bluenviron/mediamtx/internal/verifrt"
)

type vf26Case struct {
	ID    int               `json:"id"`
	Calls []json.RawMessage `json:"calls"` // hist: the calls (enc cases) of one history, run in order in a FRESH process
	Kind  string            `json:"kind"`  // enc | cand | hist
	Fmt   []string          `json:"fmt"`   // tokens of the record path format (extension included)
	Zone  string            `json:"zone"`  // server zone
	P     string            `json:"p"`     // path name
	U     int64             `json:"u"`     // enc: start instant, Unix seconds
	US    int               `json:"us"`    // enc: microseconds
	File  string            `json:"file"`  // cand: candidate file name
}

type vf26Dec struct {
	OK    bool   `json:"ok"`
	Path  string `json:"path"`
	D     int64  `json:"d"` // returned start: days since 1970-01-01 (UTC) ...
	S     int64  `json:"s"` // ... and second of that day (Unix seconds do not fit the model's integers after 2038)
	US    int    `json:"us"`
	Off   int    `json:"off"` // UTC offset of the returned time at that instant, minutes
	Big   bool   `json:"big"` // instant not representable in the model (outside 0..9999999999, odd offset)
	Panic bool   `json:"panic"`
}

type vf26Obs struct {
	ID     int     `json:"id"`
	Name   string  `json:"name"`   // enc: the recorder's way (substitute %path, then Path{Start}.Encode)
	Direct string  `json:"direct"` // enc: Path{Start, Path}.Encode(format)
	A      vf26Dec `json:"a"`      // Decode(format, name)
	B      vf26Dec `json:"b"`      // Decode(format with %path substituted, name): the FindSegments way
}

func vf26Decode(format string, file string) vf26Dec {
	var d Path
	var ok bool
	panicked, _ := verifrt.Catch(func() { ok = d.Decode(format, file) })
	if panicked {
		return vf26Dec{Panic: true}
	}
	if !ok {
		return vf26Dec{}
	}
	r := vf26Dec{OK: true, Path: d.Path}
	sec := d.Start.Unix()
	_, off := d.Start.Zone()
	ns := d.Start.Nanosecond()
	if sec < 0 || sec > 9999999999 || off%60 != 0 || ns%1000 != 0 {
		r.Big = true
		return r
	}
	r.D = sec / 86400
	r.S = sec % 86400
	r.US = ns / 1000
	r.Off = off / 60
	return r
}

func TestVerif_C26_Replay(t *testing.T) {
	out := verifrt.NewOut(t)
	defer out.Close()

	saved := time.Local
	defer func() { time.Local = saved }()
	locs := map[string]*time.Location{}

	verifrt.ForEachCase(t, func(raw []byte) {
		var c vf26Case
		verifrt.Decode(t, raw, &c)
		if c.Kind == "hist" {
			vf26History(t, out, &c)
			return
		}
		loc, ok := locs[c.Zone]
		if !ok {
			var err error
			loc, err = time.LoadLocation(c.Zone)
			if err != nil {
				t.Fatalf("cannot load zone %s: %v", c.Zone, err)
			}
			locs[c.Zone] = loc
		}
		time.Local = loc // the server's zone for this case

		format := strings.Join(c.Fmt, "")
		format2 := strings.ReplaceAll(format, "%path", c.P) // recorderInstance.initialize / FindSegments
		o := vf26Obs{ID: c.ID}
		file := c.File
		if c.Kind == "enc" {
			start := time.Unix(c.U, int64(c.US)*1000) // as the recorder gets it: in the local zone
			o.Name = Path{Start: start}.Encode(format2)
			o.Direct = Path{Start: start, Path: c.P}.Encode(format)
			file = o.Name
		}
		o.A = vf26Decode(format, file)
		o.B = vf26Decode(format2, file)
		out.Emit(&o)
	})
}

// vf26History runs the calls of one history in a fresh process (this test binary, re-executed with the calls as
// its cases): whatever the package remembers between calls starts empty, and the order of the calls is the
// order of the history. The child's observations are passed on unchanged.
func vf26History(t *testing.T, out *verifrt.Out, c *vf26Case) {
	dir := t.TempDir()
	cf := filepath.Join(dir, "h"+strconv.Itoa(c.ID)+".ndjson")
	of := filepath.Join(dir, "h"+strconv.Itoa(c.ID)+".out")
	f, err := os.Create(cf)
	if err != nil {
		t.Fatal(err)
	}
	for _, call := range c.Calls {
		f.Write(call)
		f.Write([]byte{'\n'})
	}
	f.Close()

	cmd := exec.Command(os.Args[0], "-test.run=^TestVerif_C26_Replay$", "-test.count=1")
	cmd.Env = append(os.Environ(), "VERIF_CASES="+cf, "VERIF_OUT="+of)
	if b, err2 := cmd.CombinedOutput(); err2 != nil {
		t.Fatalf("history %d: child process failed: %v\n%s", c.ID, err2, b)
	}
	rf, err := os.Open(of)
	if err != nil {
		t.Fatal(err)
	}
	defer rf.Close()
	sc := bufio.NewScanner(rf)
	sc.Buffer(make([]byte, 1<<20), 1<<26)
	n := 0
	for sc.Scan() {
		if len(sc.Bytes()) == 0 {
			continue
		}
		out.Emit(json.RawMessage(append([]byte(nil), sc.Bytes()...)))
		n++
	}
	if n != len(c.Calls) {
		t.Fatalf("history %d: %d observations for %d calls", c.ID, n, len(c.Calls))
	}
}
