package forward

// Verification harness for C39 (forward destinations reconcile with configuration). Injected by
// /verif through -overlay. Replays walks of spec/misc/Forward.tla on the real Manager with
// destinations on a closed loopback port (handlers retry in the background; nothing depends on a
// connection) and records what the manager lists and which forwarders run after every call.
// Records only; TLC decides (spec/misc/TraceForward.tla).

import (
	"testing"
	"time"

	"github.com/bluenviron/gortsplib/v5/pkg/description"
	"github.com/bluenviron/gortsplib/v5/pkg/format"
	"github.com/google/uuid"

	"github.com/bluenviron/mediamtx/internal/conf"
	"github.com/bluenviron/mediamtx/internal/logger"
	"github.com/bluenviron/mediamtx/internal/stream"
	"github.com/bluenviron/mediamtx/internal/verifrt"
)

type vf39Log struct{}

func (vf39Log) Log(logger.Level, string, ...any) {}

type vf39Op struct {
	K string   `json:"k"`
	L []string `json:"l"`
}

type vf39H struct {
	ID      int    `json:"id"`
	Dest    string `json:"dest"`
	Running bool   `json:"running"`
	Run     int    `json:"run"`
}

type vf39Obs struct {
	Conf     []string `json:"conf"`
	Handlers []vf39H  `json:"handlers"`
	Started  bool     `json:"started"`
	Strays   []int    `json:"strays"`
	MStarted bool     `json:"mstarted"`
	Pos      []int    `json:"pos"`
	CtxLive  []bool   `json:"ctxLive"`
}

type vf39Run struct {
	Run int       `json:"run"`
	Ops []vf39Op  `json:"ops"`
	Obs []vf39Obs `json:"obs"`
	Ms  int64     `json:"ms"`
	// the walk was cut short because the next call would crash the process (see vf39World.unsafe)
	Truncated string `json:"truncated"`
}

// the three abstract destinations: two protocols, and a destination that differs from "a" only in
// a parameter (same URL)
var vf39Tokens = map[string]conf.ForwardDest{
	"a": {Dest: "rtsp://127.0.0.1:9/a"},
	"b": {Dest: "rtmp://127.0.0.1:9/b"},
	"c": {Dest: "rtsp://127.0.0.1:9/a", DestFingerprint: "33949e05fffb5ff3e8aa16f8213a6251b4d9363804ba53233c4da9a46d6f2739"},
}

func vf39Fwd(l []string) conf.Forward {
	out := make(conf.Forward, 0, len(l))
	for _, t := range l {
		d, ok := vf39Tokens[t]
		if !ok {
			panic("unknown token " + t)
		}
		out = append(out, d)
	}
	return out
}

func vf39TokenOf(d conf.ForwardDest) string {
	for t, v := range vf39Tokens {
		if v == d {
			return t
		}
	}
	return "?" + d.Dest
}

func vf39Stream(t testing.TB) *stream.Stream {
	desc := &description.Session{Medias: []*description.Media{{
		Type:    description.MediaTypeVideo,
		Formats: []format.Format{&format.H264{PayloadTyp: 96, PacketizationMode: 1}},
	}}}
	strm := &stream.Stream{
		OrigDesc:          desc,
		WriteQueueSize:    512,
		RTPMaxPayloadSize: 1450,
		Parent:            vf39Log{},
	}
	if err := strm.Initialize(); err != nil {
		t.Fatalf("stream: %v", err)
	}
	return strm
}

func vf39Open(ch chan struct{}) bool {
	if ch == nil {
		return false
	}
	select {
	case <-ch:
		return false
	default:
		return true
	}
}

type vf39World struct {
	m       *Manager
	started bool
	conf    []string
	ids     map[uuid.UUID]int
	all     map[*DestHandler]int
	runs    map[chan struct{}]int
	strm    *stream.Stream
}

func (w *vf39World) observe() vf39Obs {
	o := vf39Obs{Conf: append([]string{}, w.conf...), Handlers: []vf39H{}, Started: w.started,
		Strays: []int{}, MStarted: w.m.started, Pos: []int{}, CtxLive: []bool{}}
	list := w.m.APIList()
	cur := map[*DestHandler]bool{}
	for i, it := range list.Items {
		id, ok := w.ids[it.ID]
		if !ok {
			id = len(w.ids) + 1
			w.ids[it.ID] = id
		}
		h := vf39H{ID: id, Dest: vf39TokenOf(it.Conf)}
		live := false
		if i < len(w.m.destHandlers) {
			dh := w.m.destHandlers[i]
			cur[dh] = true
			if _, ok2 := w.all[dh]; !ok2 {
				w.all[dh] = id
			}
			h.Running = vf39Open(dh.done)
			if dh.done != nil {
				rn, ok3 := w.runs[dh.done]
				if !ok3 {
					rn = len(w.runs) + 1
					w.runs[dh.done] = rn
				}
				h.Run = rn
			}
			live = dh.ctx != nil && dh.ctx.Err() == nil
		}
		o.Handlers = append(o.Handlers, h)
		o.Pos = append(o.Pos, it.Pos)
		o.CtxLive = append(o.CtxLive, live)
	}
	for dh, id := range w.all {
		if !cur[dh] && vf39Open(dh.done) {
			o.Strays = append(o.Strays, id)
		}
	}
	return o
}

// unsafe says why the next call cannot be made without crashing the test binary (the real
// start() of a forwarder that already runs overwrites its done channel: double close; the real
// stop() of a forwarder that was never started calls a nil cancel function). This is not a verdict:
// the walk is cut and what was observed so far goes to TLC.
func (w *vf39World) unsafe(op string) string {
	for _, dh := range w.m.destHandlers {
		if op == "Start" && vf39Open(dh.done) {
			return "Start would start a forwarder that already runs"
		}
		if op == "Stop" && dh.ctxCancel == nil {
			return "Stop would stop a forwarder that was never started"
		}
	}
	return ""
}

func vf39Exec(t testing.TB, r *vf39Run) {
	t0 := time.Now()
	w := &vf39World{ids: map[uuid.UUID]int{}, all: map[*DestHandler]int{}, runs: map[chan struct{}]int{}}
	r.Obs = []vf39Obs{}
	placeholder := vf39Stream(t)
	defer placeholder.Close()
	defer func() {
		// leave nothing running
		for dh := range w.all {
			if vf39Open(dh.done) {
				dh.stop()
			}
		}
		if w.strm != nil {
			w.strm.Close()
		}
	}()
	for k, op := range r.Ops {
		if op.L == nil {
			r.Ops[k].L = []string{}
		}
		if k > 0 {
			if why := w.unsafe(op.K); why != "" {
				r.Truncated = why
				r.Ops = r.Ops[:k]
				break
			}
		}
		switch op.K {
		case "Initialize":
			if k != 0 {
				t.Fatalf("run %d: Initialize at step %d", r.Run, k)
			}
			w.m = &Manager{
				ReadTimeout:       conf.Duration(2 * time.Second),
				WriteTimeout:      conf.Duration(2 * time.Second),
				UDPMaxPayloadSize: 1472,
				PathName:          "p",
				Forward:           vf39Fwd(op.L),
				Parent:            vf39Log{},
			}
			w.m.Initialize()
			// the manager only reads its stream while started; giving it a live stream from the
			// beginning changes nothing for the unchanged code and keeps a forwarder that is started
			// too early observable instead of crashing the test binary
			w.m.stream = placeholder
			w.conf = op.L
		case "Start":
			w.strm = vf39Stream(t)
			w.m.Start(w.strm)
			w.started = true
		case "Stop":
			w.m.Stop()
			w.started = false
			if w.strm != nil {
				w.strm.Close()
				w.strm = nil
			}
		case "Reload":
			w.m.ReloadConf(vf39Fwd(op.L))
			w.conf = op.L
		default:
			t.Fatalf("unknown op %q", op.K)
		}
		r.Obs = append(r.Obs, w.observe())
	}
	r.Ms = time.Since(t0).Milliseconds()
}

// spec -> impl: the edge-covering walks of Forward.tla.
func TestVerif_C39_Replay(t *testing.T) {
	out := verifrt.NewOut(t)
	defer out.Close()
	verifrt.ForEachCase(t, func(raw []byte) {
		var r vf39Run
		verifrt.Decode(t, raw, &r)
		vf39Exec(t, &r)
		out.Emit(&r)
	})
}
