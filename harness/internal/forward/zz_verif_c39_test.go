package forward

// Verification harness for C39 (forward destinations reconcile with configuration). Injected by
// /verif through -overlay. Replays walks of spec/misc/Forward.tla on the real Manager with
// destinations on a closed loopback port (handlers retry in the background; nothing depends on a
// connection) and records what the manager lists and which forwarders run after every call.
// Records only; TLC decides (spec/misc/TraceForward.tla).
//
// What is observed, and how (nothing is read from the Manager's own bookkeeping by name):
//   - "started" (the stream is available) is what the harness itself did: it called Start / Stop.
//   - the listed forwarders, their order, identity and configuration: Manager.APIList().
//   - which forwarders run, how many run loops each one has, which run it is:
//       (1) the forwarders' own log lines "[PROTO dest N id] starting" / "... stopping", which reach the
//           Manager's Parent (the harness) synchronously from start() / stop(): a package-boundary
//           observation. It is trusted only if a calibration run (one destination, Start, Stop) shows
//           exactly one line of each kind;
//       (2) the forwarders' done channels (a run loop is alive while its channel is open). The
//           forwarder objects are found by TYPE (a []*DestHandler field of Manager, a chan struct{} /
//           func() field of DestHandler) through reflection, never by field name, so the harness still
//           compiles and works from (1) alone when the structures change.
//     Every done channel ever seen is remembered per forwarder, so a forwarder that is started a
//     second time while its first run loop is alive shows loops = 2.
// The code under test can crash the process (a forwarder started on a nil stream, a double close of
// a done channel). Walks therefore run in a child process of the test binary; a crash costs one walk
// (recorded as crashed), the remaining walks continue in a fresh child.

import (
	"bufio"
	"bytes"
	"encoding/hex"
	"encoding/json"
	"fmt"
	"os"
	"os/exec"
	"reflect"
	"regexp"
	"strconv"
	"sync"
	"testing"
	"time"
	"unsafe"

	"github.com/bluenviron/gortsplib/v5/pkg/description"
	"github.com/bluenviron/gortsplib/v5/pkg/format"
	"github.com/google/uuid"

	"github.com/bluenviron/mediamtx/internal/conf"
	"github.com/bluenviron/mediamtx/internal/logger"
	"github.com/bluenviron/mediamtx/internal/stream"
	"github.com/bluenviron/mediamtx/internal/verifrt"
)

type vf39NilLog struct{}

func (vf39NilLog) Log(logger.Level, string, ...any) {}

type vf39Op struct {
	K string   `json:"k"`
	L []string `json:"l"`
}

type vf39H struct {
	ID      int    `json:"id"`
	Dest    string `json:"dest"`
	Running bool   `json:"running"`
	Run     int    `json:"run"`
	Loops   int    `json:"loops"`
}

type vf39Obs struct {
	Conf     []string `json:"conf"`
	Handlers []vf39H  `json:"handlers"`
	Started  bool     `json:"started"`
	Strays   []int    `json:"strays"`
	Pos      []int    `json:"pos"`
}

type vf39Run struct {
	Run int       `json:"run"`
	Ops []vf39Op  `json:"ops"`
	Obs []vf39Obs `json:"obs"`
	Ms  int64     `json:"ms"`
	// the walk was cut short because the next call would crash the process (see vf39World.unsafe)
	Truncated string `json:"truncated"`
	// the code under test crashed the process during this walk (panic text); nothing was observed
	Crashed string `json:"crashed"`
	// which observation channels were available
	Ptrs bool `json:"ptrs"`
	Logs bool `json:"logs"`
}

// the three abstract destinations: two protocols, and a destination that differs from "a" only in
// a parameter (same URL)
var vf39Tokens = map[string]conf.ForwardDest{
	"a": {Dest: "rtsp://127.0.0.1:9/a"},
	"b": {Dest: "rtmp://127.0.0.1:9/b"},
	"c": {Dest: "rtsp://127.0.0.1:9/a", DestFingerprint: "33949e05fffb5ff3e8aa16f8213a6251b4d9363804ba53233c4da9a46d6f2739"},
}

func vf39Fwd(l []string) conf.Forward {
	out := make(conf.Forward, 0, len(l))
	for _, t := range l {
		d, ok := vf39Tokens[t]
		if !ok {
			panic("unknown token " + t)
		}
		out = append(out, d)
	}
	return out
}

func vf39TokenOf(d conf.ForwardDest) string {
	for t, v := range vf39Tokens {
		if v == d {
			return t
		}
	}
	return "?" + d.Dest
}

func vf39Stream(t testing.TB) *stream.Stream {
	desc := &description.Session{Medias: []*description.Media{{
		Type:    description.MediaTypeVideo,
		Formats: []format.Format{&format.H264{PayloadTyp: 96, PacketizationMode: 1}},
	}}}
	strm := &stream.Stream{
		OrigDesc:          desc,
		WriteQueueSize:    512,
		RTPMaxPayloadSize: 1450,
		Parent:            vf39NilLog{},
	}
	if err := strm.Initialize(); err != nil {
		t.Fatalf("stream: %v", err)
	}
	return strm
}

func vf39Open(ch chan struct{}) bool {
	if ch == nil {
		return false
	}
	select {
	case <-ch:
		return false
	default:
		return true
	}
}

// ---- structure access by type (never by field name)

// vf39Handlers returns the manager's forwarder objects if it keeps them in a []*DestHandler field.
func vf39Handlers(m *Manager) ([]*DestHandler, bool) {
	v := reflect.ValueOf(m).Elem()
	want := reflect.TypeOf([]*DestHandler(nil))
	for i := 0; i < v.NumField(); i++ {
		f := v.Field(i)
		if f.Type() == want {
			return *(*[]*DestHandler)(unsafe.Pointer(f.UnsafeAddr())), true
		}
	}
	return nil, false
}

// vf39Done returns the forwarder's done channel (its only chan struct{} field), if there is exactly one.
func vf39Done(h *DestHandler) (chan struct{}, bool) {
	v := reflect.ValueOf(h).Elem()
	want := reflect.TypeOf((chan struct{})(nil))
	var out chan struct{}
	n := 0
	for i := 0; i < v.NumField(); i++ {
		f := v.Field(i)
		if f.Type() == want {
			out = *(*chan struct{})(unsafe.Pointer(f.UnsafeAddr()))
			n++
		}
	}
	return out, n == 1
}

// vf39NeverStarted: the forwarder's cancel function (its only func() field) is nil.
func vf39NeverStarted(h *DestHandler) (bool, bool) {
	v := reflect.ValueOf(h).Elem()
	want := reflect.TypeOf((func())(nil))
	isNil, n := false, 0
	for i := 0; i < v.NumField(); i++ {
		f := v.Field(i)
		if f.Type() == want {
			isNil = f.IsNil()
			n++
		}
	}
	return isNil, n == 1
}

// ---- the world of one walk

type vf39HState struct {
	prefix string
	id     int // 0 = not yet numbered
	live   int // run loops alive according to the log lines
	starts int
	last   int // ordinal of the last "starting" line of this forwarder
	ptr    *DestHandler
	chans  []chan struct{} // every done channel ever seen for this forwarder
}

type vf39World struct {
	m       *Manager
	started bool
	conf    []string
	strm    *stream.Stream
	logsOK  bool
	ptrsOK  bool

	mu      sync.Mutex
	byID    map[string]*vf39HState // key: hex of the first 4 bytes of the API id (what the log lines carry)
	nextID  int
	nstarts int
	runs    map[chan struct{}]int
}

var vf39LogRe = regexp.MustCompile(`^\[\S+ dest \d+ ([0-9a-f]{8})\] (starting|stopping)$`)

// Log is the Manager's Parent: every forwarder's log lines end up here.
func (w *vf39World) Log(_ logger.Level, format string, args ...any) {
	msg := fmt.Sprintf(format, args...)
	mm := vf39LogRe.FindStringSubmatch(msg)
	if mm == nil {
		return
	}
	w.mu.Lock()
	defer w.mu.Unlock()
	st := w.state(mm[1])
	if mm[2] == "starting" {
		st.live++
		st.starts++
		w.nstarts++
		st.last = w.nstarts
	} else if st.live > 0 {
		st.live--
	}
}

func (w *vf39World) state(prefix string) *vf39HState {
	st, ok := w.byID[prefix]
	if !ok {
		st = &vf39HState{prefix: prefix}
		w.byID[prefix] = st
	}
	return st
}

func vf39Prefix(id uuid.UUID) string { return hex.EncodeToString(id[:4]) }

func vf39NewWorld() *vf39World {
	return &vf39World{byID: map[string]*vf39HState{}, runs: map[chan struct{}]int{}}
}

func (w *vf39World) newManager(l []string) {
	w.m = &Manager{
		ReadTimeout:       conf.Duration(2 * time.Second),
		WriteTimeout:      conf.Duration(2 * time.Second),
		UDPMaxPayloadSize: 1472,
		PathName:          "p",
		Forward:           vf39Fwd(l),
		Parent:            w,
	}
	w.m.Initialize()
	w.conf = l
}

// refresh binds forwarder objects (when reachable) to their states and remembers their done channels.
func (w *vf39World) refresh() {
	ptrs, ok := vf39Handlers(w.m)
	if !ok || !w.ptrsOK {
		return
	}
	for _, dh := range ptrs {
		if dh == nil {
			continue
		}
		st := w.state(vf39Prefix(dh.ID()))
		st.ptr = dh
		if ch, ok2 := vf39Done(dh); ok2 && ch != nil {
			seen := false
			for _, c := range st.chans {
				if c == ch {
					seen = true
				}
			}
			if !seen {
				st.chans = append(st.chans, ch)
			}
		}
	}
}

func (w *vf39World) loops(st *vf39HState) int {
	open := 0
	for _, c := range st.chans {
		if vf39Open(c) {
			open++
		}
	}
	switch {
	case w.ptrsOK && w.logsOK:
		if st.live > open {
			return st.live
		}
		return open
	case w.ptrsOK:
		return open
	default:
		return st.live
	}
}

func (w *vf39World) observe() vf39Obs {
	o := vf39Obs{Conf: append([]string{}, w.conf...), Handlers: []vf39H{}, Started: w.started,
		Strays: []int{}, Pos: []int{}}
	list := w.m.APIList()
	w.mu.Lock()
	defer w.mu.Unlock()
	w.refresh()
	listed := map[*vf39HState]bool{}
	for _, it := range list.Items {
		st := w.state(vf39Prefix(it.ID))
		listed[st] = true
		if st.id == 0 {
			w.nextID++
			st.id = w.nextID
		}
		h := vf39H{ID: st.id, Dest: vf39TokenOf(it.Conf), Loops: w.loops(st)}
		h.Running = h.Loops >= 1
		if w.ptrsOK {
			if st.ptr != nil {
				if ch, ok := vf39Done(st.ptr); ok && ch != nil {
					rn, ok2 := w.runs[ch]
					if !ok2 {
						rn = len(w.runs) + 1
						w.runs[ch] = rn
					}
					h.Run = rn
				}
			}
		} else {
			h.Run = st.last
		}
		o.Handlers = append(o.Handlers, h)
		o.Pos = append(o.Pos, it.Pos)
	}
	for _, st := range w.byID {
		if !listed[st] && w.loops(st) >= 1 {
			if st.id == 0 {
				w.nextID++
				st.id = w.nextID
			}
			o.Strays = append(o.Strays, st.id)
		}
	}
	return o
}

// unsafe says why the next call cannot be made without crashing the test binary (the real stop() of
// a forwarder with two run loops closes its done channel twice; the real stop() of a forwarder that
// was never started calls a nil cancel function). This is not a verdict: the walk is cut and what was
// observed so far goes to TLC.
func (w *vf39World) unsafe(op string) string {
	list := w.m.APIList()
	w.mu.Lock()
	defer w.mu.Unlock()
	w.refresh()
	for _, st := range w.byID {
		if w.loops(st) >= 2 {
			return "a forwarder has two run loops: stopping it would close its done channel twice"
		}
	}
	if op == "Stop" {
		for _, it := range list.Items {
			st := w.state(vf39Prefix(it.ID))
			never := false
			if st.ptr != nil {
				if isNil, ok := vf39NeverStarted(st.ptr); ok {
					never = isNil
				} else if w.logsOK {
					never = st.starts == 0
				}
			} else if w.logsOK {
				never = st.starts == 0
			}
			if never {
				return "Stop would stop a forwarder that was never started"
			}
		}
	}
	return ""
}

func (w *vf39World) cleanup() {
	// leave nothing running, through the public interface only; run loops that the manager lost track
	// of (mutants) are goroutines retrying against a closed port until the child process exits
	if w.m != nil && w.started && w.unsafe("Stop") == "" {
		w.m.Stop()
	}
	if w.strm != nil {
		w.strm.Close()
	}
}

// vf39Calibrate finds out which observation channels work in this build.
func vf39Calibrate(t testing.TB) (ptrs bool, logs bool) {
	w := vf39NewWorld()
	w.newManager([]string{"a"})
	hs, ok := vf39Handlers(w.m)
	if ok && len(hs) == 1 && hs[0] != nil {
		if _, ok2 := vf39Done(hs[0]); ok2 {
			ptrs = true
		}
	}
	strm := vf39Stream(t)
	w.m.Start(strm)
	ptrOpen := false
	if ptrs {
		ch, _ := vf39Done(hs[0])
		ptrOpen = vf39Open(ch)
	}
	w.mu.Lock()
	n1 := 0
	for _, st := range w.byID {
		n1 += st.live
	}
	w.mu.Unlock()
	w.m.Stop()
	strm.Close()
	if ptrs {
		ch, _ := vf39Done(hs[0])
		ptrs = ptrOpen && !vf39Open(ch)
	}
	w.mu.Lock()
	n2, starts := 0, 0
	for _, st := range w.byID {
		n2 += st.live
		starts += st.starts
	}
	w.mu.Unlock()
	logs = n1 == 1 && n2 == 0 && starts == 1 && len(w.byID) == 1
	if logs {
		list := w.m.APIList()
		_, known := w.byID[vf39Prefix(list.Items[0].ID)]
		logs = known
	}
	return ptrs, logs
}

func vf39Exec(t testing.TB, r *vf39Run, ptrs, logs bool) {
	t0 := time.Now()
	w := vf39NewWorld()
	w.ptrsOK, w.logsOK = ptrs, logs
	r.Ptrs, r.Logs = ptrs, logs
	r.Obs = []vf39Obs{}
	defer w.cleanup()
	for k, op := range r.Ops {
		if op.L == nil {
			r.Ops[k].L = []string{}
		}
		if k > 0 {
			if why := w.unsafe(op.K); why != "" {
				r.Truncated = why
				r.Ops = r.Ops[:k]
				break
			}
		}
		switch op.K {
		case "Initialize":
			if k != 0 {
				t.Fatalf("run %d: Initialize at step %d", r.Run, k)
			}
			w.newManager(op.L)
		case "Start":
			w.strm = vf39Stream(t)
			w.m.Start(w.strm)
			w.started = true
		case "Stop":
			w.m.Stop()
			w.started = false
			// as core/path.go does: the stream is closed after the forwarders were stopped
			if w.strm != nil {
				w.strm.Close()
				w.strm = nil
			}
		case "Reload":
			w.m.ReloadConf(vf39Fwd(op.L))
			w.conf = op.L
		default:
			t.Fatalf("unknown op %q", op.K)
		}
		r.Obs = append(r.Obs, w.observe())
	}
	r.Ms = time.Since(t0).Milliseconds()
}

// child: replays the walks [FROM, ...) and appends one line per finished walk to the given file.
func TestVerif_C39_Child(t *testing.T) {
	outPath := os.Getenv("VERIF_C39_CHILD_OUT")
	if outPath == "" {
		t.Skip("helper of TestVerif_C39_Replay")
	}
	from, _ := strconv.Atoi(os.Getenv("VERIF_C39_CHILD_FROM"))
	f, err := os.OpenFile(outPath, os.O_CREATE|os.O_WRONLY|os.O_TRUNC, 0o644)
	if err != nil {
		t.Fatal(err)
	}
	defer f.Close()
	ptrs, logs := vf39Calibrate(t)
	// self-test switches of the harness: VERIF_P_NOPTRS=1 / VERIF_P_NOLOGS=1 disable one observation channel
	if verifrt.Param("NOPTRS", 0) == 1 {
		ptrs = false
	}
	if verifrt.Param("NOLOGS", 0) == 1 {
		logs = false
	}
	if !ptrs && !logs {
		t.Fatalf("neither the forwarders' log lines nor their done channels can be observed in this build")
	}
	n := 0
	verifrt.ForEachCase(t, func(raw []byte) {
		n++
		if n <= from {
			return
		}
		var r vf39Run
		verifrt.Decode(t, raw, &r)
		vf39Exec(t, &r, ptrs, logs)
		b, err2 := json.Marshal(&r)
		if err2 != nil {
			t.Fatal(err2)
		}
		f.Write(append(b, '\n'))
	})
}

// spec -> impl: the edge-covering walks of Forward.tla.
func TestVerif_C39_Replay(t *testing.T) {
	out := verifrt.NewOut(t)
	defer out.Close()
	var cases [][]byte
	verifrt.ForEachCase(t, func(raw []byte) { cases = append(cases, raw) })
	work := os.Getenv("VERIF_WORK")
	if work == "" {
		work = t.TempDir()
	}
	tmp := work + "/c39-child.ndjson"
	from, crashes := 0, 0
	for from < len(cases) {
		os.Remove(tmp)
		cmd := exec.Command(os.Args[0], "-test.run=^TestVerif_C39_Child$", "-test.count=1", "-test.timeout=500s")
		cmd.Env = append(os.Environ(), "VERIF_C39_CHILD_OUT="+tmp, "VERIF_C39_CHILD_FROM="+strconv.Itoa(from))
		var buf bytes.Buffer
		cmd.Stdout = &buf
		cmd.Stderr = &buf
		runErr := cmd.Run()
		done := 0
		if fh, err := os.Open(tmp); err == nil {
			sc := bufio.NewScanner(fh)
			sc.Buffer(make([]byte, 1<<20), 1<<28)
			for sc.Scan() {
				var r vf39Run
				if json.Unmarshal(sc.Bytes(), &r) != nil {
					break // a line cut by the crash
				}
				out.Emit(&r)
				done++
			}
			fh.Close()
		}
		from += done
		if runErr == nil {
			if from < len(cases) {
				t.Fatalf("child finished after %d of %d walks", from, len(cases))
			}
			break
		}
		text := buf.String()
		if i := bytes.Index(buf.Bytes(), []byte("panic:")); i >= 0 {
			text = text[i:]
		} else if i := bytes.Index(buf.Bytes(), []byte("fatal error:")); i >= 0 {
			text = text[i:]
		} else {
			// not a crash of the code under test: a harness problem
			t.Fatalf("child failed: %v\n%s", runErr, text)
		}
		if len(text) > 700 {
			text = text[:700]
		}
		if from >= len(cases) {
			t.Fatalf("child crashed after the last walk: %s", text)
		}
		var r vf39Run
		verifrt.Decode(t, cases[from], &r)
		r.Obs = []vf39Obs{}
		r.Crashed = text
		out.Emit(&r)
		from++
		crashes++
		if crashes > 400 {
			t.Fatalf("more than 400 walks crashed the process; last: %s", text)
		}
	}
	os.Remove(tmp)
}
