package forward

// Verification harness for C42 (forward destination templates). Injected by /verif through
// -overlay. The tests record what the real code produces; verdicts are taken by TLC
// (spec/misc/Template.tla, TraceTemplate.tla) and the check driver.

import (
	"os"
	"strconv"
	"strings"
	"testing"

	"github.com/bluenviron/mediamtx/internal/verifrt"
)

type vf42Case struct {
	ID int `json:"id"`
	In struct {
		Site  string   `json:"site"`
		Tmpl  string   `json:"tmpl"`
		G     []string `json:"g"`
		Path  string   `json:"path"`
		Query string   `json:"query"`
	} `json:"in"`
}

func vf42Matches(path string, g []string) []string {
	if len(g) == 0 {
		return nil
	}
	return append([]string{path}, g...)
}

// spec -> impl: every destination-site case of the bounded model.
func TestVerif_C42_Replay(t *testing.T) {
	out := verifrt.NewOut(t)
	defer out.Close()
	verifrt.ForEachCase(t, func(raw []byte) {
		var c vf42Case
		verifrt.Decode(t, raw, &c)
		if c.In.Site != "dest" {
			return
		}
		out.Emit(map[string]any{"id": c.ID, "obs": map[string]any{
			"out": resolveDest(c.In.Tmpl, c.In.Path, vf42Matches(c.In.Path, c.In.G))}})
	})
}

func vf42Chars(s string) []string {
	r := make([]string, 0, len(s))
	for i := 0; i < len(s); i++ {
		r = append(r, s[i:i+1])
	}
	return r
}

// impl -> spec: random templates / group counts / values outside the bounded model.
func TestVerif_C42_Trace(t *testing.T) {
	out := vf42TraceOut(t)
	defer out.Close()
	rnd := verifrt.Rand(4242)
	runs := verifrt.Param("RUNS", 1500)

	pieces := []string{
		"rtmp://", "host", ":", "1935", "/", "?", "&", "a", "x", "0", "1", "9", "$", "$G", "$MTX_", "G1", "MTX_PATH",
		"$MTX_PATH", "$MTX_PATH", "$MTX_QUERY",
	}
	valAlphabet := "ab01G_/.-"
	randVal := func() string {
		switch rnd.IntN(8) {
		case 0:
			return ""
		case 1:
			return strconv.Itoa(rnd.IntN(20))
		case 2:
			return []string{"G1", "G2", "MTX_QUERY", "MTX_PATH", "G", "1", "0"}[rnd.IntN(7)]
		}
		n := 1 + rnd.IntN(6)
		var sb strings.Builder
		for i := 0; i < n; i++ {
			sb.WriteByte(valAlphabet[rnd.IntN(len(valAlphabet))])
		}
		return sb.String()
	}

	for run := 0; run < runs; run++ {
		n := []int{0, 1, 2, 3, 9, 10, 11, 12, 21}[rnd.IntN(9)]
		g := make([]string, n)
		for i := range g {
			g[i] = randVal()
		}
		path := randVal()
		if path == "" || rnd.IntN(3) == 0 {
			path = "p" + path
		}
		var sb strings.Builder
		k := rnd.IntN(7)
		for i := 0; i < k; i++ {
			if rnd.IntN(2) == 0 {
				idx := 1 + rnd.IntN(n+2)
				if rnd.IntN(6) == 0 {
					idx = rnd.IntN(130)
				}
				sb.WriteString("$G" + strconv.Itoa(idx))
			} else {
				sb.WriteString(pieces[rnd.IntN(len(pieces))])
			}
		}
		tmpl := sb.String()
		res := resolveDest(tmpl, path, vf42Matches(path, g))
		gs := make([][]string, n)
		for i := range g {
			gs[i] = vf42Chars(g[i])
		}
		out.Emit(map[string]any{"run": run, "via": "func", "site": "dest", "tmpl": vf42Chars(tmpl), "g": gs,
			"path": vf42Chars(path), "query": []string{}, "out": vf42Chars(res),
			"tmplStr": tmpl, "gStr": g, "pathStr": path, "queryStr": "", "outStr": res})
	}
}

// the trace test writes to VERIF_OUT2 when the driver runs it together with the replay test
func vf42TraceOut(t testing.TB) *verifrt.Out {
	if p := os.Getenv("VERIF_OUT2"); p != "" {
		return verifrt.NewOutFile(t, p)
	}
	return verifrt.NewOut(t)
}
