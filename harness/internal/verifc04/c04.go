// Package verifc04 is shared by the C04 harness tests (packages api, metrics, pprof, playback).
// It is NOT part of mediamtx: it is injected through `go test -overlay` by /verif.
//
// It contains no verdict logic: it sends the HTTP requests TLC's cases were turned into,
// classifies the response bodies by shape (never by expected outcome) and reports what was
// observed.
package verifc04

import (
	"bytes"
	"crypto/sha256"
	"encoding/base64"
	"encoding/json"
	"fmt"
	"io"
	"math/rand/v2"
	"net"
	"net/http"
	"os"
	"path/filepath"
	"regexp"
	"strings"
	"sync"
	"testing"
	"time"

	"github.com/bluenviron/mediacommon/v2/pkg/formats/fmp4"
	"github.com/bluenviron/mediacommon/v2/pkg/formats/fmp4/seekablebuffer"
	mcodecs "github.com/bluenviron/mediacommon/v2/pkg/formats/mp4/codecs"
	"github.com/google/uuid"

	"github.com/bluenviron/mediamtx/internal/auth"
	"github.com/bluenviron/mediamtx/internal/conf"
	"github.com/bluenviron/mediamtx/internal/conf/jsonwrapper"
	"github.com/bluenviron/mediamtx/internal/defs"
	"github.com/bluenviron/mediamtx/internal/logger"
	"github.com/bluenviron/mediamtx/internal/test"
	"github.com/bluenviron/mediamtx/internal/verifrt"
)

// Canary occurs in every piece of server state that an administrative endpoint can return.
const Canary = "vfCANARY"

// ---------------------------------------------------------------- case file

// Cred is a credential of a user entry as AuthInternal.tla writes it.
type Cred struct {
	Enc string `json:"enc"`
	V   string `json:"v"`
}

// Entry is a user entry as AuthInternal.tla writes it.
type Entry struct {
	IPs   []string `json:"ips"`
	Perms []struct {
		Action string `json:"action"`
		Path   string `json:"path"`
	} `json:"perms"`
	User Cred `json:"user"`
	Pass Cred `json:"pass"`
}

// Instance is one server instance: users + trusted proxies switch.
type Instance struct {
	Users   []Entry `json:"users"`
	Trusted bool    `json:"trusted"`
}

// Case is one HTTP request.
type Case struct {
	ID      int               `json:"id"`
	Inst    int               `json:"inst"` // 1-based
	Svc     string            `json:"svc"`
	Method  string            `json:"method"`
	URL     string            `json:"url"` // path and query
	Headers map[string]string `json:"headers"`
	Body    string            `json:"body"`
	Marker  string            `json:"marker"` // unique token the request carries where a state change can be attributed
	Solo    bool              `json:"solo"`   // state change without a marker: one request at a time per instance
}

// Input is the content of the case file.
type Input struct {
	Instances []Instance
	Cases     []Case
}

// Load reads VERIF_CASES and keeps the cases of one service.
func Load(t testing.TB, svc string) *Input {
	in := &Input{}
	verifrt.ForEachCase(t, func(raw []byte) {
		var probe struct {
			Setup *struct {
				Instances []Instance `json:"instances"`
			} `json:"setup"`
		}
		verifrt.Decode(t, raw, &probe)
		if probe.Setup != nil {
			in.Instances = probe.Setup.Instances
			return
		}
		var c Case
		verifrt.Decode(t, raw, &c)
		if c.Svc == svc {
			in.Cases = append(in.Cases, c)
		}
	})
	if len(in.Instances) == 0 {
		t.Fatal("verifc04: no setup line in the case file")
	}
	return in
}

// OutPath is the observation file of one service.
func OutPath(svc string) string {
	p := os.Getenv("VERIF_OUT")
	if p == "" {
		return ""
	}
	return p + "." + svc
}

// ---------------------------------------------------------------- the real auth.Manager

func credText(c Cred) string {
	switch c.Enc {
	case "plain":
		return c.V
	case "sha256":
		h := sha256.Sum256([]byte(c.V))
		return "sha256:" + base64.StdEncoding.EncodeToString(h[:])
	}
	panic("verifc04: unsupported credential encoding " + c.Enc)
}

// NewManager builds the real auth.Manager (internal method) from configuration text, through
// the real configuration decoder.
func NewManager(t testing.TB, users []Entry) *auth.Manager {
	type jsPerm struct {
		Action string `json:"action"`
		Path   string `json:"path"`
	}
	type jsUser struct {
		User        string   `json:"user"`
		Pass        string   `json:"pass"`
		IPs         []string `json:"ips"`
		Permissions []jsPerm `json:"permissions"`
	}
	js := make([]jsUser, len(users))
	for i, e := range users {
		js[i] = jsUser{User: credText(e.User), Pass: credText(e.Pass), IPs: e.IPs, Permissions: []jsPerm{}}
		if js[i].IPs == nil {
			js[i].IPs = []string{}
		}
		for _, p := range e.Perms {
			js[i].Permissions = append(js[i].Permissions, jsPerm{Action: p.Action, Path: p.Path})
		}
	}
	b, err := json.Marshal(js)
	if err != nil {
		t.Fatal(err)
	}
	ret := []conf.AuthInternalUser{}
	if err = jsonwrapper.Unmarshal(b, &ret); err != nil {
		t.Fatalf("verifc04: users %s rejected: %v", string(b), err)
	}
	return &auth.Manager{Method: conf.AuthMethodInternal, InternalUsers: ret}
}

// TrustedProxies returns the trusted proxy list of an instance.
func TrustedProxies(t testing.TB, trusted bool) conf.IPNetworks {
	ret := conf.IPNetworks{}
	if trusted {
		if err := jsonwrapper.Unmarshal([]byte(`["127.0.0.1"]`), &ret); err != nil {
			t.Fatal(err)
		}
	}
	return ret
}

// NilLogger discards log lines.
type NilLogger struct{}

// Log implements logger.Writer.
func (NilLogger) Log(logger.Level, string, ...any) {}

// FreeAddr returns a loopback address with a free port.
func FreeAddr(t testing.TB) string {
	l, err := net.Listen("tcp", "127.0.0.1:0")
	if err != nil {
		t.Fatal(err)
	}
	defer l.Close()
	return l.Addr().String()
}

// Listen calls start with free addresses until it succeeds.
func Listen(t testing.TB, start func(addr string) error) string {
	var err error
	for i := 0; i < 8; i++ {
		addr := FreeAddr(t)
		if err = start(addr); err == nil {
			return addr
		}
	}
	t.Fatalf("verifc04: cannot start listener: %v", err)
	return ""
}

// ---------------------------------------------------------------- state log

// StateLog records every state change requested from a stub (marker-attributed).
type StateLog struct {
	mu      sync.Mutex
	markers map[string]int
	other   []string
	solo    int
}

var reMarker = regexp.MustCompile(`vfc[0-9]+x`)

// Note records a state change; text is searched for a case marker.
func (l *StateLog) Note(kind string, text string) {
	l.mu.Lock()
	defer l.mu.Unlock()
	if l.markers == nil {
		l.markers = map[string]int{}
	}
	m := reMarker.FindString(text)
	if m == "" {
		l.other = append(l.other, kind+" "+text)
		return
	}
	l.markers[m]++
}

// NoteSolo records a state change that carries no marker.
func (l *StateLog) NoteSolo() {
	l.mu.Lock()
	l.solo++
	l.mu.Unlock()
}

// SoloCount returns the number of marker-less state changes.
func (l *StateLog) SoloCount() int {
	l.mu.Lock()
	defer l.mu.Unlock()
	return l.solo
}

// Changed reports whether a state change with that marker was recorded.
func (l *StateLog) Changed(marker string) bool {
	l.mu.Lock()
	defer l.mu.Unlock()
	return l.markers[marker] > 0
}

// Unattributed returns state changes that carry no marker of any case.
func (l *StateLog) Unattributed() []string {
	l.mu.Lock()
	defer l.mu.Unlock()
	return append([]string{}, l.other...)
}

// MarkerUUID encodes a marker number in a UUID (kick routes).
func MarkerUUID(marker string) uuid.UUID {
	var n int
	fmt.Sscanf(marker, "vfc%dx", &n)
	return uuid.MustParse(fmt.Sprintf("00000000-0000-4000-8000-%012d", n))
}

func markerOfUUID(id uuid.UUID) string {
	s := id.String()
	if !strings.HasPrefix(s, "00000000-0000-4000-8000-") {
		return s
	}
	var n int
	fmt.Sscanf(s[24:], "%d", &n)
	return fmt.Sprintf("vfc%dx", n)
}

// ---------------------------------------------------------------- stub servers (data carries the canary)

var stubTime = time.Date(2020, 1, 2, 3, 4, 5, 0, time.UTC)

// CanaryID is the id of the one item every stub server lists.
var CanaryID = uuid.MustParse("11111111-2222-4333-8444-555555555555")

// PathManager is a stub path manager.
type PathManager struct{}

func canaryPath(name string) *defs.APIPath {
	return &defs.APIPath{
		Name: name, ConfName: Canary + "conf", Ready: true, Available: true, Online: true,
		Source:  &defs.APIPathSource{Type: "rtspSession", ID: CanaryID.String()},
		Tracks:  []defs.APIPathTrackCodec{},
		Tracks2: []defs.APIPathTrack{},
		Readers: []defs.APIPathReader{{Type: "hlsMuxer", ID: Canary}},
	}
}

// APIPathsList implements defs.APIPathManager.
func (PathManager) APIPathsList() (*defs.APIPathList, error) {
	return &defs.APIPathList{Items: []defs.APIPath{*canaryPath(Canary + "cam")}}, nil
}

// APIPathsGet implements defs.APIPathManager.
func (PathManager) APIPathsGet(name string) (*defs.APIPath, error) { return canaryPath(Canary + name), nil }

// APIForwardDestList implements defs.APIPathManager.
func (PathManager) APIForwardDestList(string) (*defs.APIForwardDestList, error) {
	return &defs.APIForwardDestList{Items: []defs.APIForwardDest{{ID: CanaryID, Created: stubTime, LastError: Canary}}}, nil
}

// APIForwardDestGet implements defs.APIPathManager.
func (PathManager) APIForwardDestGet(_ string, id uuid.UUID) (*defs.APIForwardDest, error) {
	return &defs.APIForwardDest{ID: id, Created: stubTime, LastError: Canary}, nil
}

// HLS is a stub HLS server.
type HLS struct{ Log *StateLog }

// APISessionsList implements defs.APIHLSServer.
func (*HLS) APISessionsList() (*defs.APIHLSSessionList, error) {
	return &defs.APIHLSSessionList{Items: []defs.APIHLSSession{{ID: CanaryID, Created: stubTime, RemoteAddr: Canary, Path: Canary}}}, nil
}

// APISessionsGet implements defs.APIHLSServer.
func (*HLS) APISessionsGet(id uuid.UUID) (*defs.APIHLSSession, error) {
	return &defs.APIHLSSession{ID: id, Created: stubTime, RemoteAddr: Canary, Path: Canary}, nil
}

// APISessionsKick implements defs.APIHLSServer.
func (s *HLS) APISessionsKick(id uuid.UUID) error { s.Log.Note("hls kick", markerOfUUID(id)); return nil }

// APIMuxersList implements defs.APIHLSServer.
func (*HLS) APIMuxersList() (*defs.APIHLSMuxerList, error) {
	return &defs.APIHLSMuxerList{Items: []defs.APIHLSMuxer{{Path: Canary + "cam", Created: stubTime, LastRequest: stubTime}}}, nil
}

// APIMuxersGet implements defs.APIHLSServer.
func (*HLS) APIMuxersGet(name string) (*defs.APIHLSMuxer, error) {
	return &defs.APIHLSMuxer{Path: Canary + name, Created: stubTime, LastRequest: stubTime}, nil
}

// RTSP is a stub RTSP server.
type RTSP struct {
	Log  *StateLog
	Kind string
}

// APIConnsList implements defs.APIRTSPServer.
func (*RTSP) APIConnsList() (*defs.APIRTSPConnsList, error) {
	return &defs.APIRTSPConnsList{Items: []defs.APIRTSPConn{{ID: CanaryID, Created: stubTime, RemoteAddr: Canary}}}, nil
}

// APIConnsGet implements defs.APIRTSPServer.
func (*RTSP) APIConnsGet(id uuid.UUID) (*defs.APIRTSPConn, error) {
	return &defs.APIRTSPConn{ID: id, Created: stubTime, RemoteAddr: Canary}, nil
}

// APISessionsList implements defs.APIRTSPServer.
func (*RTSP) APISessionsList() (*defs.APIRTSPSessionList, error) {
	return &defs.APIRTSPSessionList{Items: []defs.APIRTSPSession{{
		ID: CanaryID, Created: stubTime, RemoteAddr: Canary, Path: Canary, State: "read", Conns: []uuid.UUID{},
	}}}, nil
}

// APISessionsGet implements defs.APIRTSPServer.
func (*RTSP) APISessionsGet(id uuid.UUID) (*defs.APIRTSPSession, error) {
	return &defs.APIRTSPSession{ID: id, Created: stubTime, RemoteAddr: Canary, Path: Canary, State: "read", Conns: []uuid.UUID{}}, nil
}

// APISessionsKick implements defs.APIRTSPServer.
func (s *RTSP) APISessionsKick(id uuid.UUID) error {
	s.Log.Note(s.Kind+" kick", markerOfUUID(id))
	return nil
}

// RTMP is a stub RTMP server.
type RTMP struct {
	Log  *StateLog
	Kind string
}

// APIConnsList implements defs.APIRTMPServer.
func (*RTMP) APIConnsList() (*defs.APIRTMPConnList, error) {
	return &defs.APIRTMPConnList{Items: []defs.APIRTMPConn{{ID: CanaryID, Created: stubTime, RemoteAddr: Canary, Path: Canary, State: "read"}}}, nil
}

// APIConnsGet implements defs.APIRTMPServer.
func (*RTMP) APIConnsGet(id uuid.UUID) (*defs.APIRTMPConn, error) {
	return &defs.APIRTMPConn{ID: id, Created: stubTime, RemoteAddr: Canary, Path: Canary, State: "read"}, nil
}

// APIConnsKick implements defs.APIRTMPServer.
func (s *RTMP) APIConnsKick(id uuid.UUID) error {
	s.Log.Note(s.Kind+" kick", markerOfUUID(id))
	return nil
}

// SRT is a stub SRT server.
type SRT struct{ Log *StateLog }

// APIConnsList implements defs.APISRTServer.
func (*SRT) APIConnsList() (*defs.APISRTConnList, error) {
	return &defs.APISRTConnList{Items: []defs.APISRTConn{{ID: CanaryID, Created: stubTime, RemoteAddr: Canary, Path: Canary, State: "read"}}}, nil
}

// APIConnsGet implements defs.APISRTServer.
func (*SRT) APIConnsGet(id uuid.UUID) (*defs.APISRTConn, error) {
	return &defs.APISRTConn{ID: id, Created: stubTime, RemoteAddr: Canary, Path: Canary, State: "read"}, nil
}

// APIConnsKick implements defs.APISRTServer.
func (s *SRT) APIConnsKick(id uuid.UUID) error { s.Log.Note("srt kick", markerOfUUID(id)); return nil }

// WebRTC is a stub WebRTC server.
type WebRTC struct{ Log *StateLog }

// APISessionsList implements defs.APIWebRTCServer.
func (*WebRTC) APISessionsList() (*defs.APIWebRTCSessionList, error) {
	return &defs.APIWebRTCSessionList{Items: []defs.APIWebRTCSession{{ID: CanaryID, Created: stubTime, RemoteAddr: Canary, Path: Canary, State: "read"}}}, nil
}

// APISessionsGet implements defs.APIWebRTCServer.
func (*WebRTC) APISessionsGet(id uuid.UUID) (*defs.APIWebRTCSession, error) {
	return &defs.APIWebRTCSession{ID: id, Created: stubTime, RemoteAddr: Canary, Path: Canary, State: "read"}, nil
}

// APISessionsKick implements defs.APIWebRTCServer.
func (s *WebRTC) APISessionsKick(id uuid.UUID) error {
	s.Log.Note("webrtc kick", markerOfUUID(id))
	return nil
}

// MoQ is a stub MoQ server.
type MoQ struct{ Log *StateLog }

// APISessionsList implements defs.APIMoQServer.
func (*MoQ) APISessionsList() (*defs.APIMoQSessionList, error) {
	return &defs.APIMoQSessionList{Items: []defs.APIMoQSession{{ID: CanaryID, Created: stubTime, RemoteAddr: Canary, Path: Canary, State: "read"}}}, nil
}

// APISessionsGet implements defs.APIMoQServer.
func (*MoQ) APISessionsGet(id uuid.UUID) (*defs.APIMoQSession, error) {
	return &defs.APIMoQSession{ID: id, Created: stubTime, RemoteAddr: Canary, Path: Canary, State: "read"}, nil
}

// APISessionsKick implements defs.APIMoQServer.
func (s *MoQ) APISessionsKick(id uuid.UUID) error { s.Log.Note("moq kick", markerOfUUID(id)); return nil }

// ---------------------------------------------------------------- recordings

// SegmentName is the file name of the one segment every recorded path has.
const SegmentName = "2008-11-07_11-22-00-500000.mp4"

// SegmentStart is the start of that segment (local time, as the file name says).
var SegmentStart = time.Date(2008, 11, 7, 11, 22, 0, 500000000, time.Local)

var (
	segOnce  sync.Once
	segBytes []byte
)

// WriteSegment writes a small fMP4 recording segment <dir>/<pathName>/<SegmentName>.
func WriteSegment(t testing.TB, dir string, pathName string) string {
	segOnce.Do(func() {
		init := fmp4.Init{Tracks: []*fmp4.InitTrack{{
			ID: 1, TimeScale: 90000,
			Codec: &mcodecs.H264{SPS: test.FormatH264.SPS, PPS: test.FormatH264.PPS},
		}}}
		var b1 seekablebuffer.Buffer
		if err := init.Marshal(&b1); err != nil {
			t.Fatal(err)
		}
		parts := fmp4.Parts{{Tracks: []*fmp4.PartTrack{{
			ID: 1, BaseTime: 0,
			Samples: []*fmp4.Sample{
				{Duration: 90000, Payload: []byte{1, 2}},
				{Duration: 90000, Payload: []byte{3, 4}, IsNonSyncSample: true},
			},
		}}}}
		var b2 seekablebuffer.Buffer
		if err := parts.Marshal(&b2); err != nil {
			t.Fatal(err)
		}
		segBytes = append(append([]byte{}, b1.Bytes()...), b2.Bytes()...)
	})
	d := filepath.Join(dir, pathName)
	if err := os.MkdirAll(d, 0o755); err != nil {
		t.Fatal(err)
	}
	p := filepath.Join(d, SegmentName)
	if err := os.WriteFile(p, segBytes, 0o644); err != nil {
		t.Fatal(err)
	}
	return p
}

// RecordPath is the recordPath setting for a recording directory.
func RecordPath(dir string) string { return filepath.Join(dir, "%path/%Y-%m-%d_%H-%M-%S-%f") }

// ---------------------------------------------------------------- client side

// Obs is what came back for one case.
type Obs struct {
	ID     int    `json:"id"`
	Status int    `json:"status"`
	Body   string `json:"body"` // class: empty, autherr, errobj, stock, other
	Leak   bool   `json:"leak"`
	Mut    bool   `json:"mut"`
	Len    int    `json:"len"`
	Head   string `json:"head"` // first bytes of the body (reports only)
	WWW    string `json:"www"`  // WWW-Authenticate header (reports only)
}

var reAnchor = regexp.MustCompile(`^<a href="[^"]*">(Moved Permanently|Temporary Redirect|Permanent Redirect|Found)</a>\.\s*$`)

// Classify returns the class of a response body by its shape.
func Classify(b []byte) string {
	s := strings.TrimSpace(string(b))
	if s == "" {
		return "empty"
	}
	if s[0] == '{' {
		var m map[string]any
		if json.Unmarshal([]byte(s), &m) == nil && len(m) == 2 && m["status"] == "error" {
			if e, ok := m["error"].(string); ok {
				if e == "authentication error" {
					return "autherr"
				}
				return "errobj"
			}
		}
		return "other"
	}
	// fixed texts of net/http and gin
	if s == "404 page not found" || s == "405 method not allowed" || reAnchor.MatchString(s) {
		return "stock"
	}
	return "other"
}

// Engine sends the cases.
type Engine struct {
	T        testing.TB
	Base     func(inst int) string // "http://127.0.0.1:port" of an instance (1-based)
	SoloLock func(inst int) *sync.Mutex
	SoloRead func(inst int) int
	Conc     int
}

// Run sends every case (concurrently) and returns the observations; Mut is set for solo cases only.
func (e *Engine) Run(cases []Case) []Obs {
	conc := e.Conc
	if conc <= 0 {
		conc = verifrt.Param("CONC", 600)
	}
	tr := &http.Transport{
		MaxIdleConns: 0, MaxIdleConnsPerHost: 64, IdleConnTimeout: 20 * time.Second,
		DisableCompression: true,
	}
	defer tr.CloseIdleConnections()
	hc := &http.Client{
		Transport: tr, Timeout: 90 * time.Second,
		CheckRedirect: func(*http.Request, []*http.Request) error { return http.ErrUseLastResponse },
	}
	order := make([]int, len(cases))
	for i := range order {
		order[i] = i
	}
	rnd := verifrt.Rand(404)
	rnd.Shuffle(len(order), func(i, j int) { order[i], order[j] = order[j], order[i] })
	_ = rand.Int

	obs := make([]Obs, len(cases))
	errs := make([]error, len(cases))
	sem := make(chan struct{}, conc)
	var wg sync.WaitGroup
	for _, idx := range order {
		sem <- struct{}{}
		wg.Add(1)
		go func(idx int) {
			defer wg.Done()
			defer func() { <-sem }()
			c := cases[idx]
			var before int
			if c.Solo {
				mu := e.SoloLock(c.Inst)
				mu.Lock()
				defer mu.Unlock()
				before = e.SoloRead(c.Inst)
			}
			o, err := e.do(hc, c)
			if err != nil {
				errs[idx] = err
				return
			}
			if c.Solo {
				o.Mut = e.SoloRead(c.Inst) != before
			}
			obs[idx] = o
		}(idx)
	}
	wg.Wait()
	for i, err := range errs {
		if err != nil {
			e.T.Fatalf("verifc04: case %d (%s %s): %v", cases[i].ID, cases[i].Method, cases[i].URL, err)
		}
	}
	return obs
}

func (e *Engine) do(hc *http.Client, c Case) (Obs, error) {
	var body io.Reader
	if c.Body != "" {
		body = bytes.NewReader([]byte(c.Body))
	}
	req, err := http.NewRequest(c.Method, e.Base(c.Inst)+c.URL, body)
	if err != nil {
		return Obs{}, err
	}
	for k, v := range c.Headers {
		req.Header.Set(k, v)
	}
	var res *http.Response
	for attempt := 0; ; attempt++ {
		res, err = hc.Do(req)
		if err == nil {
			break
		}
		// a connection that the server closed while idle: resend (only requests without body are resent by net/http)
		if attempt >= 2 || c.Body == "" {
			return Obs{}, err
		}
		req, _ = http.NewRequest(c.Method, e.Base(c.Inst)+c.URL, bytes.NewReader([]byte(c.Body)))
		for k, v := range c.Headers {
			req.Header.Set(k, v)
		}
	}
	defer res.Body.Close()
	b, _ := io.ReadAll(io.LimitReader(res.Body, 1<<20))
	io.Copy(io.Discard, res.Body) //nolint:errcheck
	head := string(b)
	if len(head) > 120 {
		head = head[:120]
	}
	return Obs{
		ID: c.ID, Status: res.StatusCode, Body: Classify(b), Leak: bytes.Contains(b, []byte(Canary)),
		Len: len(b), Head: head, WWW: res.Header.Get("WWW-Authenticate"),
	}, nil
}
