package recorder

// Verification harness for C24 (timestamp scaling is exact). Injected by /verif through -overlay.
// Records what this package's copies of the helper return; TLC / Apalache decide.

import (
	"testing"
	"time"

	"github.com/bluenviron/mediamtx/internal/verifc24"
)

func TestVerif_C24_Scale(t *testing.T) {
	verifc24.Run(t, "recorder", []verifc24.Fn{
		{Name: "recorder.multiplyAndDivide", MaxRate: 1 << 32, Call: multiplyAndDivide},
		{Name: "recorder.multiplyAndDivide2", MaxRate: 1 << 32, Call: func(v, m, d int64) int64 {
			return int64(multiplyAndDivide2(time.Duration(v), time.Duration(m), time.Duration(d)))
		}},
		{Name: "recorder.timestampToDuration", FixM: verifc24.Giga, MaxRate: 1 << 32, Call: func(v, _, d int64) int64 {
			return int64(timestampToDuration(v, int(d)))
		}},
	})
}
