package recorder

// Verification harness for X02 (recorder supervisor and instance lifecycle). Injected by /verif
// through -overlay. It replays operation sequences (walks of spec/record/RecorderSup.tla and random
// stress sequences) on a REAL Recorder that reads from a real stream.Stream and records an event
// log per run. Records only; TLC decides (spec/record/TraceRecorderSup.tla).
//
// What is observed, and how:
//   - OnSegmentCreate / OnSegmentComplete: the callbacks themselves ("create" / "complete", paths
//     numbered by first appearance);
//   - instance starts and instance errors: the log lines that reach Recorder.Parent ("rec": the Info
//     line "recording ...", "err": every Error line);
//   - the readers attached to the stream: the length of the Stream's reader set, found by TYPE
//     (map[*stream.Reader]struct{}) through reflection, sampled continuously ("peek" events on every
//     change) and at every quiescent point ("q" events);
//   - what keeps running: runtime.Stack of all goroutines that did not exist before the run:
//     supervisor loops (frames of (*Recorder).run), instance loops ((*recorderInstance).run), reader
//     loops ((*stream.Reader).run), a pending Close ((*Recorder).Close);
//   - the file system below the recording directory (names, sizes, modification times), numbered by
//     first appearance of a distinct snapshot.
//
// Time is controlled, not slept through: the unexported field restartPause is set to one hour
// ("long": the pause never ends during a run) or one millisecond ("short"). A run is observed at
// QUIESCENT points: every goroutine of the component is in a blocking wait (chan receive / send, select,
// sync.Cond.Wait, mutex: a whitelist; running, runnable, syscall, GC assist wait ... are not) in two
// identical consecutive goroutine dumps with no event in between, and the supervisor is not parked
// in a short restart pause (the source line of its pause select is learnt by a calibration run; if
// that fails, stability over a window of 150 ms >> 1 ms is required instead).
// An observation that would make a LIVENESS formula false (Close pending at rest, nobody reading while
// open, no open segment after four regular units) is logged only after it has been CONFIRMED as provably
// stuck: five more dumps spread over two seconds show the same goroutines in the same blocking waits,
// nothing was logged, and a pending Close is blocked on r.done inside Close itself (r.terminate is
// closed, nothing but a one hour timer can wake the component). Such observations carry sure = true and
// only those are judged by the liveness formulas; if the state moves during the confirmation it was not
// at rest and the harness keeps waiting; a run that gets no (confirmed) quiescent point within the
// limit is inconclusive, never a verdict.

import (
	"bufio"
	"bytes"
	"encoding/json"
	"fmt"
	"os"
	"os/exec"
	"path/filepath"
	"reflect"
	"regexp"
	"runtime"
	"sort"
	"strconv"
	"strings"
	"sync"
	"sync/atomic"
	"testing"
	"time"

	"github.com/bluenviron/gortsplib/v5/pkg/description"
	rtspformat "github.com/bluenviron/gortsplib/v5/pkg/format"

	"github.com/bluenviron/mediamtx/internal/conf"
	"github.com/bluenviron/mediamtx/internal/logger"
	"github.com/bluenviron/mediamtx/internal/recordstore"
	"github.com/bluenviron/mediamtx/internal/stream"
	"github.com/bluenviron/mediamtx/internal/test"
	"github.com/bluenviron/mediamtx/internal/unit"
	"github.com/bluenviron/mediamtx/internal/verifrt"
)

type vfx02Op struct {
	K string `json:"k"` // Initialize | W | Fault | CloseCall | Observe
	A string `json:"a"` // Initialize: long|short; W: n|j|d|b; Fault: ok|nodir|full; CloseCall: quiet|race
}

type vfx02Ev struct {
	K  string `json:"k"`
	A  string `json:"a"`
	P  int    `json:"p"`
	R  int    `json:"r"`
	G  int    `json:"g"`
	IG int    `json:"ig"`
	SG int    `json:"sg"`
	CP bool   `json:"cp"`
	FS int    `json:"fs"`
	// q: the observation was CONFIRMED as provably at rest (>= 5 dumps over >= 2 s, every loop in a blocking
	// wait, no event in between, a pending Close blocked on r.done). Liveness formulas are judged on these only.
	Sure bool `json:"sure"`
}

type vfx02Run struct {
	Run   int       `json:"run"`
	Fmt   string    `json:"fmt"`
	Ops   []vfx02Op `json:"ops"`
	Ev    []vfx02Ev `json:"ev"`
	Paths []string  `json:"paths"`
	// ids of the paths that were created while the disk was full (links to /dev/full)
	Doomed []int `json:"doomed"`
	Ms     int64 `json:"ms"`
	// the run was cut short: the component reached a quiescent state with Close pending
	Truncated string `json:"truncated"`
	// no (confirmed) quiescent point within the time limit: the run is inconclusive (never a verdict)
	Inconclusive string `json:"inconclusive"`
	// harness problem (never a verdict)
	Infra string `json:"infra"`
	// the code under test crashed the process during this run
	Crashed string `json:"crashed"`
	// the supervisor's pause select was identified by source line (calibration)
	Calib bool `json:"calib"`
	// last goroutine dump, kept for runs that end abnormally
	Dump string `json:"dump,omitempty"`
}

const (
	vfx02Tick      = 100 * time.Millisecond
	vfx02JumpTicks = 40000 // > segment duration (one hour)
	vfx02Short     = 1 * time.Millisecond
	vfx02Long      = 1 * time.Hour
)

// exploration only (TestVerif_X02_Script): keep the goroutine dump of every observation
var vfx02Debug bool

var vfx02Base = time.Date(2008, 5, 20, 22, 15, 25, 0, time.UTC)

// ---- goroutine inspection

type vfx02G struct {
	id    int
	state string
	kind  string // sup | inst | reader | closer | harness | other (dumpers, goroutines that have not run yet)
	line  int    // sup: source line of the frame of (*Recorder).run
	busy  bool   // a component loop that is executing a harness callback
	// closer: the innermost frame outside the runtime is (*Recorder).Close itself (it waits for r.done)
	inClose bool
}

var (
	vfx02HdrRe  = regexp.MustCompile(`^goroutine (\d+) \[([^\],]+)`)
	vfx02LineRe = regexp.MustCompile(`:(\d+)(?: \+0x[0-9a-f]+)?$`)
)

func vfx02Stacks() string {
	buf := make([]byte, 1<<20)
	for {
		n := runtime.Stack(buf, true)
		if n < len(buf) {
			return string(buf[:n])
		}
		buf = make([]byte, 2*len(buf))
	}
}

func vfx02Parse(dump string) []vfx02G {
	var out []vfx02G
	for _, blk := range strings.Split(dump, "\n\n") {
		lines := strings.Split(strings.TrimSpace(blk), "\n")
		if len(lines) == 0 {
			continue
		}
		m := vfx02HdrRe.FindStringSubmatch(lines[0])
		if m == nil {
			continue
		}
		g := vfx02G{state: m[2], kind: "other"}
		g.id, _ = strconv.Atoi(m[1])
		inHarness := strings.Contains(blk, "vfx02")
		component := strings.Contains(blk, "recorder.(*Recorder).run(") ||
			strings.Contains(blk, "recorder.(*recorderInstance).run(") ||
			strings.Contains(blk, "stream.(*Reader).run(") ||
			strings.Contains(blk, "recorder.(*Recorder).Close(")
		if inHarness && !component {
			// the harness's own goroutines (sampler, test function)
			g.kind = "harness"
			out = append(out, g)
			continue
		}
		// a loop of the component that is inside a callback of the harness (waiting for the event log's
		// mutex) is in the middle of a critical section, whatever its state says
		g.busy = inHarness && !strings.Contains(blk, "recorder.(*Recorder).Close(")
		for _, ln := range lines[1:] {
			if strings.HasPrefix(ln, "\t") || strings.HasPrefix(ln, "runtime.") {
				continue
			}
			g.inClose = strings.Contains(ln, "recorder.(*Recorder).Close(")
			break
		}
		for i, ln := range lines[1:] {
			switch {
			case strings.Contains(ln, "recorder.(*Recorder).run("):
				g.kind = "sup"
				if i+2 < len(lines) {
					if lm := vfx02LineRe.FindStringSubmatch(strings.TrimSpace(lines[i+2])); lm != nil {
						g.line, _ = strconv.Atoi(lm[1])
					}
				}
			case strings.Contains(ln, "recorder.(*recorderInstance).run("):
				if g.kind == "other" {
					g.kind = "inst"
				}
			case strings.Contains(ln, "stream.(*Reader).run("):
				if g.kind == "other" {
					g.kind = "reader"
				}
			case strings.Contains(ln, "recorder.(*Recorder).Close("):
				if g.kind == "other" {
					g.kind = "closer"
				}
			}
		}
		out = append(out, g)
	}
	return out
}

// vfx02Parked: the goroutine is in a blocking wait that only another goroutine of the program (or a
// timer) can end: a channel operation, a select, a condition variable, a WaitGroup. Everything else may
// move by itself or through the runtime: running, runnable, syscall, IO wait, sleep, preempted, GC assist
// wait, and also "semacquire" / "sync.Mutex.Lock" / "sync.RWMutex.*": a goroutine that allocates while the
// world is stopped for a goroutine dump or a GC cycle starts waits in [semacquire] on a RUNTIME semaphore
// in the middle of its critical section (observed: the reader loop inside the OnData callback), and the
// holder of a mutex is by definition somewhere else and active.
func vfx02Parked(state string) bool {
	switch state {
	case "chan receive", "chan send", "select", "sync.Cond.Wait", "sync.WaitGroup.Wait",
		"chan receive (nil chan)", "chan send (nil chan)", "select (no cases)":
		return true
	}
	return false
}

// ---- the world of one run

type vfx02World struct {
	t         testing.TB
	fmt       string
	dir       string
	pathFmt   string // with %path replaced and the extension added
	desc      *description.Session
	strm      *stream.Stream
	sub       *stream.SubStream
	rec       *Recorder
	pauseLong bool
	pauseLine int
	base      map[int]bool // goroutines that existed before the run

	tick     int64
	ntpShift time.Duration
	env      string

	mu       sync.Mutex
	ev       []vfx02Ev
	paths    map[string]int
	pathList []string
	snaps    map[string]int
	links    map[string]bool // paths at which the harness put a link to /dev/full
	lastR    int

	closeState  atomic.Int32 // 0 not called, 1 inside Close, 2 Close returned (not logged yet), 3 logged
	closeRet    chan struct{}
	stopSampler chan struct{}
	samplerDone chan struct{}
	lastDump    string
	confirmed   int // observations confirmed as provably at rest in this run
	keepDumps   bool
	qdumps      []string
}

func (w *vfx02World) logEv(e vfx02Ev) {
	w.mu.Lock()
	w.ev = append(w.ev, e)
	w.mu.Unlock()
}

func (w *vfx02World) pathID(p string) int {
	// caller holds no lock
	w.mu.Lock()
	defer w.mu.Unlock()
	id, ok := w.paths[p]
	if !ok {
		id = len(w.paths) + 1
		w.paths[p] = id
		w.pathList = append(w.pathList, p)
	}
	return id
}

func (w *vfx02World) evCount() int {
	w.mu.Lock()
	defer w.mu.Unlock()
	return len(w.ev)
}

// Log is the Recorder's Parent.
func (w *vfx02World) Log(level logger.Level, format string, args ...any) {
	msg := fmt.Sprintf(format, args...)
	switch {
	case level == logger.Error:
		cl := "io"
		switch {
		case strings.Contains(msg, "drift"):
			cl = "drift"
		case strings.Contains(msg, "maximum part size"):
			cl = "size"
		}
		w.logEv(vfx02Ev{K: "err", A: cl})
	case level == logger.Info && strings.HasPrefix(msg, "[recorder] recording ") &&
		!strings.HasPrefix(msg, "[recorder] recording stopped"):
		w.logEv(vfx02Ev{K: "rec"})
	}
}

type vfx02Nil struct{}

func (vfx02Nil) Log(logger.Level, string, ...any) {}

// readers attached to the stream: the stream's only map[*stream.Reader]struct{} field.
func vfx02Readers(s *stream.Stream) int {
	v := reflect.ValueOf(s).Elem()
	want := reflect.TypeOf(map[*stream.Reader]struct{}(nil))
	n, found := 0, 0
	for i := 0; i < v.NumField(); i++ {
		f := v.Field(i)
		if f.Type() == want {
			n = f.Len()
			found++
		}
	}
	if found != 1 {
		return -1
	}
	return n
}

func (w *vfx02World) snapshot() int {
	var sb strings.Builder
	filepath.Walk(w.dir, func(p string, fi os.FileInfo, err error) error { //nolint:errcheck
		if err != nil || fi == nil {
			return nil
		}
		if fi.Mode()&os.ModeSymlink != 0 {
			// the harness's own /dev/full links (fault "full") are not recordings
			return nil
		}
		if fi.IsDir() {
			fmt.Fprintf(&sb, "%s/\n", p)
		} else {
			fmt.Fprintf(&sb, "%s %d %d %v\n", p, fi.Size(), fi.ModTime().UnixNano(), fi.Mode())
		}
		return nil
	})
	s := sb.String()
	w.mu.Lock()
	defer w.mu.Unlock()
	id, ok := w.snaps[s]
	if !ok {
		id = len(w.snaps) + 1
		w.snaps[s] = id
	}
	return id
}

func vfx02NewWorld(t testing.TB, format string, pauseLine int) *vfx02World {
	w := &vfx02World{t: t, fmt: format, pauseLine: pauseLine, env: "ok",
		paths: map[string]int{}, snaps: map[string]int{}, links: map[string]bool{}, base: map[int]bool{},
		keepDumps: vfx02Debug}
	for _, g := range vfx02Parse(vfx02Stacks()) {
		w.base[g.id] = true
	}
	dir, err := os.MkdirTemp("", "vfx02-")
	if err != nil {
		t.Fatalf("tempdir: %v", err)
	}
	w.dir = dir
	w.desc = &description.Session{Medias: []*description.Media{{
		Type:    description.MediaTypeVideo,
		Formats: []rtspformat.Format{&rtspformat.H264{PayloadTyp: 96, PacketizationMode: 1}},
	}}}
	w.strm = &stream.Stream{
		OrigDesc:          w.desc,
		WriteQueueSize:    512,
		RTPMaxPayloadSize: 1450,
		Parent:            vfx02Nil{},
	}
	if err = w.strm.Initialize(); err != nil {
		t.Fatalf("stream: %v", err)
	}
	w.sub = &stream.SubStream{Stream: w.strm, UseRTPPackets: false}
	if err = w.sub.Initialize(); err != nil {
		t.Fatalf("substream: %v", err)
	}
	if vfx02Readers(w.strm) != 0 {
		t.Fatalf("the stream's reader set cannot be observed (no unique map[*stream.Reader]struct{} field)")
	}
	return w
}

func (w *vfx02World) recFormat() conf.RecordFormat {
	if w.fmt == "mpegts" {
		return conf.RecordFormatMPEGTS
	}
	return conf.RecordFormatFMP4
}

func (w *vfx02World) initialize(pause string) {
	w.pauseLong = pause == "long"
	pf := filepath.Join(w.dir, "%path/%Y-%m-%d_%H-%M-%S-%f")
	w.pathFmt = recordstore.PathAddExtension(strings.ReplaceAll(pf, "%path", "mypath"), w.recFormat())
	rp := vfx02Short
	if w.pauseLong {
		rp = vfx02Long
	}
	w.rec = &Recorder{
		PathFormat:      pf,
		Format:          w.recFormat(),
		PartDuration:    vfx02Tick,
		MaxPartSize:     1000,
		SegmentDuration: 1 * time.Hour,
		PathName:        "mypath",
		Stream:          w.strm,
		OnSegmentCreate: func(p string) {
			w.logEv(vfx02Ev{K: "create", P: w.pathID(p)})
		},
		OnSegmentComplete: func(p string, _ time.Duration) {
			w.logEv(vfx02Ev{K: "complete", P: w.pathID(p)})
		},
		Parent:       w,
		restartPause: rp,
	}
	w.logEv(vfx02Ev{K: "init", A: pause})
	w.rec.Initialize()
	w.closeRet = make(chan struct{})
	w.stopSampler = make(chan struct{})
	w.samplerDone = make(chan struct{})
	w.lastR = -2
	go w.vfx02Sampler()
}

// the sampler logs a "peek" event whenever the number of attached readers changes
func (w *vfx02World) vfx02Sampler() {
	defer close(w.samplerDone)
	for {
		select {
		case <-w.stopSampler:
			return
		default:
		}
		w.mu.Lock()
		r := vfx02Readers(w.strm)
		if r != w.lastR {
			w.lastR = r
			w.ev = append(w.ev, vfx02Ev{K: "peek", R: r})
		}
		w.mu.Unlock()
		time.Sleep(200 * time.Microsecond)
	}
}

func (w *vfx02World) write(kind string) {
	switch kind {
	case "j":
		w.tick += vfx02JumpTicks
	default:
		w.tick++
	}
	if kind == "d" {
		w.ntpShift += 10 * time.Second
	}
	pts := w.tick * 9000
	ntp := vfx02Base.Add(time.Duration(w.tick)*vfx02Tick + w.ntpShift)
	idr := []byte{5, 1, 2, 3}
	if kind == "b" {
		idr = make([]byte, 3000)
		idr[0] = 5
	}
	if w.env == "full" {
		// every segment of this instance starts at the NTP of some unit: writes to a segment that is
		// created from now on fail with ENOSPC
		p := recordstore.Path{Start: ntp}.Encode(w.pathFmt)
		if _, err := os.Lstat(p); err != nil {
			if fi, err2 := os.Stat(filepath.Dir(p)); err2 == nil && fi.IsDir() {
				if os.Symlink("/dev/full", p) == nil {
					w.links[p] = true
				}
			}
		}
	}
	w.logEv(vfx02Ev{K: "w", A: kind})
	w.sub.WriteUnit(w.desc.Medias[0], w.desc.Medias[0].Formats[0], &unit.Unit{
		PTS: pts,
		NTP: ntp,
		Payload: unit.PayloadH264{
			test.FormatH264.SPS,
			test.FormatH264.PPS,
			idr,
		},
	})
}

// fault switches the environment: ok | nodir (a path component of the recording directory is a regular
// file: MkdirAll / Create fail) | full (files can be created, every write to them fails with ENOSPC)
func (w *vfx02World) fault(f string) {
	sub := filepath.Join(w.dir, "mypath")
	off := filepath.Join(w.dir, "mypath.off")
	// undo the current fault
	switch w.env {
	case "nodir":
		os.Remove(sub) //nolint:errcheck
		if _, err := os.Stat(off); err == nil {
			os.Rename(off, sub) //nolint:errcheck
		}
	case "full":
		// unused /dev/full links are left in place (they are only reached through units already written)
	}
	switch f {
	case "nodir":
		if fi, err := os.Lstat(sub); err == nil && fi.IsDir() {
			if err = os.Rename(sub, off); err != nil {
				w.t.Fatalf("fault: %v", err)
			}
		}
		if err := os.WriteFile(sub, []byte("x"), 0o644); err != nil {
			w.t.Fatalf("fault: %v", err)
		}
	case "full":
		if err := os.MkdirAll(sub, 0o755); err != nil {
			w.t.Fatalf("fault: %v", err)
		}
	}
	w.env = f
	w.logEv(vfx02Ev{K: "fault", A: f})
}

type vfx02Obs struct {
	r, g, ig, sg int
	cp           bool
	supLines     []int
	nev          int // number of events logged when the quiescent point was observed
	key          string
	closerInDone bool
}

// settle waits for a quiescent point and returns what is observed there.
func (w *vfx02World) settle() (vfx02Obs, error) {
	deadline := time.Now().Add(60 * time.Second)
	pause := 50 * time.Microsecond
	var stableSince time.Time
	var lastKey string
	for {
		n1 := w.evCount()
		dump := vfx02Stacks()
		gs := vfx02Parse(dump)
		var o vfx02Obs
		var key strings.Builder
		stable := true
		inPause := false
		closerParked := false
		for _, g := range gs {
			if w.base[g.id] || g.kind == "harness" {
				continue
			}
			fmt.Fprintf(&key, "%d/%s/%s/%d;", g.id, g.kind, g.state, g.line)
			switch g.kind {
			case "sup":
				o.sg++
				o.supLines = append(o.supLines, g.line)
				if !w.pauseLong && w.pauseLine != 0 && g.line == w.pauseLine {
					inPause = true
				}
			case "inst":
				o.ig++
			case "reader":
				o.g++
			case "closer":
				closerParked = vfx02Parked(g.state)
				o.closerInDone = g.state == "chan receive" && g.inClose
			}
			if !vfx02Parked(g.state) || g.busy {
				stable = false
			}
		}
		// Close is pending only if the goroutine that called it is seen parked INSIDE Close (it has closed
		// r.terminate and waits for r.done); before that, or between its return and the closeret event,
		// the run is not at rest
		cs := w.closeState.Load()
		o.cp = cs == 1
		if cs == 2 || (cs == 1 && !closerParked) {
			stable = false
		}
		o.r = vfx02Readers(w.strm)
		k := key.String()
		if stable && !inPause && w.evCount() == n1 && k == lastKey {
			need := time.Duration(0)
			if !w.pauseLong && w.pauseLine == 0 {
				need = 150 * time.Millisecond
			}
			if time.Since(stableSince) >= need {
				w.lastDump = dump
				o.nev = n1
				o.key = k
				return o, nil
			}
		} else {
			if k != lastKey || !stable || inPause || w.evCount() != n1 {
				stableSince = time.Now()
			}
			if stable && !inPause {
				lastKey = k
			} else {
				lastKey = ""
			}
		}
		if time.Now().After(deadline) {
			w.lastDump = dump
			return o, fmt.Errorf("no quiescent point within 60 s (stable=%v inPause=%v)", stable, inPause)
		}
		if stable && !inPause {
			// confirm with a second dump right away
			runtime.Gosched()
			continue
		}
		time.Sleep(pause)
		if pause < time.Millisecond {
			pause *= 2
		}
	}
}

// once: one dump, judged like settle does; used by confirm
func (w *vfx02World) once() (key string, stable bool, o vfx02Obs) {
	gs := vfx02Parse(vfx02Stacks())
	var kb strings.Builder
	stable = true
	closerParked := false
	for _, g := range gs {
		if w.base[g.id] || g.kind == "harness" {
			continue
		}
		fmt.Fprintf(&kb, "%d/%s/%s/%d;", g.id, g.kind, g.state, g.line)
		if g.kind == "closer" {
			closerParked = vfx02Parked(g.state)
			o.closerInDone = g.state == "chan receive" && g.inClose
		}
		if g.kind == "sup" && !w.pauseLong && w.pauseLine != 0 && g.line == w.pauseLine {
			stable = false
		}
		if !vfx02Parked(g.state) || g.busy {
			stable = false
		}
	}
	cs := w.closeState.Load()
	if cs == 2 || (cs == 1 && !closerParked) {
		stable = false
	}
	return kb.String(), stable, o
}

// confirm: the observation o is PROVABLY at rest: five more dumps spread over two seconds show the very same
// goroutines in the very same blocking waits, nothing was logged, and a pending Close is blocked on r.done
// inside Close (so r.terminate is closed and whoever should serve it does not).
func (w *vfx02World) confirm(o vfx02Obs) bool {
	cs := w.closeState.Load()
	for i := 0; i < 5; i++ {
		time.Sleep(500 * time.Millisecond)
		k, stable, o2 := w.once()
		if !stable || k != o.key || w.evCount() != o.nev || w.closeState.Load() != cs {
			return false
		}
		if o.cp && !o2.closerInDone {
			return false
		}
	}
	return !o.cp || o.closerInDone
}

// doubtful: the observation would make a formula that is judged AT REST false (S4 SegmentClosed, S5 Restarts,
// S6 Recorded, S7 ClosePrompt, the "no loop is left" part of S8).
// This only decides whether the observation must be confirmed before it is logged as sure; TLC judges.
func (w *vfx02World) doubtful(o vfx02Obs) bool {
	if o.cp {
		return true
	}
	cs := w.closeState.Load()
	if cs == 3 {
		// S8: a loop of the recorder that is left after Close returned
		return o.g != 0 || o.ig != 0 || o.sg != 0
	}
	w.mu.Lock()
	defer w.mu.Unlock()
	long, errSeen, everFull, env, open, errSinceCreate := false, false, false, "ok", 0, false
	for _, e := range w.ev {
		switch e.K {
		case "init":
			long = e.A == "long"
		case "err":
			errSeen = true
			errSinceCreate = true
		case "fault":
			env = e.A
			if e.A == "full" {
				everFull = true
			}
		case "create":
			open++
			errSinceCreate = false
		case "complete":
			open--
		}
	}
	// S4: a segment that is created and not completed although its instance reported an error / nobody reads
	if open > 0 && (errSinceCreate || o.r != 1) {
		return true
	}
	if cs != 0 {
		return false
	}
	if long && errSeen {
		return false
	}
	if o.r != 1 || o.g != 1 {
		return true
	}
	if everFull || env != "ok" {
		return false
	}
	// regular units since the recorder became healthy (as S6 counts them)
	bb := -1
	for i := len(w.ev) - 1; i >= 0; i-- {
		e := w.ev[i]
		if e.K == "init" || e.K == "err" || e.K == "fault" || e.K == "closecall" || e.K == "closeret" || (e.K == "w" && e.A != "n") {
			bb = i
			break
		}
	}
	if bb < 0 {
		return false
	}
	start := bb
	if w.ev[bb].K == "err" || w.ev[bb].K == "fault" {
		start = -1
		for i := bb + 1; i < len(w.ev); i++ {
			if w.ev[i].K == "q" {
				start = i
				break
			}
		}
		if start < 0 {
			return false
		}
	}
	n := 0
	for i := start + 1; i < len(w.ev); i++ {
		if w.ev[i].K == "w" && w.ev[i].A == "n" {
			n++
		}
	}
	return n >= 4 && open != 1
}

func (w *vfx02World) observe() (vfx02Obs, error) {
	deadline := time.Now().Add(90 * time.Second)
	for {
		o, err := w.settle()
		if err != nil {
			return o, err
		}
		sure := false
		if w.doubtful(o) && w.confirmed < 3 {
			if !w.confirm(o) {
				// not at rest after all: keep waiting
				if time.Now().After(deadline) {
					return o, fmt.Errorf("no confirmed quiescent point within 90 s")
				}
				continue
			}
			sure = true
		}
		fs := w.snapshot()
		// the observation is logged only if nothing was logged since the quiescent point was seen
		w.mu.Lock()
		if len(w.ev) == o.nev {
			w.ev = append(w.ev, vfx02Ev{K: "q", R: o.r, G: o.g, IG: o.ig, SG: o.sg, CP: o.cp, FS: fs, Sure: sure})
			w.mu.Unlock()
			if sure {
				w.confirmed++
			}
			if w.keepDumps {
				w.qdumps = append(w.qdumps, w.lastDump)
			}
			return o, nil
		}
		w.mu.Unlock()
	}
}

func (w *vfx02World) closeCall() {
	w.logEv(vfx02Ev{K: "closecall"})
	w.closeState.Store(1)
	go func() {
		w.rec.Close()
		w.closeState.Store(2)
		fs := w.snapshot()
		w.logEv(vfx02Ev{K: "closeret", FS: fs})
		w.closeState.Store(3)
		close(w.closeRet)
	}()
}

func (w *vfx02World) cleanup() {
	if w.stopSampler != nil {
		close(w.stopSampler)
		<-w.samplerDone
	}
	if w.strm != nil {
		w.strm.Close()
	}
	os.RemoveAll(w.dir) //nolint:errcheck
}

// vfx02Exec replays one operation sequence. The harness observes a quiescent point before every
// operation except a racing Close, and after the last one; a run that is still open at the end is
// closed (quietly), one more unit is written and the run is observed once more.
func vfx02Exec(t testing.TB, r *vfx02Run, pauseLine int) {
	t0 := time.Now()
	w := vfx02NewWorld(t, r.Fmt, pauseLine)
	r.Calib = pauseLine != 0
	defer func() {
		w.mu.Lock()
		r.Ev = append([]vfx02Ev{}, w.ev...)
		r.Paths = append([]string{}, w.pathList...)
		w.mu.Unlock()
		r.Doomed = []int{}
		for i := range r.Paths {
			if w.links[r.Paths[i]] {
				r.Doomed = append(r.Doomed, i+1)
			}
			r.Paths[i] = strings.TrimPrefix(r.Paths[i], w.dir)
		}
		w.cleanup()
		r.Ms = time.Since(t0).Milliseconds()
		if vfx02Debug && len(w.qdumps) > 0 {
			r.Dump = w.qdumps[0]
		} else if r.Truncated != "" || r.Infra != "" || r.Inconclusive != "" {
			r.Dump = w.lastDump
			if len(r.Dump) > 6000 {
				r.Dump = r.Dump[:6000]
			}
		}
	}()
	if len(r.Ops) == 0 || r.Ops[0].K != "Initialize" {
		t.Fatalf("run %d does not start with Initialize", r.Run)
	}
	ops := append([]vfx02Op{}, r.Ops...)
	closed := false
	for _, op := range ops {
		if op.K == "CloseCall" {
			closed = true
		}
	}
	if !closed {
		ops = append(ops, vfx02Op{K: "CloseCall", A: "quiet"})
	}
	ops = append(ops, vfx02Op{K: "W", A: "n"}, vfx02Op{K: "Observe"})
	r.Ops = ops
	obs := func() bool {
		o, err := w.observe()
		if err != nil {
			r.Inconclusive = err.Error()
			return false
		}
		if o.cp {
			r.Truncated = "quiescent with Close pending"
			return false
		}
		return true
	}
	for k, op := range ops {
		if k > 0 && !(op.K == "CloseCall" && op.A == "race") && !(op.K == "W" && strings.HasSuffix(op.A, "!")) {
			if !obs() {
				return
			}
		}
		switch op.K {
		case "Initialize":
			w.initialize(op.A)
		case "W":
			w.write(strings.TrimSuffix(op.A, "!"))
		case "Fault":
			w.fault(op.A)
		case "CloseCall":
			w.closeCall()
		case "Observe":
		default:
			t.Fatalf("unknown op %q", op.K)
		}
	}
	obs()
}

// vfx02Calibrate learns the source line at which the supervisor is parked during the restart pause:
// a recorder with a one hour pause, one instance error, wait until no instance loop is left.
func vfx02Calibrate(t testing.TB) int {
	w := vfx02NewWorld(t, "mpegts", 0)
	defer w.cleanup()
	w.initialize("long")
	o1, err := w.settle()
	if err != nil || len(o1.supLines) != 1 || o1.ig != 1 {
		return 0
	}
	w.write("n")
	w.write("d")
	w.write("n")
	deadline := time.Now().Add(5 * time.Second)
	line := 0
	for time.Now().Before(deadline) {
		o2, err2 := w.settle()
		if err2 != nil {
			break
		}
		if o2.ig == 0 && len(o2.supLines) == 1 {
			if o2.supLines[0] != o1.supLines[0] {
				line = o2.supLines[0]
			}
			break
		}
		time.Sleep(time.Millisecond)
	}
	w.closeCall()
	select {
	case <-w.closeRet:
	case <-time.After(5 * time.Second):
	}
	return line
}

// child: replays the runs of one shard and appends one line per finished run to the given file.
func TestVerif_X02_Child(t *testing.T) {
	outPath := os.Getenv("VERIF_X02_CHILD_OUT")
	if outPath == "" {
		t.Skip("helper of TestVerif_X02_Replay")
	}
	shard, _ := strconv.Atoi(os.Getenv("VERIF_X02_SHARD"))
	shards, _ := strconv.Atoi(os.Getenv("VERIF_X02_SHARDS"))
	from, _ := strconv.Atoi(os.Getenv("VERIF_X02_FROM"))
	f, err := os.OpenFile(outPath, os.O_CREATE|os.O_WRONLY|os.O_APPEND, 0o644)
	if err != nil {
		t.Fatal(err)
	}
	defer f.Close()
	line := vfx02Calibrate(t)
	if verifrt.Param("NOCALIB", 0) == 1 {
		line = 0
	}
	n, mine := 0, 0
	verifrt.ForEachCase(t, func(raw []byte) {
		n++
		if (n-1)%shards != shard {
			return
		}
		mine++
		if mine <= from {
			return
		}
		var r vfx02Run
		verifrt.Decode(t, raw, &r)
		vfx02Exec(t, &r, line)
		b, err2 := json.Marshal(&r)
		if err2 != nil {
			t.Fatal(err2)
		}
		f.Write(append(b, '\n')) //nolint:errcheck
	})
}

// spec -> impl and impl -> spec: replays operation sequences in child processes (a crash of the code
// under test costs one run).
func TestVerif_X02_Replay(t *testing.T) {
	out := verifrt.NewOut(t)
	defer out.Close()
	var cases [][]byte
	verifrt.ForEachCase(t, func(raw []byte) { cases = append(cases, raw) })
	work := os.Getenv("VERIF_WORK")
	if work == "" {
		work = t.TempDir()
	}
	shards := verifrt.Param("SHARDS", 4)
	var wg sync.WaitGroup
	var mu sync.Mutex
	var failure string
	for s := 0; s < shards; s++ {
		wg.Add(1)
		go func(s int) {
			defer wg.Done()
			var mineIdx []int
			for i := range cases {
				if i%shards == s {
					mineIdx = append(mineIdx, i)
				}
			}
			tmp := fmt.Sprintf("%s/x02-child-%d.ndjson", work, s)
			os.Remove(tmp) //nolint:errcheck
			from, crashes := 0, 0
			for from < len(mineIdx) {
				before := vfx02CountLines(tmp)
				cmd := exec.Command(os.Args[0], "-test.run=^TestVerif_X02_Child$", "-test.count=1", "-test.timeout=900s")
				cmd.Env = append(os.Environ(), "VERIF_X02_CHILD_OUT="+tmp, "VERIF_X02_SHARD="+strconv.Itoa(s),
					"VERIF_X02_SHARDS="+strconv.Itoa(shards), "VERIF_X02_FROM="+strconv.Itoa(from))
				var buf bytes.Buffer
				cmd.Stdout = &buf
				cmd.Stderr = &buf
				runErr := cmd.Run()
				done := vfx02CountLines(tmp) - before
				from += done
				if runErr == nil {
					if from < len(mineIdx) {
						mu.Lock()
						failure = fmt.Sprintf("child %d finished after %d of %d runs", s, from, len(mineIdx))
						mu.Unlock()
					}
					return
				}
				text := buf.String()
				if i := strings.Index(text, "panic:"); i >= 0 {
					text = text[i:]
				} else if i := strings.Index(text, "fatal error:"); i >= 0 {
					text = text[i:]
				} else {
					mu.Lock()
					failure = fmt.Sprintf("child %d failed: %v\n%s", s, runErr, text)
					mu.Unlock()
					return
				}
				if len(text) > 900 {
					text = text[:900]
				}
				if from >= len(mineIdx) {
					mu.Lock()
					failure = fmt.Sprintf("child %d crashed after its last run: %s", s, text)
					mu.Unlock()
					return
				}
				var r vfx02Run
				verifrt.Decode(t, cases[mineIdx[from]], &r)
				r.Ev = []vfx02Ev{}
				r.Crashed = text
				b, _ := json.Marshal(&r)
				fh, err := os.OpenFile(tmp, os.O_CREATE|os.O_WRONLY|os.O_APPEND, 0o644)
				if err == nil {
					fh.Write(append(b, '\n')) //nolint:errcheck
					fh.Close()
				}
				from++
				crashes++
				if crashes > 200 {
					mu.Lock()
					failure = "more than 200 runs crashed the process; last: " + text
					mu.Unlock()
					return
				}
			}
		}(s)
	}
	wg.Wait()
	if failure != "" {
		t.Fatal(failure)
	}
	var all []vfx02Run
	for s := 0; s < shards; s++ {
		tmp := fmt.Sprintf("%s/x02-child-%d.ndjson", work, s)
		fh, err := os.Open(tmp)
		if err != nil {
			continue
		}
		sc := bufio.NewScanner(fh)
		sc.Buffer(make([]byte, 1<<20), 1<<28)
		for sc.Scan() {
			var r vfx02Run
			if json.Unmarshal(sc.Bytes(), &r) == nil {
				all = append(all, r)
			}
		}
		fh.Close()
		os.Remove(tmp) //nolint:errcheck
	}
	sort.Slice(all, func(i, j int) bool { return all[i].Run < all[j].Run })
	for i := range all {
		out.Emit(&all[i])
	}
}

func vfx02CountLines(p string) int {
	b, err := os.ReadFile(p)
	if err != nil {
		return 0
	}
	return bytes.Count(b, []byte("\n"))
}

// ad-hoc scripts for exploring the real behaviour:
// VERIF_X02_SCRIPT="fmp4:short:n,n,n,j,n,F=full,n,C,n" go test -run TestVerif_X02_Script -v
func TestVerif_X02_Script(t *testing.T) {
	script := os.Getenv("VERIF_X02_SCRIPT")
	if script == "" {
		t.Skip("exploration helper")
	}
	line := vfx02Calibrate(t)
	t.Logf("pause line %d", line)
	vfx02Debug = os.Getenv("VERIF_X02_ANOMALY") != ""
	for _, sc := range strings.Split(script, ";") {
		parts := strings.SplitN(sc, ":", 3)
		r := vfx02Run{Fmt: parts[0], Ops: []vfx02Op{{K: "Initialize", A: parts[1]}}}
		for _, tok := range strings.Split(parts[2], ",") {
			switch {
			case tok == "C":
				r.Ops = append(r.Ops, vfx02Op{K: "CloseCall", A: "quiet"})
			case tok == "CR":
				r.Ops = append(r.Ops, vfx02Op{K: "CloseCall", A: "race"})
			case tok == "O":
				r.Ops = append(r.Ops, vfx02Op{K: "Observe"})
			case strings.HasPrefix(tok, "F="):
				r.Ops = append(r.Ops, vfx02Op{K: "Fault", A: tok[2:]})
			default:
				r.Ops = append(r.Ops, vfx02Op{K: "W", A: tok})
			}
		}
		vfx02Exec(t, &r, line)
		var sb strings.Builder
		for _, e := range r.Ev {
			switch e.K {
			case "q":
				fmt.Fprintf(&sb, " q[r%d g%d i%d s%d cp%v fs%d sure%v]", e.R, e.G, e.IG, e.SG, e.CP, e.FS, e.Sure)
			case "peek":
				fmt.Fprintf(&sb, " peek%d", e.R)
			case "create", "complete":
				fmt.Fprintf(&sb, " %s%d", e.K, e.P)
			case "closeret":
				fmt.Fprintf(&sb, " closeret[fs%d]", e.FS)
			default:
				fmt.Fprintf(&sb, " %s%s", e.K, e.A)
			}
		}
		t.Logf("%s %dms trunc=%q infra=%q\n%s\npaths=%v", sc, r.Ms, r.Truncated, r.Infra+r.Inconclusive, sb.String(), r.Paths)
		if r.Infra != "" {
			t.Logf("dump:\n%s", r.Dump)
		}
		if vfx02Debug {
			// anomaly hunt: the second observation is taken before the first create
			nq, anomaly := 0, false
			for _, e := range r.Ev {
				if e.K == "q" {
					nq++
					if nq == 1 {
						anomaly = true
					}
				}
				if e.K == "create" {
					break
				}
			}
			if anomaly {
				t.Logf("ANOMALY dump of the second observation:\n%s", r.Dump)
			}
		}
	}
}
