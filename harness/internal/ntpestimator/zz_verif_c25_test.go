package ntpestimator

// Verification harness for C25 (absolute timestamps track the wall clock). Injected by /verif
// through -overlay. The package clock `timeNow` is driven by the harness; the tests record what
// the real Estimator returns; TLC decides (spec/time/TraceEstimator.tla).

import (
	"testing"
	"time"

	"github.com/bluenviron/mediamtx/internal/verifrt"
)

type vf25Frame struct {
	NowS   int64 `json:"nowS"`
	NowN   int64 `json:"nowN"`
	PTS    int64 `json:"pts"`
	OutS   int64 `json:"outS"`
	OutN   int64 `json:"outN"`
	Jumped bool  `json:"jumped"`
}

type vf25Run struct {
	Run     int         `json:"run"`
	Src     string      `json:"src"`
	Rate    int         `json:"rate"`
	ExactNs bool        `json:"exactNs"`
	Whole   bool        `json:"whole"`
	Frames  []vf25Frame `json:"frames"`
}

// vf25Env is the environment of one real Estimator: a wall clock and the frame timestamps.
type vf25Env struct {
	est     *Estimator
	base    int64 // unix seconds that the records call 0
	ptsBase int64 // timestamp that the records call 0
	clock   time.Time
	pts     int64
	jumped  bool
	frames  []vf25Frame
}

func vf25NewEnv(rate int, base int64, ptsBase int64) *vf25Env {
	e := &vf25Env{est: &Estimator{ClockRate: rate}, base: base, ptsBase: ptsBase, frames: []vf25Frame{}}
	e.clock = time.Unix(base, 0)
	e.pts = ptsBase
	return e
}

func (e *vf25Env) advance(d time.Duration) { e.clock = e.clock.Add(d) }
func (e *vf25Env) jump(d time.Duration)    { e.clock = e.clock.Add(d); e.jumped = true }

func (e *vf25Env) frame(dpts int64) {
	e.pts += dpts
	timeNow = func() time.Time { return e.clock }
	out := e.est.Estimate(e.pts)
	e.frames = append(e.frames, vf25Frame{
		NowS: e.clock.Unix() - e.base, NowN: int64(e.clock.Nanosecond()),
		PTS:  e.pts - e.ptsBase,
		OutS: out.Unix() - e.base, OutN: int64(out.Nanosecond()),
		Jumped: e.jumped,
	})
	e.jumped = false
}

// spec -> impl: every behaviour of the bounded model (whole seconds), concretised at several clock
// rates, wall-clock epochs and timestamp origins.
func TestVerif_C25_Replay(t *testing.T) {
	saved := timeNow
	defer func() { timeNow = saved }()
	out := verifrt.NewOut(t)
	defer out.Close()
	rates := []int{1, 90000, 48000, 8000, 1000}
	bases := []int64{1700000000, 0, 4102444800, 951782400}
	ptsBases := []int64{0, -1 << 40, 1<<62 + 12345, 1 << 32}
	n := 0
	verifrt.ForEachCase(t, func(raw []byte) {
		var c struct {
			Run  int `json:"run"`
			Acts []struct {
				A string `json:"a"`
				K int64  `json:"k"`
			} `json:"acts"`
		}
		verifrt.Decode(t, raw, &c)
		rate := rates[n%len(rates)]
		e := vf25NewEnv(rate, bases[(n/5)%len(bases)], ptsBases[(n/3)%len(ptsBases)])
		n++
		for _, a := range c.Acts {
			switch a.A {
			case "adv":
				e.advance(time.Duration(a.K) * time.Second)
			case "jump":
				e.jump(time.Duration(a.K) * time.Second)
			case "frame":
				e.frame(a.K * int64(rate))
			default:
				t.Fatalf("unknown action %q", a.A)
			}
		}
		out.Emit(&vf25Run{Run: c.Run, Src: "tlc", Rate: rate, ExactNs: true, Whole: true, Frames: e.frames})
	})
}

// impl -> spec: long random environments with sub-second values (frame cadence with jitter, late and
// early frames, reordered timestamps, stalls, forward and backward clock steps around the window).
func TestVerif_C25_Trace(t *testing.T) {
	saved := timeNow
	defer func() { timeNow = saved }()
	out := verifrt.NewOutFile(t, verifrt.ParamS("OUT2", ""))
	defer out.Close()
	rnd := verifrt.Rand(25)
	runs := verifrt.Param("RUNS", 300)
	rates := []int{90000, 90000, 48000, 8000, 1000}
	for i := 0; i < runs; i++ {
		rate := rates[rnd.IntN(len(rates))]
		// granule: with exactNs every timestamp step is a multiple of a tick count whose duration
		// is a whole number of nanoseconds (9 ticks at 90000 = 100 us, 3 ticks at 48000 = 62.5 us)
		exact := rnd.IntN(2) == 0
		gran := int64(1)
		if exact {
			switch rate {
			case 90000:
				gran = 9
			case 48000:
				gran = 3
			}
		}
		ptsBase := int64(0)
		switch rnd.IntN(3) {
		case 1:
			ptsBase = -(int64(rnd.Uint32()) << 8)
		case 2:
			ptsBase = 1<<62 + int64(rnd.Uint32())
		}
		ptsBase -= ptsBase % gran
		e := vf25NewEnv(rate, 1600000000+int64(rnd.IntN(400000000)), ptsBase)
		e.advance(time.Duration(rnd.IntN(1000000000)))
		// nominal frame interval in ticks (25..60 fps video or 20 ms audio)
		interval := int64(rate) / int64(20+rnd.IntN(41))
		interval -= interval % gran
		if interval == 0 {
			interval = gran
		}
		tick := func(n int64) time.Duration { // duration of n ticks, rounded down
			return time.Duration(n/int64(rate))*time.Second +
				time.Duration((n%int64(rate))*1000000000/int64(rate))
		}
		nfr := 20 + rnd.IntN(120)
		for k := 0; k < nfr; k++ {
			d := interval
			adv := tick(interval)
			switch rnd.IntN(16) {
			case 0: // jitter on arrival
				adv += time.Duration(rnd.IntN(30000000))
			case 1: // frame arrives early
				adv -= time.Duration(rnd.Int64N(int64(adv) + 1))
			case 2: // reordered timestamp (B-frame)
				d = -interval * int64(1+rnd.IntN(2))
			case 3: // stall close to the window
				adv = 4*time.Second + time.Duration(rnd.IntN(2000000000))
			case 4: // timestamp gap (lost frames)
				d = interval * int64(2+rnd.IntN(200))
			case 5: // forward clock step
				e.jump(time.Duration(rnd.Int64N(int64(8 * time.Second))))
			case 6: // backward clock step
				e.jump(-time.Duration(rnd.Int64N(int64(8 * time.Second))))
			case 7: // lag sits exactly on the window boundary, then one tick / 1 ns beyond
				e.advance(5 * time.Second)
				e.frame(0)
				if rnd.IntN(2) == 0 {
					adv = time.Nanosecond
					d = 0
				}
			case 8: // timestamp runs ahead of the clock by one granule
				adv = 0
				d = gran
			case 9: // repeated timestamp
				d = 0
			case 10: // small backward step, within one interval
				e.jump(-time.Duration(rnd.Int64N(int64(tick(interval)) + 1)))
			}
			e.advance(adv)
			e.frame(d)
		}
		out.Emit(&vf25Run{Run: 1000000 + i, Src: "random", Rate: rate, ExactNs: exact, Frames: e.frames})
	}
}
