package ntpestimator

// Verification harness for C24 (timestamp scaling is exact). Injected by /verif through -overlay.
// Records what this package's copy of the helper returns; TLC / Apalache decide.

import (
	"testing"
	"time"

	"github.com/bluenviron/mediamtx/internal/verifc24"
)

func TestVerif_C24_Scale(t *testing.T) {
	verifc24.Run(t, "ntpestimator", []verifc24.Fn{
		{Name: "ntpestimator.multiplyAndDivide", MaxRate: 1 << 32, Call: func(v, m, d int64) int64 {
			return int64(multiplyAndDivide(time.Duration(v), time.Duration(m), time.Duration(d)))
		}},
	})
}
