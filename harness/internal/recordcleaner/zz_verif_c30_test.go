package recordcleaner

// Verification harness for C30 (record cleaner). Injected by /verif through -overlay.
// It builds the directory tree of each scenario, runs passes of the real Cleaner (doRun) with the
// package's timeNow set, and records which files survive each pass. TLC decides
// (spec/record/TraceCleaner.tla).

import (
	"io/fs"
	"os"
	"path/filepath"
	"regexp"
	"sort"
	"strconv"
	"strings"
	"testing"
	"time"

	"github.com/bluenviron/mediamtx/internal/conf"
	"github.com/bluenviron/mediamtx/internal/logger"
	"github.com/bluenviron/mediamtx/internal/verifrt"
)

type vf30Log struct{}

func (vf30Log) Log(logger.Level, string, ...any) {}

type vf30File struct {
	ID  int    `json:"id"`
	Rel string `json:"rel"` // relative to the recording directory; "/BASE" inside stands for that directory
	Dir bool   `json:"dir"`
}

type vf30Now struct {
	U  int64 `json:"u"`
	US int64 `json:"us"`
}

type vf30Case struct {
	Kind  string         `json:"kind"` // universe | scen
	ID    int            `json:"id"`
	Zone  string         `json:"zone"`
	FK    string         `json:"fk"`    // record path layout
	Stamp string         `json:"stamp"` // universe: what follows %path/ in the recordPath
	Files []vf30File     `json:"files"` // universe
	Now   []vf30Now      `json:"now"`   // universe: the two clock readings
	DA    map[string]int `json:"da"`    // scen: recordDeleteAfter seconds per configuration, -1 = absent
	TS    bool           `json:"ts"`    // scen: configuration "a" records MPEG-TS
	Steps [][]any        `json:"steps"` // scen: ["pass","",0] | ["reload",conf,seconds] | ["advance","",0]
}

type vf30Obs struct {
	ID    int      `json:"id"`
	After [][]int  `json:"after"` // ids of the regular files present after each pass
	Extra []string `json:"extra"` // files found that the scenario did not create
}

func vf30Confs(base string, stamp string, da map[string]int, ts bool) map[string]*conf.Path {
	out := map[string]*conf.Path{}
	for name, secs := range da {
		if secs < 0 {
			continue
		}
		pc := &conf.Path{
			Name:              name,
			RecordPath:        base + "/%path/" + stamp,
			RecordFormat:      conf.RecordFormatFMP4,
			RecordDeleteAfter: conf.Duration(time.Duration(secs) * time.Second),
		}
		switch {
		case name == "all_others" || name == "all":
			pc.Regexp = regexp.MustCompile("^.*$")
		case strings.HasPrefix(name, "~"):
			pc.Regexp = regexp.MustCompile(name[1:])
		}
		if name == "a" && ts {
			pc.RecordFormat = conf.RecordFormatMPEGTS
		}
		out[name] = pc
	}
	return out
}

func TestVerif_C30_Replay(t *testing.T) {
	out := verifrt.NewOut(t)
	defer out.Close()

	savedLocal := time.Local
	savedNow := timeNow
	defer func() { time.Local = savedLocal; timeNow = savedNow }()

	root := t.TempDir()
	universe := map[string]*vf30Case{}
	locs := map[string]*time.Location{}

	verifrt.ForEachCase(t, func(raw []byte) {
		var c vf30Case
		verifrt.Decode(t, raw, &c)
		if c.Kind == "universe" {
			cc := c
			universe[c.Zone+"|"+c.FK] = &cc
			loc, err := time.LoadLocation(c.Zone)
			if err != nil {
				t.Fatalf("cannot load zone %s: %v", c.Zone, err)
			}
			locs[c.Zone] = loc
			return
		}
		u := universe[c.Zone+"|"+c.FK]
		if u == nil {
			t.Fatalf("scenario %d before the universe of zone %s layout %s", c.ID, c.Zone, c.FK)
		}
		time.Local = locs[c.Zone]

		base := filepath.Join(root, "s"+strconv.Itoa(c.ID), "BASE")
		byPath := map[string]int{}
		for _, f := range u.Files {
			p := filepath.Join(base, strings.ReplaceAll(f.Rel, "/BASE", base))
			if f.Dir {
				if err := os.MkdirAll(p, 0o755); err != nil {
					t.Fatal(err)
				}
				continue
			}
			if err := os.MkdirAll(filepath.Dir(p), 0o755); err != nil {
				t.Fatal(err)
			}
			if err := os.WriteFile(p, []byte{1}, 0o644); err != nil {
				t.Fatal(err)
			}
			byPath[p] = f.ID
		}

		da := map[string]int{}
		for k, v := range c.DA {
			da[k] = v
		}
		cl := &Cleaner{PathConfs: vf30Confs(base, u.Stamp, da, c.TS), Parent: vf30Log{}}
		nowIdx := 0
		o := vf30Obs{ID: c.ID, After: [][]int{}, Extra: []string{}}
		for _, st := range c.Steps {
			switch st[0].(string) {
			case "pass":
				n := u.Now[nowIdx]
				timeNow = func() time.Time { return time.Unix(n.U, n.US*1000) }
				cl.doRun()
				ids := []int{}
				err := filepath.WalkDir(base, func(p string, d fs.DirEntry, err error) error {
					if err != nil {
						return err
					}
					if d.Type().IsRegular() {
						if id, ok := byPath[p]; ok {
							ids = append(ids, id)
						} else {
							o.Extra = append(o.Extra, p)
						}
					}
					return nil
				})
				if err != nil {
					t.Fatal(err)
				}
				sort.Ints(ids)
				o.After = append(o.After, ids)
			case "reload":
				da[st[1].(string)] = int(st[2].(float64))
				cl.PathConfs = vf30Confs(base, u.Stamp, da, c.TS) // what Cleaner.run does on chReloadConf
			case "advance":
				nowIdx = 1
			}
		}
		out.Emit(&o)
		os.RemoveAll(filepath.Join(root, "s"+strconv.Itoa(c.ID)))
	})
}
