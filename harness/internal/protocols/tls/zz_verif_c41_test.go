package tls //nolint:revive

// Verification harness for C41 (TLS fingerprint pinning). Injected by /verif through -overlay.
// Real TLS handshakes with MakeConfig(fingerprint) against local TLS servers; the test records
// whether the connection succeeded; verdicts are taken by TLC (TraceTLSPin.tla).

import (
	"crypto/ecdsa"
	"crypto/elliptic"
	"crypto/rand"
	"crypto/sha256"
	ctls "crypto/tls"
	"crypto/x509"
	"crypto/x509/pkix"
	"encoding/hex"
	"encoding/json"
	"encoding/pem"
	"io"
	"math/big"
	"net"
	"net/http"
	"net/http/httptest"
	"os"
	"path/filepath"
	"strings"
	"sync/atomic"
	"testing"
	"time"

	"github.com/bluenviron/mediamtx/internal/verifrt"
)

type vf41PKI struct {
	caDER   []byte
	leafDER map[string][]byte
	certs   map[string]ctls.Certificate
}

func vf41NewPKI(t testing.TB) *vf41PKI {
	p := &vf41PKI{leafDER: map[string][]byte{}, certs: map[string]ctls.Certificate{}}
	newKey := func() *ecdsa.PrivateKey {
		k, err := ecdsa.GenerateKey(elliptic.P256(), rand.Reader)
		if err != nil {
			t.Fatal(err)
		}
		return k
	}
	serial := int64(1000)
	now := time.Now()
	caKey := newKey()
	caTpl := &x509.Certificate{
		SerialNumber: big.NewInt(1), Subject: pkix.Name{CommonName: "verif C41 CA"},
		NotBefore: now.Add(-24 * time.Hour), NotAfter: now.Add(240 * time.Hour),
		IsCA: true, BasicConstraintsValid: true, KeyUsage: x509.KeyUsageCertSign | x509.KeyUsageDigitalSignature,
	}
	var err error
	if p.caDER, err = x509.CreateCertificate(rand.Reader, caTpl, caTpl, &caKey.PublicKey, caKey); err != nil {
		t.Fatal(err)
	}
	caCert, err := x509.ParseCertificate(p.caDER)
	if err != nil {
		t.Fatal(err)
	}
	leaf := func(name string, selfSigned bool, notBefore, notAfter time.Time, wrongHost bool) {
		serial++
		key := newKey()
		tpl := &x509.Certificate{
			SerialNumber: big.NewInt(serial), Subject: pkix.Name{CommonName: name},
			NotBefore: notBefore, NotAfter: notAfter,
			KeyUsage: x509.KeyUsageDigitalSignature, ExtKeyUsage: []x509.ExtKeyUsage{x509.ExtKeyUsageServerAuth},
			BasicConstraintsValid: true,
		}
		if wrongHost {
			tpl.DNSNames = []string{"other.example"}
		} else {
			tpl.IPAddresses = []net.IP{net.ParseIP("127.0.0.1")}
		}
		var der []byte
		var err2 error
		chain := [][]byte{}
		if selfSigned {
			der, err2 = x509.CreateCertificate(rand.Reader, tpl, tpl, &key.PublicKey, key)
			chain = [][]byte{der}
		} else {
			der, err2 = x509.CreateCertificate(rand.Reader, tpl, caCert, &key.PublicKey, caKey)
			chain = [][]byte{der, p.caDER}
		}
		if err2 != nil {
			t.Fatal(err2)
		}
		p.leafDER[name] = der
		p.certs[name] = ctls.Certificate{Certificate: chain, PrivateKey: key}
	}
	ok0, ok1 := now.Add(-time.Hour), now.Add(24*time.Hour)
	leaf("Avalid", false, ok0, ok1, false)
	leaf("Aself", true, ok0, ok1, false)
	leaf("Aexpired", false, now.Add(-48*time.Hour), now.Add(-24*time.Hour), false)
	leaf("Awronghost", false, ok0, ok1, true)
	leaf("Bvalid", false, ok0, ok1, false)
	leaf("Bself", true, ok0, ok1, false)
	p.leafDER["CA"] = p.caDER

	// certificates that imitate Avalid (none has its SHA-256)
	pinned, err := x509.ParseCertificate(p.leafDER["Avalid"])
	if err != nil {
		t.Fatal(err)
	}
	imitate := func(name string, serial *big.Int, key *ecdsa.PrivateKey, signer *x509.Certificate, signerKey *ecdsa.PrivateKey,
		extra [][]byte) {
		tpl := &x509.Certificate{
			SerialNumber: serial, Subject: pinned.Subject, NotBefore: ok0, NotAfter: ok1,
			KeyUsage: x509.KeyUsageDigitalSignature, ExtKeyUsage: []x509.ExtKeyUsage{x509.ExtKeyUsageServerAuth},
			BasicConstraintsValid: true, IPAddresses: []net.IP{net.ParseIP("127.0.0.1")},
		}
		parent := signer
		if parent == nil { // self-signed
			parent, signerKey = tpl, key
		}
		der, err2 := x509.CreateCertificate(rand.Reader, tpl, parent, &key.PublicKey, signerKey)
		if err2 != nil {
			t.Fatal(err2)
		}
		p.leafDER[name] = der
		p.certs[name] = ctls.Certificate{Certificate: append([][]byte{der}, extra...), PrivateKey: key}
	}
	// a look-alike CA: the subject DN of the real CA, another key
	fakeKey := newKey()
	fakeTpl := *caTpl
	fakeDER, err := x509.CreateCertificate(rand.Reader, &fakeTpl, &fakeTpl, &fakeKey.PublicKey, fakeKey)
	if err != nil {
		t.Fatal(err)
	}
	fakeCA, err := x509.ParseCertificate(fakeDER)
	if err != nil {
		t.Fatal(err)
	}
	imitate("AfSame", pinned.SerialNumber, newKey(), fakeCA, fakeKey, [][]byte{fakeDER}) // same issuer DN + serial
	imitate("AfSubj", big.NewInt(7001), newKey(), nil, nil, nil)                         // same subject / SANs
	imitate("Areissued", big.NewInt(7002), p.certs["Avalid"].PrivateKey.(*ecdsa.PrivateKey), caCert, caKey,
		[][]byte{p.caDER}) // same key and subject, another serial
	fs, _ := x509.ParseCertificate(p.leafDER["AfSame"])
	if string(fs.RawIssuer) != string(pinned.RawIssuer) || fs.SerialNumber.Cmp(pinned.SerialNumber) != 0 {
		t.Fatal("vf41: the forged certificate does not carry the issuer DN and serial of the pinned one")
	}

	// the harness process trusts the harness CA (and nothing else): "chain valid" is meaningful
	dir := t.TempDir()
	f := filepath.Join(dir, "roots.pem")
	if err = os.WriteFile(f, pem.EncodeToMemory(&pem.Block{Type: "CERTIFICATE", Bytes: p.caDER}), 0o600); err != nil {
		t.Fatal(err)
	}
	empty := filepath.Join(dir, "nocerts")
	os.Mkdir(empty, 0o700) //nolint:errcheck
	os.Setenv("SSL_CERT_FILE", f)
	os.Setenv("SSL_CERT_DIR", empty)
	return p
}

func (p *vf41PKI) hexOf(name string) string {
	h := sha256.Sum256(p.leafDER[name])
	return hex.EncodeToString(h[:])
}

// fingerprint text of a token [of, form]
func (p *vf41PKI) fingerprint(of, form string) string {
	if form == "empty" {
		return ""
	}
	h := p.hexOf(of)
	switch form {
	case "lower":
		return h
	case "upper":
		return strings.ToUpper(h)
	case "mixed":
		b := []byte(h)
		for i := range b {
			if i%2 == 0 {
				b[i] = strings.ToUpper(string(b[i]))[0]
			}
		}
		return string(b)
	case "short16":
		return h[:16]
	case "long":
		return h + "00"
	case "colons":
		u := strings.ToUpper(h)
		parts := []string{}
		for i := 0; i < len(u); i += 2 {
			parts = append(parts, u[i:i+2])
		}
		return strings.Join(parts, ":")
	case "space":
		return " " + h
	case "garbage":
		return strings.Repeat("zy", 32)
	}
	panic("vf41: unknown fingerprint form " + form)
}

type vf41FP struct {
	Of   string `json:"of"`
	Form string `json:"form"`
}

type vf41Case struct {
	Via    string   `json:"via"`
	Served string   `json:"served"`
	Ver    string   `json:"ver"`
	FP     vf41FP   `json:"fp"`    // single connection
	Steps  []vf41FP `json:"steps"` // or a sequence of connections to the same server in this process
	Certs  []string `json:"certs"` // or a sequence on ONE reused configuration while the server changes its certificate
}

// certificate or pin failures are outcomes; anything else (timeouts, refused connections) is a harness problem
func vf41ExpectedFailure(err error) bool {
	s := err.Error()
	return strings.Contains(s, "fingerprint") || strings.Contains(s, "certificate") || strings.Contains(s, "x509")
}

func TestVerif_C41_Handshake(t *testing.T) {
	out := verifrt.NewOut(t)
	defer out.Close()
	pki := vf41NewPKI(t)

	var served atomic.Int64
	servers := map[string]*httptest.Server{}
	defer func() {
		for _, s := range servers {
			s.Close()
		}
	}()
	server := func(cert, ver string) *httptest.Server {
		k := cert + "/" + ver
		if s, ok := servers[k]; ok {
			return s
		}
		s := httptest.NewUnstartedServer(http.HandlerFunc(func(w http.ResponseWriter, _ *http.Request) {
			served.Add(1)
			w.Write([]byte("ok")) //nolint:errcheck
		}))
		s.TLS = &ctls.Config{Certificates: []ctls.Certificate{pki.certs[cert]}}
		if ver == "tls12" {
			s.TLS.MaxVersion = ctls.VersionTLS12
		} else {
			s.TLS.MinVersion = ctls.VersionTLS13
		}
		s.Config.ErrorLog = nil
		s.StartTLS()
		servers[k] = s
		return s
	}

	// a server whose certificate the test changes between connections
	var swapCert atomic.Value
	swapServer := func(ver string) *httptest.Server {
		k := "swap/" + ver
		if s, ok := servers[k]; ok {
			return s
		}
		s := httptest.NewUnstartedServer(http.HandlerFunc(func(w http.ResponseWriter, _ *http.Request) {
			served.Add(1)
			w.Write([]byte("ok")) //nolint:errcheck
		}))
		cfg := &ctls.Config{GetCertificate: func(*ctls.ClientHelloInfo) (*ctls.Certificate, error) {
			c := pki.certs[swapCert.Load().(string)]
			return &c, nil
		}}
		if ver == "tls12" {
			cfg.MaxVersion = ctls.VersionTLS12
		} else {
			cfg.MinVersion = ctls.VersionTLS13
		}
		s.Config.ErrorLog = nil
		// (httptest.StartTLS installs its own certificate, which takes precedence when no SNI is sent)
		s.Listener = ctls.NewListener(s.Listener, cfg)
		s.Start()
		s.URL = "https://" + s.Listener.Addr().String()
		servers[k] = s
		return s
	}
	// connections of one sequence made with ONE configuration (one *tls.Config, one http.Client)
	swapRun := func(c *vf41Case) []map[string]any {
		srv := swapServer(c.Ver)
		addr := strings.TrimPrefix(srv.URL, "https://")
		fp := pki.fingerprint(c.FP.Of, c.FP.Form)
		conf := MakeConfig(fp) // the code under test, called once for the whole sequence
		tr := &http.Transport{TLSClientConfig: conf, DisableKeepAlives: true}
		hc := &http.Client{Transport: tr, Timeout: 20 * time.Second}
		defer tr.CloseIdleConnections()
		steps := []map[string]any{}
		for _, cert := range c.Certs {
			swapCert.Store(cert)
			var err error
			switch c.Via {
			case "dial":
				var conn *ctls.Conn
				conn, err = ctls.DialWithDialer(&net.Dialer{Timeout: 20 * time.Second}, "tcp", addr, conf)
				if err == nil {
					conn.SetDeadline(time.Now().Add(20 * time.Second))      //nolint:errcheck
					conn.Write([]byte("GET / HTTP/1.0\r\nHost: x\r\n\r\n")) //nolint:errcheck
					io.ReadAll(conn)                                        //nolint:errcheck
					conn.Close()
				}
			case "httpget":
				var res *http.Response
				res, err = hc.Get(srv.URL + "/")
				if err == nil {
					io.Copy(io.Discard, res.Body) //nolint:errcheck
					res.Body.Close()
				}
			default:
				t.Fatalf("vf41: unknown via %q", c.Via)
			}
			rec := map[string]any{"success": err == nil, "eqfold": strings.EqualFold(fp, pki.hexOf(cert)), "fptext": fp,
				"served": cert}
			if err != nil {
				if !vf41ExpectedFailure(err) {
					t.Fatalf("vf41: connection failed for a reason that is not a certificate decision: %v", err)
				}
				msg := err.Error()
				if len(msg) > 160 {
					msg = msg[:160]
				}
				rec["err"] = msg
			}
			steps = append(steps, rec)
		}
		return steps
	}

	// one connection made with MakeConfig(fingerprint). exchange: application data is sent and read on
	// the raw connection too (a TLS 1.3 server delivers its session tickets with the first data).
	connect := func(c *vf41Case, f vf41FP, exchange bool) map[string]any {
		srv := server(c.Served, c.Ver)
		addr := strings.TrimPrefix(srv.URL, "https://")
		fp := pki.fingerprint(f.Of, f.Form)
		conf := MakeConfig(fp) // the code under test

		var err error
		var version uint16
		resumed := false
		before := served.Load()
		switch c.Via {
		case "dial":
			var conn *ctls.Conn
			conn, err = ctls.DialWithDialer(&net.Dialer{Timeout: 20 * time.Second}, "tcp", addr, conf)
			if err == nil {
				version = conn.ConnectionState().Version
				resumed = conn.ConnectionState().DidResume
				if exchange {
					conn.SetDeadline(time.Now().Add(20 * time.Second)) //nolint:errcheck
					_, werr := conn.Write([]byte("GET / HTTP/1.0\r\nHost: x\r\n\r\n"))
					body, rerr := io.ReadAll(conn)
					if werr != nil || !strings.HasSuffix(string(body), "ok") {
						t.Fatalf("vf41: no answer on an established connection: %v %v %q", werr, rerr, string(body))
					}
				}
				conn.Close()
			}
		case "httpget":
			tr := &http.Transport{TLSClientConfig: conf}
			hc := &http.Client{Transport: tr, Timeout: 20 * time.Second}
			var res *http.Response
			res, err = hc.Get(srv.URL + "/")
			if err == nil {
				io.Copy(io.Discard, res.Body) //nolint:errcheck
				res.Body.Close()
				if res.TLS != nil {
					version = res.TLS.Version
					resumed = res.TLS.DidResume
				}
				if res.StatusCode != http.StatusOK || served.Load() != before+1 {
					t.Fatalf("vf41: unexpected answer %d", res.StatusCode)
				}
			}
			tr.CloseIdleConnections()
		default:
			t.Fatalf("vf41: unknown via %q", c.Via)
		}
		rec := map[string]any{"success": err == nil, "eqfold": strings.EqualFold(fp, pki.hexOf(c.Served)),
			"fptext": fp, "tlsversion": version, "resumed": resumed}
		if err != nil {
			if !vf41ExpectedFailure(err) {
				t.Fatalf("vf41: connection failed for a reason that is not a certificate decision: %v", err)
			}
			msg := err.Error()
			if len(msg) > 160 {
				msg = msg[:160]
			}
			rec["err"] = msg
		}
		return rec
	}

	verifrt.ForEachCase(t, func(raw []byte) {
		var line struct {
			ID int             `json:"id"`
			C  json.RawMessage `json:"c"`
		}
		verifrt.Decode(t, raw, &line)
		var c vf41Case
		verifrt.Decode(t, line.C, &c)
		if c.Certs != nil {
			out.Emit(map[string]any{"id": line.ID, "c": line.C, "steps": swapRun(&c)})
			return
		}
		if c.Steps == nil {
			rec := connect(&c, c.FP, false)
			rec["id"], rec["c"] = line.ID, line.C
			out.Emit(rec)
			return
		}
		steps := []map[string]any{}
		for _, f := range c.Steps {
			steps = append(steps, connect(&c, f, true))
		}
		out.Emit(map[string]any{"id": line.ID, "c": line.C, "steps": steps})
	})
}
