package mpegts

// Verification harness for C24 (timestamp scaling is exact). Injected by /verif through -overlay.
// Records what this package's copy of the helper returns; TLC / Apalache decide.

import (
	"testing"

	"github.com/bluenviron/mediamtx/internal/verifc24"
)

func TestVerif_C24_Scale(t *testing.T) {
	verifc24.Run(t, "mpegts", []verifc24.Fn{
		{Name: "mpegts.multiplyAndDivide", MaxRate: 1 << 32, Call: multiplyAndDivide},
	})
}
