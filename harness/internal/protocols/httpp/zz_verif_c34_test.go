package httpp

// Verification harness for C34 (HTTP Authorization headers). Injected by /verif through -overlay.
// The tests record what the real Credentials() yields; verdicts are taken by TLC
// (spec/http/Descriptors.tla, TraceDescriptors.tla) and the check driver.

import (
	"encoding/base64"
	"net/http"
	"os"
	"strings"
	"testing"

	"github.com/bluenviron/mediamtx/internal/verifrt"
)

type vf34Hdr struct {
	Kind string `json:"kind"`
	User string `json:"user"`
	Pass string `json:"pass"`
	Raw  string `json:"raw"`
}

func vf34Render(h vf34Hdr) string {
	if h.Kind == "basic" {
		return "Basic " + base64.StdEncoding.EncodeToString([]byte(h.User+":"+h.Pass))
	}
	return h.Raw
}

func vf34Creds(values []string) map[string]any {
	req, _ := http.NewRequest(http.MethodGet, "http://localhost/", nil)
	for _, v := range values {
		req.Header.Add("Authorization", v)
	}
	res := map[string]any{"user": "", "pass": "", "token": ""}
	if panicked, _ := verifrt.Catch(func() {
		c := Credentials(req)
		res = map[string]any{"user": c.User, "pass": c.Pass, "token": c.Token}
	}); panicked {
		res["panic"] = true
	}
	return res
}

// spec -> impl: every header list of the bounded model.
func TestVerif_C34_Replay(t *testing.T) {
	out := verifrt.NewOut(t)
	defer out.Close()
	verifrt.ForEachCase(t, func(raw []byte) {
		var c struct {
			ID  int    `json:"id"`
			Fam string `json:"fam"`
			In  struct {
				Headers []vf34Hdr `json:"headers"`
			} `json:"in"`
		}
		verifrt.Decode(t, raw, &c)
		if c.Fam != "http" {
			return
		}
		values := make([]string, 0, len(c.In.Headers))
		for _, h := range c.In.Headers {
			values = append(values, vf34Render(h))
		}
		out.Emit(map[string]any{"id": c.ID, "obs": vf34Creds(values), "values": values})
	})
}

func vf34TraceOut(t testing.TB) *verifrt.Out {
	if p := os.Getenv("VERIF_OUT2"); p != "" {
		return verifrt.NewOutFile(t, p)
	}
	return verifrt.NewOut(t)
}

// impl -> spec: random users / passwords / tokens.
func TestVerif_C34_Trace(t *testing.T) {
	out := vf34TraceOut(t)
	defer out.Close()
	rnd := verifrt.Rand(343434)
	runs := verifrt.Param("RUNS", 1000)
	randStr := func(forbidden string, maxLen int) string {
		n := rnd.IntN(maxLen + 1)
		var sb strings.Builder
		for sb.Len() < n {
			c := byte(0x20 + rnd.IntN(0x5f))
			if rnd.IntN(5) == 0 {
				c = ": =.-_"[rnd.IntN(6)]
			}
			if strings.IndexByte(forbidden, c) >= 0 {
				continue
			}
			sb.WriteByte(c)
		}
		return sb.String()
	}
	// several Authorization values in one request
	type hv struct {
		Scheme string `json:"scheme"`
		Form   string `json:"form"`
		User   string `json:"user"`
		Pass   string `json:"pass"`
		Token  string `json:"token"`
	}
	for run := 0; run < runs/2; run++ {
		n := 2 + rnd.IntN(2)
		hs := make([]hv, n)
		values := make([]string, n)
		for i := range hs {
			switch rnd.IntN(6) {
			case 0, 1:
				hs[i] = hv{Scheme: "basic", Form: "wf", User: randStr(":", 8), Pass: randStr("", 10)}
				values[i] = "Basic " + base64.StdEncoding.EncodeToString([]byte(hs[i].User+":"+hs[i].Pass))
			case 2:
				hs[i] = hv{Scheme: "basic", Form: "bad"}
				values[i] = "Basic !!!"
			case 3, 4:
				hs[i] = hv{Scheme: "bearer", Form: "up", User: randStr(":", 8), Pass: randStr(":", 10)}
				values[i] = "Bearer " + hs[i].User + ":" + hs[i].Pass
			default:
				hs[i] = hv{Scheme: "bearer", Form: "tok", Token: "t" + randStr(":", 20)}
				values[i] = "Bearer " + hs[i].Token
			}
		}
		out.Emit(map[string]any{"run": 1000000 + run, "fam": "http", "kind": "multi", "hs": hs, "values": values,
			"got": vf34Creds(values)})
	}
	for run := 0; run < runs; run++ {
		rec := map[string]any{"run": run, "fam": "http", "user": "", "pass": "", "token": ""}
		var value string
		switch rnd.IntN(3) {
		case 0:
			u, p := randStr(":", 12), randStr("", 16)
			rec["kind"], rec["user"], rec["pass"] = "basic", u, p
			value = "Basic " + base64.StdEncoding.EncodeToString([]byte(u+":"+p))
		case 1:
			u, p := randStr(":", 12), randStr(":", 16)
			rec["kind"], rec["user"], rec["pass"] = "bearer_up", u, p
			value = "Bearer " + u + ":" + p
		default:
			tok := randStr(":", 40)
			rec["kind"], rec["token"] = "bearer_tok", tok
			value = "Bearer " + tok
		}
		rec["value"] = value
		rec["got"] = vf34Creds([]string{value})
		out.Emit(rec)
	}
}
