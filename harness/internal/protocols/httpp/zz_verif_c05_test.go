package httpp

// Verification harness for C05 (CORS allows only configured origins). Injected by /verif
// through -overlay. The tests record what the real code answers; verdicts are taken by TLC
// (spec/http/CORS.tla, TraceCORS.tla) and the check driver.

import (
	"net"
	"net/http"
	"net/http/httptest"
	"os"
	"strconv"
	"strings"
	"testing"
	"time"

	"github.com/bluenviron/mediamtx/internal/logger"
	"github.com/bluenviron/mediamtx/internal/verifrt"
)

type vf05Hdr struct {
	Present bool     `json:"present"`
	Values  []string `json:"values"`
}

// through the function
func vf05Func(hasOrigin bool, origin string, allow []string) vf05Hdr {
	if !hasOrigin {
		origin = ""
	}
	v, ok := isOriginAllowed(origin, allow)
	if !ok {
		return vf05Hdr{Values: []string{}}
	}
	return vf05Hdr{Present: true, Values: []string{v}}
}

// through the middleware in front of a real handler (no network)
func vf05Middleware(hasOrigin bool, origin string, allow []string) vf05Hdr {
	h := &handlerOrigin{
		h: http.HandlerFunc(func(w http.ResponseWriter, _ *http.Request) {
			w.WriteHeader(http.StatusOK)
		}),
		allowOrigins: allow,
	}
	req := httptest.NewRequest(http.MethodGet, "http://localhost/", nil)
	if hasOrigin {
		req.Header.Set("Origin", origin)
	}
	rec := httptest.NewRecorder()
	h.ServeHTTP(rec, req)
	vals := rec.Result().Header.Values("Access-Control-Allow-Origin")
	if vals == nil {
		vals = []string{}
	}
	return vf05Hdr{Present: len(vals) > 0, Values: vals}
}

type vf05Log struct{}

func (vf05Log) Log(logger.Level, string, ...any) {}

// through a real httpp.Server over TCP
func vf05Server(t testing.TB, hc *http.Client, hasOrigin bool, origin string, allow []string) vf05Hdr {
	l, err := net.Listen("tcp", "127.0.0.1:0")
	if err != nil {
		t.Fatal(err)
	}
	addr := l.Addr().String()
	l.Close()
	s := &Server{
		Address:      addr,
		AllowOrigins: allow,
		ReadTimeout:  10 * time.Second,
		WriteTimeout: 10 * time.Second,
		Parent:       vf05Log{},
		Handler: http.HandlerFunc(func(w http.ResponseWriter, _ *http.Request) {
			w.WriteHeader(http.StatusOK)
		}),
	}
	if err = s.Initialize(); err != nil {
		t.Fatal(err)
	}
	defer s.Close()
	req, err := http.NewRequest(http.MethodGet, "http://"+addr+"/", nil)
	if err != nil {
		t.Fatal(err)
	}
	if hasOrigin {
		req.Header.Set("Origin", origin)
	}
	res, err := hc.Do(req)
	if err != nil {
		t.Fatal(err)
	}
	defer res.Body.Close()
	vals := res.Header.Values("Access-Control-Allow-Origin")
	if vals == nil {
		vals = []string{}
	}
	return vf05Hdr{Present: len(vals) > 0, Values: vals}
}

// spec -> impl: every (origin, allow list) of the bounded model.
func TestVerif_C05_Replay(t *testing.T) {
	out := verifrt.NewOut(t)
	defer out.Close()
	verifrt.ForEachCase(t, func(raw []byte) {
		var c struct {
			ID int `json:"id"`
			In struct {
				HasOrigin bool     `json:"hasOrigin"`
				Origin    string   `json:"origin"`
				Allow     []string `json:"allow"`
			} `json:"in"`
		}
		verifrt.Decode(t, raw, &c)
		out.Emit(map[string]any{"id": c.ID,
			"func": vf05Func(c.In.HasOrigin, c.In.Origin, c.In.Allow),
			"mw":   vf05Middleware(c.In.HasOrigin, c.In.Origin, c.In.Allow)})
	})
}

// ---- random origins and allow lists (structured, so that TLC can judge them)

type vf05URL struct {
	Kind   string   `json:"kind"` // url | bare | none
	Scheme string   `json:"scheme"`
	Host   []string `json:"host"`
	Port   int      `json:"port"`
}

type vf05Entry struct {
	Star   bool     `json:"star"`
	Scheme string   `json:"scheme"`
	Host   []string `json:"host"`
	Port   int      `json:"port"`
}

func vf05Chars(s string) []string {
	r := make([]string, 0, len(s))
	for i := 0; i < len(s); i++ {
		r = append(r, s[i:i+1])
	}
	return r
}

func vf05Render(scheme, host string, port int) string {
	s := scheme + "://" + host
	if port != 0 {
		s += ":" + strconv.Itoa(port)
	}
	return s
}

func TestVerif_C05_Trace(t *testing.T) {
	out := vf05TraceOut(t)
	defer out.Close()
	rnd := verifrt.Rand(5)
	runs := verifrt.Param("RUNS", 1500)
	srvRuns := verifrt.Param("SRVRUNS", 40)

	tr := &http.Transport{}
	defer tr.CloseIdleConnections()
	hc := &http.Client{Transport: tr}

	labels := []string{"a", "b", "ab", "x", "example", "com", "org", "a-b", "0", "evil", "cdn1", "X"}
	schemes := []string{"http", "https"}
	ports := []int{0, 0, 0, 80, 443, 8080, 8443, 1, 65535}
	alphabet := "abx0-."

	randHost := func() string {
		if rnd.IntN(5) == 0 { // free-form over the alphabet
			n := 1 + rnd.IntN(8)
			var sb strings.Builder
			for i := 0; i < n; i++ {
				sb.WriteByte(alphabet[rnd.IntN(len(alphabet))])
			}
			return sb.String()
		}
		n := 1 + rnd.IntN(4)
		parts := make([]string, n)
		for i := range parts {
			parts[i] = labels[rnd.IntN(len(labels))]
		}
		return strings.Join(parts, ".")
	}

	// a host derived from a pattern host: '*' filled in, then perhaps damaged where the code is suspicious
	derive := func(pat string) string {
		var sb strings.Builder
		for i := 0; i < len(pat); i++ {
			if pat[i] == '*' {
				switch rnd.IntN(4) {
				case 0: // nothing
				case 1:
					sb.WriteString(labels[rnd.IntN(len(labels))])
				default:
					sb.WriteString(randHost())
				}
			} else {
				sb.WriteByte(pat[i])
			}
		}
		h := sb.String()
		switch rnd.IntN(8) {
		case 0: // replace one dot
			if i := strings.IndexByte(h, '.'); i >= 0 {
				j := strings.LastIndexByte(h, '.')
				if rnd.IntN(2) == 0 {
					j = i
				}
				h = h[:j] + string("x-0X"[rnd.IntN(4)]) + h[j+1:]
			}
		case 1: // drop what stands for "*."
			if strings.HasPrefix(pat, "*.") {
				h = pat[2:]
			}
		case 2: // suffix / prefix attack
			h += ".evil.org"
		case 3:
			h = "evil" + h
		}
		if h == "" {
			h = "a"
		}
		return h
	}

	for run := 0; run < runs+srvRuns; run++ {
		// allow list
		n := rnd.IntN(4)
		entries := make([]vf05Entry, 0, n)
		allow := make([]string, 0, n)
		var pats []vf05Entry
		for i := 0; i < n; i++ {
			if rnd.IntN(6) == 0 {
				entries = append(entries, vf05Entry{Star: true, Host: []string{}})
				allow = append(allow, "*")
				continue
			}
			h := randHost()
			switch rnd.IntN(5) {
			case 0: // exact
			case 1, 2:
				h = "*." + h
			case 3: // star somewhere
				k := rnd.IntN(len(h) + 1)
				h = h[:k] + "*" + h[k:]
			case 4: // a label replaced by a star
				parts := strings.Split(h, ".")
				parts[rnd.IntN(len(parts))] = "*"
				h = strings.Join(parts, ".")
			}
			e := vf05Entry{Scheme: schemes[rnd.IntN(2)], Host: vf05Chars(h), Port: ports[rnd.IntN(len(ports))]}
			entries = append(entries, e)
			pats = append(pats, e)
			allow = append(allow, vf05Render(e.Scheme, h, e.Port))
		}

		// origin
		var o vf05URL
		var origin string
		hasOrigin := true
		switch k := rnd.IntN(20); {
		case k == 0:
			o = vf05URL{Kind: "none", Host: []string{}}
			hasOrigin = false
		case k == 1:
			h := randHost()
			if rnd.IntN(3) == 0 {
				h = "null"
			}
			o = vf05URL{Kind: "bare", Host: vf05Chars(h)}
			origin = h
		case k < 6 || len(pats) == 0:
			h := randHost()
			o = vf05URL{Kind: "url", Scheme: schemes[rnd.IntN(2)], Host: vf05Chars(h), Port: ports[rnd.IntN(len(ports))]}
			origin = vf05Render(o.Scheme, h, o.Port)
		default: // derived from an entry, scheme/port mostly kept
			e := pats[rnd.IntN(len(pats))]
			h := derive(strings.Join(e.Host, ""))
			o = vf05URL{Kind: "url", Scheme: e.Scheme, Host: vf05Chars(h), Port: e.Port}
			switch rnd.IntN(8) {
			case 0:
				o.Scheme = schemes[rnd.IntN(2)]
			case 1:
				o.Port = ports[rnd.IntN(len(ports))]
			case 2: // default port written / omitted
				if o.Port == 0 {
					if o.Scheme == "http" {
						o.Port = 80
					} else {
						o.Port = 443
					}
				} else if (o.Scheme == "http" && o.Port == 80) || (o.Scheme == "https" && o.Port == 443) {
					o.Port = 0
				}
			}
			origin = vf05Render(o.Scheme, h, o.Port)
		}

		via := "func"
		var hdr vf05Hdr
		switch {
		case run >= runs:
			via = "server"
			hdr = vf05Server(t, hc, hasOrigin, origin, allow)
		case run%2 == 1:
			via = "middleware"
			hdr = vf05Middleware(hasOrigin, origin, allow)
		default:
			hdr = vf05Func(hasOrigin, origin, allow)
		}
		out.Emit(map[string]any{"run": run, "via": via, "o": o, "allow": entries,
			"originStr": origin, "hasOrigin": hasOrigin, "allowStr": allow, "obs": hdr})
	}
}

// the trace test writes to VERIF_OUT2 when the driver runs it together with the replay test
func vf05TraceOut(t testing.TB) *verifrt.Out {
	if p := os.Getenv("VERIF_OUT2"); p != "" {
		return verifrt.NewOutFile(t, p)
	}
	return verifrt.NewOut(t)
}
