package rtsp

// Verification harness for C34 (RTSP Authorization header). Injected by /verif through -overlay.
// The tests record what the real Credentials() yields; verdicts are taken by TLC
// (spec/http/Descriptors.tla, TraceDescriptors.tla) and the check driver.

import (
	"encoding/base64"
	"os"
	"strings"
	"testing"

	"github.com/bluenviron/gortsplib/v5/pkg/base"

	"github.com/bluenviron/mediamtx/internal/verifrt"
)

type vf34Hdr struct {
	Kind string `json:"kind"`
	User string `json:"user"`
	Pass string `json:"pass"`
	Raw  string `json:"raw"`
}

func vf34Render(h vf34Hdr) string {
	switch h.Kind {
	case "basic":
		return "Basic " + base64.StdEncoding.EncodeToString([]byte(h.User+":"+h.Pass))
	case "digest":
		return `Digest username="` + h.User + `", realm="IP camera", nonce="8b84a3b789283a8bea8da7fa7d41f08b", ` +
			`uri="rtsp://localhost:8554/mystream", response="e2f3b5c4d1a09f8e7d6c5b4a39281706"`
	}
	return h.Raw
}

func vf34Creds(values []string) map[string]any {
	req := &base.Request{Method: base.Describe, Header: base.Header{}}
	if len(values) > 0 {
		req.Header["Authorization"] = base.HeaderValue(values)
	}
	res := map[string]any{"user": "", "pass": "", "token": ""}
	if panicked, _ := verifrt.Catch(func() {
		c := Credentials(req)
		res = map[string]any{"user": c.User, "pass": c.Pass, "token": c.Token}
	}); panicked {
		res["panic"] = true
	}
	return res
}

// spec -> impl: every header list of the bounded model.
func TestVerif_C34_Replay(t *testing.T) {
	out := verifrt.NewOut(t)
	defer out.Close()
	verifrt.ForEachCase(t, func(raw []byte) {
		var c struct {
			ID  int    `json:"id"`
			Fam string `json:"fam"`
			In  struct {
				Headers []vf34Hdr `json:"headers"`
			} `json:"in"`
		}
		verifrt.Decode(t, raw, &c)
		if c.Fam != "rtsp" {
			return
		}
		values := make([]string, 0, len(c.In.Headers))
		for _, h := range c.In.Headers {
			values = append(values, vf34Render(h))
		}
		out.Emit(map[string]any{"id": c.ID, "obs": vf34Creds(values), "values": values})
	})
}

func vf34TraceOut(t testing.TB) *verifrt.Out {
	if p := os.Getenv("VERIF_OUT2"); p != "" {
		return verifrt.NewOutFile(t, p)
	}
	return verifrt.NewOut(t)
}

// impl -> spec: random users / passwords.
func TestVerif_C34_Trace(t *testing.T) {
	out := vf34TraceOut(t)
	defer out.Close()
	rnd := verifrt.Rand(34343434)
	runs := verifrt.Param("RUNS", 500)
	randStr := func(alphabet string, maxLen int) string {
		n := rnd.IntN(maxLen + 1)
		var sb strings.Builder
		for i := 0; i < n; i++ {
			sb.WriteByte(alphabet[rnd.IntN(len(alphabet))])
		}
		return sb.String()
	}
	printable := ""
	for c := byte(0x20); c < 0x7f; c++ {
		if c != ':' {
			printable += string(c)
		}
	}
	for run := 0; run < runs; run++ {
		rec := map[string]any{"run": run, "fam": "rtsp", "user": "", "pass": "", "token": ""}
		var value string
		if rnd.IntN(3) > 0 {
			u, p := randStr(printable, 12), randStr(printable+":::", 16)
			rec["kind"], rec["user"], rec["pass"] = "basic", u, p
			value = vf34Render(vf34Hdr{Kind: "basic", User: u, Pass: p})
		} else {
			u := "u" + randStr("abcXYZ019-_.@", 12)
			rec["kind"], rec["user"] = "digest", u
			value = vf34Render(vf34Hdr{Kind: "digest", User: u})
		}
		rec["value"] = value
		rec["got"] = vf34Creds([]string{value})
		out.Emit(rec)
	}
}
