package whip

// Verification harness for C34 (ICE server credentials in WHIP/WHEP Link headers). Injected by
// /verif through -overlay. The tests record what the real marshal/unmarshal pair produces;
// verdicts are taken by TLC (spec/http/Descriptors.tla, TraceDescriptors.tla) and the check driver.

import (
	"os"
	"strings"
	"testing"

	"github.com/pion/webrtc/v4"

	"github.com/bluenviron/mediamtx/internal/verifrt"
)

type vf34Link struct {
	Err   bool   `json:"err"`
	Panic bool   `json:"panic,omitempty"`
	URL   string `json:"url"`
	User  string `json:"user"`
	Cred  string `json:"cred"`
	Wire  string `json:"wire"`
}

func vf34RoundTrip(url, user, cred string) vf34Link {
	var res vf34Link
	panicked, _ := verifrt.Catch(func() {
		wire := LinkHeaderMarshal([]webrtc.ICEServer{{URLs: []string{url}, Username: user, Credential: cred}})
		if len(wire) == 1 {
			res.Wire = wire[0]
		}
		back, err := LinkHeaderUnmarshal(wire)
		if err != nil || len(back) != 1 || len(back[0].URLs) != 1 {
			res.Err = true
			return
		}
		res.URL = back[0].URLs[0]
		res.User = back[0].Username
		if s, ok := back[0].Credential.(string); ok {
			res.Cred = s
		}
	})
	if panicked {
		res.Err = true
		res.Panic = true
	}
	return res
}

// spec -> impl: every (username, credential) of the bounded model.
func TestVerif_C34_Replay(t *testing.T) {
	out := verifrt.NewOut(t)
	defer out.Close()
	verifrt.ForEachCase(t, func(raw []byte) {
		var c struct {
			ID  int    `json:"id"`
			Fam string `json:"fam"`
			In  struct {
				URL  string `json:"url"`
				User string `json:"user"`
				Cred string `json:"cred"`
			} `json:"in"`
		}
		verifrt.Decode(t, raw, &c)
		if c.Fam != "link" {
			return
		}
		out.Emit(map[string]any{"id": c.ID, "obs": vf34RoundTrip(c.In.URL, c.In.User, c.In.Cred)})
	})
}

func vf34TraceOut(t testing.TB) *verifrt.Out {
	if p := os.Getenv("VERIF_OUT2"); p != "" {
		return verifrt.NewOutFile(t, p)
	}
	return verifrt.NewOut(t)
}

// impl -> spec: random longer credentials over printable ASCII.
func TestVerif_C34_Trace(t *testing.T) {
	out := vf34TraceOut(t)
	defer out.Close()
	rnd := verifrt.Rand(3434)
	runs := verifrt.Param("RUNS", 1000)
	randStr := func(maxLen int) string {
		n := rnd.IntN(maxLen + 1)
		var sb strings.Builder
		for i := 0; i < n; i++ {
			switch rnd.IntN(4) {
			case 0:
				sb.WriteByte(`\"\";=<> ,`[rnd.IntN(10)])
			default:
				sb.WriteByte(byte(0x20 + rnd.IntN(0x5f)))
			}
		}
		return sb.String()
	}
	for run := 0; run < runs; run++ {
		url := []string{"stun:stun.example.com:3478", "turn:t.example.com:3478?transport=udp"}[rnd.IntN(2)]
		user, cred := randStr(16), randStr(24)
		r := vf34RoundTrip(url, user, cred)
		out.Emit(map[string]any{"run": run, "fam": "link", "url": url, "user": user, "cred": cred, "wire": r.Wire,
			"got": map[string]any{"err": r.Err, "user": r.User, "cred": r.Cred}})
	}
}
