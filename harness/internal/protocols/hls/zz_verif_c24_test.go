package hls

// Verification harness for C24 (timestamp scaling is exact). Injected by /verif through -overlay.
// Records what this package's copy of the helper returns; TLC / Apalache decide.

import (
	"testing"

	"github.com/bluenviron/mediamtx/internal/verifc24"
)

func TestVerif_C24_Scale(t *testing.T) {
	verifc24.Run(t, "hls", []verifc24.Fn{
		{Name: "hls.multiplyAndDivide", MaxRate: 1 << 32, Call: multiplyAndDivide},
	})
}
