package moq

// Verification harness for C32 (MoQ wire codecs). Injected by /verif through -overlay.
// Every case of spec/moq/Wire.tla is executed on the real codecs: the value is encoded with the real
// encoder, the case's malformation is applied to the bytes, the result is decoded with the real
// decoder under recover() while the allocated bytes are measured. The test records; TLC decides
// (spec/moq/TraceWire.tla).

import (
	"bytes"
	"encoding/json"
	"fmt"
	"runtime"
	"strconv"
	"testing"

	"github.com/bluenviron/mediamtx/internal/protocols/moq/controlmessage"
	"github.com/bluenviron/mediamtx/internal/protocols/moq/namespace"
	"github.com/bluenviron/mediamtx/internal/protocols/moq/parameter"
	"github.com/bluenviron/mediamtx/internal/protocols/moq/property"
	"github.com/bluenviron/mediamtx/internal/protocols/moq/subgroup"
	"github.com/bluenviron/mediamtx/internal/protocols/moq/varint"
	"github.com/bluenviron/mediamtx/internal/verifrt"
)

// vf32BF is a byte string of the spec: length and fill; the bytes are fill, fill+31, fill+62, ...
type vf32BF struct {
	Len  int `json:"len"`
	Fill int `json:"fill"`
}

func (b vf32BF) bytes() []byte {
	out := make([]byte, b.Len)
	for i := range out {
		out[i] = byte(b.Fill + 31*i)
	}
	return out
}

// vf32Canon maps decoded bytes back to the spec's form (fill -1: not the pattern of any fill).
func vf32Canon(b []byte) vf32BF {
	if len(b) == 0 {
		return vf32BF{}
	}
	c := vf32BF{Len: len(b), Fill: int(b[0])}
	if !bytes.Equal(c.bytes(), b) {
		c.Fill = -1
	}
	return c
}

type vf32Param struct {
	TT  string `json:"tt"`
	Val vf32BF `json:"val"`
}

// vf32Value is the union of the value shapes of Wire.tla; absent fields are omitted on output so
// that the decoded value has exactly the shape of the case.
type vf32Value struct {
	Kind string `json:"kind"`
	// varint
	V *string `json:"v,omitempty"`
	// namespace
	Parts *[]vf32BF `json:"parts,omitempty"`
	// params / ctrl
	Params *[]vf32Param `json:"params,omitempty"`
	// props / subgroup
	TS *[]string `json:"ts,omitempty"`
	// ctrl
	Type       *string   `json:"type,omitempty"`
	Path       *vf32BF   `json:"path,omitempty"`
	Authority  *vf32BF   `json:"authority,omitempty"`
	RequestID  *string   `json:"requestID,omitempty"`
	NS         *[]vf32BF `json:"ns,omitempty"`
	TrackName  *vf32BF   `json:"trackName,omitempty"`
	TrackAlias *string   `json:"trackAlias,omitempty"`
	Props      *[]string `json:"props,omitempty"`
	Code       *string   `json:"code,omitempty"`
	Reason     *vf32BF   `json:"reason,omitempty"`
	// subgroup
	PropsFlag *bool   `json:"-"`
	First     *bool   `json:"first,omitempty"`
	Alias     *string `json:"alias,omitempty"`
	Group     *string `json:"group,omitempty"`
	IDDelta   *string `json:"idDelta,omitempty"`
	Payload   *vf32BF `json:"payload,omitempty"`
}

// the subgroup's boolean "props" and the control messages' list "props" share a JSON name
func (v *vf32Value) UnmarshalJSON(b []byte) error {
	type plain vf32Value
	var raw map[string]json.RawMessage
	if err := json.Unmarshal(b, &raw); err != nil {
		return err
	}
	var kind string
	_ = json.Unmarshal(raw["kind"], &kind)
	if kind == "subgroup" {
		var f bool
		if err := json.Unmarshal(raw["props"], &f); err != nil {
			return err
		}
		delete(raw, "props")
		b2, _ := json.Marshal(raw)
		if err := json.Unmarshal(b2, (*plain)(v)); err != nil {
			return err
		}
		v.PropsFlag = &f
		return nil
	}
	return json.Unmarshal(b, (*plain)(v))
}

func (v vf32Value) MarshalJSON() ([]byte, error) {
	type plain vf32Value
	b, err := json.Marshal(plain(v))
	if err != nil || v.PropsFlag == nil {
		return b, err
	}
	var raw map[string]json.RawMessage
	_ = json.Unmarshal(b, &raw)
	raw["props"], _ = json.Marshal(*v.PropsFlag)
	return json.Marshal(raw)
}

func vf32U(s string) uint64 {
	u, err := strconv.ParseUint(s, 10, 64)
	if err != nil {
		panic("vf32: bad number " + s)
	}
	return u
}
func vf32S(u uint64) *string { s := strconv.FormatUint(u, 10); return &s }

func vf32NS(parts []vf32BF) namespace.Namespace {
	ns := make(namespace.Namespace, len(parts))
	for i, p := range parts {
		ns[i] = string(p.bytes())
	}
	return ns
}

func vf32NSCanon(ns namespace.Namespace) *[]vf32BF {
	out := make([]vf32BF, len(ns))
	for i, p := range ns {
		out[i] = vf32Canon([]byte(p))
	}
	return &out
}

func vf32Params(ps []vf32Param) parameter.Parameters {
	var out parameter.Parameters
	for _, p := range ps {
		out = append(out, &parameter.AuthorizationToken{
			AliasType:  parameter.AuthorizationTokenAliasTypeUseValue,
			TokenType:  vf32U(p.TT),
			TokenValue: p.Val.bytes(),
		})
	}
	return out
}

func vf32ParamsCanon(ps parameter.Parameters) *[]vf32Param {
	out := []vf32Param{}
	for _, p := range ps {
		at, ok := p.(*parameter.AuthorizationToken)
		if !ok {
			out = append(out, vf32Param{TT: fmt.Sprintf("%T", p)})
			continue
		}
		tt := *vf32S(at.TokenType)
		if at.AliasType != parameter.AuthorizationTokenAliasTypeUseValue {
			tt = fmt.Sprintf("alias%d:%s", at.AliasType, tt)
		}
		out = append(out, vf32Param{TT: tt, Val: vf32Canon(at.TokenValue)})
	}
	return &out
}

func vf32Props(ts []string) property.Properties {
	var out property.Properties
	for _, t := range ts {
		out = append(out, new(property.Timestamp(int64(vf32U(t)))))
	}
	return out
}

func vf32PropsCanon(ps property.Properties) *[]string {
	out := []string{}
	for _, p := range ps {
		t, ok := p.(*property.Timestamp)
		if !ok {
			out = append(out, fmt.Sprintf("%T", p))
			continue
		}
		out = append(out, *vf32S(uint64(*t)))
	}
	return &out
}

func vf32Str(b *vf32BF) string { return string(b.bytes()) }
func vf32StrCanon(s string) *vf32BF {
	c := vf32Canon([]byte(s))
	return &c
}

// vf32Encode encodes the value with the real encoder.
func vf32Encode(v *vf32Value) []byte {
	switch v.Kind {
	case "varint":
		return varint.Varint(vf32U(*v.V)).Marshal()
	case "namespace":
		ns := vf32NS(*v.Parts)
		buf := make([]byte, ns.MarshalSize())
		n := ns.MarshalTo(buf)
		return buf[:n]
	case "params":
		ps := vf32Params(*v.Params)
		buf := make([]byte, ps.MarshalSize())
		n := ps.MarshalTo(buf)
		return buf[:n]
	case "props":
		ps := vf32Props(*v.TS)
		buf := make([]byte, ps.MarshalSize())
		n := ps.MarshalTo(buf)
		return buf[:n]
	case "ctrl":
		var m controlmessage.Message
		switch *v.Type {
		case "Setup":
			m = &controlmessage.Setup{Path: vf32Str(v.Path), Authority: vf32Str(v.Authority)}
		case "ClientSetup":
			m = &controlmessage.ClientSetup{Path: vf32Str(v.Path), Authority: vf32Str(v.Authority)}
		case "ServerSetup":
			m = &controlmessage.ServerSetup{Path: vf32Str(v.Path), Authority: vf32Str(v.Authority)}
		case "Subscribe":
			m = &controlmessage.Subscribe{RequestID: vf32U(*v.RequestID), Namespace: vf32NS(*v.NS),
				TrackName: vf32Str(v.TrackName), Parameters: vf32Params(*v.Params)}
		case "SubscribeOk":
			m = &controlmessage.SubscribeOk{TrackAlias: vf32U(*v.TrackAlias), Parameters: vf32Params(*v.Params),
				TrackProperties: vf32Props(*v.Props)}
		case "Publish":
			m = &controlmessage.Publish{RequestID: vf32U(*v.RequestID), Namespace: vf32NS(*v.NS),
				TrackName: vf32Str(v.TrackName), TrackAlias: vf32U(*v.TrackAlias),
				Parameters: vf32Params(*v.Params), TrackProperties: vf32Props(*v.Props)}
		case "PublishOk":
			m = &controlmessage.PublishOk{Parameters: vf32Params(*v.Params), TrackProperties: vf32Props(*v.Props)}
		case "RequestOk":
			m = &controlmessage.RequestOk{Parameters: vf32Params(*v.Params), TrackProperties: vf32Props(*v.Props)}
		case "RequestError":
			m = &controlmessage.RequestError{Code: controlmessage.RequestErrorCode(vf32U(*v.Code)), Reason: vf32Str(v.Reason)}
		default:
			panic("vf32: unknown message type " + *v.Type)
		}
		return m.Marshal()
	case "subgroup":
		sg := subgroup.SubGroup{
			Header: subgroup.Header{Properties: *v.PropsFlag, FirstObject: *v.First,
				TrackAlias: vf32U(*v.Alias), GroupID: vf32U(*v.Group)},
			Objects: []subgroup.Object{{IDDelta: vf32U(*v.IDDelta), Properties: vf32Props(*v.TS),
				Payload: v.Payload.bytes()}},
		}
		return sg.Marshal()
	}
	panic("vf32: unknown kind " + v.Kind)
}

// vf32Decode decodes with the real decoder and renders the result in the spec's form.
// nparams: the count handed to Parameters.Unmarshal for the bare parameter list.
func vf32Decode(kind string, in []byte, nparams int) (*vf32Value, error) {
	out := &vf32Value{Kind: kind}
	switch kind {
	case "varint":
		var x varint.Varint
		n, err := x.Unmarshal(in)
		if err != nil {
			return nil, err
		}
		if n != len(in) {
			return nil, fmt.Errorf("vf32: consumed %d of %d bytes", n, len(in))
		}
		// the streaming decoder must agree
		var y varint.Varint
		if err = y.Read(bytes.NewReader(in)); err != nil {
			return nil, err
		}
		if x != y {
			out.V = vf32S(uint64(y) ^ 0x5555) // visible disagreement
			return out, nil
		}
		out.V = vf32S(uint64(x))
	case "namespace":
		var ns namespace.Namespace
		if _, err := ns.Unmarshal(in); err != nil {
			return nil, err
		}
		out.Parts = vf32NSCanon(ns)
	case "params":
		var ps parameter.Parameters
		if _, err := ps.Unmarshal(nparams, in); err != nil {
			return nil, err
		}
		out.Params = vf32ParamsCanon(ps)
	case "props":
		var ps property.Properties
		if err := ps.Unmarshal(in); err != nil {
			return nil, err
		}
		out.TS = vf32PropsCanon(ps)
	case "ctrl":
		m, err := controlmessage.Read(bytes.NewReader(in))
		if err != nil {
			return nil, err
		}
		name := func(s string) { out.Type = &s }
		switch m := m.(type) {
		case *controlmessage.Setup:
			name("Setup")
			out.Path, out.Authority = vf32StrCanon(m.Path), vf32StrCanon(m.Authority)
		case *controlmessage.ClientSetup:
			name("ClientSetup")
			out.Path, out.Authority = vf32StrCanon(m.Path), vf32StrCanon(m.Authority)
		case *controlmessage.ServerSetup:
			name("ServerSetup")
			out.Path, out.Authority = vf32StrCanon(m.Path), vf32StrCanon(m.Authority)
		case *controlmessage.Subscribe:
			name("Subscribe")
			out.RequestID, out.NS, out.TrackName = vf32S(m.RequestID), vf32NSCanon(m.Namespace), vf32StrCanon(m.TrackName)
			out.Params = vf32ParamsCanon(m.Parameters)
		case *controlmessage.SubscribeOk:
			name("SubscribeOk")
			out.TrackAlias, out.Params, out.Props = vf32S(m.TrackAlias), vf32ParamsCanon(m.Parameters), vf32PropsCanon(m.TrackProperties)
		case *controlmessage.Publish:
			name("Publish")
			out.RequestID, out.NS, out.TrackName = vf32S(m.RequestID), vf32NSCanon(m.Namespace), vf32StrCanon(m.TrackName)
			out.TrackAlias, out.Params, out.Props = vf32S(m.TrackAlias), vf32ParamsCanon(m.Parameters), vf32PropsCanon(m.TrackProperties)
		case *controlmessage.PublishOk:
			name("PublishOk")
			out.Params, out.Props = vf32ParamsCanon(m.Parameters), vf32PropsCanon(m.TrackProperties)
		case *controlmessage.RequestOk:
			name("RequestOk")
			out.Params, out.Props = vf32ParamsCanon(m.Parameters), vf32PropsCanon(m.TrackProperties)
		case *controlmessage.RequestError:
			name("RequestError")
			out.Code, out.Reason = vf32S(uint64(m.Code)), vf32StrCanon(m.Reason)
		default:
			name(fmt.Sprintf("%T", m))
		}
	case "subgroup":
		var sg subgroup.SubGroup
		if err := sg.Read(bytes.NewReader(in)); err != nil {
			return nil, err
		}
		pf, fi := sg.Header.Properties, sg.Header.FirstObject
		out.PropsFlag, out.First = &pf, &fi
		out.Alias, out.Group = vf32S(sg.Header.TrackAlias), vf32S(sg.Header.GroupID)
		if len(sg.Objects) != 1 {
			out.IDDelta = vf32S(uint64(1000000 + len(sg.Objects)))
			return out, nil
		}
		o := sg.Objects[0]
		out.IDDelta, out.TS = vf32S(o.IDDelta), vf32PropsCanon(o.Properties)
		c := vf32Canon(o.Payload)
		out.Payload = &c
	default:
		panic("vf32: unknown kind " + kind)
	}
	return out, nil
}

type vf32Mut struct {
	Op   string `json:"op"`
	At   int    `json:"at"`
	OldN int    `json:"oldn"`
	Val  string `json:"val"`
	Exp  string `json:"exp"`
	Role string `json:"role"`
}

func vf32Apply(enc []byte, m vf32Mut) []byte {
	splice := func(repl []byte) []byte {
		out := append([]byte{}, enc[:m.At]...)
		out = append(out, repl...)
		return append(out, enc[m.At+m.OldN:]...)
	}
	switch m.Op {
	case "none":
		return enc
	case "cut":
		return append([]byte{}, enc[:m.At]...)
	case "setvar":
		return splice(varint.Varint(vf32U(m.Val)).Marshal())
	case "set16":
		x := vf32U(m.Val)
		return splice([]byte{byte(x >> 8), byte(x)})
	case "setbyte":
		return splice([]byte{byte(vf32U(m.Val))})
	}
	panic("vf32: unknown mutation " + m.Op)
}

type vf32Obs struct {
	EncLen   int        `json:"encLen"`
	InLen    int        `json:"inLen"`
	Panicked bool       `json:"panicked"`
	Err      bool       `json:"err"`
	Alloc    uint64     `json:"alloc"`
	Dec      *vf32Value `json:"dec,omitempty"`
	Bytes    []int      `json:"bytes,omitempty"`
	Msg      string     `json:"msg,omitempty"`
}

func TestVerif_C32_Cases(t *testing.T) {
	out := verifrt.NewOut(t)
	defer out.Close()
	var ms0, ms1 runtime.MemStats
	verifrt.ForEachCase(t, func(raw []byte) {
		var c struct {
			ID    int       `json:"id"`
			Value vf32Value `json:"value"`
			Mut   vf32Mut   `json:"mut"`
		}
		verifrt.Decode(t, raw, &c)
		enc := vf32Encode(&c.Value)
		if c.Mut.Op != "none" && c.Mut.At+c.Mut.OldN > len(enc) {
			// the real encoding is shorter than the spec's layout: reported through encLen of the
			// unmutated case; the malformation cannot be applied
			t.Fatalf("case %d: malformation at %d+%d beyond the %d encoded bytes", c.ID, c.Mut.At, c.Mut.OldN, len(enc))
		}
		in := vf32Apply(enc, c.Mut)
		nparams := 0
		if c.Value.Params != nil {
			nparams = len(*c.Value.Params)
		}
		o := vf32Obs{EncLen: len(enc), InLen: len(in), Alloc: ^uint64(0) >> 34}
		// allocation: the smallest of three measurements (the test binary is single-threaded here,
		// but the runtime may allocate in the background)
		for rep := 0; rep < 3; rep++ {
			var dec *vf32Value
			var err error
			runtime.ReadMemStats(&ms0)
			p, msg := verifrt.Catch(func() { dec, err = vf32Decode(c.Value.Kind, in, nparams) })
			runtime.ReadMemStats(&ms1)
			if a := ms1.TotalAlloc - ms0.TotalAlloc; a < o.Alloc {
				o.Alloc = a
			}
			o.Panicked, o.Err, o.Dec = p, err != nil, dec
			if p {
				o.Msg = msg
				break
			}
			if err != nil {
				o.Msg = err.Error()
			}
			if len(in) > 1<<20 {
				break // one measurement is enough for the 10 MiB round trip
			}
		}
		if c.Value.Kind == "varint" && c.Mut.Op == "none" {
			for _, b := range enc {
				o.Bytes = append(o.Bytes, int(b))
			}
		}
		out.Emit(map[string]any{"id": c.ID, "value": &c.Value, "mut": &c.Mut, "obs": &o})
	})
}
