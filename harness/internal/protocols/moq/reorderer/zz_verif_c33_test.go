package reorderer

// Verification harness for C33 (MoQ reorderer). Injected by /verif through -overlay.
// Records what the real Reorderer does; TLC decides (spec/moq/TraceReorderer.tla).

import (
	"testing"

	"github.com/bluenviron/mediamtx/internal/logger"
	"github.com/bluenviron/mediamtx/internal/protocols/moq/subgroup"
	"github.com/bluenviron/mediamtx/internal/verifrt"
)

type vf33Log struct{}

func (vf33Log) Log(logger.Level, string, ...any) {}

type vf33Push struct {
	ID   int `json:"id"`
	Size int `json:"size"`
}

type vf33Out struct {
	ID int `json:"id"`
	RC int `json:"rc"`
}

type vf33Run struct {
	Run    int         `json:"run"`
	MR     int         `json:"mr"`
	MB     int         `json:"mb"`
	Base   uint64      `json:"-"`
	Pushes []vf33Push  `json:"pushes"`
	Outs   [][]vf33Out `json:"outs"`
	Held   []int       `json:"held"`
	HeldB  []int       `json:"heldBytes"`
	Src    string      `json:"src"`
}

// vf33Exec drives a fresh real Reorderer. Abstract id a is the real group id base+a.
// Payloads are split over 1..3 objects so that the size accounting is exercised.
func vf33Exec(t testing.TB, r *vf33Run) {
	ro := &Reorderer{MaxReordered: r.MR, MaxPendingBytes: r.MB, Parent: vf33Log{}}
	ro.Initialize()
	rcOf := map[*subgroup.SubGroup]int{}
	r.Outs = [][]vf33Out{}
	r.Held = []int{}
	r.HeldB = []int{}
	for k, p := range r.Pushes {
		sg := &subgroup.SubGroup{Header: subgroup.Header{GroupID: r.Base + uint64(p.ID)}}
		rest := p.Size
		for n := 0; rest > 0; n++ {
			c := rest
			if n < 2 && rest > 1 {
				c = (rest + 1) / 2
			}
			sg.Objects = append(sg.Objects, subgroup.Object{Payload: make([]byte, c)})
			rest -= c
		}
		rcOf[sg] = k + 1
		out, err := ro.Push(sg)
		if err != nil {
			t.Fatalf("Push returned an error: %v", err)
		}
		o := []vf33Out{}
		for _, s := range out {
			rc, ok := rcOf[s]
			if !ok {
				rc = 0 // handed on something that was never received
			}
			o = append(o, vf33Out{ID: int(s.Header.GroupID - r.Base), RC: rc})
		}
		r.Outs = append(r.Outs, o)
		// what the real object holds back now (ground truth from its pending map)
		hb := 0
		for _, s := range ro.pending {
			hb += subGroupPayloadSize(s)
		}
		r.Held = append(r.Held, len(ro.pending))
		r.HeldB = append(r.HeldB, hb)
	}
}

// spec -> impl: every push sequence of the bounded model.
func TestVerif_C33_Replay(t *testing.T) {
	out := verifrt.NewOut(t)
	defer out.Close()
	n := 0
	verifrt.ForEachCase(t, func(raw []byte) {
		var r vf33Run
		verifrt.Decode(t, raw, &r)
		r.Src = "tlc"
		if n%3 == 1 {
			r.Base = 1 << 40
		} else if n%3 == 2 {
			r.Base = 1<<63 + 12345
		}
		n++
		vf33Exec(t, &r)
		out.Emit(&r)
	})
}

// impl -> spec: long random sequences (duplicates, bursts, far jumps, 64-bit ids, large limits).
func TestVerif_C33_Trace(t *testing.T) {
	out := verifrt.NewOut(t)
	defer out.Close()
	rnd := verifrt.Rand(33)
	runs := verifrt.Param("RUNS", 300)
	for i := 0; i < runs; i++ {
		r := vf33Run{Run: 1000000 + i, Src: "random"}
		r.MR = 1 + rnd.IntN(6)
		r.MB = 1 + rnd.IntN(40)
		if rnd.IntN(4) == 0 {
			r.MB = 100000
		}
		switch rnd.IntN(3) {
		case 1:
			r.Base = uint64(rnd.Uint32()) << 20
		case 2:
			r.Base = 1<<64 - 1 - 400
		}
		n := 5 + rnd.IntN(36)
		next := 1 + rnd.IntN(3)
		for k := 0; k < n; k++ {
			var id int
			switch rnd.IntN(10) {
			case 0, 1, 2, 3: // in order
				id = next
				next++
			case 4, 5: // small jump ahead
				id = next + 1 + rnd.IntN(3)
				if rnd.IntN(2) == 0 {
					next = id + 1
				}
			case 6: // late
				id = next - 1 - rnd.IntN(4)
				if id < 0 {
					id = 0
				}
			case 7: // duplicate of something recent
				if len(r.Pushes) > 0 {
					id = r.Pushes[rnd.IntN(len(r.Pushes))].ID
				} else {
					id = next
				}
			case 8: // far jump
				id = next + 5 + rnd.IntN(20)
				next = id + 1
			default:
				id = next + rnd.IntN(2)
			}
			if id > 390 {
				id = 390
			}
			size := rnd.IntN(12)
			if rnd.IntN(8) == 0 {
				size = r.MB + rnd.IntN(3) - 1
			}
			r.Pushes = append(r.Pushes, vf33Push{ID: id, Size: size})
		}
		vf33Exec(t, &r)
		out.Emit(&r)
	}
}
