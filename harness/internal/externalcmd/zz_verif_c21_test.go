//go:build !windows

package externalcmd

// Verification harness for C21 (hook commands: values verbatim, exit status reported). Injected by
// /verif through -overlay. The hook command is this test binary itself (child mode), which dumps
// its arguments and environment; the tests record, verdicts are taken by TLC.
// VerifOnStart / VerifOnClose (build tag verif) stay nil: commands really execute.

import (
	"encoding/json"
	"fmt"
	"os"
	"path/filepath"
	"regexp"
	"strconv"
	"strings"
	"sync"
	"testing"
	"time"

	"github.com/bluenviron/mediamtx/internal/verifrt"
)

const vf21Sep = "--"

type vf21Dump struct {
	Argv [][]int `json:"argv"`
	Env  [][]int `json:"env"`
}

func vf21Cps(s string) []int {
	out := []int{}
	for _, r := range s {
		out = append(out, int(r))
	}
	return out
}

func vf21Str(cps []int) string {
	var b strings.Builder
	for _, c := range cps {
		b.WriteRune(rune(c))
	}
	return b.String()
}

// child mode: VF21_DUMP names the file to write, VF21_EXIT the exit status
func TestVerif_C21_Child(t *testing.T) {
	dump := os.Getenv("VF21_DUMP")
	if dump == "" {
		t.Skip("child mode of the C21 harness")
	}
	args := os.Args
	for i, a := range args {
		if a == vf21Sep {
			args = args[i+1:]
			break
		}
	}
	d := vf21Dump{Argv: [][]int{}, Env: [][]int{}}
	for _, a := range args {
		d.Argv = append(d.Argv, vf21Cps(a))
	}
	for _, e := range os.Environ() {
		le := strings.ToLower(e)
		if strings.HasPrefix(le, "mtx_") || strings.HasPrefix(le, "g1=") || strings.HasPrefix(le, "vf21_amb") {
			d.Env = append(d.Env, vf21Cps(e))
		}
	}
	b, err := json.Marshal(d)
	if err != nil {
		os.Exit(99)
	}
	if err = os.WriteFile(dump+".tmp", b, 0o644); err != nil {
		os.Exit(98)
	}
	if err = os.Rename(dump+".tmp", dump); err != nil {
		os.Exit(97)
	}
	code, _ := strconv.Atoi(os.Getenv("VF21_EXIT"))
	os.Exit(code)
}

type vf21Case struct {
	ID   int    `json:"id"`
	Text string `json:"text"`
	Env  []struct {
		Name string `json:"name"`
		V    []int  `json:"v"`
	} `json:"env"`
	Status  int  `json:"status"`
	Restart bool `json:"restart"`
	// ambient environment of the server process (= this test process) while the command is started
	Amb     string `json:"amb"`
	Ambient []struct {
		Name string `json:"name"`
		V    []int  `json:"v"`
	} `json:"ambient"`
	AmbNames []string `json:"ambnames"` // every name any ambient sets, and the passed names: removed first
}

var vf21Num = regexp.MustCompile(`[0-9]+`)

func vf21Run(t testing.TB, exe, dir string, c *vf21Case) map[string]any {
	dump := filepath.Join(dir, fmt.Sprintf("dump-%d.json", c.ID))
	env := Environment{"VF21_DUMP": dump, "VF21_EXIT": strconv.Itoa(c.Status)}
	for _, e := range c.Env {
		env[e.Name] = vf21Str(e.V)
	}
	pool := &Pool{}
	pool.Initialize()

	var mu sync.Mutex
	calls := []map[string]any{}
	var once sync.Once
	cmd := &Cmd{
		Pool:    pool,
		Cmdstr:  exe + " -test.run=TestVerif_C21_Child " + vf21Sep + " " + c.Text,
		Restart: c.Restart,
		Env:     env,
	}
	cmd.OnExit = func(err error) {
		rec := map[string]any{"nonnil": err != nil, "msg": "", "nums": []int{}}
		if err != nil {
			rec["msg"] = err.Error()
			nums := []int{}
			for _, m := range vf21Num.FindAllString(err.Error(), -1) {
				if v, perr := strconv.Atoi(m); perr == nil {
					nums = append(nums, v)
				}
			}
			rec["nums"] = nums
		}
		mu.Lock()
		calls = append(calls, rec)
		mu.Unlock()
		if c.Restart {
			// close right after the first exit report: no second run, no 5 s restart pause
			once.Do(cmd.Close)
		}
	}
	cmd.Start()

	done := make(chan struct{})
	go func() {
		pool.Close()
		close(done)
	}()
	select {
	case <-done:
	case <-time.After(60 * time.Second):
		t.Errorf("case %d: the command did not finish within 60 s (%s)", c.ID, cmd.Cmdstr)
		return map[string]any{"id": c.ID, "timeout": true}
	}

	res := map[string]any{"id": c.ID, "ran": false, "argv": [][]int{}, "envseen": [][][]int{}, "ambseen": [][][]int{}, "onexit": calls}
	seen := make([][][]int, len(c.Env))
	for i := range seen {
		seen[i] = [][]int{}
	}
	ambseen := make([][][]int, len(c.Ambient))
	for i := range ambseen {
		ambseen[i] = [][]int{}
	}
	if b, err := os.ReadFile(dump); err == nil {
		var d vf21Dump
		if err = json.Unmarshal(b, &d); err != nil {
			t.Errorf("case %d: bad dump: %v", c.ID, err)
			return map[string]any{"id": c.ID, "timeout": true}
		}
		res["ran"] = true
		res["argv"] = d.Argv
		for _, e := range d.Env {
			s := vf21Str(e)
			for i, w := range c.Env {
				if strings.HasPrefix(s, w.Name+"=") {
					seen[i] = append(seen[i], vf21Cps(s[len(w.Name)+1:]))
				}
			}
			for i, w := range c.Ambient {
				if strings.HasPrefix(s, w.Name+"=") {
					ambseen[i] = append(ambseen[i], vf21Cps(s[len(w.Name)+1:]))
				}
			}
		}
		os.Remove(dump)
	}
	res["envseen"] = seen
	res["ambseen"] = ambseen
	return res
}

// spec -> impl -> spec: every case (template text, passed variables, exit status, restart) is executed
// by the real Cmd; the command's own view (argv, environment) and the OnExit calls are recorded.
func TestVerif_C21_Replay(t *testing.T) {
	out := verifrt.NewOut(t)
	defer out.Close()
	exe, err := os.Executable()
	if err != nil {
		t.Fatal(err)
	}
	if strings.ContainsAny(exe, " \t'\"\\$") {
		t.Fatalf("test binary path %q needs quoting", exe)
	}
	dir := t.TempDir()
	workers := verifrt.Param("WORKERS", 8)

	// the ambient environment is the environment of THIS process (Cmd.run reads os.Environ, expandEnv
	// os.Getenv), so the cases are executed ambient by ambient: install one, run its cases in parallel,
	// wait for all of them, install the next
	var order []string
	byAmb := map[string][]*vf21Case{}
	verifrt.ForEachCase(t, func(raw []byte) {
		c := &vf21Case{}
		verifrt.Decode(t, raw, c)
		if _, ok := byAmb[c.Amb]; !ok {
			order = append(order, c.Amb)
		}
		byAmb[c.Amb] = append(byAmb[c.Amb], c)
	})
	for _, amb := range order {
		batch := byAmb[amb]
		for _, n := range batch[0].AmbNames {
			os.Unsetenv(n)
		}
		for _, a := range batch[0].Ambient {
			if err = os.Setenv(a.Name, vf21Str(a.V)); err != nil {
				t.Fatal(err)
			}
		}
		jobs := make(chan *vf21Case, 64)
		var wg sync.WaitGroup
		for w := 0; w < workers; w++ {
			wg.Add(1)
			go func() {
				defer wg.Done()
				for c := range jobs {
					out.Emit(vf21Run(t, exe, dir, c))
				}
			}()
		}
		for _, c := range batch {
			jobs <- c
		}
		close(jobs)
		wg.Wait()
		for _, n := range batch[0].AmbNames {
			os.Unsetenv(n)
		}
	}
}
