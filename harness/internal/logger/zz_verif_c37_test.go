package logger

// Verification harness for C37 (structured log lines are valid JSON). Injected by /verif
// through -overlay. The test records what the real Logger writes; verdicts are taken by TLC.

import (
	"bytes"
	"encoding/hex"
	"encoding/json"
	"io"
	"os"
	"path/filepath"
	"regexp"
	"strconv"
	"strings"
	"sync"
	"testing"
	"time"
	"unicode/utf8"

	"github.com/bluenviron/mediamtx/internal/verifrt"
)

type vf37Capture struct {
	buf    bytes.Buffer
	writes int
}

func (c *vf37Capture) Write(p []byte) (int, error) {
	c.writes++
	return c.buf.Write(p)
}

// vf37Measure describes the bytes one destination wrote for one record. encoding/json is the
// trusted JSON parser; UTF-8 validity is measured separately because encoding/json tolerates
// invalid UTF-8 inside strings.
func vf37Measure(b []byte) map[string]any {
	m := map[string]any{
		"nl":         bytes.Count(b, []byte{'\n'}),
		"endsNL":     len(b) > 0 && b[len(b)-1] == '\n',
		"hex":        hex.EncodeToString(b),
		"utf8":       false,
		"json":       false,
		"obj":        false,
		"keys":       []string{},
		"msgIsStr":   false,
		"msg":        []int{},
		"levelIsStr": false,
		"level":      "",
		"tsOK":       false,
		"tsSec":      0,
		"tsNano":     0,
		"lit":        []int{},
	}
	line := b
	if len(line) > 0 && line[len(line)-1] == '\n' {
		line = line[:len(line)-1]
	}
	m["utf8"] = utf8.Valid(line)

	// message literal as written (layer 1 / reporting)
	const key = `"message":`
	if i := bytes.Index(line, []byte(key)); i >= 0 && len(line) > 0 && line[len(line)-1] == '}' {
		lit := line[i+len(key) : len(line)-1]
		li := make([]int, len(lit))
		for k, c := range lit {
			li[k] = int(c)
		}
		m["lit"] = li
	}

	if !json.Valid(line) {
		return m
	}
	m["json"] = true

	dec := json.NewDecoder(bytes.NewReader(line))
	tok, err := dec.Token()
	if err != nil {
		return m
	}
	if d, ok := tok.(json.Delim); !ok || d != '{' {
		return m
	}
	m["obj"] = true
	keys := []string{}
	seen := map[string]bool{}
	for dec.More() {
		tok, err = dec.Token()
		if err != nil {
			break
		}
		k, ok := tok.(string)
		if !ok {
			break
		}
		keys = append(keys, k)
		var raw json.RawMessage
		if err = dec.Decode(&raw); err != nil {
			break
		}
		if seen[k] {
			continue
		}
		seen[k] = true
		var s string
		isStr := len(raw) > 0 && raw[0] == '"' && json.Unmarshal(raw, &s) == nil
		switch k {
		case "message":
			m["msgIsStr"] = isStr
			cps := []int{}
			for _, r := range s {
				cps = append(cps, int(r))
			}
			m["msg"] = cps
		case "level":
			m["levelIsStr"] = isStr
			m["level"] = s
		case "timestamp":
			if isStr {
				if ts, err2 := time.Parse(time.RFC3339Nano, s); err2 == nil && ts.Unix() >= 0 && ts.Unix() <= 2147483647 {
					m["tsOK"] = true
					m["tsSec"] = ts.Unix()
					m["tsNano"] = ts.Nanosecond()
				}
			}
		}
	}
	m["keys"] = keys
	return m
}

// spec -> impl -> spec: every case (message bytes, level, instant, call mode) is logged through the
// real Logger with Structured = true to the stdout and file destinations.
func TestVerif_C37_Replay(t *testing.T) {
	out := verifrt.NewOut(t)
	defer out.Close()

	file := filepath.Join(t.TempDir(), "log.json")
	cw := &vf37Capture{}
	var now time.Time
	l := &Logger{
		Level:        Debug,
		Destinations: []Destination{DestinationStdout, DestinationFile},
		Structured:   true,
		File:         file,
		timeNow:      func() time.Time { return now },
		stdout:       cw,
	}
	if err := l.Initialize(); err != nil {
		t.Fatal(err)
	}
	defer l.Close()
	rf, err := os.Open(file)
	if err != nil {
		t.Fatal(err)
	}
	defer rf.Close()

	levels := map[string]Level{"debug": Debug, "info": Info, "warn": Warn, "error": Error}

	verifrt.ForEachCase(t, func(raw []byte) {
		var c struct {
			ID    int    `json:"id"`
			Bytes []int  `json:"bytes"`
			Lvl   string `json:"lvl"`
			Mode  string `json:"mode"`
			Sec   int64  `json:"sec"`
			Nano  int64  `json:"nano"`
			Zone  int    `json:"zone"`
		}
		verifrt.Decode(t, raw, &c)
		mb := make([]byte, len(c.Bytes))
		for i, v := range c.Bytes {
			mb[i] = byte(v)
		}
		msg := string(mb)
		lv, ok := levels[c.Lvl]
		if !ok {
			t.Fatalf("unknown level %q", c.Lvl)
		}
		now = time.Unix(c.Sec, c.Nano).UTC()
		if c.Zone != 0 {
			now = now.In(time.FixedZone("", c.Zone*60))
		}
		cw.buf.Reset()
		cw.writes = 0
		switch c.Mode {
		case "arg":
			l.Log(lv, "%s", msg)
		case "fmt":
			l.Log(lv, strings.ReplaceAll(msg, "%", "%%"))
		default:
			t.Fatalf("unknown mode %q", c.Mode)
		}
		fb, err2 := io.ReadAll(rf) // continues from the previous end of file
		if err2 != nil {
			t.Fatal(err2)
		}
		so := vf37Measure(cw.buf.Bytes())
		so["id"] = c.ID
		so["dest"] = "stdout"
		so["writes"] = cw.writes
		out.Emit(so)
		fo := vf37Measure(fb)
		fo["id"] = c.ID
		fo["dest"] = "file"
		out.Emit(fo)
	})
}

var vf37Tag = regexp.MustCompile(`^c([0-9]+):`)

// concurrent stage: G goroutines log their records through ONE real Logger (structured, stdout = a pipe,
// file) at overlapping moments. Every output line is measured like in the sequential stage, together with
// the number of the submitted record its message names ("c<number>:" prefix; 0 = none).
func TestVerif_C37_Conc(t *testing.T) {
	path := os.Getenv("VERIF_CASES2")
	if path == "" {
		t.Skip("VERIF_CASES2 not set: this test is driven by /verif/check")
	}
	out := verifrt.NewOutFile(t, os.Getenv("VERIF_OUT2"))
	defer out.Close()

	type rec struct {
		ID    int    `json:"id"`
		G     int    `json:"g"`
		Bytes []int  `json:"bytes"`
		Lvl   string `json:"lvl"`
		Sec   int64  `json:"sec"`
		Nano  int64  `json:"nano"`
	}
	byG := map[int][]rec{}
	var fixed time.Time
	verifrt.ForEachCaseFile(t, path, func(raw []byte) {
		var c rec
		verifrt.Decode(t, raw, &c)
		byG[c.G] = append(byG[c.G], c)
		fixed = time.Unix(c.Sec, c.Nano).UTC() // the same instant for every record of the stage
	})
	levels := map[string]Level{"debug": Debug, "info": Info, "warn": Warn, "error": Error}

	file := filepath.Join(t.TempDir(), "conc.json")
	pr, pw, err := os.Pipe()
	if err != nil {
		t.Fatal(err)
	}
	var piped []byte
	readDone := make(chan struct{})
	go func() {
		piped, _ = io.ReadAll(pr)
		close(readDone)
	}()
	l := &Logger{
		Level:        Debug,
		Destinations: []Destination{DestinationStdout, DestinationFile},
		Structured:   true,
		File:         file,
		timeNow:      func() time.Time { return fixed },
		stdout:       pw,
	}
	if err = l.Initialize(); err != nil {
		t.Fatal(err)
	}

	start := make(chan struct{})
	var wg sync.WaitGroup
	for _, recs := range byG {
		wg.Add(1)
		go func(recs []rec) {
			defer wg.Done()
			<-start
			for _, c := range recs {
				mb := make([]byte, len(c.Bytes))
				for i, v := range c.Bytes {
					mb[i] = byte(v)
				}
				l.Log(levels[c.Lvl], "%s", string(mb))
			}
		}(recs)
	}
	close(start)
	wg.Wait()
	l.Close()
	pw.Close()
	<-readDone
	pr.Close()
	fb, err := os.ReadFile(file)
	if err != nil {
		t.Fatal(err)
	}

	for _, d := range []struct {
		name string
		b    []byte
	}{{"stdout", piped}, {"file", fb}} {
		rest := d.b
		n := 0
		for len(rest) > 0 {
			i := bytes.IndexByte(rest, '\n')
			var line []byte
			if i < 0 {
				line, rest = rest, nil // trailing fragment without line feed
			} else {
				line, rest = rest[:i+1], rest[i+1:]
			}
			n++
			m := vf37Measure(line)
			claimed := 0
			if m["msgIsStr"] == true {
				var sb strings.Builder
				for _, cp := range m["msg"].([]int) {
					sb.WriteRune(rune(cp))
				}
				if mm := vf37Tag.FindStringSubmatch(sb.String()); mm != nil {
					claimed, _ = strconv.Atoi(mm[1])
				}
			}
			m["dest"] = d.name
			m["lineNo"] = n
			m["claimed"] = claimed
			out.Emit(m)
		}
	}
}
