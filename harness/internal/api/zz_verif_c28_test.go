package api //nolint:revive

// Verification harness for C28, API side: the recordings endpoints of the real API server on the
// directories built by the playback-side harness (TestVerif_C28_Corrupt writes a manifest). The
// server runs in a child process (re-exec of this test binary): a panic in a handler exits the
// process by design. Nothing is asserted here; TLC decides (spec/record/TraceRecCorrupt.tla).

import (
	"bufio"
	"bytes"
	"encoding/json"
	"io"
	"net"
	"net/http"
	"net/url"
	"os"
	"os/exec"
	"path/filepath"
	"strconv"
	"strings"
	"sync"
	"syscall"
	"testing"
	"time"

	"github.com/google/uuid"

	"github.com/bluenviron/mediamtx/internal/auth"
	"github.com/bluenviron/mediamtx/internal/conf"
	"github.com/bluenviron/mediamtx/internal/defs"
	"github.com/bluenviron/mediamtx/internal/logger"
	"github.com/bluenviron/mediamtx/internal/verifrt"
)

type vf28Auth struct{}

func (vf28Auth) Authenticate(*auth.Request) (string, *auth.Error) { return "", nil }
func (vf28Auth) RefreshJWTJWKS()                                  {}

type vf28PM struct{}

func (vf28PM) APIPathsList() (*defs.APIPathList, error)  { return &defs.APIPathList{}, nil }
func (vf28PM) APIPathsGet(string) (*defs.APIPath, error) { return nil, conf.ErrPathNotFound }
func (vf28PM) APIForwardDestList(string) (*defs.APIForwardDestList, error) {
	return &defs.APIForwardDestList{}, nil
}

func (vf28PM) APIForwardDestGet(string, uuid.UUID) (*defs.APIForwardDest, error) {
	return nil, conf.ErrPathNotFound
}

type vf28Parent struct {
	mu sync.Mutex
	c  *conf.Conf
}

func (p *vf28Parent) Log(logger.Level, string, ...any) {}
func (p *vf28Parent) APIConfigSnapshot() *conf.Conf {
	p.mu.Lock()
	defer p.mu.Unlock()
	return p.c
}
func (*vf28Parent) APIConfigGlobalPatch(conf.OptionalGlobal) error        { return nil }
func (*vf28Parent) APIConfigPathDefaultsPatch(conf.OptionalPath) error    { return nil }
func (*vf28Parent) APIConfigPathsAdd(string, conf.OptionalPath) error     { return nil }
func (*vf28Parent) APIConfigPathsPatch(string, conf.OptionalPath) error   { return nil }
func (*vf28Parent) APIConfigPathsReplace(string, conf.OptionalPath) error { return nil }
func (*vf28Parent) APIConfigPathsDelete(string) error                     { return nil }

type vf28Cmd struct {
	Dir   string `json:"dir"`
	Start string `json:"start"`
}

type vf28HTTP struct {
	Status int    `json:"status"`
	Kind   string `json:"kind"`
	Bytes  int    `json:"bytes"`
	Err    string `json:"err"`
}

// TestVerif_C28_APIChild is the child mode: one API server, commands on stdin.
func TestVerif_C28_APIChild(t *testing.T) {
	if os.Getenv("VERIF_C28_CHILD") != "1" {
		t.Skip("child mode only")
	}
	if mb, _ := strconv.Atoi(os.Getenv("VERIF_CHILD_AS_MB")); mb > 0 {
		lim := syscall.Rlimit{Cur: uint64(mb) << 20, Max: uint64(mb) << 20}
		if err := syscall.Setrlimit(syscall.RLIMIT_AS, &lim); err != nil {
			t.Fatalf("setrlimit: %v", err)
		}
	}
	l, err := net.Listen("tcp", "127.0.0.1:0")
	if err != nil {
		t.Fatal(err)
	}
	addr := l.Addr().String()
	l.Close()
	parent := &vf28Parent{c: &conf.Conf{Paths: map[string]*conf.Path{}}}
	api := API{
		Address:      addr,
		ReadTimeout:  conf.Duration(20 * time.Second),
		WriteTimeout: conf.Duration(20 * time.Second),
		AuthManager:  vf28Auth{},
		PathManager:  vf28PM{},
		Parent:       parent,
	}
	if err = api.Initialize(); err != nil {
		t.Fatal(err)
	}
	defer api.Close()
	hc := &http.Client{Transport: &http.Transport{}, Timeout: 30 * time.Second}
	in := bufio.NewReaderSize(os.Stdin, 1<<20)
	out := bufio.NewWriter(os.Stdout)
	for {
		line, rerr := in.ReadBytes('\n')
		if len(line) > 1 {
			var c vf28Cmd
			if err = json.Unmarshal(line, &c); err != nil {
				t.Fatalf("child: bad command: %v", err)
			}
			parent.mu.Lock()
			parent.c = &conf.Conf{Paths: map[string]*conf.Path{
				"cam": {Name: "cam", RecordPath: filepath.Join(c.Dir, "%path/%Y-%m-%d_%H-%M-%S-%f"), RecordFormat: conf.RecordFormatFMP4},
			}}
			parent.mu.Unlock()
			reqs := [][2]string{
				{http.MethodGet, "/v3/recordings/list"},
				{http.MethodGet, "/v3/recordings/get/cam"},
				{http.MethodDelete, "/v3/recordings/deletesegment?path=cam&start=" + url.QueryEscape(c.Start)},
				{http.MethodGet, "/v3/recordings/get/cam"},
			}
			var rs []vf28HTTP
			for _, rq := range reqs {
				var h vf28HTTP
				req, _ := http.NewRequest(rq[0], "http://"+addr+rq[1], nil)
				res, err2 := hc.Do(req)
				if err2 != nil {
					h.Err, h.Kind = err2.Error(), "none"
				} else {
					body, _ := io.ReadAll(res.Body)
					res.Body.Close()
					h.Status, h.Bytes = res.StatusCode, len(body)
					var e struct {
						Error string `json:"error"`
					}
					switch {
					case res.StatusCode == 200:
						h.Kind = "data"
					case json.Unmarshal(body, &e) == nil && e.Error != "":
						h.Kind, h.Err = "error", e.Error
					default:
						h.Kind = "other"
					}
				}
				rs = append(rs, h)
			}
			b, _ := json.Marshal(rs)
			out.WriteString("VFRESP ")
			out.Write(b)
			out.WriteByte('\n')
			out.Flush()
		}
		if rerr != nil {
			return
		}
	}
}

// TestVerif_C28_API drives the child over the manifest of directories.
func TestVerif_C28_API(t *testing.T) {
	out := verifrt.NewOut(t)
	defer out.Close()
	var cmd *exec.Cmd
	var stdin io.WriteCloser
	var rd *bufio.Reader
	var stderr *bytes.Buffer
	starts, crashes := 0, 0
	start := func() {
		cmd = exec.Command(os.Args[0], "-test.run", "^TestVerif_C28_APIChild$", "-test.timeout", "3600s")
		cmd.Env = append(os.Environ(), "VERIF_C28_CHILD=1", "VERIF_CHILD_AS_MB="+strconv.Itoa(verifrt.Param("AS_MB", 0)))
		var err error
		if stdin, err = cmd.StdinPipe(); err != nil {
			t.Fatal(err)
		}
		so, err := cmd.StdoutPipe()
		if err != nil {
			t.Fatal(err)
		}
		stderr = &bytes.Buffer{}
		cmd.Stderr = stderr
		if err = cmd.Start(); err != nil {
			t.Fatal(err)
		}
		rd = bufio.NewReaderSize(so, 1<<20)
		starts++
	}
	defer func() {
		if cmd != nil {
			stdin.Close()
			cmd.Wait() //nolint:errcheck
		}
	}()
	n := 0
	verifrt.ForEachCase(t, func(raw []byte) {
		var m struct {
			ID    int    `json:"id"`
			Dir   string `json:"dir"`
			Start string `json:"start"`
		}
		verifrt.Decode(t, raw, &m)
		if cmd == nil {
			start()
		}
		b, _ := json.Marshal(vf28Cmd{Dir: m.Dir, Start: m.Start})
		if _, err := stdin.Write(append(b, '\n')); err != nil {
			t.Fatalf("child does not accept commands: %v", err)
		}
		alive, crash := true, ""
		resps := []vf28HTTP{}
		for {
			line, err := rd.ReadBytes('\n')
			if bytes.HasPrefix(line, []byte("VFRESP ")) {
				if err2 := json.Unmarshal(line[7:], &resps); err2 != nil {
					t.Fatalf("child: bad response: %v", err2)
				}
				break
			}
			if err != nil {
				cmd.Wait() //nolint:errcheck
				cmd = nil
				crashes++
				alive = false
				crash = stderr.String()
				if i := strings.Index(crash, "\n"); i >= 0 {
					crash = crash[:i]
				}
				if crash == "" {
					crash = "process exited: " + strings.TrimSpace(string(line))
				}
				break
			}
		}
		out.Emit(map[string]any{"id": m.ID, "obs": map[string]any{"alive": alive, "panic": crash, "responses": resps}})
		n++
	})
	out.Emit(map[string]any{"id": -1, "meta": true, "cases": n, "childStarts": starts, "childCrashes": crashes})
}
