package api //nolint:revive

// Verification harness for C31 (segment operations identify segments by instant). Injected by /verif
// through -overlay. For every scenario it builds the recording tree, asks the real API server for the
// recordings of the path, sends the real deletesegment request and records what is left on disk.
// TLC decides (spec/record/TraceSegDelete.tla).

import (
	"encoding/json"
	"io"
	"net"
	"net/http"
	"net/url"
	"os"
	"path/filepath"
	"sort"
	"testing"
	"time"

	"github.com/bluenviron/mediamtx/internal/auth"
	"github.com/bluenviron/mediamtx/internal/conf"
	"github.com/bluenviron/mediamtx/internal/logger"
	"github.com/bluenviron/mediamtx/internal/verifrt"
)

type vf31File struct {
	Idx int    `json:"idx"`
	Rel string `json:"rel"`
	D   int64  `json:"d"`
	S   int64  `json:"s"`
	US  int64  `json:"us"`
}

type vf31Case struct {
	Kind       string     `json:"kind"` // group | del | listdel | list
	ID         int        `json:"id"`
	Zone       string     `json:"zone"`
	G          int        `json:"g"`
	RecordPath string     `json:"recordPath"` // group: relative recordPath setting
	Path       string     `json:"path"`       // group
	Files      []vf31File `json:"files"`      // group
	Written    string     `json:"written"`    // del: the start parameter as the client writes it
	Idx        int        `json:"idx"`        // listdel: the file whose listed start is sent back
}

type vf31Inst struct {
	D   int64  `json:"d"` // days since 1970-01-01 (UTC) ...
	S   int64  `json:"s"` // ... and second of that day (Unix seconds do not fit the model's integers after 2038)
	US  int64  `json:"us"`
	Off int    `json:"off"`
	Raw string `json:"raw"`
}

type vf31Obs struct {
	ID     int        `json:"id"`
	Listed []vf31Inst `json:"listed"`
	Used   *vf31Inst  `json:"used,omitempty"`
	Status int        `json:"status"`
	Gone   []int      `json:"gone"`
}

type vf31Parent struct{ cnf *conf.Conf }

func (vf31Parent) Log(logger.Level, string, ...any)                      {}
func (p vf31Parent) APIConfigSnapshot() *conf.Conf                       { return p.cnf }
func (vf31Parent) APIConfigGlobalPatch(conf.OptionalGlobal) error        { return nil }
func (vf31Parent) APIConfigPathDefaultsPatch(conf.OptionalPath) error    { return nil }
func (vf31Parent) APIConfigPathsAdd(string, conf.OptionalPath) error     { return nil }
func (vf31Parent) APIConfigPathsPatch(string, conf.OptionalPath) error   { return nil }
func (vf31Parent) APIConfigPathsReplace(string, conf.OptionalPath) error { return nil }
func (vf31Parent) APIConfigPathsDelete(string) error                     { return nil }

type vf31Auth struct{}

func (vf31Auth) Authenticate(*auth.Request) (string, *auth.Error) { return "", nil }
func (vf31Auth) RefreshJWTJWKS()                                  {}

func vf31FreeAddr(t testing.TB) string {
	l, err := net.Listen("tcp", "127.0.0.1:0")
	if err != nil {
		t.Fatal(err)
	}
	defer l.Close()
	return l.Addr().String()
}

func vf31ParseInst(t testing.TB, raw string) vf31Inst {
	tm, err := time.Parse(time.RFC3339Nano, raw)
	if err != nil {
		t.Fatalf("listed start %q is not RFC 3339: %v", raw, err)
	}
	_, off := tm.Zone()
	return vf31Inst{D: tm.Unix() / 86400, S: tm.Unix() % 86400, US: int64(tm.Nanosecond() / 1000), Off: off / 60, Raw: raw}
}

func TestVerif_C31_API(t *testing.T) {
	out := verifrt.NewOutFile(t, verifrt.ParamS("OUTAPI", ""))
	defer out.Close()

	saved := time.Local
	defer func() { time.Local = saved }()

	root := t.TempDir()
	tr := &http.Transport{}
	defer tr.CloseIdleConnections()
	hc := &http.Client{Transport: tr}

	var grp *vf31Case
	var api *API
	var addr, base string
	closeAPI := func() {
		if api != nil {
			api.Close()
			api = nil
		}
	}
	defer closeAPI()

	get := func(u string, method string) (int, []byte) {
		req, err := http.NewRequest(method, u, nil)
		if err != nil {
			t.Fatal(err)
		}
		resp, err := hc.Do(req)
		if err != nil {
			t.Fatal(err)
		}
		defer resp.Body.Close()
		b, _ := io.ReadAll(resp.Body)
		return resp.StatusCode, b
	}

	verifrt.ForEachCase(t, func(raw []byte) {
		var c vf31Case
		verifrt.Decode(t, raw, &c)
		if c.Kind == "group" {
			closeAPI()
			cc := c
			grp = &cc
			loc, err := time.LoadLocation(c.Zone)
			if err != nil {
				t.Fatal(err)
			}
			time.Local = loc // the server's zone
			base = filepath.Join(root, "g"+filepath.Base(c.Zone)+string(rune('0'+c.G)), "BASE")
			yml := "api: yes\npathDefaults:\n  recordPath: " + filepath.Join(base, c.RecordPath) + "\npaths:\n  all_others:\n"
			fi := filepath.Join(root, "conf.yml")
			if err = os.WriteFile(fi, []byte(yml), 0o644); err != nil {
				t.Fatal(err)
			}
			cnf, _, err := conf.Load(fi, nil, nil)
			if err != nil {
				t.Fatalf("configuration rejected: %v", err)
			}
			addr = vf31FreeAddr(t)
			api = &API{
				Address:      addr,
				ReadTimeout:  conf.Duration(10 * time.Second),
				WriteTimeout: conf.Duration(10 * time.Second),
				AuthManager:  vf31Auth{},
				Parent:       vf31Parent{cnf: cnf},
			}
			if err = api.Initialize(); err != nil {
				t.Fatal(err)
			}
			return
		}
		if grp == nil || grp.Zone != c.Zone || grp.G != c.G {
			t.Fatalf("scenario %d outside its group", c.ID)
		}

		// the full tree
		os.RemoveAll(base)
		for _, f := range grp.Files {
			p := filepath.Join(base, f.Rel)
			if err := os.MkdirAll(filepath.Dir(p), 0o755); err != nil {
				t.Fatal(err)
			}
			if err := os.WriteFile(p, []byte{1}, 0o644); err != nil {
				t.Fatal(err)
			}
		}

		o := vf31Obs{ID: c.ID, Listed: []vf31Inst{}, Gone: []int{}}

		st, body := get("http://"+addr+"/v3/recordings/get/"+grp.Path, http.MethodGet)
		if st != http.StatusOK {
			t.Fatalf("recordings/get returned %d: %s", st, body)
		}
		var rec struct {
			Segments []struct {
				Start string `json:"start"`
			} `json:"segments"`
		}
		if err := json.Unmarshal(body, &rec); err != nil {
			t.Fatal(err)
		}
		for _, s := range rec.Segments {
			o.Listed = append(o.Listed, vf31ParseInst(t, s.Start))
		}

		if c.Kind == "del" || c.Kind == "listdel" {
			written := c.Written
			if c.Kind == "listdel" {
				// position of the file among the files ordered by start instant
				fs := append([]vf31File(nil), grp.Files...)
				sort.Slice(fs, func(i, j int) bool {
					if fs[i].D != fs[j].D {
						return fs[i].D < fs[j].D
					}
					if fs[i].S != fs[j].S {
						return fs[i].S < fs[j].S
					}
					return fs[i].US < fs[j].US
				})
				pos := -1
				for k, f := range fs {
					if f.Idx == c.Idx {
						pos = k
					}
				}
				if pos < 0 || pos >= len(o.Listed) {
					t.Fatalf("scenario %d: file %d is not listed (%d entries)", c.ID, c.Idx, len(o.Listed))
				}
				u := o.Listed[pos]
				o.Used = &u
				written = u.Raw
			}
			v := url.Values{}
			v.Set("path", grp.Path)
			v.Set("start", written)
			o.Status, _ = get("http://"+addr+"/v3/recordings/deletesegment?"+v.Encode(), http.MethodDelete)
			for _, f := range grp.Files {
				if _, err := os.Stat(filepath.Join(base, f.Rel)); err != nil {
					o.Gone = append(o.Gone, f.Idx)
				}
			}
		}
		out.Emit(&o)
	})
}
