package api //nolint:revive

// Verification harness for C06 (path names cannot escape the recording tree): the API's
// /v3/recordings/get, /v3/recordings/list and /v3/recordings/deletesegment, driven over HTTP.
// Injected by /verif through -overlay. The test records what the real server does; verdicts are
// taken by TLC (spec/conf/TracePathSafety.tla).

import (
	"encoding/json"
	"io"
	"net"
	"net/http"
	"os"
	"testing"
	"time"

	"github.com/bluenviron/mediamtx/internal/conf"
	"github.com/bluenviron/mediamtx/internal/defs"
	"github.com/bluenviron/mediamtx/internal/logger"
	"github.com/bluenviron/mediamtx/internal/test"
	"github.com/bluenviron/mediamtx/internal/verifc06"
	"github.com/bluenviron/mediamtx/internal/verifrt"
)

type vf06Parent struct{ c *conf.Conf }

func (*vf06Parent) Log(logger.Level, string, ...any)                      {}
func (p *vf06Parent) APIConfigSnapshot() *conf.Conf                       { return p.c }
func (*vf06Parent) APIConfigGlobalPatch(conf.OptionalGlobal) error        { return nil }
func (*vf06Parent) APIConfigPathDefaultsPatch(conf.OptionalPath) error    { return nil }
func (*vf06Parent) APIConfigPathsAdd(string, conf.OptionalPath) error     { return nil }
func (*vf06Parent) APIConfigPathsPatch(string, conf.OptionalPath) error   { return nil }
func (*vf06Parent) APIConfigPathsReplace(string, conf.OptionalPath) error { return nil }
func (*vf06Parent) APIConfigPathsDelete(string) error                     { return nil }

func vf06FreeAddr(t testing.TB) string {
	l, err := net.Listen("tcp", "127.0.0.1:0")
	if err != nil {
		t.Fatal(err)
	}
	defer l.Close()
	return l.Addr().String()
}

func TestVerif_C06_API(t *testing.T) {
	out := verifrt.NewOutFile(t, vf06OutPath("api"))
	defer out.Close()
	in := verifc06.ReadInput(t)
	tr := verifc06.Setup(t)
	nformats := verifrt.Param("FORMATS", 1)

	parent := &vf06Parent{}
	addr := vf06FreeAddr(t)
	a := API{
		Address:      addr,
		ReadTimeout:  conf.Duration(10 * time.Second),
		WriteTimeout: conf.Duration(10 * time.Second),
		AuthManager:  test.NilAuthManager,
		Parent:       parent,
	}
	if err := a.Initialize(); err != nil {
		t.Fatal(err)
	}
	defer a.Close()
	htr := &http.Transport{}
	defer htr.CloseIdleConnections()
	hc := &http.Client{Transport: htr, CheckRedirect: func(*http.Request, []*http.Request) error {
		return http.ErrUseLastResponse
	}}

	do := func(method, rawURL string) (int, []byte) {
		req, err := http.NewRequest(method, rawURL, nil)
		if err != nil {
			t.Fatalf("%v", err)
		}
		res, err := hc.Do(req)
		if err != nil {
			t.Fatal(err)
		}
		defer res.Body.Close()
		body, _ := io.ReadAll(res.Body)
		return res.StatusCode, body
	}

	filesOf := func(segs []defs.APIRecordingSegment) []string {
		var files []string
		for _, sg := range segs {
			p := tr.ByStart(sg.Start)
			if p == nil {
				t.Fatalf("the API returned a segment the harness did not plant: %v", sg.Start)
			}
			files = append(files, p.Path)
		}
		return files
	}

	for fi := 0; fi < nformats && fi < len(tr.Formats); fi++ {
		std := tr.StdContexts(t, fi)

		// recording listing without a requested name: the names come from the disk
		for _, ctx := range std {
			parent.c = ctx.Conf
			status, body := do(http.MethodGet, "http://"+addr+"/v3/recordings/list?itemsPerPage=1000")
			if status != http.StatusOK {
				t.Fatalf("recordings/list: %d %s", status, body)
			}
			var l defs.APIRecordingList
			if err := json.Unmarshal(body, &l); err != nil {
				t.Fatalf("bad recordings/list body: %v", err)
			}
			for _, it := range l.Items {
				out.Emit(tr.NewRec("api/recordings/list", ctx, it.Name, true, filesOf(it.Segments), ""))
			}
		}

		for _, name := range in.HTTPNames {
			ctxs := std
			if kc := tr.KeyContext(t, name, fi); kc != nil {
				ctxs = append(append([]*verifc06.Context{}, std...), kc)
			}
			wire := verifc06.WireQuery(name)
			for _, ctx := range ctxs {
				parent.c = ctx.Conf

				status, body := do(http.MethodGet, "http://"+addr+"/v3/recordings/get/"+wire)
				seen := name
				var files []string
				if status == http.StatusOK {
					var rec defs.APIRecording
					if err := json.Unmarshal(body, &rec); err != nil {
						t.Fatalf("bad recordings/get body: %v", err)
					}
					seen = rec.Name // the name the server accepted
					files = filesOf(rec.Segments)
				}
				info := http.StatusText(status)
				if seen != name {
					info += " (requested " + name + ")"
				}
				out.Emit(tr.NewRec("api/recordings/get", ctx, seen, status == http.StatusOK, files, info))

				// segment deletion at the start instant of every planted segment of this format;
				// what was deleted is read from the disk
				files = nil
				accepted := false
				for _, p := range tr.Planted {
					if p.Format != fi {
						continue
					}
					status, _ = do(http.MethodDelete, "http://"+addr+"/v3/recordings/deletesegment?path="+wire+
						"&start="+verifc06.WireQuery(p.Start.Format(time.RFC3339)))
					if status == http.StatusOK {
						accepted = true
					}
					files = append(files, tr.Replant(t)...)
				}
				out.Emit(tr.NewRec("api/recordings/deletesegment", ctx, name, accepted, files, ""))
			}
		}
	}
}

// the four C06 harness tests run in one `go test` invocation; each writes its own file
func vf06OutPath(suffix string) string {
	p := os.Getenv("VERIF_OUT")
	if p == "" {
		return ""
	}
	return p + "." + suffix
}
