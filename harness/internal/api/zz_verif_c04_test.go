package api //nolint:revive

// Verification harness for C04 (administrative endpoints enforce their permission): the Control
// API. Injected by /verif through -overlay. One real API per instance of the case file, each
// with the REAL auth.Manager configured with the instance's internal users; stub parent, path
// manager and protocol servers whose data carries a canary and whose state-changing methods log
// the marker of the request that reached them. The test records; TLC decides
// (spec/auth/TraceAdminAuth.tla).

import (
	"encoding/json"
	"os"
	"path/filepath"
	"strings"
	"sync"
	"testing"
	"time"

	"github.com/gin-gonic/gin"

	"github.com/bluenviron/mediamtx/internal/auth"
	"github.com/bluenviron/mediamtx/internal/conf"
	"github.com/bluenviron/mediamtx/internal/logger"
	"github.com/bluenviron/mediamtx/internal/verifc04"
	"github.com/bluenviron/mediamtx/internal/verifrt"
)

type vf04Parent struct {
	conf *conf.Conf
	log  *verifc04.StateLog
}

func (*vf04Parent) Log(logger.Level, string, ...any)  {}
func (p *vf04Parent) APIConfigSnapshot() *conf.Conf { return p.conf }

func vf04JSON(v any) string {
	b, err := json.Marshal(v)
	if err != nil {
		return "unmarshalable:" + err.Error()
	}
	return string(b)
}

func (p *vf04Parent) APIConfigGlobalPatch(in conf.OptionalGlobal) error {
	p.log.Note("global patch", vf04JSON(&in))
	return nil
}

func (p *vf04Parent) APIConfigPathDefaultsPatch(in conf.OptionalPath) error {
	p.log.Note("pathdefaults patch", vf04JSON(&in))
	return nil
}

func (p *vf04Parent) APIConfigPathsAdd(name string, _ conf.OptionalPath) error {
	p.log.Note("paths add", name)
	return nil
}

func (p *vf04Parent) APIConfigPathsPatch(name string, _ conf.OptionalPath) error {
	p.log.Note("paths patch", name)
	return nil
}

func (p *vf04Parent) APIConfigPathsReplace(name string, _ conf.OptionalPath) error {
	p.log.Note("paths replace", name)
	return nil
}

func (p *vf04Parent) APIConfigPathsDelete(name string) error {
	p.log.Note("paths delete", name)
	return nil
}

// the real manager; a JWKS refresh request is a state change without a marker
type vf04Auth struct {
	m   *auth.Manager
	log *verifc04.StateLog
}

func (a *vf04Auth) Authenticate(req *auth.Request) (string, *auth.Error) { return a.m.Authenticate(req) }
func (a *vf04Auth) RefreshJWTJWKS() {
	a.log.NoteSolo()
	a.m.RefreshJWTJWKS()
}

type vf04Inst struct {
	api  *API
	log  *verifc04.StateLog
	solo sync.Mutex
	base string
}

func TestVerif_C04_API(t *testing.T) {
	out := verifrt.NewOutFile(t, verifc04.OutPath("api"))
	defer out.Close()
	in := verifc04.Load(t, "api")

	dir := t.TempDir()
	verifc04.WriteSegment(t, dir, verifc04.Canary+"rec")
	segOf := map[int]string{}
	for _, c := range in.Cases {
		if strings.Contains(c.URL, "/recordings/deletesegment") && c.Marker != "" {
			segOf[c.ID] = verifc04.WriteSegment(t, dir, c.Marker)
		}
	}
	yml := "logFile: /" + verifc04.Canary + ".log\n" +
		"authInternalUsers:\n- user: " + verifc04.Canary + "user\n  pass: " + verifc04.Canary + "pass\n  permissions:\n  - action: api\n" +
		"pathDefaults:\n  runOnReady: " + verifc04.Canary + "\n" +
		"paths:\n  " + verifc04.Canary + "cam:\n    source: publisher\n" +
		"  all_others:\n    recordPath: " + verifc04.RecordPath(dir) + "\n"
	cf := filepath.Join(dir, "mediamtx.yml")
	if err := os.WriteFile(cf, []byte(yml), 0o644); err != nil {
		t.Fatal(err)
	}
	cnf, _, err := conf.Load(cf, nil, nil)
	if err != nil {
		t.Fatalf("vf04: %v", err)
	}

	insts := make([]*vf04Inst, len(in.Instances))
	for i, ins := range in.Instances {
		lg := &verifc04.StateLog{}
		x := &vf04Inst{log: lg}
		addr := verifc04.Listen(t, func(addr string) error {
			x.api = &API{
				Version:        verifc04.Canary + "version",
				Started:        time.Date(2020, 1, 1, 0, 0, 0, 0, time.UTC),
				Address:        addr,
				TrustedProxies: verifc04.TrustedProxies(t, ins.Trusted),
				ReadTimeout:    conf.Duration(30 * time.Second),
				WriteTimeout:   conf.Duration(30 * time.Second),
				AuthManager:    &vf04Auth{m: verifc04.NewManager(t, ins.Users), log: lg},
				PathManager:    verifc04.PathManager{},
				RTSPServer:     &verifc04.RTSP{Log: lg, Kind: "rtsp"},
				RTSPSServer:    &verifc04.RTSP{Log: lg, Kind: "rtsps"},
				RTMPServer:     &verifc04.RTMP{Log: lg, Kind: "rtmp"},
				RTMPSServer:    &verifc04.RTMP{Log: lg, Kind: "rtmps"},
				HLSServer:      &verifc04.HLS{Log: lg},
				WebRTCServer:   &verifc04.WebRTC{Log: lg},
				SRTServer:      &verifc04.SRT{Log: lg},
				MoQServer:      &verifc04.MoQ{Log: lg},
				Parent:         &vf04Parent{conf: cnf, log: lg},
			}
			return x.api.Initialize()
		})
		defer x.api.Close()
		x.base = "http://" + addr
		insts[i] = x
	}

	// the routes the real router serves (cross-checked with the spec's table and the OpenAPI file)
	routes := []map[string]string{}
	for _, r := range insts[0].api.httpServer.Handler.(*gin.Engine).Routes() {
		routes = append(routes, map[string]string{"m": r.Method, "p": r.Path})
	}
	out.Emit(map[string]any{"routes": routes})

	eng := &verifc04.Engine{
		T:        t,
		Base:     func(inst int) string { return insts[inst-1].base },
		SoloLock: func(inst int) *sync.Mutex { return &insts[inst-1].solo },
		SoloRead: func(inst int) int { return insts[inst-1].log.SoloCount() },
	}
	obs := eng.Run(in.Cases)
	for i, c := range in.Cases {
		o := obs[i]
		if !c.Solo {
			o.Mut = c.Marker != "" && insts[c.Inst-1].log.Changed(c.Marker)
			if p, ok := segOf[c.ID]; ok {
				if _, err := os.Stat(p); err != nil {
					o.Mut = true
				}
			}
		}
		out.Emit(o)
	}
	for i, x := range insts {
		if u := x.log.Unattributed(); len(u) != 0 {
			out.Emit(map[string]any{"unattributed": u, "inst": i + 1})
		}
	}
}
