package api //nolint:revive

// Verification harness for C44 (API list pagination). Injected by /verif through -overlay.
// The tests record what the real code does; verdicts are taken by TLC / the check driver.

import (
	"encoding/json"
	"fmt"
	"io"
	"net"
	"net/http"
	"net/url"
	"strconv"
	"testing"
	"time"

	"github.com/google/uuid"

	"github.com/bluenviron/mediamtx/internal/auth"
	"github.com/bluenviron/mediamtx/internal/conf"
	"github.com/bluenviron/mediamtx/internal/defs"
	"github.com/bluenviron/mediamtx/internal/logger"
	"github.com/bluenviron/mediamtx/internal/verifrt"
)

type vf44Obs struct {
	Err   bool  `json:"err"`
	PC    int   `json:"pc"`
	Items []int `json:"items"`
}

func vf44Call(n int, ipp, page string) (obs vf44Obs) {
	// a panic of the function under test is an observation (no page of any list is [-1] with page count -1)
	defer func() {
		if r := recover(); r != nil {
			obs = vf44Obs{Err: false, PC: -1, Items: []int{-1}}
		}
	}()
	items := make([]int, n)
	for i := range items {
		items[i] = i + 1
	}
	pc, err := paginate(&items, ipp, page)
	if err != nil {
		return vf44Obs{Err: true, Items: []int{}}
	}
	if items == nil {
		items = []int{}
	}
	return vf44Obs{PC: pc, Items: items}
}

// spec -> impl: every case of the bounded model is executed by the real function.
func TestVerif_C44_Replay(t *testing.T) {
	out := verifrt.NewOut(t)
	defer out.Close()
	verifrt.ForEachCase(t, func(raw []byte) {
		var c struct {
			ID int `json:"id"`
			In struct {
				N    int    `json:"n"`
				Ipp  string `json:"ipp"`
				Page string `json:"page"`
			} `json:"in"`
		}
		verifrt.Decode(t, raw, &c)
		out.Emit(map[string]any{"id": c.ID, "obs": vf44Call(c.In.N, c.In.Ipp, c.In.Page)})
	})
}

type vf44PathManager struct{ n int }

func (m *vf44PathManager) APIPathsList() (*defs.APIPathList, error) {
	items := make([]defs.APIPath, m.n)
	for i := range items {
		items[i] = defs.APIPath{Name: fmt.Sprintf("p%06d", i+1), Tracks: []defs.APIPathTrackCodec{}, Readers: []defs.APIPathReader{}}
	}
	return &defs.APIPathList{Items: items}, nil
}
func (m *vf44PathManager) APIPathsGet(string) (*defs.APIPath, error) { return nil, conf.ErrPathNotFound }
func (*vf44PathManager) APIForwardDestList(string) (*defs.APIForwardDestList, error) {
	return &defs.APIForwardDestList{}, nil
}

func (*vf44PathManager) APIForwardDestGet(string, uuid.UUID) (*defs.APIForwardDest, error) {
	return nil, conf.ErrPathNotFound
}

type vf44Parent struct{}

func (vf44Parent) Log(logger.Level, string, ...any)                            {}
func (vf44Parent) APIConfigSnapshot() *conf.Conf                               { return &conf.Conf{} }
func (vf44Parent) APIConfigGlobalPatch(conf.OptionalGlobal) error              { return nil }
func (vf44Parent) APIConfigPathDefaultsPatch(conf.OptionalPath) error          { return nil }
func (vf44Parent) APIConfigPathsAdd(string, conf.OptionalPath) error           { return nil }
func (vf44Parent) APIConfigPathsPatch(string, conf.OptionalPath) error         { return nil }
func (vf44Parent) APIConfigPathsReplace(string, conf.OptionalPath) error       { return nil }
func (vf44Parent) APIConfigPathsDelete(string) error                           { return nil }

func vfFreeAddr(t testing.TB) string {
	l, err := net.Listen("tcp", "127.0.0.1:0")
	if err != nil {
		t.Fatal(err)
	}
	defer l.Close()
	return l.Addr().String()
}

// impl -> spec: random list lengths and parameters outside the TLC domain; for every
// (n, itemsPerPage) all pages 0..pageCount+1 are requested, from the function and from the
// real /v3/paths/list endpoint; TLC evaluates the partition property on each record.
func TestVerif_C44_Trace(t *testing.T) {
	out := verifrt.NewOut(t)
	defer out.Close()
	rnd := verifrt.Rand(44)
	runs := verifrt.Param("RUNS", 150)
	httpRuns := verifrt.Param("HTTPRUNS", 25)

	pm := &vf44PathManager{}
	addr := vfFreeAddr(t)
	api := API{
		Address:      addr,
		ReadTimeout:  conf.Duration(10 * time.Second),
		WriteTimeout: conf.Duration(10 * time.Second),
		AuthManager:  vf44Auth{},
		PathManager:  pm,
		Parent:       vf44Parent{},
	}
	if err := api.Initialize(); err != nil {
		t.Fatal(err)
	}
	defer api.Close()
	tr := &http.Transport{}
	defer tr.CloseIdleConnections()
	hc := &http.Client{Transport: tr}

	viaHTTP := func(n int, ipp, page string) vf44Obs {
		pm.n = n
		q := url.Values{}
		if ipp != "" {
			q.Set("itemsPerPage", ipp)
		}
		if page != "" {
			q.Set("page", page)
		}
		res, err := hc.Get("http://" + addr + "/v3/paths/list?" + q.Encode())
		if err != nil {
			t.Fatal(err)
		}
		defer res.Body.Close()
		body, _ := io.ReadAll(res.Body)
		if res.StatusCode != http.StatusOK {
			return vf44Obs{Err: true, Items: []int{}}
		}
		var l defs.APIPathList
		if err := json.Unmarshal(body, &l); err != nil {
			t.Fatalf("bad body: %v", err)
		}
		o := vf44Obs{PC: l.PageCount, Items: []int{}}
		for _, it := range l.Items {
			v, _ := strconv.Atoi(it.Name[1:])
			o.Items = append(o.Items, v)
		}
		return o
	}

	badToks := []string{"-1", "abc", "1.5", " 1", "1 ", "0x1", "1e1", "99999999999999999999", "-0", "٣"}

	for run := 0; run < runs+httpRuns; run++ {
		call := vf44Call
		via := "func"
		if run >= runs {
			call = viaHTTP
			via = "http"
		}
		var n int
		switch rnd.IntN(4) {
		case 0:
			n = rnd.IntN(4)
		case 1:
			n = rnd.IntN(40)
		default:
			n = rnd.IntN(400)
		}
		if via == "http" {
			n = rnd.IntN(60)
		}
		var ipp int
		ippTok := ""
		switch rnd.IntN(6) {
		case 0:
			ipp = 100 // default
		case 1:
			ipp = 1 + rnd.IntN(3)
			ippTok = strconv.Itoa(ipp)
		case 2:
			ipp = n + rnd.IntN(3) // around the list length
			if ipp == 0 {
				ipp = 1
			}
			ippTok = strconv.Itoa(ipp)
		case 3:
			ipp = 2147483647 - rnd.IntN(2)
			ippTok = strconv.Itoa(ipp)
		default:
			ipp = 1 + rnd.IntN(50)
			ippTok = strconv.Itoa(ipp)
		}
		first := call(n, ippTok, "")
		rec := map[string]any{"via": via, "run": run, "n": n, "ippTok": ippTok, "ipp": ipp, "ippValid": true}
		if first.Err {
			rec["err"] = true
			rec["pc"] = 0
			rec["pages"] = [][]int{}
			rec["badPageErr"] = []bool{}
			out.Emit(rec)
			continue
		}
		last := first.PC + 1
		if last > 450 {
			last = 450
		}
		pages := [][]int{}
		pcs := []int{}
		anyErr := false
		for k := 0; k <= last; k++ {
			o := call(n, ippTok, strconv.Itoa(k))
			if o.Err {
				anyErr = true
			}
			pages = append(pages, o.Items)
			pcs = append(pcs, o.PC)
		}
		// a far page, beyond anything recorded
		far := call(n, ippTok, strconv.Itoa(1000+rnd.IntN(2147482000)))
		badErr := []bool{}
		for _, b := range badToks {
			badErr = append(badErr, call(n, ippTok, b).Err)
		}
		rec["err"] = anyErr || far.Err
		rec["pc"] = first.PC
		rec["pcs"] = pcs
		rec["page0default"] = first.Items
		rec["pages"] = pages
		rec["farItems"] = far.Items
		rec["badPageErr"] = badErr
		out.Emit(rec)

		// invalid itemsPerPage for the same list
		for _, b := range append([]string{"0"}, badToks[:4]...) {
			o := call(n, b, "0")
			out.Emit(map[string]any{"via": via, "run": run, "n": n, "ippTok": b, "ipp": 0, "ippValid": false,
				"err": o.Err, "pc": o.PC, "pages": [][]int{}, "badPageErr": []bool{}})
		}
	}
}

type vf44Auth struct{}

func (vf44Auth) Authenticate(*auth.Request) (string, *auth.Error) { return "", nil }
func (vf44Auth) RefreshJWTJWKS()                                  {}
