package hls

// Verification harness for C43 (HLS media is served only to authorized sessions). Injected by
// /verif through -overlay. Every walk of the case file is replayed on its own real hls.Server
// (hlsAlwaysRemux; either with the trusted proxy 127.0.0.1, so that X-Forwarded-For sets the client IP, or
// with an empty trusted-proxy list, real loopback peers 127.0.0.1 / 127.0.0.2 / ::1 and forged forwarding headers) in front
// of real stream.Streams fed with H.264 units; the path manager is a harness object whose
// decisions come from the REAL auth.Manager configured with the users of the case file.
// The test records what came back; TLC decides (spec/auth/TraceHlsSession.tla).

import (
	"encoding/base64"
	"fmt"
	"io"
	"net"
	"net/http"
	"regexp"
	"strings"
	"sync"
	"testing"
	"time"

	"github.com/bluenviron/gohlslib/v2"
	"github.com/bluenviron/gortsplib/v5/pkg/description"
	"github.com/google/uuid"

	"github.com/bluenviron/mediamtx/internal/auth"
	"github.com/bluenviron/mediamtx/internal/conf"
	"github.com/bluenviron/mediamtx/internal/defs"
	"github.com/bluenviron/mediamtx/internal/externalcmd"
	"github.com/bluenviron/mediamtx/internal/stream"
	"github.com/bluenviron/mediamtx/internal/test"
	"github.com/bluenviron/mediamtx/internal/unit"
	"github.com/bluenviron/mediamtx/internal/verifc04"
	"github.com/bluenviron/mediamtx/internal/verifrt"
)

const vf43CDNSecret = "vfCDNsecret43"

type vf43Probe struct {
	Kind  string `json:"kind"`
	Path  string `json:"path"`
	Sid   int    `json:"sid"`
	Place string `json:"place"`
	IP    string `json:"ip"`
	Fwd   string `json:"fwd"` // no trusted proxy: the address the forged forwarding header names ("" = no header)
	Hdr   string `json:"hdr"` // xff, xreal, both
	Auth  string `json:"auth"`
}

type vf43Step struct {
	Op     string      `json:"op"` // open, openbearer, kick, expire, kickcdn
	Bearer string      `json:"bearer"`
	Path   string      `json:"path"`
	Cred   string      `json:"cred"`
	IP     string      `json:"ip"`
	Fwd    string      `json:"fwd"`
	Hdr    string      `json:"hdr"`
	Sid    int         `json:"sid"`
	Probes []vf43Probe `json:"probes"`
}

type vf43Walk struct {
	Walk    int        `json:"walk"`
	CDNConf bool       `json:"cdnConf"`
	Trusted bool       `json:"trusted"` // hlsTrustedProxies = [127.0.0.1] (client IP = forwarded address) or empty (= TCP peer)
	Variant string     `json:"variant"`
	Cookie  bool       `json:"cookie"` // the client keeps cookies (secret handed out in a cookie) or not (query parameter)
	Steps   []vf43Step `json:"steps"`
}

// ---------------------------------------------------------------- path manager backed by the real auth.Manager

type vf43Path struct{ name string }

func (p *vf43Path) Name() string                              { return p.name }
func (*vf43Path) SafeConf() *conf.Path                        { return &conf.Path{} }
func (*vf43Path) ExternalCmdEnv() externalcmd.Environment     { return nil }
func (*vf43Path) RemovePublisher(defs.PathRemovePublisherReq) {}
func (*vf43Path) RemoveReader(defs.PathRemoveReaderReq)       {}

type vf43PM struct {
	mgr     *auth.Manager
	streams map[string]*stream.Stream
}

func (pm *vf43PM) SetHLSServer(s *Server) []defs.Path {
	if s == nil {
		return nil
	}
	var ret []defs.Path
	for n := range pm.streams {
		ret = append(ret, &vf43Path{name: n})
	}
	return ret
}

func (pm *vf43PM) FindPathConf(req defs.PathFindPathConfReq) (*defs.PathFindPathConfRes, error) {
	user, err := pm.mgr.Authenticate(req.AccessRequest.ToAuthRequest())
	if err != nil {
		return nil, err
	}
	return &defs.PathFindPathConfRes{Conf: &conf.Path{}, User: user}, nil
}

func (pm *vf43PM) AddReader(req defs.PathAddReaderReq) (*defs.PathAddReaderRes, error) {
	var user string
	if !req.AccessRequest.SkipAuth {
		var err *auth.Error
		user, err = pm.mgr.Authenticate(req.AccessRequest.ToAuthRequest())
		if err != nil {
			return nil, err
		}
	}
	strm, ok := pm.streams[req.AccessRequest.Name]
	if !ok {
		return nil, &defs.PathNoStreamAvailableError{PathName: req.AccessRequest.Name}
	}
	return &defs.PathAddReaderRes{Path: &vf43Path{name: req.AccessRequest.Name}, Stream: strm, User: user}, nil
}

// ---------------------------------------------------------------- one server per walk

type vf43Srv struct {
	t       testing.TB
	s       *Server
	base    string
	hc      *http.Client
	trusted bool
	port    string
	peers   map[string]*http.Client      // no trusted proxy: one client per local address the requests come from
	names   map[string]map[string]string // path -> kind -> file name
	secrets []string                     // secrets in order of creation
	spath   []string                     // path of each session
	rnd     func() string
}

func vf43Creds(c string) string {
	up := map[string]string{"alice": "alice:pw", "carol": "carol:pw", "dave": "dave:pw", "erin": "erin:pw", "bad": "alice:wrong"}[c]
	if up == "" {
		return ""
	}
	return "Basic " + base64.StdEncoding.EncodeToString([]byte(up))
}

// vf43Authz is the Authorization header of an authorization token of HlsSession.tla.
func vf43Authz(tok string) string {
	switch tok {
	case "cdn":
		return "Bearer " + vf43CDNSecret
	case "wrong":
		return "Bearer " + vf43CDNSecret + "x"
	case "bare":
		return "Bearer"
	case "barespace":
		return "Bearer " // net/http removes the trailing space on both sides
	case "lower":
		return "bearer"
	case "lowercdn":
		return "bearer " + vf43CDNSecret
	case "basic":
		return vf43Creds("alice")
	}
	return ""
}

const vf43PeerKey = "@peer"

// addr says where a request comes from. With the trusted proxy the client address travels in
// X-Forwarded-For; without it the request is sent from that local address (a real TCP peer) and
// fwd, if any, is a FORGED forwarding header naming somebody else's address.
func (x *vf43Srv) addr(ip, fwd, hdrKind string) map[string]string {
	if x.trusted {
		return map[string]string{"X-Forwarded-For": ip}
	}
	h := map[string]string{vf43PeerKey: ip}
	if fwd != "" {
		if hdrKind == "xff" || hdrKind == "both" {
			h["X-Forwarded-For"] = fwd
		}
		if hdrKind == "xreal" || hdrKind == "both" {
			h["X-Real-IP"] = fwd
		}
	}
	return h
}

func (x *vf43Srv) get(url string, hdr map[string]string) (int, http.Header, []byte) {
	hc, base := x.hc, x.base
	if peer, ok := hdr[vf43PeerKey]; ok {
		hc = x.peers[peer]
		if hc == nil {
			x.t.Fatalf("vf43: no client for peer %q", peer)
		}
		if strings.Contains(peer, ":") {
			base = "http://[::1]:" + x.port
		}
		h2 := map[string]string{}
		for k, v := range hdr {
			if k != vf43PeerKey {
				h2[k] = v
			}
		}
		hdr = h2
	}
	req, err := http.NewRequest(http.MethodGet, base+url, nil)
	if err != nil {
		x.t.Fatal(err)
	}
	for k, v := range hdr {
		req.Header.Set(k, v)
	}
	res, err := hc.Do(req)
	if err != nil {
		x.t.Fatalf("vf43: GET %s: %v", url, err)
	}
	defer res.Body.Close()
	b, _ := io.ReadAll(io.LimitReader(res.Body, 4<<20))
	return res.StatusCode, res.Header, b
}

var vf43ReSecret = regexp.MustCompile(`session=([0-9a-f]{8}-[0-9a-f]{4}-[0-9a-f]{4}-[0-9a-f]{4}-[0-9a-f]{12})`)

// open requests the multivariant playlist as a player does (cookie check redirect, then the
// playlist) and returns ("ok", secret, body) / ("refused" | "notfound" | "other", "", nil).
func (x *vf43Srv) open(path, authz string, hdr map[string]string, cookies bool) (string, string, []byte) {
	if authz != "" {
		hdr["Authorization"] = authz
	}
	url := "/" + path + "/index.m3u8"
	status, h, body := x.get(url, hdr)
	if status == http.StatusFound {
		loc := h.Get("Location")
		if cookies && strings.Contains(h.Get("Set-Cookie"), "cookieCheck=1") {
			hdr["Cookie"] = "cookieCheck=1"
		}
		status, h, body = x.get(loc, hdr)
	}
	switch status {
	case http.StatusOK:
		secret := ""
		for _, c := range h.Values("Set-Cookie") {
			if strings.HasPrefix(c, sessionCookieName+"=") {
				secret = strings.SplitN(strings.TrimPrefix(c, sessionCookieName+"="), ";", 2)[0]
			}
		}
		if secret == "" {
			if m := vf43ReSecret.FindSubmatch(body); m != nil {
				secret = string(m[1])
			}
		}
		// no secret: the playlist came through the server's CDN route (an observation)
		return "ok", secret, body
	case http.StatusUnauthorized:
		return "refused", "", nil
	case http.StatusNotFound:
		return "notfound", "", nil
	}
	return "other", "", nil
}

func vf43URIs(body []byte) (plain []string, attrs []string) {
	reAttr := regexp.MustCompile(`URI="([^"]+)"`)
	for _, line := range strings.Split(string(body), "\n") {
		line = strings.TrimSpace(line)
		if line == "" {
			continue
		}
		if line[0] != '#' {
			plain = append(plain, strings.SplitN(line, "?", 2)[0])
			continue
		}
		if strings.HasPrefix(line, "#EXT-X-PART:") || strings.HasPrefix(line, "#EXT-X-MAP:") {
			if m := reAttr.FindStringSubmatch(line); m != nil {
				attrs = append(attrs, line[:11]+" "+strings.SplitN(m[1], "?", 2)[0])
			}
		}
	}
	return
}

func (x *vf43Srv) muxerOf(path string) *muxer {
	m, err := x.s.getMuxer(serverGetMuxerReq{path: path, create: false})
	if err != nil {
		x.t.Fatalf("vf43: muxer of %s: %v", path, err)
	}
	return m
}

func (x *vf43Srv) sessionUUID(path, secret string) (uuid.UUID, *session) {
	m := x.muxerOf(path)
	m.mutex.RLock()
	defer m.mutex.RUnlock()
	sx := m.sessionsBySecret[uuid.MustParse(secret)]
	if sx == nil {
		return uuid.Nil, nil
	}
	return sx.uuid, sx
}

func vf43Start(t testing.TB, mgr *auth.Manager, w *vf43Walk, rnd func() string) *vf43Srv {
	streams := map[string]*stream.Stream{}
	subs := map[string]*stream.SubStream{}
	medias := map[string]*description.Media{}
	for _, n := range []string{"cam1", "other"} {
		medi := test.UniqueMediaH264()
		strm := &stream.Stream{
			OrigDesc:          &description.Session{Medias: []*description.Media{medi}},
			WriteQueueSize:    512,
			RTPMaxPayloadSize: 1450,
			Parent:            test.NilLogger,
		}
		if err := strm.Initialize(); err != nil {
			t.Fatal(err)
		}
		ss := &stream.SubStream{Stream: strm, UseRTPPackets: false}
		if err := ss.Initialize(); err != nil {
			t.Fatal(err)
		}
		streams[n], subs[n], medias[n] = strm, ss, medi
	}
	variant := map[string]gohlslib.MuxerVariant{
		"mpegts": gohlslib.MuxerVariantMPEGTS, "fmp4": gohlslib.MuxerVariantFMP4, "lowLatency": gohlslib.MuxerVariantLowLatency,
	}[w.Variant]
	x := &vf43Srv{t: t, names: map[string]map[string]string{}, rnd: rnd}
	cdn := ""
	if w.CDNConf {
		cdn = vf43CDNSecret
	}
	// without a trusted proxy the clients are distinct loopback peers (IPv4 and IPv6): listen on all interfaces
	listen := func(addr string) string {
		if w.Trusted {
			return addr
		}
		_, port, _ := net.SplitHostPort(addr)
		return ":" + port
	}
	obs := func() map[string]string {
		if w.Trusted {
			return map[string]string{"X-Forwarded-For": "10.0.0.99"}
		}
		return map[string]string{vf43PeerKey: "127.0.0.1"}
	}
	addr := verifc04.Listen(t, func(addr string) error {
		x.s = &Server{
			Address:         listen(addr),
			AlwaysRemux:     true,
			Variant:         conf.HLSVariant(variant),
			SegmentCount:    7,
			SegmentDuration: conf.Duration(1 * time.Second),
			PartDuration:    conf.Duration(200 * time.Millisecond),
			SegmentMaxSize:  50 * 1024 * 1024,
			TrustedProxies:  verifc04.TrustedProxies(t, w.Trusted),
			CDNSecret:       cdn,
			ReadTimeout:     conf.Duration(20 * time.Second),
			WriteTimeout:    conf.Duration(20 * time.Second),
			MuxerCloseAfter: conf.Duration(60 * time.Second),
			PathManager:     &vf43PM{mgr: mgr, streams: streams},
			Parent:          test.NilLogger,
		}
		return x.s.Initialize()
	})
	x.base = "http://" + addr
	x.trusted = w.Trusted
	_, x.port, _ = net.SplitHostPort(addr)
	x.peers = map[string]*http.Client{}
	var peerTransports []*http.Transport
	if !w.Trusted {
		for _, peer := range []string{"127.0.0.1", "127.0.0.2", "::1"} {
			d := &net.Dialer{LocalAddr: &net.TCPAddr{IP: net.ParseIP(peer)}, Timeout: 10 * time.Second}
			ptr := &http.Transport{DialContext: d.DialContext, MaxIdleConnsPerHost: 4}
			peerTransports = append(peerTransports, ptr)
			x.peers[peer] = &http.Client{
				Transport: ptr, Timeout: 30 * time.Second,
				CheckRedirect: func(*http.Request, []*http.Request) error { return http.ErrUseLastResponse },
			}
		}
	}
	tr := &http.Transport{MaxIdleConnsPerHost: 4}
	x.hc = &http.Client{
		Transport: tr, Timeout: 30 * time.Second,
		CheckRedirect: func(*http.Request, []*http.Request) error { return http.ErrUseLastResponse },
	}
	t.Cleanup(func() {
		tr.CloseIdleConnections()
		for _, ptr := range peerTransports {
			ptr.CloseIdleConnections()
		}
		x.s.Close()
		for _, s := range streams {
			s.Close()
		}
	})

	// the muxers (created because the paths are ready) attach to the streams; then 8 s of video
	for _, n := range []string{"cam1", "other"} {
		streams[n].WaitForReaders()
		for i := 0; i < 85; i++ {
			nalu := []byte{1, 1}
			if i%10 == 0 {
				nalu = []byte{5, 1}
			}
			subs[n].WriteUnit(medias[n], medias[n].Formats[0], &unit.Unit{
				PTS:     int64(i) * 9000,
				Payload: unit.PayloadH264{nalu},
			})
		}
	}

	// an observer (alice from an address the walks never use) learns the file names, then is kicked
	for _, n := range []string{"cam1", "other"} {
		var secret string
		var body []byte
		deadline := time.Now().Add(20 * time.Second)
		for {
			var res string
			res, secret, body = x.open(n, vf43Creds("alice"), obs(), false)
			if res == "ok" {
				break
			}
			if time.Now().After(deadline) {
				t.Fatalf("vf43: observer cannot open %s: %s", n, res)
			}
			time.Sleep(50 * time.Millisecond)
		}
		plain, _ := vf43URIs(body)
		if len(plain) == 0 {
			t.Fatalf("vf43: no media playlist in %q", string(body))
		}
		names := map[string]string{"playlist": plain[0]}
		hdr := obs()
		// the muxer consumes the units asynchronously: wait until the media playlist no longer changes
		prev := ""
		for {
			status, _, mb := x.get("/"+n+"/"+plain[0]+"?session="+secret, hdr)
			segs, attrs := vf43URIs(mb)
			if status == http.StatusOK && len(segs) >= 2 && string(mb) == prev {
				names["segment"] = segs[len(segs)-2]
				names["part"] = segs[len(segs)-1]
				for _, a := range attrs {
					if strings.HasPrefix(a, "#EXT-X-PART") {
						names["part"] = strings.SplitN(a, " ", 2)[1]
					}
				}
				for _, a := range attrs {
					if strings.HasPrefix(a, "#EXT-X-MAP") && w.Variant == "fmp4" {
						names["part"] = strings.SplitN(a, " ", 2)[1] // no parts: the init file stands in
					}
				}
				break
			}
			if status == http.StatusOK {
				prev = string(mb)
			}
			if time.Now().After(deadline) {
				t.Fatalf("vf43: observer cannot read the media playlist of %s: %d %q", n, status, string(mb))
			}
			time.Sleep(150 * time.Millisecond)
		}
		// every name must be served to the observer (otherwise 'not served' below would mean nothing)
		for _, k := range []string{"playlist", "segment", "part"} {
			status, _, b := x.get("/"+n+"/"+names[k]+"?session="+secret, hdr)
			if status != http.StatusOK || len(b) == 0 {
				t.Fatalf("vf43: observer: %s %s of %s not served: %d", k, names[k], n, status)
			}
		}
		x.names[n] = names
		id, _ := x.sessionUUID(n, secret)
		if err := x.s.APISessionsKick(id); err != nil {
			t.Fatalf("vf43: kick observer: %v", err)
		}
	}
	x.names["ghost"] = x.names["cam1"]
	return x
}

// touchOthers marks every other session (and the CDN sessions) as just used: waiting for the
// cleanup of one session must not make wall-clock time pass for the others.
func (x *vf43Srv) touchOthers(except string) {
	now := time.Now().UnixNano()
	for i, secret := range x.secrets {
		if secret == except {
			continue
		}
		if _, sx := x.sessionUUID(x.spath[i], secret); sx != nil {
			sx.lastRequestTime.Store(now)
		}
	}
	for _, n := range []string{"cam1", "other"} {
		if sx := x.muxerOf(n).getCDNSession(); sx != nil {
			sx.lastRequestTime.Store(now)
		}
	}
}

func (x *vf43Srv) secretOf(sid int) string {
	if sid <= 0 {
		return ""
	}
	if sid <= len(x.secrets) {
		return x.secrets[sid-1]
	}
	return x.rnd()
}

func (x *vf43Srv) probe(p vf43Probe) map[string]any {
	url := "/" + p.Path + "/" + x.names[p.Path][p.Kind]
	hdr := x.addr(p.IP, p.Fwd, p.Hdr)
	if secret := x.secretOf(p.Sid); secret != "" {
		if p.Place == "cookie" {
			hdr["Cookie"] = sessionCookieName + "=" + secret
		} else {
			url += "?" + sessionQueryParamName + "=" + secret
		}
	}
	if a := vf43Authz(p.Auth); a != "" {
		hdr["Authorization"] = a
	}
	status, _, body := x.get(url, hdr)
	return map[string]any{
		"op": "req", "kind": p.Kind, "path": p.Path, "sid": p.Sid, "place": p.Place, "ip": p.IP, "fwd": p.Fwd, "hdr": p.Hdr, "auth": p.Auth,
		"status": status, "served": status == http.StatusOK && len(body) > 0,
	}
}

func vf43Replay(t testing.TB, mgr *auth.Manager, w *vf43Walk) map[string]any {
	rnd := verifrt.Rand(uint64(4300 + w.Walk))
	x := vf43Start(t, mgr, w, func() string {
		var b [16]byte
		for i := range b {
			b[i] = byte(rnd.IntN(256))
		}
		b[6] = (b[6] & 0x0f) | 0x40
		b[8] = (b[8] & 0x3f) | 0x80
		return uuid.UUID(b).String()
	})
	events := []map[string]any{}
	for _, st := range w.Steps {
		switch st.Op {
		case "open", "openbearer":
			authz := vf43Creds(st.Cred)
			if st.Op == "openbearer" {
				authz = vf43Authz(st.Bearer)
			}
			res, secret, _ := x.open(st.Path, authz, x.addr(st.IP, st.Fwd, st.Hdr), w.Cookie)
			sid := 0
			if secret != "" {
				x.secrets = append(x.secrets, secret)
				x.spath = append(x.spath, st.Path)
				sid = len(x.secrets)
			}
			events = append(events, map[string]any{
				"op": "open", "path": st.Path, "cred": st.Cred, "ip": st.IP, "fwd": st.Fwd, "hdr": st.Hdr, "bearer": st.Bearer, "res": res, "sid": sid,
			})
		case "kick", "expire":
			if st.Sid < 1 || st.Sid > len(x.secrets) {
				t.Fatalf("vf43: walk %d: %s of session %d which the server never created", w.Walk, st.Op, st.Sid)
			}
			secret, path := x.secrets[st.Sid-1], x.spath[st.Sid-1]
			id, sx := x.sessionUUID(path, secret)
			if sx == nil {
				t.Fatalf("vf43: walk %d: session %d is gone before %s", w.Walk, st.Sid, st.Op)
			}
			if st.Op == "kick" {
				if err := x.s.APISessionsKick(id); err != nil {
					t.Fatalf("vf43: kick: %v", err)
				}
			} else {
				// the session has been idle for longer than sessionCloseAfter: the muxer's cleanup removes it
				sx.lastRequestTime.Store(time.Now().Add(-2 * sessionCloseAfter).UnixNano())
				deadline := time.Now().Add(sessionCleanupPeriod + 10*time.Second)
				removed := true
				for {
					if _, cur := x.sessionUUID(path, secret); cur == nil {
						break
					}
					if time.Now().After(deadline) {
						removed = false // an observation (the session still exists), not a harness problem
						break
					}
					x.touchOthers(secret) // the wait must not let the other sessions go idle
					time.Sleep(100 * time.Millisecond)
				}
				if !removed {
					events = append(events, map[string]any{"op": "noexpire", "sid": st.Sid})
					for _, p := range st.Probes {
						events = append(events, x.probe(p))
					}
					continue
				}
			}
			events = append(events, map[string]any{"op": st.Op, "sid": st.Sid})
		case "kickcdn":
			sx := x.muxerOf(st.Path).getCDNSession()
			if sx == nil {
				t.Fatalf("vf43: walk %d: no CDN session on %s", w.Walk, st.Path)
			}
			if err := x.s.APISessionsKick(sx.uuid); err != nil {
				t.Fatalf("vf43: kick CDN session: %v", err)
			}
			events = append(events, map[string]any{"op": "kickcdn", "path": st.Path})
		default:
			t.Fatalf("vf43: unknown step %q", st.Op)
		}
		for _, p := range st.Probes {
			events = append(events, x.probe(p))
		}
	}
	return map[string]any{"walk": w.Walk, "trusted": w.Trusted, "cdnConf": w.CDNConf, "variant": w.Variant, "cookie": w.Cookie, "events": events}
}

func TestVerif_C43_Replay(t *testing.T) {
	out := verifrt.NewOut(t)
	defer out.Close()
	var users []verifc04.Entry
	var walks []*vf43Walk
	verifrt.ForEachCase(t, func(raw []byte) {
		var probe struct {
			Setup *struct {
				Users []verifc04.Entry `json:"users"`
			} `json:"setup"`
		}
		verifrt.Decode(t, raw, &probe)
		if probe.Setup != nil {
			users = probe.Setup.Users
			return
		}
		w := &vf43Walk{}
		verifrt.Decode(t, raw, w)
		walks = append(walks, w)
	})
	if users == nil {
		t.Fatal("vf43: no setup line")
	}
	mgr := verifc04.NewManager(t, users)

	par := verifrt.Param("PAR", 24)
	sem := make(chan struct{}, par)
	var wg sync.WaitGroup
	var mu sync.Mutex
	var failed []string
	for _, w := range walks {
		sem <- struct{}{}
		wg.Add(1)
		go func(w *vf43Walk) {
			defer wg.Done()
			defer func() { <-sem }()
			// a sub-test so that a harness failure of one walk is reported with its number
			ok := t.Run(fmt.Sprintf("walk%d", w.Walk), func(t *testing.T) {
				out.Emit(vf43Replay(t, mgr, w))
			})
			if !ok {
				mu.Lock()
				failed = append(failed, fmt.Sprint(w.Walk))
				mu.Unlock()
			}
		}(w)
	}
	wg.Wait()
	if len(failed) != 0 {
		t.Fatalf("vf43: walks failed: %v", failed)
	}
}
