package srt

// Verification harness for C34 (SRT stream id). Injected by /verif through -overlay.
// The tests record what the real parser yields; verdicts are taken by TLC
// (spec/http/Descriptors.tla, TraceDescriptors.tla) and the check driver.

import (
	"os"
	"strings"
	"testing"

	"github.com/bluenviron/mediamtx/internal/verifrt"
)

type vf34Sid struct {
	Panic bool   `json:"panic,omitempty"`
	Err   bool   `json:"err"`
	Mode  string `json:"mode"`
	Path  string `json:"path"`
	User  string `json:"user"`
	Pass  string `json:"pass"`
	Query string `json:"query"`
}

func vf34Parse(raw string) vf34Sid {
	var sid streamID
	var err error
	if panicked, _ := verifrt.Catch(func() { err = sid.unmarshal(raw) }); panicked {
		return vf34Sid{Panic: true, Err: true}
	}
	if err != nil {
		return vf34Sid{Err: true}
	}
	mode := "read"
	if sid.mode == streamIDModePublish {
		mode = "publish"
	}
	return vf34Sid{Mode: mode, Path: sid.path, User: sid.user, Pass: sid.pass, Query: sid.query}
}

// spec -> impl: every stream id of the bounded model.
func TestVerif_C34_Replay(t *testing.T) {
	out := verifrt.NewOut(t)
	defer out.Close()
	verifrt.ForEachCase(t, func(raw []byte) {
		var c struct {
			ID  int    `json:"id"`
			Fam string `json:"fam"`
			In  struct {
				Raw string `json:"raw"`
			} `json:"in"`
		}
		verifrt.Decode(t, raw, &c)
		if c.Fam != "srt" {
			return
		}
		out.Emit(map[string]any{"id": c.ID, "obs": vf34Parse(c.In.Raw)})
	})
}

func vf34TraceOut(t testing.TB) *verifrt.Out {
	if p := os.Getenv("VERIF_OUT2"); p != "" {
		return verifrt.NewOutFile(t, p)
	}
	return verifrt.NewOut(t)
}

// impl -> spec: random field values in both documented syntaxes.
func TestVerif_C34_Trace(t *testing.T) {
	out := vf34TraceOut(t)
	defer out.Close()
	rnd := verifrt.Rand(34)
	runs := verifrt.Param("RUNS", 1000)

	alphabet := "abz09/_-.=,#!&?% @"
	randVal := func(forbidden string, maxLen int) string {
		if rnd.IntN(12) == 0 {
			v := []string{"read", "publish", "#!::", "m=publish", "r=x", "#feedbackplay", "a#feedbackplay", "request"}[rnd.IntN(8)]
			if !strings.ContainsAny(v, forbidden) {
				return v
			}
		}
		n := rnd.IntN(maxLen + 1)
		var sb strings.Builder
		for sb.Len() < n {
			c := alphabet[rnd.IntN(len(alphabet))]
			if strings.IndexByte(forbidden, c) >= 0 {
				continue
			}
			sb.WriteByte(c)
		}
		return sb.String()
	}

	for run := 0; run < runs; run++ {
		if run%2 == 0 {
			action := []string{"read", "publish"}[rnd.IntN(2)]
			path := randVal(":", 10)
			hasCred := rnd.IntN(2) == 0
			hasQuery := rnd.IntN(2) == 0
			user, pass, query := "", "", ""
			raw := action + ":" + path
			if hasCred {
				user, pass = randVal(":", 8), randVal(":", 8)
				raw += ":" + user + ":" + pass
			}
			if hasQuery {
				query = randVal(":", 12)
				raw += ":" + query
			}
			out.Emit(map[string]any{"run": run, "fam": "srt_custom", "action": action, "path": path, "hasCred": hasCred,
				"user": user, "pass": pass, "hasQuery": hasQuery, "query": query, "raw": raw, "got": vf34Parse(raw)})
			continue
		}
		type kv struct {
			K string `json:"k"`
			V string `json:"v"`
		}
		keys := []string{"m", "r", "u", "s", "h", "t", "bmd_uuid", "x"}
		rnd.Shuffle(len(keys), func(i, j int) { keys[i], keys[j] = keys[j], keys[i] })
		keys = keys[:1+rnd.IntN(len(keys))]
		kvs := make([]kv, 0, len(keys))
		parts := make([]string, 0, len(keys))
		for _, k := range keys {
			v := randVal(",", 10)
			if k == "m" {
				v = []string{"publish", "request", "publish", "request", "bidirectional"}[rnd.IntN(5)]
			}
			kvs = append(kvs, kv{k, v})
			parts = append(parts, k+"="+v)
		}
		raw := "#!::" + strings.Join(parts, ",")
		out.Emit(map[string]any{"run": run, "fam": "srt_std", "kvs": kvs, "raw": raw, "got": vf34Parse(raw)})
	}
}
