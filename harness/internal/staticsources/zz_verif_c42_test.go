package staticsources

// Verification harness for C42 (source templates). Injected by /verif through -overlay.
// The tests record what the real code produces; verdicts are taken by TLC
// (spec/misc/Template.tla, TraceTemplate.tla) and the check driver.

import (
	"context"
	"os"
	"strconv"
	"strings"
	"testing"
	"time"

	"github.com/bluenviron/mediamtx/internal/conf"
	"github.com/bluenviron/mediamtx/internal/defs"
	"github.com/bluenviron/mediamtx/internal/logger"
	"github.com/bluenviron/mediamtx/internal/verifrt"
)

type vf42Case struct {
	ID int `json:"id"`
	In struct {
		Site  string   `json:"site"`
		Tmpl  string   `json:"tmpl"`
		G     []string `json:"g"`
		Path  string   `json:"path"`
		Query string   `json:"query"`
	} `json:"in"`
}

// matches as conf.FindPathConf returns them: nil for a non-regex path, else whole match + groups
func vf42Matches(path string, g []string) []string {
	if len(g) == 0 {
		return nil
	}
	return append([]string{path}, g...)
}

// spec -> impl: every source-site case of the bounded model.
func TestVerif_C42_Replay(t *testing.T) {
	out := verifrt.NewOut(t)
	defer out.Close()
	verifrt.ForEachCase(t, func(raw []byte) {
		var c vf42Case
		verifrt.Decode(t, raw, &c)
		if c.In.Site != "source" {
			return
		}
		out.Emit(map[string]any{"id": c.ID, "obs": map[string]any{
			"out": resolveSource(c.In.Tmpl, vf42Matches(c.In.Path, c.In.G), c.In.Query)}})
	})
}

type vf42Parent struct{}

func (vf42Parent) Log(logger.Level, string, ...any) {}
func (vf42Parent) StaticSourceHandlerSetReady(context.Context, defs.PathSourceStaticSetReadyReq) {
}

func (vf42Parent) StaticSourceHandlerSetNotReady(context.Context, defs.PathSourceStaticSetNotReadyReq) {
}

type vf42Instance struct {
	got chan string
}

func (vf42Instance) Log(logger.Level, string, ...any) {}
func (i *vf42Instance) Run(p defs.StaticSourceRunParams) error {
	i.got <- p.ResolvedSource
	<-p.Context.Done()
	return nil
}
func (vf42Instance) APISourceDescribe() *defs.APIPathSource { return nil }

// the resolved source as the real Handler run loop hands it to the source instance
func vf42ViaHandler(t testing.TB, tmpl string, matches []string, query string) string {
	inst := &vf42Instance{got: make(chan string, 1)}
	h := &Handler{
		Conf:    &conf.Path{Source: tmpl},
		Matches: matches,
		Parent:  vf42Parent{},
	}
	h.chReloadConf = make(chan *conf.Path)
	h.chInstanceSetReady = make(chan defs.PathSourceStaticSetReadyReq)
	h.chInstanceSetNotReady = make(chan defs.PathSourceStaticSetNotReadyReq)
	h.instance = inst
	h.Start(false, query)
	defer h.Stop("verif")
	select {
	case s := <-inst.got:
		return s
	case <-time.After(30 * time.Second):
		t.Fatal("verif: the handler never ran the source instance")
		return ""
	}
}

func vf42Chars(s string) []string {
	r := make([]string, 0, len(s))
	for i := 0; i < len(s); i++ {
		r = append(r, s[i:i+1])
	}
	return r
}

// impl -> spec: random templates / group counts / values outside the bounded model.
func TestVerif_C42_Trace(t *testing.T) {
	out := vf42TraceOut(t)
	defer out.Close()
	rnd := verifrt.Rand(42)
	runs := verifrt.Param("RUNS", 1500)
	hruns := verifrt.Param("HRUNS", 100)

	pieces := []string{
		"rtsp://", "host", ":", "8554", "/", "?", "&", "a", "x", "0", "1", "9", "$", "$G", "$MTX_", "G1", "MTX_QUERY",
		"$MTX_QUERY", "$MTX_QUERY", "$MTX_PATH",
	}
	valAlphabet := "ab01G_/.-"
	randVal := func(dollar bool) string {
		switch rnd.IntN(8) {
		case 0:
			return ""
		case 1:
			return strconv.Itoa(rnd.IntN(20))
		case 2:
			return []string{"G1", "G2", "MTX_QUERY", "MTX_PATH", "G", "1", "0"}[rnd.IntN(7)]
		}
		n := 1 + rnd.IntN(6)
		var sb strings.Builder
		for i := 0; i < n; i++ {
			if dollar && rnd.IntN(4) == 0 {
				sb.WriteString([]string{"$G1", "$G2", "$G12", "$MTX_QUERY", "$MTX_PATH", "$"}[rnd.IntN(6)])
			} else {
				sb.WriteByte(valAlphabet[rnd.IntN(len(valAlphabet))])
			}
		}
		return sb.String()
	}

	for run := 0; run < runs+hruns; run++ {
		n := []int{0, 1, 2, 3, 9, 10, 11, 12, 21}[rnd.IntN(9)]
		g := make([]string, n)
		for i := range g {
			g[i] = randVal(false)
		}
		path := "p" + randVal(false)
		query := randVal(true)
		var sb strings.Builder
		k := rnd.IntN(7)
		for i := 0; i < k; i++ {
			if rnd.IntN(2) == 0 {
				idx := 1 + rnd.IntN(n+2)
				if rnd.IntN(6) == 0 {
					idx = rnd.IntN(130)
				}
				sb.WriteString("$G" + strconv.Itoa(idx))
			} else {
				sb.WriteString(pieces[rnd.IntN(len(pieces))])
			}
		}
		tmpl := sb.String()
		via := "func"
		var res string
		if run >= runs {
			via = "handler"
			res = vf42ViaHandler(t, tmpl, vf42Matches(path, g), query)
		} else {
			res = resolveSource(tmpl, vf42Matches(path, g), query)
		}
		gs := make([][]string, n)
		for i := range g {
			gs[i] = vf42Chars(g[i])
		}
		out.Emit(map[string]any{"run": run, "via": via, "site": "source", "tmpl": vf42Chars(tmpl), "g": gs,
			"path": vf42Chars(path), "query": vf42Chars(query), "out": vf42Chars(res),
			"tmplStr": tmpl, "gStr": g, "pathStr": path, "queryStr": query, "outStr": res})
	}
}

// the trace test writes to VERIF_OUT2 when the driver runs it together with the replay test
func vf42TraceOut(t testing.TB) *verifrt.Out {
	if p := os.Getenv("VERIF_OUT2"); p != "" {
		return verifrt.NewOutFile(t, p)
	}
	return verifrt.NewOut(t)
}
