//go:build verif

package staticsources

// Verification harness for C42, life-cycle stage. Injected by /verif through -overlay.
//
// Scripts (every behaviour of spec/misc/TemplateLife.tla, plus random ones) are replayed on the
// REAL Handler: Initialize (the source instance is injected through the guarded hook
// VerifNewInstance), Start(onDemand, query), Stop, ReloadConf(conf with another source template),
// an instance failure and the retry that follows it. The injected instance records what every
// Run receives: RunParams.ResolvedSource and the template of RunParams.Conf.
// Records only: TLC decides (spec/misc/TraceTemplate.tla, kind "life").
//
// No sleeps and no timing margins: every operation ends at an event that must happen
//   Start  -> the instance's Run has begun (it reports its parameters)
//   Reload -> running: the instance received the configuration on RunParams.ReloadConf;
//             retrying (no instance alive): the handler's loop has stored it; stopped: synchronous
//   Fail   -> the instance's Run has returned its error
//   Retry  -> the next Run has begun (the handler's own retry pause, a constant, has to pass)
// A missing event is a harness failure after a generous limit, never a verdict.

import (
	"bufio"
	"encoding/json"
	"errors"
	"os"
	"runtime"
	"strconv"
	"strings"
	"sync"
	"testing"
	"time"

	"github.com/bluenviron/mediamtx/internal/conf"
	"github.com/bluenviron/mediamtx/internal/defs"
	"github.com/bluenviron/mediamtx/internal/logger"
	"github.com/bluenviron/mediamtx/internal/verifrt"
)

type vf42LifeOp struct {
	K string `json:"k"` // Start Stop Reload Fail Retry
	V string `json:"v"` // Start: query; Reload: source template
}

type vf42LifeScript struct {
	ID   int          `json:"id"`
	Src  string       `json:"src"` // tlc | random
	T0   string       `json:"t0"`
	G    []string     `json:"g"`
	Path string       `json:"path"`
	Ops  []vf42LifeOp `json:"ops"`
}

type vf42LifeRun struct {
	Resolved string `json:"resolved"`
	Conf     string `json:"conf"`
}

type vf42LifeEv struct {
	kind string // run | reload | returned
	run  vf42LifeRun
	conf *conf.Path
}

type vf42LifeInst struct {
	ev   chan vf42LifeEv
	fail chan struct{}
}

func (*vf42LifeInst) Log(logger.Level, string, ...any) {}

func (*vf42LifeInst) APISourceDescribe() *defs.APIPathSource { return &defs.APIPathSource{} }

func (i *vf42LifeInst) Run(p defs.StaticSourceRunParams) error {
	src := ""
	if p.Conf != nil {
		src = p.Conf.Source
	}
	i.ev <- vf42LifeEv{kind: "run", run: vf42LifeRun{Resolved: p.ResolvedSource, Conf: src}}
	for {
		select {
		case c := <-p.ReloadConf:
			i.ev <- vf42LifeEv{kind: "reload", conf: c}
		case <-i.fail:
			i.ev <- vf42LifeEv{kind: "returned"}
			return errors.New("verif: scripted failure")
		case <-p.Context.Done():
			return errors.New("terminated")
		}
	}
}

var (
	vf42LifeInsts    sync.Map // *Handler -> *vf42LifeInst
	vf42LifeHookOnce sync.Once
)

func vf42LifeHook() {
	vf42LifeHookOnce.Do(func() {
		prev := VerifNewInstance
		VerifNewInstance = func(h *Handler) VerifStaticSource {
			if i, ok := vf42LifeInsts.Load(h); ok {
				return i.(*vf42LifeInst)
			}
			if prev != nil {
				return prev(h)
			}
			return nil
		}
	})
}

const vf42LifeLimit = 180 * time.Second

// replays one script; returns the runs seen and a harness problem, if any
func vf42LifePlay(sc vf42LifeScript) ([]vf42LifeRun, string) {
	inst := &vf42LifeInst{ev: make(chan vf42LifeEv, 16), fail: make(chan struct{})}
	h := &Handler{
		Conf:    &conf.Path{Name: "vf42", Source: sc.T0, SourceOnDemand: true},
		Matches: vf42Matches(sc.Path, sc.G),
		Parent:  vf42Parent{},
	}
	vf42LifeInsts.Store(h, inst)
	defer vf42LifeInsts.Delete(h)
	h.Initialize()
	if h.instance != staticSource(inst) {
		return nil, "the hook did not inject the instance"
	}

	runs := []vf42LifeRun{}
	running, retrying := false, false
	wait := func(kind string) (vf42LifeEv, string) {
		tm := time.NewTimer(vf42LifeLimit)
		defer tm.Stop()
		for {
			select {
			case e := <-inst.ev:
				if e.kind == "run" {
					runs = append(runs, e.run)
				}
				if e.kind == kind {
					return e, ""
				}
				return e, "expected event " + kind + ", got " + e.kind
			case <-tm.C:
				return vf42LifeEv{}, "no " + kind + " event"
			}
		}
	}
	defer func() {
		if running {
			h.Stop("verif: end of script")
		}
	}()

	for n, op := range sc.Ops {
		at := "op " + strconv.Itoa(n) + " " + op.K + ": "
		switch op.K {
		case "Start":
			if running {
				return runs, at + "not enabled"
			}
			h.Start(true, op.V)
			running = true
			if _, p := wait("run"); p != "" {
				return runs, at + p
			}
		case "Stop":
			if !running {
				return runs, at + "not enabled"
			}
			h.Stop("verif")
			running, retrying = false, false
		case "Reload":
			nc := &conf.Path{Name: "vf42", Source: op.V, SourceOnDemand: true}
			h.ReloadConf(nc)
			switch {
			case running && !retrying:
				e, p := wait("reload")
				if p != "" {
					return runs, at + p
				}
				if e.conf != nc {
					return runs, at + "the instance received another configuration"
				}
			case running && retrying:
				// no instance is alive; the handler's loop stores the configuration (in-package read,
				// an event that must happen: the delivery goroutine is already started)
				deadline := time.Now().Add(vf42LifeLimit)
				for h.Conf != nc {
					if time.Now().After(deadline) {
						return runs, at + "the handler never stored the configuration"
					}
					runtime.Gosched()
				}
			}
		case "Fail":
			if !running || retrying {
				return runs, at + "not enabled"
			}
			select {
			case inst.fail <- struct{}{}:
			case <-time.After(vf42LifeLimit):
				return runs, at + "the instance does not listen"
			}
			if _, p := wait("returned"); p != "" {
				return runs, at + p
			}
			retrying = true
		case "Retry":
			if !running || !retrying {
				return runs, at + "not enabled"
			}
			if _, p := wait("run"); p != "" {
				return runs, at + p
			}
			retrying = false
		default:
			return runs, at + "unknown operation"
		}
	}
	return runs, ""
}

// scripts of TemplateLife.tla ($VERIF_LIFE) and random scripts, all replayed concurrently (every
// Retry waits for the handler's own retry pause), records to $VERIF_OUT3.
func TestVerif_C42_Life(t *testing.T) {
	out := verifrt.NewOutFile(t, os.Getenv("VERIF_OUT3"))
	defer out.Close()
	vf42LifeHook()

	var scripts []vf42LifeScript
	f, err := os.Open(os.Getenv("VERIF_LIFE"))
	if err != nil {
		t.Fatalf("verif: %v", err)
	}
	scn := bufio.NewScanner(f)
	scn.Buffer(make([]byte, 1<<20), 1<<26)
	for scn.Scan() {
		if len(scn.Bytes()) == 0 {
			continue
		}
		var sc vf42LifeScript
		if err = json.Unmarshal(scn.Bytes(), &sc); err != nil {
			t.Fatalf("verif: %v", err)
		}
		sc.Src = "tlc"
		scripts = append(scripts, sc)
	}
	f.Close()

	// random scripts: other templates, group counts, queries (also with '$'), longer sequences
	rnd := verifrt.Rand(4207)
	nrand := verifrt.Param("RLIFE", 300)
	maxFails := verifrt.Param("RFAILS", 1)
	pieces := []string{"rtsp://", "host", ":8554", "/", "?", "&", "x", "1", "0", "$G1", "$G2", "$G10", "$G3", "$MTX_QUERY",
		"$MTX_QUERY", "$MTX_QUERY", "$", "q="}
	vals := []string{"", "a", "main", "0", "12", "G1", "k_v", "cam-1", "x.y"}
	queries := []string{"", "k=1", "token=first", "token=second", "a=$G1", "$MTX_QUERY", "u=1&v=$G2", "0", "x"}
	randTmpl := func() string {
		var sb strings.Builder
		sb.WriteString("rtsp://h")
		for i, k := 0, 1+rnd.IntN(5); i < k; i++ {
			sb.WriteString(pieces[rnd.IntN(len(pieces))])
		}
		return sb.String()
	}
	for r := 0; r < nrand; r++ {
		sc := vf42LifeScript{ID: 1000000 + r, Src: "random", T0: randTmpl(), Path: "cam_" + strconv.Itoa(rnd.IntN(100))}
		sc.G = make([]string, []int{0, 1, 2, 3, 10}[rnd.IntN(5)])
		for i := range sc.G {
			sc.G[i] = vals[rnd.IntN(len(vals))]
		}
		running, retrying, fails := false, false, 0
		for n, k := 0, 3+rnd.IntN(6); n < k; n++ {
			var cand []vf42LifeOp
			if !running {
				cand = append(cand, vf42LifeOp{K: "Start", V: queries[rnd.IntN(len(queries))]},
					vf42LifeOp{K: "Start", V: queries[rnd.IntN(len(queries))]})
			} else {
				cand = append(cand, vf42LifeOp{K: "Stop"})
				if retrying {
					cand = append(cand, vf42LifeOp{K: "Retry"}, vf42LifeOp{K: "Retry"})
				} else if fails < maxFails {
					cand = append(cand, vf42LifeOp{K: "Fail"})
				}
			}
			cand = append(cand, vf42LifeOp{K: "Reload", V: randTmpl()})
			op := cand[rnd.IntN(len(cand))]
			switch op.K {
			case "Start":
				running = true
			case "Stop":
				running, retrying = false, false
			case "Fail":
				retrying = true
				fails++
			case "Retry":
				retrying = false
			}
			sc.Ops = append(sc.Ops, op)
		}
		scripts = append(scripts, sc)
	}

	type res struct {
		runs    []vf42LifeRun
		problem string
	}
	results := make([]res, len(scripts))
	var wg sync.WaitGroup
	for i := range scripts {
		wg.Add(1)
		go func(i int) {
			defer wg.Done()
			panicked, msg := verifrt.Catch(func() {
				results[i].runs, results[i].problem = vf42LifePlay(scripts[i])
			})
			if panicked {
				results[i].problem = "panic: " + msg
			}
		}(i)
	}
	wg.Wait()
	for i, sc := range scripts {
		if results[i].problem != "" {
			t.Errorf("verif: script %d (%s) %v: %s", sc.ID, sc.Src, sc.Ops, results[i].problem)
			continue
		}
		out.Emit(map[string]any{"id": sc.ID, "src": sc.Src, "t0": sc.T0, "g": sc.G, "path": sc.Path,
			"ops": sc.Ops, "runs": results[i].runs})
	}
}
