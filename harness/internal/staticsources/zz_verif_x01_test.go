package staticsources

// Verification harness for X01 (static source handler). Injected by /verif through -overlay.
// Replays scripts (walks of spec/core/StaticSource.tla) on the REAL Handler with
//   - a scripted source instance (injected through the verif hook VerifNewInstance): its Run
//     listens on RunParams.ReloadConf and Context like the real sources do, and on a command
//     channel through which the script makes it call SetReady / SetNotReady or return an error;
//   - a parent that behaves like core/path.go: it accepts a request while it is "in its loop"
//     (not inside Stop, not held busy by the script) and answers "terminated" once the context
//     the handler passed is done;
// and records every event an outside observer sees (caller, instance, parent side), in one
// linear order per handler. Records only: TLC decides (spec/core/TraceStaticSource.tla).
//
// Real time: the only timer of the component is the retry pause (a const). Everything else is
// driven without sleeping: "settled" means that every goroutine that belongs to the handler under
// test is parked on a channel (nothing can move without a new call or the retry timer). That is
// read from runtime.Stack: every walk runs under a pprof label which the goroutines started by
// the handler inherit (GODEBUG=tracebacklabels=1 prints it next to the goroutine state).

import (
	"context"
	"encoding/json"
	"errors"
	"regexp"
	"runtime"
	"runtime/pprof"
	"sort"
	"strconv"
	"strings"
	"sync"
	"sync/atomic"
	"testing"
	"time"

	"github.com/bluenviron/gortsplib/v5/pkg/description"

	"github.com/bluenviron/mediamtx/internal/conf"
	"github.com/bluenviron/mediamtx/internal/defs"
	"github.com/bluenviron/mediamtx/internal/logger"
	"github.com/bluenviron/mediamtx/internal/verifrt"
)

type vfx01Op struct {
	K    string `json:"k"`    // Start Stop Reload Hold Release Issue Error Timer
	Kind string `json:"kind"` // Issue: ready | notready
}

type vfx01Script struct {
	Walk int      `json:"walk"`
	Mode string   `json:"mode"` // settle | burst
	Src  string   `json:"src"`
	P1   bool     `json:"p1"` // also replayed with GOMAXPROCS=1
	Ops  []vfx01Op `json:"ops"`
}

type vfx01Ev struct {
	E    string `json:"e"`
	Kind string `json:"kind"`
	Run  int    `json:"run"`
	Req  int    `json:"req"`
	V    int    `json:"v"`
	Live bool   `json:"live"`
	Ok   bool   `json:"ok"`
	Q    int    `json:"q"`
	T    int    `json:"t"` // ms since the walk began (monotonic)
	Pend int    `json:"pend"`
}

type vfx01Rec struct {
	Walk    int       `json:"walk"`
	Mode    string    `json:"mode"`
	Src     string    `json:"src"`
	Procs   int       `json:"procs"`
	Ops     []vfx01Op `json:"ops"`
	Done    int       `json:"done"` // number of ops carried out (or skipped as not applicable)
	Skipped []int     `json:"skipped"`
	Ev      []vfx01Ev `json:"ev"`
	Notes   []string  `json:"notes"`
	Ms      int       `json:"ms"`
}

// ---------------------------------------------------------------- goroutine snapshots

type vfx01GS struct {
	busy, deliv, fwd, spawnSend, loopSel, loopParent, loopWait, instSel, instCall, stopWait, other int
}

func (g *vfx01GS) pend() int {
	return g.busy + g.deliv + g.fwd + g.spawnSend + g.loopParent + g.loopWait + g.instCall + g.stopWait + g.other
}

type vfx01Snap struct {
	at time.Time
	by map[int]*vfx01GS
}

var (
	vfx01SnapMu   sync.Mutex
	vfx01SnapLast *vfx01Snap
	vfx01SnapBuf  = make([]byte, 1<<22)
	vfx01Snaps    atomic.Int64

	vfx01HdrRe   = regexp.MustCompile(`^goroutine \d+ \[([^\]]*)\]:$`)
	vfx01LabelRe = regexp.MustCompile(`"vfx01":\s*"(\d+)"`)
)

const vfx01Pkg = "internal/staticsources."

func vfx01Parse(dump string) map[int]*vfx01GS {
	out := map[int]*vfx01GS{}
	for _, blk := range strings.Split(dump, "\n\n") {
		lines := strings.Split(strings.TrimSpace(blk), "\n")
		if len(lines) == 0 {
			continue
		}
		m := vfx01HdrRe.FindStringSubmatch(lines[0])
		if m == nil {
			continue
		}
		lm := vfx01LabelRe.FindStringSubmatch(m[1])
		if lm == nil {
			continue
		}
		id, _ := strconv.Atoi(lm[1])
		state := m[1]
		if i := strings.Index(state, " labels:"); i >= 0 {
			state = state[:i]
		}
		if i := strings.Index(state, ","); i >= 0 {
			state = state[:i]
		}
		state = strings.TrimSpace(state)
		var fns []string
		for _, l := range lines[1:] {
			if strings.HasPrefix(l, "\t") || strings.HasPrefix(l, "created by ") {
				continue
			}
			if i := strings.LastIndex(l, "("); i > 0 {
				l = l[:i]
			}
			fns = append(fns, l)
		}
		has := func(sub string) bool {
			for _, f := range fns {
				if strings.Contains(f, sub) {
					return true
				}
			}
			return false
		}
		walker := false
		for _, f := range fns {
			if strings.HasSuffix(f, ".vfx01RunWalk") {
				walker = true
			}
		}
		if walker {
			continue // the walker itself (closures it starts as goroutines do not have this frame)
		}
		g := out[id]
		if g == nil {
			g = &vfx01GS{}
			out[id] = g
		}
		parked := state == "select" || state == "chan send" || state == "chan receive" || state == "select (no cases)"
		top := ""
		if len(fns) > 0 {
			top = fns[0]
		}
		bottom := ""
		if len(fns) > 0 {
			bottom = fns[len(fns)-1]
		}
		switch {
		case !parked:
			g.busy++
		case has(vfx01Pkg + "(*Handler).Stop"):
			g.stopWait++
		case has(vfx01Pkg + "(*Handler).ReloadConf.func"):
			g.deliv++
		case has("vfx01Inst).Run"):
			if strings.HasSuffix(top, "vfx01Inst).Run") && state == "select" {
				g.instSel++
			} else {
				g.instCall++
			}
		case strings.HasSuffix(bottom, vfx01Pkg+"(*Handler).run"):
			switch {
			case has("vfx01World).StaticSourceHandler"):
				g.loopParent++
			case strings.HasSuffix(top, "(*Handler).run") && state == "select":
				g.loopSel++
			default:
				g.loopWait++
			}
		case has(vfx01Pkg + "(*Handler).run.func"):
			if state == "select" {
				g.fwd++
			} else {
				g.spawnSend++
			}
		default:
			g.other++
		}
	}
	return out
}

// a snapshot taken after `after`
func vfx01Snapshot(after time.Time) *vfx01Snap {
	vfx01SnapMu.Lock()
	defer vfx01SnapMu.Unlock()
	if vfx01SnapLast != nil && vfx01SnapLast.at.After(after) {
		return vfx01SnapLast
	}
	at := time.Now()
	for {
		n := runtime.Stack(vfx01SnapBuf, true)
		if n < len(vfx01SnapBuf) {
			vfx01SnapLast = &vfx01Snap{at: at, by: vfx01Parse(string(vfx01SnapBuf[:n]))}
			break
		}
		vfx01SnapBuf = make([]byte, 2*len(vfx01SnapBuf))
		at = time.Now()
	}
	vfx01Snaps.Add(1)
	return vfx01SnapLast
}

// ---------------------------------------------------------------- heartbeat (is this process responsive?)

var (
	vfx01HbMu   sync.Mutex
	vfx01HbGaps []vfx01Gap
)

type vfx01Gap struct {
	at  time.Time
	gap time.Duration
}

func vfx01Heartbeat(stop chan struct{}) {
	last := time.Now()
	for {
		select {
		case <-stop:
			return
		default:
		}
		time.Sleep(10 * time.Millisecond)
		now := time.Now()
		if g := now.Sub(last); g > 150*time.Millisecond {
			vfx01HbMu.Lock()
			vfx01HbGaps = append(vfx01HbGaps, vfx01Gap{now, g})
			vfx01HbMu.Unlock()
		}
		last = now
	}
}

func vfx01Responsive(since time.Time) bool {
	vfx01HbMu.Lock()
	defer vfx01HbMu.Unlock()
	for _, g := range vfx01HbGaps {
		if g.at.After(since) {
			return false
		}
	}
	return true
}

// ---------------------------------------------------------------- the world of one walk

type vfx01Run struct {
	id    int
	cmd   chan string
	ended chan struct{}
	endAt time.Time
	why   string
}

type vfx01World struct {
	id    int
	t0    time.Time
	pause time.Duration
	grace time.Duration

	mu       sync.Mutex
	ev       []vfx01Ev
	h        *Handler
	vers     map[*conf.Path]int
	handed   int
	stopping bool
	hold     bool
	wake     chan struct{}
	runSeq   int
	cur      *vfx01Run // the Run in progress that began last
	inCall   bool      // the instance is inside SetReady / SetNotReady
	reqSeq   int
	curReq   int
	descs    map[*description.Session]int
	sess     int
	started  bool
	notes    []string
}

func (w *vfx01World) logL(e vfx01Ev) {
	e.T = int(time.Since(w.t0) / time.Millisecond)
	w.ev = append(w.ev, e)
}

func (w *vfx01World) log(e vfx01Ev) {
	w.mu.Lock()
	w.logL(e)
	w.mu.Unlock()
}

func (w *vfx01World) note(s string) {
	w.mu.Lock()
	w.notes = append(w.notes, s)
	w.mu.Unlock()
}

// Log implements logger.Writer (the handler logs through its parent).
func (w *vfx01World) Log(logger.Level, string, ...any) {}

func (w *vfx01World) parentCall(ctx context.Context, kind string, req int, answer func(ok bool)) {
	w.mu.Lock()
	w.logL(vfx01Ev{E: "PCall", Kind: kind, Req: req, Live: ctx.Err() == nil})
	for {
		if ctx.Err() != nil {
			w.logL(vfx01Ev{E: "PAns", Kind: kind, Req: req, Ok: false})
			w.mu.Unlock()
			answer(false)
			return
		}
		if !w.stopping && !w.hold {
			w.logL(vfx01Ev{E: "PAns", Kind: kind, Req: req, Ok: true})
			w.mu.Unlock()
			answer(true)
			return
		}
		ch := w.wake
		w.mu.Unlock()
		select {
		case <-ch:
		case <-ctx.Done():
		}
		w.mu.Lock()
	}
}

// StaticSourceHandlerSetReady implements handlerParent.
func (w *vfx01World) StaticSourceHandlerSetReady(ctx context.Context, req defs.PathSourceStaticSetReadyReq) {
	w.mu.Lock()
	id, ok := w.descs[req.Desc]
	if !ok {
		id = -1
	}
	w.mu.Unlock()
	w.parentCall(ctx, "ready", id, func(ok bool) {
		// like the path: the answer comes from the parent's own goroutine, later
		go func() {
			if ok {
				req.Res <- defs.PathSourceStaticSetReadyRes{}
			} else {
				req.Res <- defs.PathSourceStaticSetReadyRes{Err: errors.New("terminated")}
			}
		}()
	})
}

// StaticSourceHandlerSetNotReady implements handlerParent.
func (w *vfx01World) StaticSourceHandlerSetNotReady(ctx context.Context, req defs.PathSourceStaticSetNotReadyReq) {
	w.parentCall(ctx, "notready", 0, func(bool) {
		close(req.Res)
	})
}

func (w *vfx01World) wakeL() {
	close(w.wake)
	w.wake = make(chan struct{})
}

// ---- the scripted instance

type vfx01Inst struct{ w *vfx01World }

func (i *vfx01Inst) Log(logger.Level, string, ...any) {}

func (i *vfx01Inst) APISourceDescribe() *defs.APIPathSource { return &defs.APIPathSource{Type: "vfx01"} }

func (i *vfx01Inst) Run(p defs.StaticSourceRunParams) error {
	w := i.w
	r := &vfx01Run{cmd: make(chan string), ended: make(chan struct{})}
	live := p.Context.Err() == nil
	q := -1
	if k := strings.LastIndex(p.ResolvedSource, "s="); k >= 0 {
		if n, err := strconv.Atoi(p.ResolvedSource[k+2:]); err == nil {
			q = n
		}
	}
	w.mu.Lock()
	w.runSeq++
	r.id = w.runSeq
	v, ok := w.vers[p.Conf]
	if !ok {
		v = -1
	}
	w.cur = r
	w.logL(vfx01Ev{E: "RunBegin", Run: r.id, V: v, Live: live, Q: q})
	w.mu.Unlock()

	end := func(why string) {
		w.mu.Lock()
		r.endAt = time.Now()
		r.why = why
		w.logL(vfx01Ev{E: "RunEnd", Kind: why, Run: r.id})
		close(r.ended)
		w.mu.Unlock()
	}
	for {
		select {
		case c := <-r.cmd:
			switch c {
			case "error":
				end("error")
				return errors.New("vfx01: scripted failure")
			case "ready":
				d := &description.Session{}
				w.mu.Lock()
				w.reqSeq++
				id := w.reqSeq
				w.descs[d] = id
				w.inCall = true
				w.logL(vfx01Ev{E: "Issue", Kind: "ready", Run: r.id, Req: id})
				w.mu.Unlock()
				res := w.h.SetReady(defs.PathSourceStaticSetReadyReq{Desc: d})
				w.mu.Lock()
				w.inCall = false
				w.logL(vfx01Ev{E: "Ret", Kind: "ready", Run: r.id, Req: id, Ok: res.Err == nil})
				w.mu.Unlock()
			case "notready":
				w.mu.Lock()
				w.reqSeq++
				id := w.reqSeq
				w.inCall = true
				w.logL(vfx01Ev{E: "Issue", Kind: "notready", Run: r.id, Req: id})
				w.mu.Unlock()
				w.h.SetNotReady(defs.PathSourceStaticSetNotReadyReq{})
				w.mu.Lock()
				w.inCall = false
				w.logL(vfx01Ev{E: "Ret", Kind: "notready", Run: r.id, Req: id, Ok: true})
				w.mu.Unlock()
			}
		case cnf := <-p.ReloadConf:
			w.mu.Lock()
			v, ok := w.vers[cnf]
			if !ok {
				v = -1
			}
			w.logL(vfx01Ev{E: "Told", Run: r.id, V: v})
			w.mu.Unlock()
		case <-p.Context.Done():
			end("cancel")
			return nil
		}
	}
}

var (
	vfx01Worlds   sync.Map // *Handler -> *vfx01World
	vfx01HookOnce sync.Once
)

func vfx01Hook() {
	vfx01HookOnce.Do(func() {
		VerifNewInstance = func(h *Handler) VerifStaticSource {
			if w, ok := vfx01Worlds.Load(h); ok {
				return &vfx01Inst{w: w.(*vfx01World)}
			}
			return nil
		}
	})
}

// ---- the walker (plays the path goroutine and the script)

func (w *vfx01World) newConf() *conf.Path {
	return &conf.Path{Name: "vfx01", Source: "vfx01://src/$MTX_QUERY"}
}

// wait until every goroutine of this handler is parked; returns what is left pending
func (w *vfx01World) settle(limit time.Duration) (*vfx01GS, bool) {
	deadline := time.Now().Add(limit)
	for {
		s := vfx01Snapshot(time.Now())
		g := s.by[w.id]
		if g == nil {
			g = &vfx01GS{}
		}
		if g.busy == 0 {
			return g, true
		}
		if time.Now().After(deadline) {
			return g, false
		}
		time.Sleep(200 * time.Microsecond)
	}
}

func (w *vfx01World) quiet() {
	g, ok := w.settle(5 * time.Second)
	if !ok {
		w.note("not settled within 5 s")
	}
	w.log(vfx01Ev{E: "Quiet", Pend: g.pend()})
}

// the Run in progress, if it sits in its select
func (w *vfx01World) idleRun() *vfx01Run {
	w.mu.Lock()
	defer w.mu.Unlock()
	if w.cur == nil || w.inCall {
		return nil
	}
	select {
	case <-w.cur.ended:
		return nil
	default:
	}
	return w.cur
}

func (w *vfx01World) lastRun() *vfx01Run {
	w.mu.Lock()
	defer w.mu.Unlock()
	return w.cur
}

func (w *vfx01World) runCount() int {
	w.mu.Lock()
	defer w.mu.Unlock()
	return w.runSeq
}

// wait for a Run to begin (beyond `have`); gives up when the handler is parked without one
func (w *vfx01World) awaitRun(have int, timer bool) bool {
	if timer {
		// a restart after the retry pause: measured against a reference clock started when the
		// previous Run ended, plus a grace period during which this process must be responsive
		r := w.lastRun()
		from := time.Now()
		if r != nil && !r.endAt.IsZero() {
			from = r.endAt
		}
		deadline := from.Add(w.pause + w.grace)
		for time.Now().Before(deadline) {
			if w.runCount() > have {
				return true
			}
			time.Sleep(time.Millisecond)
		}
		if w.runCount() > have {
			return true
		}
		w.log(vfx01Ev{E: "Grace", Ok: vfx01Responsive(from)})
		return false
	}
	for {
		if w.runCount() > have {
			return true
		}
		g, ok := w.settle(5 * time.Second)
		if w.runCount() > have {
			return true
		}
		if ok && g.busy == 0 {
			return false
		}
		if !ok {
			w.note("awaitRun: not settled")
			return false
		}
	}
}

func vfx01RunWalk(sc vfx01Script, pause, grace time.Duration) vfx01Rec {
	w := &vfx01World{
		id: sc.Walk, t0: time.Now(), pause: pause, grace: grace,
		vers: map[*conf.Path]int{}, descs: map[*description.Session]int{}, wake: make(chan struct{}),
	}
	rec := vfx01Rec{Walk: sc.Walk, Mode: sc.Mode, Src: sc.Src, Ops: sc.Ops, Procs: runtime.GOMAXPROCS(0), Skipped: []int{}, Notes: []string{}}
	c0 := w.newConf()
	w.vers[c0] = 0
	h := &Handler{Conf: c0, Parent: w}
	w.h = h
	vfx01Worlds.Store(h, w)
	defer vfx01Worlds.Delete(h)
	h.Initialize()
	w.log(vfx01Ev{E: "Init", V: 0})
	settle := sc.Mode == "settle"
	hung := false

	stop := func() bool {
		w.mu.Lock()
		w.stopping = true
		w.started = false
		w.logL(vfx01Ev{E: "Stop"})
		w.mu.Unlock()
		done := make(chan struct{}, 1)
		go func() {
			h.Stop("vfx01")
			done <- struct{}{}
		}()
		for {
			select {
			case <-done:
				w.mu.Lock()
				w.stopping = false
				w.logL(vfx01Ev{E: "StopRet"})
				w.wakeL()
				w.mu.Unlock()
				return true
			case <-time.After(2 * time.Millisecond):
			}
			g, ok := w.settle(10 * time.Second)
			if ok && g.busy == 0 {
				select {
				case <-done:
					w.mu.Lock()
					w.stopping = false
					w.logL(vfx01Ev{E: "StopRet"})
					w.wakeL()
					w.mu.Unlock()
					return true
				default:
				}
				// every goroutine of the handler, Stop included, is parked on a channel: a deadlock
				w.log(vfx01Ev{E: "StopHang", Pend: g.pend()})
				return false
			}
		}
	}

	for i, op := range sc.Ops {
		if hung {
			break
		}
		if settle {
			w.quiet()
		}
		skipped := false
		switch op.K {
		case "Start":
			if w.started {
				skipped = true
				break
			}
			w.mu.Lock()
			w.sess++
			w.started = true
			s := w.sess
			w.logL(vfx01Ev{E: "Start", Q: s})
			w.mu.Unlock()
			have := w.runCount()
			h.Start(true, "s="+strconv.Itoa(s))
			if settle {
				if !w.awaitRun(have, false) {
					// the handler is parked and no Run has begun
					w.log(vfx01Ev{E: "Grace", Ok: true})
				}
			}
		case "Stop":
			if !w.started {
				skipped = true
				break
			}
			if !stop() {
				hung = true
			}
		case "Reload":
			c := w.newConf()
			w.mu.Lock()
			w.handed++
			w.vers[c] = w.handed
			w.logL(vfx01Ev{E: "Reload", V: w.handed})
			w.mu.Unlock()
			h.ReloadConf(c)
		case "Hold":
			w.mu.Lock()
			if w.hold {
				skipped = true
			} else {
				w.hold = true
				w.logL(vfx01Ev{E: "Hold"})
			}
			w.mu.Unlock()
		case "Release":
			w.mu.Lock()
			if !w.hold {
				skipped = true
			} else {
				w.hold = false
				w.logL(vfx01Ev{E: "Release"})
				w.wakeL()
			}
			w.mu.Unlock()
		case "Issue", "Error":
			r := w.idleRun()
			if r == nil && w.started {
				// burst mode: the Run may not have begun yet
				w.mu.Lock()
				busy := w.inCall
				have := w.runSeq
				if w.cur != nil {
					select {
					case <-w.cur.ended:
					default:
						have = w.runSeq - 1
					}
				}
				w.mu.Unlock()
				if !busy {
					w.awaitRun(have, false)
					r = w.idleRun()
				}
			}
			if r == nil {
				skipped = true
				break
			}
			c := op.Kind
			if op.K == "Error" {
				c = "error"
			}
			if op.K == "Issue" {
				// from now on the instance is busy with the call (cleared when the call returns)
				w.mu.Lock()
				w.inCall = true
				w.mu.Unlock()
			}
			select {
			case r.cmd <- c:
			case <-r.ended:
				skipped = true
			case <-time.After(10 * time.Second):
				skipped = true
				w.note("instance did not take the command " + c)
			}
			if skipped && op.K == "Issue" {
				w.mu.Lock()
				w.inCall = false
				w.mu.Unlock()
			}
			if op.K == "Error" && !skipped {
				<-r.ended
			}
		case "Timer":
			r := w.lastRun()
			if r == nil || !w.started {
				skipped = true
				break
			}
			select {
			case <-r.ended:
			default:
				skipped = true
			}
			if skipped || r.why != "error" {
				skipped = true
				break
			}
			w.awaitRun(r.id, true)
		default:
			w.note("unknown op " + op.K)
		}
		if skipped {
			rec.Skipped = append(rec.Skipped, i)
		}
		rec.Done = i + 1
	}
	if !hung {
		w.mu.Lock()
		if w.hold {
			w.hold = false
			w.logL(vfx01Ev{E: "Release"})
			w.wakeL()
		}
		w.mu.Unlock()
		w.quiet()
		if w.started {
			if stop() {
				w.quiet()
			}
		}
	}
	w.mu.Lock()
	rec.Ev = append([]vfx01Ev{}, w.ev...)
	rec.Notes = append(rec.Notes, w.notes...)
	w.mu.Unlock()
	rec.Ms = int(time.Since(w.t0) / time.Millisecond)
	return rec
}

// TestVerif_X01_Replay replays every script of VERIF_CASES; walks run concurrently (each one on
// its own Handler) because a walk that contains a retry pause takes the pause in real time.
func TestVerif_X01_Replay(t *testing.T) {
	var scripts []vfx01Script
	verifrt.ForEachCase(t, func(raw []byte) {
		var s vfx01Script
		verifrt.Decode(t, raw, &s)
		if runtime.GOMAXPROCS(0) > 1 || s.P1 {
			scripts = append(scripts, s)
		}
	})
	procs := runtime.GOMAXPROCS(0)
	if verifrt.ParamS("OUTBASE", "") == "" {
		t.Skip("VERIF_P_OUTBASE not set: this test is driven by /verif/check")
	}
	out := verifrt.NewOutFile(t, verifrt.ParamS("OUTBASE", "")+"."+strconv.Itoa(procs))
	defer out.Close()
	vfx01Hook()

	// the goroutine dump must show the labels
	probe := make(chan struct{})
	pprof.Do(context.Background(), pprof.Labels("vfx01", "0"), func(context.Context) {
		go func() { <-probe }()
	})
	time.Sleep(5 * time.Millisecond)
	s := vfx01Snapshot(time.Now())
	close(probe)
	if g := s.by[0]; g == nil || g.other+g.busy != 1 {
		t.Fatalf("goroutine labels are not visible in runtime.Stack (GODEBUG=tracebacklabels=1 required)")
	}

	pause := time.Duration(verifrt.Param("PAUSE_MS", 5000)) * time.Millisecond
	grace := time.Duration(verifrt.Param("GRACE_MS", 3000)) * time.Millisecond
	hb := make(chan struct{})
	go vfx01Heartbeat(hb)
	defer close(hb)

	// walks with a retry pause first
	cost := func(s vfx01Script) int {
		n := 0
		for _, o := range s.Ops {
			if o.K == "Timer" {
				n++
			}
		}
		return n
	}
	sort.SliceStable(scripts, func(a, b int) bool { return cost(scripts[a]) > cost(scripts[b]) })
	sem := make(chan struct{}, verifrt.Param("PAR", 400))
	var wg sync.WaitGroup
	for _, sc := range scripts {
		sc := sc
		sem <- struct{}{}
		wg.Add(1)
		go func() {
			defer wg.Done()
			defer func() { <-sem }()
			var rec vfx01Rec
			pprof.Do(context.Background(), pprof.Labels("vfx01", strconv.Itoa(sc.Walk)), func(context.Context) {
				rec = vfx01RunWalk(sc, pause, grace)
			})
			out.Emit(rec)
		}()
	}
	wg.Wait()
	b, _ := json.Marshal(map[string]any{"snapshots": vfx01Snaps.Load(), "walks": len(scripts), "procs": procs})
	t.Logf("vfx01 %s", b)
}
