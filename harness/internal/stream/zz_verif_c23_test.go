package stream

// Verification harness for C23 (RTP re-packetization is size-bounded and lossless). Injected by
// /verif through -overlay. Every run of spec/stream/RtpPack.tla is executed on the real code: a real
// Stream / SubStream of one format, units written through subStreamFormat.writeUnitInner (which uses
// newRTPEncoder), the generated packets depacketized with newRTPDecoder. The test records; TLC
// decides (spec/stream/TraceRtpPack.tla).

import (
	"fmt"
	"hash/crc32"
	"strconv"
	"strings"
	"sync"
	"testing"
	"time"

	"github.com/bluenviron/gortsplib/v5/pkg/description"
	"github.com/bluenviron/gortsplib/v5/pkg/format"
	"github.com/bluenviron/mediacommon/v2/pkg/codecs/ac3"
	"github.com/bluenviron/mediacommon/v2/pkg/codecs/mpeg4audio"
	"github.com/pion/rtp"

	"github.com/bluenviron/mediamtx/internal/conf"
	"github.com/bluenviron/mediamtx/internal/logger"
	"github.com/bluenviron/mediamtx/internal/unit"
	"github.com/bluenviron/mediamtx/internal/verifrt"
)

type vf23Log struct{}

func (vf23Log) Log(logger.Level, string, ...any) {}

type vf23UnitCase struct {
	Class string `json:"class"`
	N     int    `json:"n"`
	Size  int    `json:"size"`
	Pub   int    `json:"pub"` // RTP branches: the maximum payload size of the publisher's packetizer for this frame
}

// vf23Emit is what one call of writeUnitInner handed to the output (RTSP stream and readers).
type vf23Emit struct {
	Unit    int       `json:"unit"`   // index of the case unit the call belongs to
	Active  bool      `json:"active"` // the format's RTP encoder existed after the call
	NilP    bool      `json:"nilp"`   // the unit left with no payload
	Uniform bool      `json:"uniform"`
	Pkts    []vf23Pkt `json:"pkts"`
}

type vf23Pkt struct {
	Len   int    `json:"len"`
	Seq   int    `json:"seq"`
	TsOff string `json:"tsoff"`
}

type vf23Sig struct {
	Len int `json:"len"`
	Sum int `json:"sum"`
}

type vf23Unit struct {
	Class     string    `json:"class"`
	Sizes     []int     `json:"sizes"`
	PTS       string    `json:"pts"`
	Generated bool      `json:"generated"`
	Err       bool      `json:"err"`
	Msg       string    `json:"msg,omitempty"`
	Uniform   bool      `json:"uniform"`
	Pkts      []vf23Pkt `json:"pkts"`
	PSig      []vf23Sig `json:"psig"`
	DSig      []vf23Sig `json:"dsig"`
	DErrs     []string  `json:"derrs"` // errors of the depacketizer other than "more packets needed"
	InPkts    int       `json:"inPkts"` // RTP branches: number of packets the publisher sent for the frame
}

func vf23Format(codec, branch string) format.Format {
	switch codec {
	case "H264":
		mode := 1
		if branch == "remux" {
			mode = 0
		}
		return &format.H264{PayloadTyp: 96, PacketizationMode: mode}
	case "H265":
		return &format.H265{PayloadTyp: 96}
	case "AV1":
		return &format.AV1{PayloadTyp: 96}
	case "VP8":
		return &format.VP8{PayloadTyp: 96}
	case "VP9":
		return &format.VP9{PayloadTyp: 96}
	case "MPEG4Video":
		return &format.MPEG4Video{PayloadTyp: 96, Config: []byte{0x00, 0x00, 0x01, 0xb0, 0x01}}
	case "MPEG4Audio":
		return &format.MPEG4Audio{PayloadTyp: 96, SizeLength: 13, IndexLength: 3, IndexDeltaLength: 3,
			Config: &mpeg4audio.AudioSpecificConfig{Type: mpeg4audio.ObjectTypeAACLC, SampleRate: 48000,
				ChannelConfig: 2, ChannelCount: 2}}
	case "Opus":
		return &format.Opus{PayloadTyp: 96, ChannelCount: 2}
	case "G711":
		return &format.G711{MULaw: true, SampleRate: 8000, ChannelCount: 1}
	case "LPCM":
		return &format.LPCM{PayloadTyp: 96, BitDepth: 16, SampleRate: 48000, ChannelCount: 2}
	case "KLV":
		return &format.KLV{PayloadTyp: 96}
	case "AC3":
		return &format.AC3{PayloadTyp: 96, SampleRate: 48000, ChannelCount: 2}
	}
	panic("vf23: unknown codec " + codec)
}

// vf23AC3Frame returns a syntactically valid AC-3 syncframe whose size is the table entry closest to
// the requested one (frame sizes are fixed by frmsizecod).
func vf23AC3Frame(want int, seed byte) []byte {
	best, bestCod := -1, 0
	for cod := 0; cod < 38; cod++ {
		hdr := []byte{0x0b, 0x77, 0, 0, byte(cod), 0x40, 0x43, 0xe0}
		var si ac3.SyncInfo
		if err := si.Unmarshal(hdr); err != nil {
			continue
		}
		sz := si.FrameSize()
		if best < 0 || vf23Abs(sz-want) < vf23Abs(best-want) {
			best, bestCod = sz, cod
		}
	}
	f := make([]byte, best)
	copy(f, []byte{0x0b, 0x77, 0, 0, byte(bestCod), 0x40, 0x43, 0xe0})
	for i := 8; i < len(f); i++ {
		f[i] = seed + byte(i*13)
	}
	return f
}

func vf23Abs(x int) int {
	if x < 0 {
		return -x
	}
	return x
}

// vf23Elem builds one payload element of `size` bytes with a header the codec's packetizer accepts.
func vf23Elem(codec string, size int, seed byte) []byte {
	if codec == "AC3" {
		return vf23AC3Frame(size, seed)
	}
	if codec == "LPCM" {
		size -= size % 4 // whole 16-bit stereo samples
		if size == 0 {
			size = 4
		}
	}
	b := make([]byte, size)
	for i := range b {
		b[i] = seed + byte(i*7)
	}
	if codec == "KLV" && size >= 19 {
		// a well-formed KLV unit: 16-byte universal key, BER long-form length, value
		copy(b, []byte{0x06, 0x0e, 0x2b, 0x34, 0x02, 0x0b, 0x01, 0x01, 0x0e, 0x01, 0x03, 0x01, 0x01, 0x00, 0x00, 0x00})
		b[16] = 0x82
		b[17] = byte((size - 19) >> 8)
		b[18] = byte(size - 19)
		return b
	}
	var hdr []byte
	switch codec {
	case "H264":
		hdr = []byte{0x41} // non-IDR slice
	case "H265":
		hdr = []byte{0x02, 0x01} // TRAIL_R
	case "AV1":
		hdr = []byte{0x30} // OBU_FRAME, no size field
	case "VP9":
		hdr = []byte{0x82, 0x49, 0x83, 0x42, 0x00, 0x77, 0xf0, 0x32, 0x34}
	case "VP8":
		hdr = []byte{0x10, 0x02, 0x00, 0x9d, 0x01, 0x2a}
	case "Opus":
		hdr = []byte{0x78} // CELT, 20 ms, one frame
	}
	copy(b, hdr)
	return b
}

func vf23Payload(codec string, uc vf23UnitCase, seed byte) (unit.Payload, []int) {
	var elems [][]byte
	sizes := []int{}
	for i := 0; i < uc.N; i++ {
		e := vf23Elem(codec, uc.Size, seed+byte(i))
		if uc.Class == "aud" { // an access unit delimiter alone: stripped by the unit remuxer
			if codec == "H264" {
				e = []byte{0x09, 0xf0}
			} else {
				e = []byte{0x46, 0x01, 0x50}
			}
		}
		elems = append(elems, e)
		sizes = append(sizes, len(e))
	}
	switch codec {
	case "H264":
		return unit.PayloadH264(elems), sizes
	case "H265":
		return unit.PayloadH265(elems), sizes
	case "AV1":
		return unit.PayloadAV1(elems), sizes
	case "MPEG4Audio":
		return unit.PayloadMPEG4Audio(elems), sizes
	case "Opus":
		return unit.PayloadOpus(elems), sizes
	case "AC3":
		return unit.PayloadAC3(elems), sizes
	case "VP8":
		return unit.PayloadVP8(elems[0]), sizes
	case "VP9":
		return unit.PayloadVP9(elems[0]), sizes
	case "MPEG4Video":
		return unit.PayloadMPEG4Video(elems[0]), sizes
	case "G711":
		return unit.PayloadG711(elems[0]), sizes
	case "LPCM":
		return unit.PayloadLPCM(elems[0]), sizes
	case "KLV":
		return unit.PayloadKLV(elems[0]), sizes
	}
	panic("vf23: unknown codec " + codec)
}

// vf23Elems returns the elements of a payload; blob marks single-buffer payload types.
func vf23Elems(p unit.Payload) (elems [][]byte, blob bool) {
	switch p := p.(type) {
	case unit.PayloadH264:
		return p, false
	case unit.PayloadH265:
		return p, false
	case unit.PayloadAV1:
		return p, false
	case unit.PayloadMPEG4Audio:
		return p, false
	case unit.PayloadOpus:
		return p, false
	case unit.PayloadAC3:
		return p, false
	case unit.PayloadVP8:
		return [][]byte{p}, true
	case unit.PayloadVP9:
		return [][]byte{p}, true
	case unit.PayloadMPEG4Video:
		return [][]byte{p}, true
	case unit.PayloadG711:
		return [][]byte{p}, true
	case unit.PayloadLPCM:
		return [][]byte{p}, true
	case unit.PayloadKLV:
		return [][]byte{p}, true
	}
	return [][]byte{[]byte(fmt.Sprintf("%T", p))}, true
}

func vf23SigOf(elems [][]byte) []vf23Sig {
	out := []vf23Sig{}
	for _, e := range elems {
		out = append(out, vf23Sig{Len: len(e), Sum: int(crc32.ChecksumIEEE(e) >> 1)})
	}
	return out
}

func TestVerif_C23_Runs(t *testing.T) {
	out := verifrt.NewOut(t)
	defer out.Close()
	frameCodec := map[string]bool{"H264": true, "H265": true, "AV1": true, "VP8": true, "VP9": true,
		"MPEG4Video": true, "KLV": true}
	ptsBases := []int64{0, 90000 * 3600 * 30, 1<<32 - 4000, -9000, 1<<40 + 17}
	nrun := 0
	verifrt.ForEachCase(t, func(raw []byte) {
		var c struct {
			ID     int            `json:"id"`
			Codec  string         `json:"codec"`
			Branch string         `json:"branch"`
			M      int            `json:"m"`
			Units  []vf23UnitCase `json:"units"`
		}
		verifrt.Decode(t, raw, &c)
		nrun++
		forma := vf23Format(c.Codec, c.Branch)
		desc := &description.Session{Medias: []*description.Media{{
			Type: description.MediaTypeVideo, Formats: []format.Format{forma},
		}}}
		strm := &Stream{OrigDesc: desc, WriteQueueSize: 512, RTPMaxPayloadSize: c.M, Parent: vf23Log{}}
		if err := strm.Initialize(); err != nil {
			t.Fatalf("run %d: %v", c.ID, err)
		}
		defer strm.Close()
		ss := &SubStream{Stream: strm, UseRTPPackets: c.Branch != "nonrtp"}
		if err := ss.Initialize(); err != nil {
			t.Fatalf("run %d: %v", c.ID, err)
		}
		ssf := ss.medias[desc.Medias[0]].formats[forma]
		if ssf == nil {
			t.Fatalf("run %d: no subStreamFormat", c.ID)
		}
		// the publisher of the RTP branches: for every frame a packetizer of the same kind with the
		// frame's own maximum (case field pub) that continues the publisher's sequence numbers
		inOff := uint32(0x9abc0000 + nrun*7919)
		inSeq := uint16(65530)
		// the depacketizer that judges the generated packets
		dec, err := newRTPDecoder(ssf.streamFormat.outFormat)
		if err != nil {
			t.Fatalf("run %d: %v", c.ID, err)
		}
		// a second one that reads everything emitted while re-packetization is active as ONE stream
		dec2, err := newRTPDecoder(ssf.streamFormat.outFormat)
		if err != nil {
			t.Fatalf("run %d: %v", c.ID, err)
		}
		// observe what every call hands to the output (streamFormat.writeRTSP is a func field)
		origWriteRTSP := ssf.streamFormat.writeRTSP
		var lastOut []*rtp.Packet
		reached := false
		ssf.streamFormat.writeRTSP = func(pkts []*rtp.Packet, ntp time.Time) {
			lastOut, reached = pkts, true
			origWriteRTSP(pkts, ntp)
		}
		emits := []vf23Emit{}
		pel, del := [][]byte{}, [][]byte{}
		derrs2 := []string{}
		// call writes one unit and logs what left the format
		call := func(k int, pts int64, u *unit.Unit) (panicked bool, msg string, err error) {
			lastOut, reached = nil, false
			panicked, msg = verifrt.Catch(func() { err = ssf.writeUnitInner(u) })
			if panicked || err != nil || !reached {
				return
			}
			e := vf23Emit{Unit: k + 1, Active: ssf.streamFormat.rtpEncoder != nil, NilP: u.NilPayload(),
				Uniform: frameCodec[c.Codec], Pkts: []vf23Pkt{}}
			if !u.NilPayload() {
				el, _ := vf23Elems(u.Payload)
				if !frameCodec[c.Codec] && len(el) <= 1 && len(lastOut) <= 1 {
					e.Uniform = true
				}
				if e.Active {
					for _, x := range el {
						pel = append(pel, append([]byte{}, x...))
					}
				}
			}
			for _, pkt := range lastOut {
				e.Pkts = append(e.Pkts, vf23Pkt{Len: len(pkt.Payload), Seq: int(pkt.SequenceNumber),
					TsOff: strconv.FormatUint(uint64(pkt.Timestamp-uint32(pts)), 10)})
				if !e.Active {
					continue
				}
				var p unit.Payload
				var derr error
				pan, pmsg := verifrt.Catch(func() { p, derr = dec2.decode(pkt) })
				switch {
				case pan:
					derrs2 = append(derrs2, "panic: "+pmsg)
				case derr != nil:
					if !strings.Contains(derr.Error(), "more packets") {
						derrs2 = append(derrs2, derr.Error())
					}
				case p != nil:
					el, _ := vf23Elems(p)
					for _, x := range el { // copy: some depacketizers return their internal buffer
						del = append(del, append([]byte{}, x...))
					}
				}
			}
			emits = append(emits, e)
			return
		}

		pts := ptsBases[nrun%len(ptsBases)]
		units := []vf23Unit{}
		for k, uc := range c.Units {
			pts += 3000
			payload, sizes := vf23Payload(c.Codec, uc, byte(17*k+nrun))
			ou := vf23Unit{Class: uc.Class, Sizes: sizes, PTS: strconv.FormatInt(pts, 10),
				Uniform: frameCodec[c.Codec] || false, Pkts: []vf23Pkt{}, PSig: []vf23Sig{}, DSig: []vf23Sig{}, DErrs: []string{}}

			var delivered *unit.Unit
			if c.Branch == "nonrtp" {
				u := &unit.Unit{PTS: pts, Payload: payload}
				p, msg, err := call(k, pts, u)
				if p {
					ou.Err, ou.Msg = true, "panic: "+msg
				} else if err != nil {
					ou.Err, ou.Msg = true, err.Error()
				} else {
					delivered = u
					ou.Generated = ssf.streamFormat.rtpEncoder != nil
				}
			} else {
				inEnc, err2 := newRTPEncoder(ssf.streamFormat.outFormat, uc.Pub, new(uint32(0x11223344)), new(inSeq))
				if err2 != nil {
					t.Fatalf("run %d: %v", c.ID, err2)
				}
				inPkts, err2 := inEnc.encode(payload)
				if err2 != nil {
					ou.Err, ou.Msg = true, "publisher packetizer: "+err2.Error()
				}
				inSeq += uint16(len(inPkts))
				ou.InPkts = len(inPkts)
				for _, pkt := range inPkts {
					pkt.Timestamp += inOff + uint32(pts)
					u := &unit.Unit{PTS: pts, RTPPackets: []*rtp.Packet{pkt}}
					p, msg, err := call(k, pts, u)
					if p {
						ou.Err, ou.Msg = true, "panic: "+msg
						break
					}
					if err != nil {
						// e.g. the KLV depacketizer reports "need more packets" as an error for every
						// non-final fragment: keep feeding the publisher's packets
						ou.Err, ou.Msg = true, err.Error()
						continue
					}
					if !u.NilPayload() {
						delivered = u
						ou.Generated = ssf.streamFormat.rtpEncoder != nil
					}
				}
			}

			if delivered != nil && ou.Generated {
				elems, blob := vf23Elems(delivered.Payload)
				ou.PSig = vf23SigOf(elems)
				var got [][]byte
				var cat []byte
				for _, pkt := range delivered.RTPPackets {
					ou.Pkts = append(ou.Pkts, vf23Pkt{Len: len(pkt.Payload), Seq: int(pkt.SequenceNumber),
						TsOff: strconv.FormatUint(uint64(pkt.Timestamp-uint32(pts)), 10)})
					var p unit.Payload
					var derr error
					pan, msg := verifrt.Catch(func() { p, derr = dec.decode(pkt) })
					if pan {
						ou.DErrs = append(ou.DErrs, "panic: "+msg)
						continue
					}
					if derr != nil {
						// waiting for the next fragment is not a depacketization failure
						if !strings.Contains(derr.Error(), "more packets") {
							ou.DErrs = append(ou.DErrs, derr.Error())
						}
						continue
					}
					if p == nil {
						continue
					}
					e, _ := vf23Elems(p)
					if blob {
						cat = append(cat, e[0]...)
					} else {
						got = append(got, e...)
					}
				}
				if blob && (cat != nil || len(got) == 0) {
					got = append([][]byte{cat}, got...)
				}
				ou.DSig = vf23SigOf(got)
				// several audio frames in one unit: later packets legitimately advance
				if len(elems) > 1 && !frameCodec[c.Codec] {
					ou.Uniform = false
				}
			}
			units = append(units, ou)
		}
		out.Emit(map[string]any{"id": c.ID, "codec": c.Codec, "branch": c.Branch, "m": c.M, "units": units,
			"emits": emits, "pel": vf23SigOf(pel), "del": vf23SigOf(del), "derrs2": derrs2})
	})
}

// ---------------------------------------------------------------------------------------------
// Persistent streams: one always-available Stream whose format lives through several sub-streams
// (offline filler, publishers). Everything the format hands to a reader across the phases is
// recorded; TLC judges it with the run-level formulas (one offset, consecutive sequence numbers,
// payload <= M, depacketized = delivered exactly once).

type vf23Phase struct {
	Kind  string         `json:"kind"` // "offline" | "pub"
	RTP   bool           `json:"rtp"`
	Units []vf23UnitCase `json:"units"`
}

type vf23PCase struct {
	ID     int         `json:"id"`
	Codec  string      `json:"codec"`
	M      int         `json:"m"`
	Phases []vf23Phase `json:"phases"`
}

func vf23Track(codec string) conf.AlwaysAvailableTrack {
	switch codec {
	case "H264":
		return conf.AlwaysAvailableTrack{Codec: conf.CodecH264}
	case "H265":
		return conf.AlwaysAvailableTrack{Codec: conf.CodecH265}
	case "AV1":
		return conf.AlwaysAvailableTrack{Codec: conf.CodecAV1}
	case "VP9":
		return conf.AlwaysAvailableTrack{Codec: conf.CodecVP9}
	case "Opus":
		return conf.AlwaysAvailableTrack{Codec: conf.CodecOpus, ChannelCount: 2}
	case "MPEG4Audio":
		return conf.AlwaysAvailableTrack{Codec: conf.CodecMPEG4Audio, SampleRate: 48000, ChannelCount: 2}
	case "G711":
		return conf.AlwaysAvailableTrack{Codec: conf.CodecG711, SampleRate: 8000, ChannelCount: 1, MULaw: true}
	case "LPCM":
		return conf.AlwaysAvailableTrack{Codec: conf.CodecLPCM, SampleRate: 48000, ChannelCount: 2}
	}
	panic("vf23: no always-available track for " + codec)
}

type vf23Seen struct {
	phase int
	pts   int64
	nilp  bool
	elems [][]byte
	pkts  []*rtp.Packet
}

func vf23RunPersist(t *testing.T, c *vf23PCase) map[string]any {
	frameCodec := map[string]bool{"H264": true, "H265": true, "AV1": true, "VP9": true}
	sampleCodec := c.Codec == "G711" || c.Codec == "LPCM"
	strm := &Stream{AlwaysAvailable: true, AlwaysAvailableTracks: []conf.AlwaysAvailableTrack{vf23Track(c.Codec)},
		WriteQueueSize: 512, RTPMaxPayloadSize: c.M, ReplaceNTP: true, Parent: vf23Log{}}
	if err := strm.Initialize(); err != nil { // starts the offline sub stream
		t.Fatalf("persist run %d: %v", c.ID, err)
	}
	defer strm.Close()
	media := strm.OrigDesc.Medias[0]
	forma := media.Formats[0]
	sf := strm.medias[media].formats[forma]

	var mu sync.Mutex
	var seen []vf23Seen
	var phaseOf []int // phase of the n-th unit pushed to the reader (written by the synchronous hook)
	curPhase := 1
	pushed, got := 0, 0

	r := &Reader{Parent: vf23Log{}}
	cb := func(u *unit.Unit) error {
		mu.Lock()
		defer mu.Unlock()
		s := vf23Seen{pts: u.PTS, nilp: u.NilPayload()}
		if got < len(phaseOf) {
			s.phase = phaseOf[got]
		}
		got++
		if !u.NilPayload() {
			el, _ := vf23Elems(u.Payload)
			for _, x := range el {
				s.elems = append(s.elems, append([]byte{}, x...))
			}
		}
		for _, pkt := range u.RTPPackets {
			s.pkts = append(s.pkts, pkt.Clone())
		}
		seen = append(seen, s)
		return nil
	}
	r.OnData(media, forma, cb)
	r.queueSize = strm.WriteQueueSize
	r.start()
	// register the reader and the counting hook in one critical section (WriteUnit holds the read
	// lock while writeUnitInner runs), so that every unit counted by the hook reaches the reader
	strm.mutex.Lock()
	strm.readers[r] = struct{}{}
	sf.onDatas[r] = cb
	origWriteRTSP := sf.writeRTSP
	sf.writeRTSP = func(pkts []*rtp.Packet, ntp time.Time) {
		mu.Lock()
		pushed++
		phaseOf = append(phaseOf, curPhase)
		mu.Unlock()
		origWriteRTSP(pkts, ntp)
	}
	strm.mutex.Unlock()
	defer strm.RemoveReader(r)

	wait := func(what string, cond func() bool) {
		deadline := time.Now().Add(20 * time.Second)
		for {
			mu.Lock()
			ok := cond()
			mu.Unlock()
			if ok {
				return
			}
			if time.Now().After(deadline) {
				t.Fatalf("persist run %d: timed out waiting for %s", c.ID, what)
			}
			time.Sleep(time.Millisecond)
		}
	}
	barrier := func() { wait("the reader", func() bool { return got == pushed }) }
	setPhase := func(p int) { mu.Lock(); curPhase = p; mu.Unlock() }

	inOff := uint32(0x51000000 + c.ID*104729)
	inSeq := uint16(65533)
	names := []string{}
	rejected := 0
	for pi, ph := range c.Phases {
		setPhase(pi + 1)
		if ph.Kind == "offline" {
			names = append(names, "offline")
			if pi > 0 {
				if err := strm.StartOfflineSubStream(); err != nil {
					t.Fatalf("persist run %d: %v", c.ID, err)
				}
			}
			mu.Lock()
			base := pushed
			mu.Unlock()
			wait("an offline unit", func() bool { return pushed > base })
			continue
		}
		if ph.RTP {
			names = append(names, "rtp publisher")
		} else {
			names = append(names, "publisher")
		}
		inForma := vf23Format(c.Codec, "nonrtp")
		inDesc := &description.Session{Medias: []*description.Media{{Type: media.Type, Formats: []format.Format{inForma}}}}
		ss := &SubStream{Stream: strm, InDesc: inDesc, UseRTPPackets: ph.RTP}
		if err := ss.Initialize(); err != nil { // stops the offline sub stream if it is running
			t.Fatalf("persist run %d: %v", c.ID, err)
		}
		// units written by the stopped sub stream may still be in flight: they belong to the
		// previous phase
		barrier()
		pts := int64(0)
		for k, uc := range ph.Units {
			pts += 3000
			payload, _ := vf23Payload(c.Codec, uc, byte(29*k+c.ID+pi))
			if !ph.RTP {
				ss.WriteUnit(inDesc.Medias[0], inForma, &unit.Unit{PTS: pts, Payload: payload})
				continue
			}
			inEnc, err := newRTPEncoder(sf.outFormat, uc.Pub, new(uint32(0x55667788)), new(inSeq))
			if err != nil {
				t.Fatalf("persist run %d: %v", c.ID, err)
			}
			inPkts, err := inEnc.encode(payload)
			if err != nil {
				rejected++
				continue
			}
			inSeq += uint16(len(inPkts))
			for _, pkt := range inPkts {
				pkt.Timestamp += inOff + uint32(pts)
				ss.WriteUnit(inDesc.Medias[0], inForma, &unit.Unit{PTS: pts, RTPPackets: []*rtp.Packet{pkt}})
			}
		}
		barrier()
	}
	// freeze: stop whatever is still writing, then drain
	strm.mutex.Lock()
	sf.writeRTSP = origWriteRTSP
	delete(sf.onDatas, r)
	strm.mutex.Unlock()
	barrier()

	dec2, err := newRTPDecoder(sf.outFormat)
	if err != nil {
		t.Fatalf("persist run %d: %v", c.ID, err)
	}
	mu.Lock()
	defer mu.Unlock()
	emits := []vf23Emit{}
	pel, del := [][]byte{}, [][]byte{}
	derrs2 := []string{}
	for _, s := range seen {
		e := vf23Emit{Unit: s.phase, Active: true, NilP: s.nilp, Uniform: frameCodec[c.Codec], Pkts: []vf23Pkt{}}
		pel = append(pel, s.elems...)
		for _, pkt := range s.pkts {
			e.Pkts = append(e.Pkts, vf23Pkt{Len: len(pkt.Payload), Seq: int(pkt.SequenceNumber),
				TsOff: strconv.FormatUint(uint64(pkt.Timestamp-uint32(s.pts)), 10)})
			var p unit.Payload
			var derr error
			pan, pmsg := verifrt.Catch(func() { p, derr = dec2.decode(pkt) })
			switch {
			case pan:
				derrs2 = append(derrs2, "panic: "+pmsg)
			case derr != nil:
				if !strings.Contains(derr.Error(), "more packets") {
					derrs2 = append(derrs2, derr.Error())
				}
			case p != nil:
				el, _ := vf23Elems(p)
				for _, x := range el {
					del = append(del, append([]byte{}, x...))
				}
			}
		}
		emits = append(emits, e)
	}
	if sampleCodec { // sample-based audio: packet boundaries are not payload boundaries
		cat := func(xs [][]byte) [][]byte {
			var b []byte
			for _, x := range xs {
				b = append(b, x...)
			}
			return [][]byte{b}
		}
		pel, del = cat(pel), cat(del)
	}
	return map[string]any{"id": c.ID, "codec": c.Codec, "branch": "persist", "m": c.M, "units": []vf23Unit{},
		"phases": names, "rejected": rejected,
		"emits": emits, "pel": vf23SigOf(pel), "del": vf23SigOf(del), "derrs2": derrs2}
}

func TestVerif_C23_Persist(t *testing.T) {
	out := verifrt.NewOutFile(t, verifrt.ParamS("POUT", ""))
	defer out.Close()
	var cases []*vf23PCase
	verifrt.ForEachCaseFile(t, verifrt.ParamS("PCASES", ""), func(raw []byte) {
		c := &vf23PCase{}
		verifrt.Decode(t, raw, c)
		cases = append(cases, c)
	})
	// the offline filler runs in real time: execute the (independent) runs concurrently
	res := make([]map[string]any, len(cases))
	sem := make(chan struct{}, 8)
	var wg sync.WaitGroup
	for i, c := range cases {
		wg.Add(1)
		sem <- struct{}{}
		go func() {
			defer wg.Done()
			defer func() { <-sem }()
			res[i] = vf23RunPersist(t, c)
		}()
	}
	wg.Wait()
	for _, r := range res {
		if r != nil {
			out.Emit(r)
		}
	}
}
