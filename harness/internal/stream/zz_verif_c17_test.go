package stream

// Verification harness for C17 (readers get the publisher's units in order; drops are counted).
// Injected by /verif through -overlay. It only records what the real Stream / SubStream / Reader
// do; TLC decides (spec/stream/TraceStream.tla, spec/stream/TraceStreamStress.tla).

import (
	"errors"
	"runtime"
	"sync"
	"sync/atomic"
	"testing"
	"testing/synctest"
	"time"

	"github.com/bluenviron/gortsplib/v5/pkg/description"
	"github.com/bluenviron/gortsplib/v5/pkg/format"
	"github.com/pion/rtp"

	"github.com/bluenviron/mediamtx/internal/conf"
	"github.com/bluenviron/mediamtx/internal/logger"
	"github.com/bluenviron/mediamtx/internal/unit"
	"github.com/bluenviron/mediamtx/internal/verifrt"
)

type vf17Log struct{}

func (vf17Log) Log(logger.Level, string, ...any) {}

// ---------------------------------------------------------------- formats and payloads

// vf17Formats returns fresh format objects; index 0..2 <-> "f1".."f3".
func vf17Formats(n int) []format.Format {
	all := []format.Format{
		&format.G711{PayloadTyp: 0, MULaw: true, SampleRate: 8000, ChannelCount: 1},
		&format.LPCM{PayloadTyp: 96, BitDepth: 16, SampleRate: 48000, ChannelCount: 1},
		&format.G711{PayloadTyp: 8, MULaw: false, SampleRate: 8000, ChannelCount: 1},
	}
	return all[:n]
}

// vf17RTPDesc: formats for a publisher that writes RTP packets. f1 is H264: its frames may span
// several packets, and only the packet with the marker bit yields a decoded payload.
func vf17RTPDesc(n int) *description.Session {
	fs := []format.Format{
		&format.H264{PayloadTyp: 96, PacketizationMode: 1},
		&format.G711{PayloadTyp: 0, MULaw: true, SampleRate: 8000, ChannelCount: 1},
		&format.G711{PayloadTyp: 8, MULaw: false, SampleRate: 8000, ChannelCount: 1},
	}[:n]
	d := &description.Session{}
	for i, f := range fs {
		typ := description.MediaTypeAudio
		if i == 0 {
			typ = description.MediaTypeVideo
		}
		d.Medias = append(d.Medias, &description.Media{Type: typ, Formats: []format.Format{f}})
	}
	return d
}

// vf17Packetizer builds the RTP packets of one format: a "frag" packet belongs to a frame that is not
// complete yet (no marker bit, same timestamp as the packets that follow), a "frame" packet completes it.
type vf17Packetizer struct {
	pt  uint8
	seq uint16
	ts  uint32
}

func (p *vf17Packetizer) unit(payload []byte, last bool) *unit.Unit {
	pkt := &rtp.Packet{
		Header:  rtp.Header{Version: 2, PayloadType: p.pt, SequenceNumber: p.seq, Timestamp: p.ts, SSRC: 0x17C0FFEE, Marker: last},
		Payload: payload,
	}
	u := &unit.Unit{PTS: int64(p.ts), RTPPackets: []*rtp.Packet{pkt}}
	p.seq++
	if last {
		p.ts += 3000
	}
	return u
}

// vf17VideoDesc: H264 and H265 (and G711) in payload mode: both unit remuxers are on the path.
func vf17VideoDesc(n int) *description.Session {
	fs := []format.Format{
		&format.H264{PayloadTyp: 96, PacketizationMode: 1},
		&format.H265{PayloadTyp: 97},
		&format.G711{PayloadTyp: 0, MULaw: true, SampleRate: 8000, ChannelCount: 1},
	}[:n]
	d := &description.Session{}
	for i, f := range fs {
		typ := description.MediaTypeVideo
		if i == 2 {
			typ = description.MediaTypeAudio
		}
		d.Medias = append(d.Medias, &description.Media{Type: typ, Formats: []format.Format{f}})
	}
	return d
}

// vf17VideoPayload builds an access unit of format fi (0: H264, 1: H265) around the tag b.
//
//	frame: one slice NAL carrying the tag                      (nothing to strip, nothing to inject)
//	aud:   delimiter + two slice NALs                          (the delimiter is stripped)
//	key:   in-band parameter sets + IDR                        (the sets are stripped, the current ones injected)
func vf17VideoPayload(fi int, kind string, b []byte) unit.Payload {
	nal := func(h264 byte, h265 byte, extra byte) []byte {
		if fi == 0 {
			return append([]byte{h264, extra}, b...)
		}
		return append([]byte{h265 << 1, 1, extra}, b...)
	}
	var au [][]byte
	switch kind {
	case "aud":
		au = [][]byte{nal(0x09, 35, 0xf0), nal(0x41, 1, 1), nal(0x41, 1, 2)}
	case "key":
		if fi == 0 {
			au = [][]byte{{0x67, 0x64, 0x00, 0x1f, b[4], b[5]}, {0x68, 0xee, 0x3c, 0x80, b[5]}, nal(0x65, 19, 3)}
		} else {
			au = [][]byte{{0x40, 1, 0x0c, b[5]}, {0x42, 1, 0x01, b[4], b[5]}, {0x44, 1, 0xc1, b[5]}, nal(0x65, 19, 3)}
		}
	default:
		au = [][]byte{nal(0x41, 1, 0)}
	}
	if fi == 0 {
		return unit.PayloadH264(au)
	}
	return unit.PayloadH265(au)
}

// vf17Content is a deep copy of what a unit carries right now: NAL lists as len, bytes, len, bytes, ...
func vf17Content(u *unit.Unit, rtpMode bool) []int {
	var nals [][]byte
	switch v := u.Payload.(type) {
	case unit.PayloadH264:
		nals = v
	case unit.PayloadH265:
		nals = v
	default:
		return vf17Ints(vf17UnitBytes(u, rtpMode))
	}
	out := []int{}
	for _, n := range nals {
		out = append(out, len(n))
		out = append(out, vf17Ints(n)...)
	}
	return out
}

// vf17UnitBytes: the bytes that identify a delivered unit: the payload, or (RTP publisher) the packet's bytes.
func vf17UnitBytes(u *unit.Unit, rtpMode bool) []byte {
	if rtpMode {
		if len(u.RTPPackets) != 1 {
			return []byte{0xEF, byte(len(u.RTPPackets))}
		}
		return u.RTPPackets[0].Payload
	}
	return vf17Bytes(u.Payload)
}

func vf17Tracks(n int) []conf.AlwaysAvailableTrack {
	all := []conf.AlwaysAvailableTrack{
		{Codec: conf.CodecG711, SampleRate: 8000, ChannelCount: 1, MULaw: true},
		{Codec: conf.CodecLPCM, SampleRate: 48000, ChannelCount: 1},
		{Codec: conf.CodecG711, SampleRate: 8000, ChannelCount: 1, MULaw: false},
	}
	return all[:n]
}

// vf17Desc builds a session description with n formats; oneMedia puts them all into one media.
func vf17Desc(n int, oneMedia bool) *description.Session {
	fs := vf17Formats(n)
	d := &description.Session{}
	if oneMedia {
		d.Medias = []*description.Media{{Type: description.MediaTypeAudio, Formats: fs}}
		return d
	}
	for _, f := range fs {
		d.Medias = append(d.Medias, &description.Media{Type: description.MediaTypeAudio, Formats: []format.Format{f}})
	}
	return d
}

type vf17MF struct {
	m *description.Media
	f format.Format
}

// vf17Flat lists the (media, format) pairs of a description in format order.
func vf17Flat(d *description.Session) []vf17MF {
	var out []vf17MF
	for _, m := range d.Medias {
		for _, f := range m.Formats {
			out = append(out, vf17MF{m, f})
		}
	}
	return out
}

func vf17Payload(fi int, b []byte) unit.Payload {
	if fi == 1 {
		return unit.PayloadLPCM(b)
	}
	return unit.PayloadG711(b)
}

func vf17Bytes(p unit.Payload) []byte {
	switch v := p.(type) {
	case unit.PayloadG711:
		return []byte(v)
	case unit.PayloadLPCM:
		return []byte(v)
	case nil:
		return nil
	}
	return []byte{0xEE} // a payload type nobody wrote
}

func vf17Ints(b []byte) []int {
	out := make([]int, len(b))
	for i, x := range b {
		out[i] = int(x)
	}
	return out
}

func vf17FmtIdx(s string) int {
	if len(s) == 2 && s[0] == 'f' {
		return int(s[1] - '1')
	}
	return -1
}

// ---------------------------------------------------------------- deterministic replay

type vf17Act struct {
	A  string   `json:"a"`
	SS int      `json:"ss"`
	F  string   `json:"f"`
	R  string   `json:"r"`
	S  []string `json:"S"`
	K  string   `json:"k"` // Write: "frame" or "frag"
}

type vf17Case struct {
	Run   int       `json:"run"`
	Q     int       `json:"q"`
	Src   string    `json:"src"`
	RTP   bool      `json:"rtp"`   // replay with a publisher that writes RTP packets
	Video bool      `json:"video"` // replay with H264 / H265 formats in payload mode (unit kinds frame / aud / key)
	Acts  []vf17Act `json:"acts"`
}

type vf17Cb struct {
	R   string `json:"r"`
	F   string `json:"f"`
	Pay []int  `json:"pay"`
	W   int    `json:"w"` // number (1-based) of the Write step whose unit object this is; 0 = unknown object
}

type vf17Rel struct {
	R   string `json:"r"`
	W   int    `json:"w"`
	Pay []int  `json:"pay"`
}

type vf17Step struct {
	vf17Act
	Skipped bool            `json:"skipped"`
	Cur     bool            `json:"cur"`
	Pay     []int           `json:"pay"`
	RPay    []int           `json:"rpay"`
	Cbs     []vf17Cb        `json:"cbs"`
	Rels    []vf17Rel       `json:"rels"`
	Disc    map[string]int  `json:"disc"`
	InCb    map[string]bool `json:"incb"`
	Ret     map[string]bool `json:"ret"`
}

type vf17Trace struct {
	Run   int        `json:"run"`
	Q     int        `json:"q"`
	AA    bool       `json:"aa"`
	One   bool       `json:"oneMedia"`
	RTP   bool       `json:"rtp"`
	Video bool       `json:"video"`
	Src   string     `json:"src"`
	Steps []vf17Step `json:"steps"`
}

var vf17Readers = []string{"r1", "r2"}

type vf17Replay struct {
	rtp     bool
	mu      sync.Mutex
	stepOf  map[*unit.Unit]int
	rels    []vf17Rel
	pending []vf17Cb
	started map[string]int
	ended   map[string]int
	gate    map[string]chan error
	reader  map[string]*Reader
	done    map[string]chan struct{}
}

func (h *vf17Replay) cb(r string, f string) OnDataFunc {
	return func(u *unit.Unit) error {
		pay := vf17Content(u, h.rtp)
		h.mu.Lock()
		w := h.stepOf[u]
		h.pending = append(h.pending, vf17Cb{R: r, F: f, Pay: pay, W: w})
		h.started[r]++
		g := h.gate[r]
		h.mu.Unlock()
		res := <-g                     // the harness decides when (and how) this callback returns
		again := vf17Content(u, h.rtp) // the reader still has the unit: what does it carry now ?
		h.mu.Lock()
		if w != 0 {
			h.rels = append(h.rels, vf17Rel{R: r, W: w, Pay: again})
		}
		h.ended[r]++
		h.mu.Unlock()
		return res
	}
}

func (h *vf17Replay) inCb(r string) bool {
	h.mu.Lock()
	defer h.mu.Unlock()
	return h.started[r] > h.ended[r]
}

// observe completes a step record once every goroutine of the bubble is durably blocked.
func (h *vf17Replay) observe(st *vf17Step) {
	synctest.Wait()
	h.mu.Lock()
	st.Cbs = h.pending
	h.pending = nil
	st.Rels = h.rels
	h.rels = nil
	h.mu.Unlock()
	if st.Cbs == nil {
		st.Cbs = []vf17Cb{}
	}
	if st.Rels == nil {
		st.Rels = []vf17Rel{}
	}
	st.Disc = map[string]int{}
	st.InCb = map[string]bool{}
	st.Ret = map[string]bool{}
	for _, r := range vf17Readers {
		st.Disc[r] = -1
		if rd := h.reader[r]; rd != nil {
			st.Disc[r] = int(rd.OutboundFramesDiscarded())
		}
		st.InCb[r] = h.inCb(r)
		st.Ret[r] = false
		if d := h.done[r]; d != nil {
			select {
			case <-d:
				st.Ret[r] = true
			default:
			}
		}
	}
}

func vf17RunCase(t *testing.T, c *vf17Case, tr *vf17Trace) {
	hasSwitch := false
	for _, a := range c.Acts {
		if a.A == "Switch" {
			hasSwitch = true
		}
	}
	tr.Run, tr.Q, tr.Src = c.Run, c.Q, c.Src
	tr.RTP = c.RTP && !hasSwitch
	tr.Video = c.Video && !hasSwitch && !tr.RTP
	tr.AA = !tr.RTP && !tr.Video && (hasSwitch || c.Run%3 == 2)
	tr.One = !tr.AA && !tr.RTP && !tr.Video && c.Run%3 == 1
	tr.Steps = []vf17Step{}

	h := &vf17Replay{
		rtp:     tr.RTP,
		stepOf:  map[*unit.Unit]int{},
		started: map[string]int{}, ended: map[string]int{},
		gate: map[string]chan error{}, reader: map[string]*Reader{}, done: map[string]chan struct{}{},
	}

	strm := &Stream{WriteQueueSize: c.Q, RTPMaxPayloadSize: 1450, Parent: vf17Log{}}
	if tr.AA {
		strm.AlwaysAvailable = true
		strm.AlwaysAvailableTracks = vf17Tracks(2)
		strm.ReplaceNTP = true
	} else if tr.RTP {
		strm.OrigDesc = vf17RTPDesc(2)
	} else if tr.Video {
		strm.OrigDesc = vf17VideoDesc(2)
	} else {
		strm.OrigDesc = vf17Desc(2, tr.One)
	}
	if err := strm.Initialize(); err != nil {
		t.Fatalf("Stream.Initialize: %v", err)
	}
	orig := vf17Flat(strm.OrigDesc)
	pk := []*vf17Packetizer{{pt: 96, seq: 1000, ts: 90000}, {pt: 0, seq: 7000, ts: 8000}}

	var subs []*SubStream // subs[i] = sub-stream i+1
	var subMF [][]vf17MF  // its (media, format) pairs
	newSub := func() {
		ss := &SubStream{Stream: strm, UseRTPPackets: tr.RTP}
		if tr.AA {
			ss.InDesc = vf17Desc(2, false)
		}
		if err := ss.Initialize(); err != nil {
			t.Fatalf("SubStream.Initialize: %v", err)
		}
		subs = append(subs, ss)
		subMF = append(subMF, vf17Flat(ss.InDesc))
	}
	newSub()

	seq := 0
	for ai, a := range c.Acts {
		st := vf17Step{vf17Act: a, Pay: []int{}, RPay: []int{}}
		if st.S == nil {
			st.S = []string{}
		}
		switch a.A {
		case "Write":
			fi := vf17FmtIdx(a.F)
			if a.SS < 1 || a.SS > len(subs) || fi < 0 || fi >= len(orig) {
				st.Skipped = true
				break
			}
			if a.K == "frag" && (!tr.RTP || fi != 0) {
				st.Skipped = true // only an RTP publisher's video frames span several units
				break
			}
			if (a.K == "key" || a.K == "aud") && !tr.Video {
				st.Skipped = true // only video payloads have something to strip or inject
				break
			}
			seq++
			b := []byte{0xC1, 0x17, byte(fi), byte(a.SS), byte(seq >> 8), byte(seq), byte(^seq), 0x5A}
			if tr.RTP {
				b[0] = 0x41 // H264: a single NAL unit (non-IDR slice) per packet
			}
			st.Cur = a.SS == len(subs)
			mf := subMF[a.SS-1][fi]
			var u *unit.Unit
			switch {
			case tr.RTP:
				u = pk[fi].unit(append([]byte(nil), b...), a.K != "frag")
			case tr.Video:
				u = &unit.Unit{PTS: int64(seq) * 3000, Payload: vf17VideoPayload(fi, a.K, b)}
			default:
				u = &unit.Unit{PTS: int64(seq) * 160, Payload: vf17Payload(fi, append([]byte(nil), b...))}
			}
			st.Pay = vf17Content(u, tr.RTP)
			h.mu.Lock()
			h.stepOf[u] = ai + 1
			h.mu.Unlock()
			subs[a.SS-1].WriteUnit(mf.m, mf.f, u)
			st.RPay = vf17Content(u, tr.RTP) // WriteUnit remuxes the unit in place: its content as handed to the readers

		case "AddReader":
			if h.reader[a.R] != nil {
				st.Skipped = true
				break
			}
			rd := &Reader{Parent: vf17Log{}}
			for _, f := range a.S {
				fi := vf17FmtIdx(f)
				rd.OnData(orig[fi].m, orig[fi].f, h.cb(a.R, f))
			}
			h.gate[a.R] = make(chan error)
			h.reader[a.R] = rd
			strm.AddReader(rd)

		case "RemoveBegin":
			rd := h.reader[a.R]
			if rd == nil || h.done[a.R] != nil {
				st.Skipped = true
				break
			}
			d := make(chan struct{})
			h.done[a.R] = d
			go func() {
				strm.RemoveReader(rd)
				close(d)
			}()

		case "RemoveEnd":
			// nothing to do: RemoveReader returns by itself; `ret` below records whether it has
			if h.done[a.R] == nil {
				st.Skipped = true
			}

		case "Done", "CallbackError":
			if !h.inCb(a.R) {
				st.Skipped = true
				break
			}
			if a.A == "Done" {
				h.gate[a.R] <- nil
			} else {
				h.gate[a.R] <- errors.New("verif: callback error")
			}

		case "Switch":
			if !tr.AA {
				st.Skipped = true
				break
			}
			newSub()

		default:
			st.Skipped = true
		}
		h.observe(&st)
		tr.Steps = append(tr.Steps, st)
	}

	// let every callback that is still in progress (and those that follow) return
	drain := vf17Step{vf17Act: vf17Act{A: "Drain", S: []string{}}, Pay: []int{}, RPay: []int{}}
	all := []vf17Cb{}
	for i := 0; i < 64; i++ {
		released := false
		for _, r := range vf17Readers {
			if h.inCb(r) {
				h.gate[r] <- nil
				released = true
			}
		}
		synctest.Wait()
		h.mu.Lock()
		all = append(all, h.pending...)
		h.pending = nil
		h.mu.Unlock()
		if !released {
			break
		}
	}
	h.observe(&drain)
	drain.Cbs = append(all, drain.Cbs...)
	tr.Steps = append(tr.Steps, drain)

	// cleanup (not recorded)
	for _, r := range vf17Readers {
		if rd := h.reader[r]; rd != nil {
			if h.done[r] == nil {
				strm.RemoveReader(rd)
			} else {
				<-h.done[r]
			}
		}
	}
	strm.Close()
}

// spec -> impl: behaviours generated by TLC (simulation runs and edge-covering walks of the
// Eager state graph of Stream.tla), replayed step by step on the real objects.
func TestVerif_C17_Replay(t *testing.T) {
	out := verifrt.NewOut(t)
	defer out.Close()
	verifrt.ForEachCase(t, func(raw []byte) {
		var c vf17Case
		verifrt.Decode(t, raw, &c)
		var tr vf17Trace
		synctest.Test(t, func(t *testing.T) {
			vf17RunCase(t, &c, &tr)
		})
		out.Emit(&tr)
	})
}

// ---------------------------------------------------------------- free-running stress

// All stamps come from one atomic counter, so stamp(a) < stamp(b) whenever a happened before b.
type vf17Life struct {
	ID   int     `json:"id"`
	Subs []int   `json:"subs"`
	AS   int64   `json:"as"` // AddReader called
	AE   int64   `json:"ae"` // AddReader returned
	RS   int64   `json:"rs"` // RemoveReader called
	RE   int64   `json:"re"` // RemoveReader returned
	Disc int     `json:"disc"`
	Err  bool    `json:"err"`
	Cbs  [][]int `json:"cbs"` // [f, uid, chk, t]: callback of format f entered at t with unit uid

	mu sync.Mutex
}

type vf17Round struct {
	Run      int         `json:"run"`
	Q        int         `json:"q"`
	AA       bool        `json:"aa"`
	Foreign  bool        `json:"foreign"` // units of the built-in offline publisher may reach the readers
	RTP      bool        `json:"rtp"`     // the publisher writes RTP packets; two of three units of f1 have no payload
	Video    bool        `json:"video"`   // H264 / H265 payloads: the unit remuxers are on the path
	NF       int         `json:"nf"`
	Writes   [][]int64   `json:"writes"`   // uid -> [f, ss, ws, we, chk]
	Switches [][]int64   `json:"switches"` // [ss, s, e]: ss became the current publisher between s and e
	Lives    []*vf17Life `json:"lives"`

	// the shape checks/C40.py feeds to TraceChannels.tla ("every operation completes"): filled by the lock-order rounds
	LockOrder bool     `json:"lockorder"`
	Ops       []vf17Op `json:"ops"`
	Shutdown  vf17Op   `json:"shutdown"`
	Dump      string   `json:"dump"` // goroutine dump taken when the watchdog fired
}

// vf17Op: one operation on the stream, stamped from the round's atomic counter; End = 0: it had not returned
// when the watchdog (10 s after the last operation began) fired.
type vf17Op struct {
	ID    int    `json:"id"`
	Kind  string `json:"kind"`
	Start int64  `json:"start"`
	End   int64  `json:"end"`
	Res   string `json:"res"`
}

const vf17Watchdog = 10 * time.Second

// vf17LockOrderRound: writers whose every unit CHANGES the H264 / H265 parameter sets (the write path holds
// Stream.mutex for reading while Stream.updateOutDesc takes outDescMutex for writing) run concurrently with
// callers of RTSPStream / RTSPSStream / OutDescCopy and with readers being added and removed. Every call is an
// operation with a start and an end stamp; nothing is judged here.
func vf17LockOrderRound(run int, seed uint64) *vf17Round {
	rnd := verifrt.Rand(seed)
	rd := &vf17Round{Run: run, NF: 2, Q: 8, LockOrder: true, Switches: [][]int64{{1, 0, 0}},
		Writes: [][]int64{}, Lives: []*vf17Life{}, Ops: []vf17Op{}}
	var clk atomic.Int64
	var mu sync.Mutex
	begin := func(kind string) int {
		mu.Lock()
		defer mu.Unlock()
		rd.Ops = append(rd.Ops, vf17Op{ID: len(rd.Ops) + 1, Kind: kind, Start: clk.Add(1)})
		return len(rd.Ops) - 1
	}
	end := func(i int, res string) {
		mu.Lock()
		defer mu.Unlock()
		rd.Ops[i].End = clk.Add(1)
		rd.Ops[i].Res = res
	}

	strm := &Stream{OrigDesc: vf17VideoDesc(2), WriteQueueSize: rd.Q, RTPMaxPayloadSize: 1450, Parent: vf17Log{}}
	if err := strm.Initialize(); err != nil {
		rd.Shutdown = vf17Op{Kind: "shutdown", Start: 1, End: 2, Res: "err_other"}
		return rd
	}
	ss := &SubStream{Stream: strm, UseRTPPackets: false}
	if err := ss.Initialize(); err != nil {
		rd.Shutdown = vf17Op{Kind: "shutdown", Start: 1, End: 2, Res: "err_other"}
		return rd
	}
	orig := vf17Flat(strm.OrigDesc)
	nPer := 120 + rnd.IntN(80)
	stop := make(chan struct{})
	var wg, bg sync.WaitGroup

	writer := func(f int, wseed uint64) {
		defer wg.Done()
		wr := verifrt.Rand(wseed)
		for i := 0; i < nPer; i++ {
			v := byte(0xA0 + i%2) // the parameter sets toggle between two values: every unit updates the description
			var p unit.Payload
			if f == 0 {
				p = unit.PayloadH264{{0x67, 0x64, 0x00, 0x1f, v}, {0x68, 0xee, 0x3c, 0x80, v}, {0x65, byte(i)}}
			} else {
				p = unit.PayloadH265{{0x40, 1, 0x0c, v}, {0x42, 1, 0x01, v}, {0x44, 1, 0xc1, v}, {0x26, 1, byte(i)}}
			}
			o := begin("write")
			ss.WriteUnit(orig[f].m, orig[f].f, &unit.Unit{PTS: int64(i) * 3000, Payload: p})
			end(o, "ok")
			if wr.IntN(6) == 0 {
				runtime.Gosched()
			}
		}
	}
	caller := func(kind string, cseed uint64) {
		defer bg.Done()
		cr := verifrt.Rand(cseed)
		for {
			select {
			case <-stop:
				return
			default:
			}
			o := begin(kind)
			res := "ok"
			switch kind {
			case "rtspstream": // no RTSP server: the call fails after it went through the stream's locks
				if _, err := strm.RTSPStream(nil); err != nil {
					res = "err_other"
				}
			case "rtspsstream":
				if _, err := strm.RTSPSStream(nil); err != nil {
					res = "err_other"
				}
			case "outdesccopy":
				strm.OutDescCopy()
			case "reader":
				r := &Reader{Parent: vf17Log{}}
				for f := 0; f < 2; f++ {
					r.OnData(orig[f].m, orig[f].f, func(*unit.Unit) error { return nil })
				}
				strm.AddReader(r)
				end(o, "ok")
				time.Sleep(time.Duration(cr.IntN(400)) * time.Microsecond)
				o = begin("removereader")
				strm.RemoveReader(r)
			}
			end(o, res)
			if cr.IntN(3) == 0 {
				time.Sleep(time.Duration(cr.IntN(200)) * time.Microsecond)
			} else {
				runtime.Gosched()
			}
		}
	}
	for _, k := range []string{"rtspstream", "rtspsstream", "outdesccopy", "reader"} {
		bg.Add(1)
		go caller(k, rnd.Uint64())
	}
	for f := 0; f < 2; f++ {
		wg.Add(1)
		go writer(f, rnd.Uint64())
	}
	finished := make(chan struct{})
	go func() {
		wg.Wait()
		close(stop)
		bg.Wait()
		close(finished)
	}()
	// watchdog: as long as operations keep beginning the round is alive; it fires when nothing has begun or
	// ended for vf17Watchdog
	last := clk.Load()
	lastChange := time.Now()
	hung := false
	for !hung {
		select {
		case <-finished:
			hung = false
			goto out
		case <-time.After(100 * time.Millisecond):
			if now := clk.Load(); now != last {
				last, lastChange = now, time.Now()
			} else if time.Since(lastChange) > vf17Watchdog {
				hung = true
			}
		}
	}
out:
	if hung {
		buf := make([]byte, 1<<20)
		n := runtime.Stack(buf, true)
		if n > 12000 {
			n = 12000
		}
		rd.Dump = string(buf[:n])
	}
	sd := vf17Op{Kind: "shutdown", Start: clk.Add(1)}
	if !hung { // closing a stream whose lock protocol is stuck would only add noise
		closed := make(chan struct{})
		go func() {
			strm.Close()
			close(closed)
		}()
		select {
		case <-closed:
			sd.End, sd.Res = clk.Add(1), "ok"
		case <-time.After(vf17Watchdog):
		}
	} else {
		sd.End, sd.Res = clk.Add(1), "skipped"
	}
	mu.Lock()
	rd.Shutdown = sd
	ops := make([]vf17Op, len(rd.Ops))
	copy(ops, rd.Ops) // goroutines that are stuck keep a reference to rd.Ops
	rd.Ops = ops
	mu.Unlock()
	return rd
}

func vf17StressRound(t *testing.T, run int, seed uint64) *vf17Round {
	rnd := verifrt.Rand(seed)
	rd := &vf17Round{Run: run, NF: 3, Switches: [][]int64{{1, 0, 0}}}
	rd.Q = []int{1, 2, 4, 8, 64}[rnd.IntN(5)]
	// 0,1: plain   2: always-available, direct switch   3: always-available through the offline publisher
	// 4: plain, the publisher writes RTP packets and the frames of f1 span three packets
	// 5: plain, H264 / H265 / G711 in payload mode (both unit remuxers; every fifth unit has a delimiter to strip)
	mode := run % 6
	rd.AA = mode == 2 || mode == 3
	rd.Foreign = mode == 3
	rd.RTP = mode == 4
	rd.Video = mode == 5
	oneMedia := mode == 1
	nPer := 120 + rnd.IntN(160)
	nss := 1
	if rd.AA {
		nss = 2
	}

	var clk atomic.Int64
	strm := &Stream{WriteQueueSize: rd.Q, RTPMaxPayloadSize: 1450, Parent: vf17Log{}}
	if rd.AA {
		strm.AlwaysAvailable = true
		strm.AlwaysAvailableTracks = vf17Tracks(rd.NF)
		strm.ReplaceNTP = true
	} else if rd.RTP {
		strm.OrigDesc = vf17RTPDesc(rd.NF)
	} else if rd.Video {
		strm.OrigDesc = vf17VideoDesc(rd.NF)
	} else {
		strm.OrigDesc = vf17Desc(rd.NF, oneMedia)
	}
	if err := strm.Initialize(); err != nil {
		t.Fatalf("Stream.Initialize: %v", err)
	}
	defer strm.Close()
	orig := vf17Flat(strm.OrigDesc)

	newSub := func() *SubStream {
		ss := &SubStream{Stream: strm, UseRTPPackets: rd.RTP}
		if rd.AA {
			ss.InDesc = vf17Desc(rd.NF, false)
		}
		if err := ss.Initialize(); err != nil {
			t.Fatalf("SubStream.Initialize: %v", err)
		}
		return ss
	}

	// uid ranges: writer (ss, f) owns base+1 .. base+nPer
	rd.Writes = make([][]int64, nss*rd.NF*nPer)
	for ss := 1; ss <= nss; ss++ {
		for f := 0; f < rd.NF; f++ {
			base := ((ss-1)*rd.NF + f) * nPer
			for i := 0; i < nPer; i++ {
				rd.Writes[base+i] = []int64{int64(f + 1), int64(ss), 0, 0, int64(rnd.Uint32() >> 1)}
			}
		}
	}

	var wg sync.WaitGroup
	writer := func(ss *SubStream, ssn int, f int, wseed uint64) {
		defer wg.Done()
		wr := verifrt.Rand(wseed)
		mf := vf17Flat(ss.InDesc)[f]
		base := ((ssn-1)*rd.NF + f) * nPer
		pk := &vf17Packetizer{pt: []uint8{96, 0, 8}[f], seq: uint16(wr.Uint32()), ts: wr.Uint32() >> 1}
		for i := 0; i < nPer; i++ {
			uid := base + i + 1
			w := rd.Writes[uid-1]
			chk := uint32(w[4])
			b := []byte{0xC1, 0x17, byte(uid >> 24), byte(uid >> 16), byte(uid >> 8), byte(uid),
				byte(chk >> 24), byte(chk >> 16), byte(chk >> 8), byte(chk), 0x5A, 0xA5}
			u := &unit.Unit{PTS: int64(i) * 160, Payload: vf17Payload(f, b)}
			if rd.RTP {
				b[0] = 0x41 // H264: one NAL unit per packet; a frame of f1 = three packets, marker on the third
				u = pk.unit(b, f != 0 || i%3 == 2)
			}
			if rd.Video && f < 2 {
				hdr := [][]byte{{0x41}, {0x02, 0x01}}[f] // a slice NAL of H264 / H265 that carries the tag
				au := [][]byte{append(append([]byte{}, hdr...), b...)}
				if i%5 == 4 {
					aud := [][]byte{{0x09, 0xf0}, {0x46, 0x01}}[f]
					au = [][]byte{aud, au[0]}
				}
				if f == 0 {
					u.Payload = unit.PayloadH264(au)
				} else {
					u.Payload = unit.PayloadH265(au)
				}
			}
			w[2] = clk.Add(1)
			ss.WriteUnit(mf.m, mf.f, u)
			w[3] = clk.Add(1)
			switch wr.IntN(12) {
			case 0:
				time.Sleep(time.Duration(20+wr.IntN(300)) * time.Microsecond)
			case 1, 2, 3:
				runtime.Gosched()
			}
		}
	}

	ss1 := newSub()
	stopManagers := make(chan struct{})
	var mwg sync.WaitGroup
	var livesMu sync.Mutex
	nextID := 0

	manager := func(mseed uint64) {
		defer mwg.Done()
		mr := verifrt.Rand(mseed)
		for {
			select {
			case <-stopManagers:
				return
			default:
			}
			lf := &vf17Life{Cbs: [][]int{}}
			livesMu.Lock()
			nextID++
			lf.ID = nextID
			rd.Lives = append(rd.Lives, lf)
			livesMu.Unlock()
			for f := 0; f < rd.NF; f++ {
				if mr.IntN(2) == 0 {
					lf.Subs = append(lf.Subs, f+1)
				}
			}
			if len(lf.Subs) == 0 {
				lf.Subs = []int{1 + mr.IntN(rd.NF)}
			}
			kind := mr.IntN(5) // 0 fast, 1 slow, 2 bursty, 3 failing, 4 very slow
			failAt := 1 + mr.IntN(20)
			cseed := mr.Uint64()
			r := &Reader{Parent: vf17Log{}}
			cr := verifrt.Rand(cseed)
			ncb := 0
			for _, f := range lf.Subs {
				ff := f
				r.OnData(orig[ff-1].m, orig[ff-1].f, func(u *unit.Unit) error {
					tstamp := clk.Add(1)
					b := vf17UnitBytes(u, rd.RTP)
					var vp unit.Payload
					if rd.Video {
						vp = u.Payload
					}
					switch v := vp.(type) { // video: the tag follows the header of the last NAL
					case unit.PayloadH264:
						if len(v) > 0 && len(v[len(v)-1]) > 1 {
							b = v[len(v)-1][1:]
						}
					case unit.PayloadH265:
						if len(v) > 0 && len(v[len(v)-1]) > 2 {
							b = v[len(v)-1][2:]
						}
					}
					uid, chk := 0, 0
					if len(b) == 12 && (b[0] == 0xC1 || b[0] == 0x41) && b[1] == 0x17 && b[10] == 0x5A && b[11] == 0xA5 {
						uid = int(b[2])<<24 | int(b[3])<<16 | int(b[4])<<8 | int(b[5])
						chk = int(b[6])<<24 | int(b[7])<<16 | int(b[8])<<8 | int(b[9])
						if uid < 1 || uid > len(rd.Writes) {
							uid = 0
						}
					}
					lf.mu.Lock()
					lf.Cbs = append(lf.Cbs, []int{ff, uid, chk, int(tstamp)})
					ncb++
					n := ncb
					lf.mu.Unlock()
					switch kind {
					case 1:
						time.Sleep(time.Duration(30+cr.IntN(200)) * time.Microsecond)
					case 2:
						if cr.IntN(16) == 0 {
							time.Sleep(time.Duration(1+cr.IntN(3)) * time.Millisecond)
						}
					case 3:
						if n == failAt {
							lf.mu.Lock()
							lf.Err = true
							lf.mu.Unlock()
							return errors.New("verif: callback error")
						}
					case 4:
						time.Sleep(time.Duration(1+cr.IntN(2)) * time.Millisecond)
					}
					return nil
				})
			}
			lf.AS = clk.Add(1)
			strm.AddReader(r)
			lf.AE = clk.Add(1)
			stay := time.NewTimer(time.Duration(500+mr.IntN(9000)) * time.Microsecond)
			select {
			case <-stay.C:
			case <-r.Error():
			case <-stopManagers:
			}
			stay.Stop()
			lf.RS = clk.Add(1)
			strm.RemoveReader(r)
			lf.RE = clk.Add(1)
			lf.Disc = int(r.OutboundFramesDiscarded())
			if mr.IntN(3) == 0 {
				time.Sleep(time.Duration(mr.IntN(1500)) * time.Microsecond)
			}
		}
	}

	for i := 0; i < 4; i++ {
		mwg.Add(1)
		go manager(rnd.Uint64())
	}
	time.Sleep(300 * time.Microsecond)
	for f := 0; f < rd.NF; f++ {
		wg.Add(1)
		go writer(ss1, 1, f, rnd.Uint64())
	}
	if rd.AA {
		time.Sleep(time.Duration(1000+rnd.IntN(4000)) * time.Microsecond)
		s := clk.Add(1)
		if rd.Foreign {
			if err := strm.StartOfflineSubStream(); err != nil {
				t.Fatalf("StartOfflineSubStream: %v", err)
			}
			time.Sleep(time.Duration(1000+rnd.IntN(3000)) * time.Microsecond)
		}
		ss2 := newSub()
		e := clk.Add(1)
		rd.Switches = append(rd.Switches, []int64{2, s, e})
		for f := 0; f < rd.NF; f++ {
			wg.Add(1)
			go writer(ss2, 2, f, rnd.Uint64())
		}
	}
	wg.Wait()
	time.Sleep(time.Duration(rnd.IntN(3000)) * time.Microsecond)
	close(stopManagers)
	mwg.Wait()
	// everything is joined: the logs are complete
	for _, lf := range rd.Lives {
		if lf.Subs == nil {
			lf.Subs = []int{}
		}
	}
	return rd
}

// impl -> spec: several writer goroutines, slow / failing readers, add and remove during
// delivery, publisher switches; built with -race. TLC evaluates the statement on the merged history.
func TestVerif_C17_Stress(t *testing.T) {
	out := verifrt.NewOutFile(t, verifrt.ParamS("STRESSOUT", ""))
	defer out.Close()
	rounds := verifrt.Param("ROUNDS", 8)
	for i := 0; i < rounds; i++ {
		var rd *vf17Round
		if i%7 == 6 || (rounds < 7 && i == rounds-1) {
			rd = vf17LockOrderRound(i, uint64(1700+i))
		} else {
			rd = vf17StressRound(t, i, uint64(1700+i))
			rd.Ops = []vf17Op{}
			rd.Shutdown = vf17Op{Kind: "shutdown", Start: 1, End: 2, Res: "ok"}
		}
		out.Emit(rd)
	}
}
