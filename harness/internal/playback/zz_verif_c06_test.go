package playback

// Verification harness for C06 (path names cannot escape the recording tree): the playback
// server's /list and /get, driven over HTTP. Injected by /verif through -overlay. The test
// records what the real server does; verdicts are taken by TLC (spec/conf/TracePathSafety.tla).

import (
	"encoding/json"
	"io"
	"net"
	"net/http"
	"os"
	"testing"
	"time"

	"github.com/bluenviron/mediamtx/internal/conf"
	"github.com/bluenviron/mediamtx/internal/test"
	"github.com/bluenviron/mediamtx/internal/verifc06"
	"github.com/bluenviron/mediamtx/internal/verifrt"
)

func vf06FreeAddr(t testing.TB) string {
	l, err := net.Listen("tcp", "127.0.0.1:0")
	if err != nil {
		t.Fatal(err)
	}
	defer l.Close()
	return l.Addr().String()
}

func TestVerif_C06_Playback(t *testing.T) {
	out := verifrt.NewOutFile(t, vf06OutPath("playback"))
	defer out.Close()
	in := verifc06.ReadInput(t)
	tr := verifc06.Setup(t)
	nformats := verifrt.Param("FORMATS", 1)

	addr := vf06FreeAddr(t)
	s := &Server{
		Address:      addr,
		ReadTimeout:  conf.Duration(10 * time.Second),
		WriteTimeout: conf.Duration(10 * time.Second),
		PathConfs:    map[string]*conf.Path{},
		AuthManager:  test.NilAuthManager,
		Parent:       test.NilLogger,
	}
	if err := s.Initialize(); err != nil {
		t.Fatal(err)
	}
	defer s.Close()
	htr := &http.Transport{}
	defer htr.CloseIdleConnections()
	hc := &http.Client{Transport: htr}

	get := func(rawURL string) (int, []byte) {
		req, err := http.NewRequest(http.MethodGet, rawURL, nil)
		if err != nil {
			t.Fatalf("%v", err)
		}
		res, err := hc.Do(req)
		if err != nil {
			t.Fatal(err)
		}
		defer res.Body.Close()
		body, _ := io.ReadAll(res.Body)
		return res.StatusCode, body
	}

	for fi := 0; fi < nformats && fi < len(tr.Formats); fi++ {
		std := tr.StdContexts(t, fi)
		for _, name := range in.HTTPNames {
			ctxs := std
			if kc := tr.KeyContext(t, name, fi); kc != nil {
				ctxs = append(append([]*verifc06.Context{}, std...), kc)
			}
			wire := verifc06.WireQuery(name)
			for _, ctx := range ctxs {
				s.ReloadPathConfs(ctx.Paths)

				status, body := get("http://" + addr + "/list?path=" + wire)
				var files []string
				if status == http.StatusOK {
					var entries []struct {
						Start time.Time `json:"start"`
					}
					if err := json.Unmarshal(body, &entries); err != nil {
						t.Fatalf("bad /list body: %v", err)
					}
					for _, e := range entries {
						p := tr.ByStart(e.Start)
						if p == nil {
							t.Fatalf("/list returned a segment the harness did not plant: %v", e.Start)
						}
						files = append(files, p.Path)
					}
				}
				out.Emit(tr.NewRec("playback/list", ctx, name, status == http.StatusOK, files, http.StatusText(status)))

				// /get at the start instant of every planted segment of this format: a 200 means
				// the media of that segment was served (segments last 2 s and lie one day apart)
				files = nil
				accepted := false
				for _, p := range tr.Planted {
					if p.Format != fi {
						continue
					}
					status, _ = get("http://" + addr + "/get?path=" + wire + "&duration=1.5&start=" +
						verifc06.WireQuery(p.Start.Format(time.RFC3339)))
					if status == http.StatusOK {
						accepted = true
						files = append(files, p.Path)
					}
				}
				out.Emit(tr.NewRec("playback/get", ctx, name, accepted, files, ""))
			}
		}
	}
}

// the four C06 harness tests run in one `go test` invocation; each writes its own file
func vf06OutPath(suffix string) string {
	p := os.Getenv("VERIF_OUT")
	if p == "" {
		return ""
	}
	return p + "." + suffix
}
